(* C12 - connection lifecycle of libvncserver, application-driven event loop.
   Executable mirror of: rfbNewTCPOrUDPClient, rfbClientConnectionGone, rfbProcessClientMessage and
   the handshake functions of rfbserver.c / auth.c, rfbCloseClient, rfbCheckFds, rfbReadExactTimeout,
   rfbPeekExactTimeout, rfbWriteExact of sockets.c, rfbProcessEvents, rfbUpdateClient,
   rfbShutdownServer, rfbScreenCleanup, rfbStartOnHoldClient, rfbRefuseOnHoldClient of main.c,
   the Raw/Zlib flush logic of rfbSendFramebufferUpdate, rfbSendBell, rfbSendServerCutText(UTF8),
   rfbSendXvp and the request/end/abort part of rfbProcessFileTransfer.
   Definitions only; proofs are in LifecycleProofs.v.

   The kernel socket layer is part of the state: per connection an input queue (bytes the peer
   has sent), a flag "peer end still open", and a fault table indexed by the global number of the
   read()/recv()/write() call (EOF, ECONNRESET, EAGAIN until the library's own timeout expires). *)
From Coq Require Import ZArith List Bool Lia.
From LV Require Import Gen.Consts_C12.
Import ListNotations.
Local Open Scope Z_scope.

(* ------------------------------------------------------------------ basic types *)
Inductive fault := FNone | FEof | FReset | FAgain.
Inductive pstate := PVersion | PSecType | PAuth | PInit | PNormal | PInitShared.
(* DNonblock is not a decision of the application: rfbSetNonBlocking fails on the new descriptor, the
   connection never gets as far as newClientHook *)
Inductive decision := DAccept | DHold | DRefuse | DNonblock | DNonblockLate.
Inductive event := ENew (k : nat) | EGone (k : nat) | EClose (k : nat).

(* what a connection can hold *)
Inductive res :=
  | RRec | RHost | RRegions | RScaledRef | RListed | RFdSet | RFd     (* acquired by rfbNewClient *)
  | RZStream | RBefore | RAfter                                    (* zlib encoder *)
  | RFileFd.                                                       (* cl->fileTransfer.fd *)

Definition res_eqb (a b : res) : bool :=
  match a, b with
  | RRec, RRec | RHost, RHost | RRegions, RRegions | RScaledRef, RScaledRef | RListed, RListed
  | RFdSet, RFdSet | RFd, RFd | RZStream, RZStream | RBefore, RBefore | RAfter, RAfter
  | RFileFd, RFileFd => true
  | _, _ => false
  end.

(* What rfbClientConnectionGone gives back, statement by statement (rfbserver.c, offsets from the start
   of the function at line 575):
     +15/+17  cl->prev->next = cl->next / clientHead = cl->next        RListed
     +24      rfbCloseSocket(cl->sock) (only if still open; the FD_CLR
              was done by rfbCloseClient, and is moot once sock = -1)   RFd, RFdSet
     +28      close(cl->fileTransfer.fd)   (commit 4d56b95)            RFileFd
     +33      cl->scaledScreen->scaledScreenRefCount--                  RScaledRef
     +46/+47  free(beforeEncBuf) / free(afterEncBuf)                    RBefore, RAfter
     +55      free(cl->host)                                            RHost
     +65      deflateEnd(&cl->compStream)                               RZStream
     +81..83  sraRgnDestroy(modified/requested/copyRegion)              RRegions
     +109     free(cl)                                                  RRec
   A resource that is not in this list would stay in the connection's ledger as a leak ([c_leak]);
   [filter_leak_nil] (LifecycleProofs.v) is the proof that every constructor of [res] has its statement.
   Resources of encoders / transports outside the modelled fragment (ZRLE, Tight, Ultra, zsStruct[],
   extClipboardData, translateLookupTable, wsctx, wspath, sslctx) are NOT in [res]: their release is
   tested with LeakSanitizer only. *)
Definition gone_release_sites : list res :=
  [RListed; RFd; RFdSet; RFileFd; RScaledRef; RBefore; RAfter; RHost; RZStream; RRegions; RRec].

Fixpoint remove_one (r : res) (l : list res) : list res :=
  match l with
  | [] => []
  | x :: t => if res_eqb r x then t else x :: remove_one r t
  end.

Definition has_res (r : res) (l : list res) : bool := existsb (res_eqb r) l.
Definition gone_releases (r : res) : bool := has_res r gone_release_sites.
Definition add_res (r : res) (l : list res) : list res := if has_res r l then l else r :: l.

Record life := mkLife {
  l_freed : bool;    (* record freed by rfbClientConnectionGone *)
  l_open : bool;     (* cl->sock != -1 (for a freed record: false) *)
  l_new : nat;       (* newClientHook calls *)
  l_gone : nat;      (* clientGoneHook calls (the application's hook, registered in newClientHook) *)
  l_close : nat      (* close() calls on its descriptor *)
}.

Record proto := mkProto {
  p_state : pstate;
  p_minor : Z;
  p_hold : bool;
  p_req : bool;          (* requestedRegion non-empty *)
  p_mod : bool;          (* modifiedRegion non-empty *)
  p_enc : Z;             (* preferredEncoding *)
  p_res : list res;
  p_ftopen : bool;       (* fileTransfer.fd != -1 *)
  p_outlock : bool;      (* outputMutex left locked *)
  p_sendlock : bool;     (* sendMutex left locked *)
  p_wr : nat;            (* successful write() calls *)
  p_inq : list Z;        (* bytes sent by the peer, not yet read *)
  p_peer : bool;         (* peer end open *)
  p_scaled : bool;       (* cl->scaledScreen != cl->screen *)
  p_sw : Z; p_sh : Z     (* its size *)
}.

Record conn := mkConn { c_fd : Z; c_life : life; c_proto : proto; c_leak : list res }.

Record config := mkConfig {
  g_w : Z; g_h : Z;
  g_auth : bool; g_always : bool; g_never : bool; g_dontdisc : bool; g_xvp : bool; g_ft : bool
}.


Record screen := mkScreen {
  s_conns : list conn;       (* every connection ever accepted, index = connection id *)
  s_order : list nat;        (* screen->clientHead list, head first *)
  s_allfds : list Z;
  s_maxfd : Z;
  s_ref : Z;                 (* scaledScreenRefCount *)
  s_ptr : option nat;        (* pointerClient *)
  s_ioc : nat;               (* number of read/recv/write calls issued so far on client sockets *)
  s_bad : nat;               (* close(-1) calls *)
  s_log : list event;        (* hook / close events, most recent first *)
  s_hung : bool;             (* a mutex already held was locked again: the call never returns *)
  s_unmod : bool;            (* input outside the modelled fragment *)
  s_cleaned : bool;          (* rfbScreenCleanup done *)
  s_faults : list (nat * fault);
  s_cfg : config;
  s_scaled : list (Z * Z * Z);   (* screen->scaledScreenNext chain: width, height, scaledScreenRefCount *)
  s_pending : list (decision * list Z * bool);   (* connections waiting on the listening socket *)
  s_listening : bool
}.

(* ------------------------------------------------------------------ setters *)
Definition set_conns v s := mkScreen v (s_order s) (s_allfds s) (s_maxfd s) (s_ref s) (s_ptr s) (s_ioc s) (s_bad s) (s_log s) (s_hung s) (s_unmod s) (s_cleaned s) (s_faults s) (s_cfg s) (s_scaled s) (s_pending s) (s_listening s).
Definition set_order v s := mkScreen (s_conns s) v (s_allfds s) (s_maxfd s) (s_ref s) (s_ptr s) (s_ioc s) (s_bad s) (s_log s) (s_hung s) (s_unmod s) (s_cleaned s) (s_faults s) (s_cfg s) (s_scaled s) (s_pending s) (s_listening s).
Definition set_fds v m s := mkScreen (s_conns s) (s_order s) v m (s_ref s) (s_ptr s) (s_ioc s) (s_bad s) (s_log s) (s_hung s) (s_unmod s) (s_cleaned s) (s_faults s) (s_cfg s) (s_scaled s) (s_pending s) (s_listening s).
Definition set_ref v s := mkScreen (s_conns s) (s_order s) (s_allfds s) (s_maxfd s) v (s_ptr s) (s_ioc s) (s_bad s) (s_log s) (s_hung s) (s_unmod s) (s_cleaned s) (s_faults s) (s_cfg s) (s_scaled s) (s_pending s) (s_listening s).
Definition set_ptr v s := mkScreen (s_conns s) (s_order s) (s_allfds s) (s_maxfd s) (s_ref s) v (s_ioc s) (s_bad s) (s_log s) (s_hung s) (s_unmod s) (s_cleaned s) (s_faults s) (s_cfg s) (s_scaled s) (s_pending s) (s_listening s).
Definition set_ioc v s := mkScreen (s_conns s) (s_order s) (s_allfds s) (s_maxfd s) (s_ref s) (s_ptr s) v (s_bad s) (s_log s) (s_hung s) (s_unmod s) (s_cleaned s) (s_faults s) (s_cfg s) (s_scaled s) (s_pending s) (s_listening s).
Definition set_bad v s := mkScreen (s_conns s) (s_order s) (s_allfds s) (s_maxfd s) (s_ref s) (s_ptr s) (s_ioc s) v (s_log s) (s_hung s) (s_unmod s) (s_cleaned s) (s_faults s) (s_cfg s) (s_scaled s) (s_pending s) (s_listening s).
Definition set_log v s := mkScreen (s_conns s) (s_order s) (s_allfds s) (s_maxfd s) (s_ref s) (s_ptr s) (s_ioc s) (s_bad s) v (s_hung s) (s_unmod s) (s_cleaned s) (s_faults s) (s_cfg s) (s_scaled s) (s_pending s) (s_listening s).
Definition set_hung v s := mkScreen (s_conns s) (s_order s) (s_allfds s) (s_maxfd s) (s_ref s) (s_ptr s) (s_ioc s) (s_bad s) (s_log s) v (s_unmod s) (s_cleaned s) (s_faults s) (s_cfg s) (s_scaled s) (s_pending s) (s_listening s).
Definition set_unmod v s := mkScreen (s_conns s) (s_order s) (s_allfds s) (s_maxfd s) (s_ref s) (s_ptr s) (s_ioc s) (s_bad s) (s_log s) (s_hung s) v (s_cleaned s) (s_faults s) (s_cfg s) (s_scaled s) (s_pending s) (s_listening s).
Definition set_cleaned v s := mkScreen (s_conns s) (s_order s) (s_allfds s) (s_maxfd s) (s_ref s) (s_ptr s) (s_ioc s) (s_bad s) (s_log s) (s_hung s) (s_unmod s) v (s_faults s) (s_cfg s) (s_scaled s) (s_pending s) (s_listening s).
Definition set_faults v s := mkScreen (s_conns s) (s_order s) (s_allfds s) (s_maxfd s) (s_ref s) (s_ptr s) (s_ioc s) (s_bad s) (s_log s) (s_hung s) (s_unmod s) (s_cleaned s) v (s_cfg s) (s_scaled s) (s_pending s) (s_listening s).
Definition set_scaled v s := mkScreen (s_conns s) (s_order s) (s_allfds s) (s_maxfd s) (s_ref s) (s_ptr s) (s_ioc s) (s_bad s) (s_log s) (s_hung s) (s_unmod s) (s_cleaned s) (s_faults s) (s_cfg s) v (s_pending s) (s_listening s).
Definition set_pending v s := mkScreen (s_conns s) (s_order s) (s_allfds s) (s_maxfd s) (s_ref s) (s_ptr s) (s_ioc s) (s_bad s) (s_log s) (s_hung s) (s_unmod s) (s_cleaned s) (s_faults s) (s_cfg s) (s_scaled s) v (s_listening s).
Definition set_listening v s := mkScreen (s_conns s) (s_order s) (s_allfds s) (s_maxfd s) (s_ref s) (s_ptr s) (s_ioc s) (s_bad s) (s_log s) (s_hung s) (s_unmod s) (s_cleaned s) (s_faults s) (s_cfg s) (s_scaled s) (s_pending s) v.
Definition pset_state v p := mkProto v (p_minor p) (p_hold p) (p_req p) (p_mod p) (p_enc p) (p_res p) (p_ftopen p) (p_outlock p) (p_sendlock p) (p_wr p) (p_inq p) (p_peer p) (p_scaled p) (p_sw p) (p_sh p).
Definition pset_minor v p := mkProto (p_state p) v (p_hold p) (p_req p) (p_mod p) (p_enc p) (p_res p) (p_ftopen p) (p_outlock p) (p_sendlock p) (p_wr p) (p_inq p) (p_peer p) (p_scaled p) (p_sw p) (p_sh p).
Definition pset_hold v p := mkProto (p_state p) (p_minor p) v (p_req p) (p_mod p) (p_enc p) (p_res p) (p_ftopen p) (p_outlock p) (p_sendlock p) (p_wr p) (p_inq p) (p_peer p) (p_scaled p) (p_sw p) (p_sh p).
Definition pset_req v p := mkProto (p_state p) (p_minor p) (p_hold p) v (p_mod p) (p_enc p) (p_res p) (p_ftopen p) (p_outlock p) (p_sendlock p) (p_wr p) (p_inq p) (p_peer p) (p_scaled p) (p_sw p) (p_sh p).
Definition pset_mod v p := mkProto (p_state p) (p_minor p) (p_hold p) (p_req p) v (p_enc p) (p_res p) (p_ftopen p) (p_outlock p) (p_sendlock p) (p_wr p) (p_inq p) (p_peer p) (p_scaled p) (p_sw p) (p_sh p).
Definition pset_enc v p := mkProto (p_state p) (p_minor p) (p_hold p) (p_req p) (p_mod p) v (p_res p) (p_ftopen p) (p_outlock p) (p_sendlock p) (p_wr p) (p_inq p) (p_peer p) (p_scaled p) (p_sw p) (p_sh p).
Definition pset_res v p := mkProto (p_state p) (p_minor p) (p_hold p) (p_req p) (p_mod p) (p_enc p) v (p_ftopen p) (p_outlock p) (p_sendlock p) (p_wr p) (p_inq p) (p_peer p) (p_scaled p) (p_sw p) (p_sh p).
Definition pset_ftopen v p := mkProto (p_state p) (p_minor p) (p_hold p) (p_req p) (p_mod p) (p_enc p) (p_res p) v (p_outlock p) (p_sendlock p) (p_wr p) (p_inq p) (p_peer p) (p_scaled p) (p_sw p) (p_sh p).
Definition pset_outlock v p := mkProto (p_state p) (p_minor p) (p_hold p) (p_req p) (p_mod p) (p_enc p) (p_res p) (p_ftopen p) v (p_sendlock p) (p_wr p) (p_inq p) (p_peer p) (p_scaled p) (p_sw p) (p_sh p).
Definition pset_sendlock v p := mkProto (p_state p) (p_minor p) (p_hold p) (p_req p) (p_mod p) (p_enc p) (p_res p) (p_ftopen p) (p_outlock p) v (p_wr p) (p_inq p) (p_peer p) (p_scaled p) (p_sw p) (p_sh p).
Definition pset_wr v p := mkProto (p_state p) (p_minor p) (p_hold p) (p_req p) (p_mod p) (p_enc p) (p_res p) (p_ftopen p) (p_outlock p) (p_sendlock p) v (p_inq p) (p_peer p) (p_scaled p) (p_sw p) (p_sh p).
Definition pset_inq v p := mkProto (p_state p) (p_minor p) (p_hold p) (p_req p) (p_mod p) (p_enc p) (p_res p) (p_ftopen p) (p_outlock p) (p_sendlock p) (p_wr p) v (p_peer p) (p_scaled p) (p_sw p) (p_sh p).
Definition pset_peer v p := mkProto (p_state p) (p_minor p) (p_hold p) (p_req p) (p_mod p) (p_enc p) (p_res p) (p_ftopen p) (p_outlock p) (p_sendlock p) (p_wr p) (p_inq p) v (p_scaled p) (p_sw p) (p_sh p).
Definition pset_scale (b : bool) (w h : Z) p := mkProto (p_state p) (p_minor p) (p_hold p) (p_req p) (p_mod p) (p_enc p) (p_res p) (p_ftopen p) (p_outlock p) (p_sendlock p) (p_wr p) (p_inq p) (p_peer p) b w h.

(* ------------------------------------------------------------------ access to connection records *)
Fixpoint upd_nth {A} (k : nat) (f : A -> A) (l : list A) : list A :=
  match l, k with
  | [], _ => []
  | x :: t, O => f x :: t
  | x :: t, S k' => x :: upd_nth k' f t
  end.

Definition get (s : screen) (k : nat) : option conn := nth_error (s_conns s) k.

(* protocol-level update of a record that has not been freed (a freed record is never touched) *)
Definition on_proto (f : proto -> proto) (c : conn) : conn :=
  if l_freed (c_life c) then c else mkConn (c_fd c) (c_life c) (f (c_proto c)) (c_leak c).
Definition updp (k : nat) (f : proto -> proto) (s : screen) : screen :=
  set_conns (upd_nth k (on_proto f) (s_conns s)) s.

(* a live (not yet freed) record *)
Definition live (s : screen) (k : nat) : option conn :=
  match get s k with
  | Some c => if l_freed (c_life c) then None else Some c
  | None => None
  end.

Definition is_open (s : screen) (k : nat) : bool :=
  match live s k with Some c => l_open (c_life c) | None => false end.

(* the public client iterator (rfbGetClientIterator / rfbClientIteratorNext): the client list in order,
   skipping records whose socket is closed *)
Definition iter_clients (s : screen) : list nat := filter (is_open s) (s_order s).

Definition FDBASE : Z := 200.
Definition LISTEN_FD : Z := 190.      (* the harness' listening descriptor *)
Definition fd_of (k : nat) : Z := FDBASE + 2 * Z.of_nat k.

Fixpoint remove_fd (fd : Z) (l : list Z) : list Z :=
  match l with [] => [] | x :: t => if x =? fd then remove_fd fd t else x :: remove_fd fd t end.
Fixpoint remove_id (k : nat) (l : list nat) : list nat :=
  match l with [] => [] | x :: t => if Nat.eqb x k then remove_id k t else x :: remove_id k t end.

(* while (maxFd > 0 && !FD_ISSET(maxFd, &allFds)) maxFd--; *)
Definition lower_max (fds : list Z) (mx : Z) : Z :=
  fold_right Z.max 0 (filter (fun f => (0 <? f) && (f <=? mx)) fds).

Definition fault_at (s : screen) (i : nat) : fault :=
  match find (fun p => Nat.eqb (fst p) i) (s_faults s) with
  | Some (_, f) => f
  | None => FNone
  end.

(* ------------------------------------------------------------------ rfbCloseClient (backgroundLoop == FALSE) *)
Definition close_life (l : life) : life := mkLife (l_freed l) false (l_new l) (l_gone l) (S (l_close l)).

Definition close_client (k : nat) (s : screen) : screen :=
  if s_hung s then s else
  match live s k with
  | None => s
  | Some c =>
    if l_open (c_life c) then
      (* FD_CLR, adapt maxFd, close(sock), sock = -1 *)
      let fds := remove_fd (c_fd c) (s_allfds s) in
      let mx := if c_fd c =? s_maxfd s then lower_max fds (s_maxfd s) else s_maxfd s in
      let c' := mkConn (c_fd c) (close_life (c_life c))
                       (pset_res (remove_one RFd (remove_one RFdSet (p_res (c_proto c)))) (c_proto c)) (c_leak c) in
      set_log (EClose k :: s_log s)
        (set_fds fds mx (set_conns (upd_nth k (fun _ => c') (s_conns s)) s))
    else
      (* sock is already -1: the descriptor part is skipped; rfbCloseSocket is a macro that
         does nothing for RFB_INVALID_SOCKET *)
      s
  end.

(* ------------------------------------------------------------------ scaled screens (scale.c) *)
Fixpoint adj_scaled (w h d : Z) (l : list (Z * Z * Z)) : list (Z * Z * Z) :=
  match l with
  | [] => []
  | (w0, h0, r) :: t => if (w0 =? w) && (h0 =? h) then (w0, h0, r + d) :: t else (w0, h0, r) :: adj_scaled w h d t
  end.
Definition has_scaled (w h : Z) (l : list (Z * Z * Z)) : bool :=
  existsb (fun e => match e with (w0, h0, _) => (w0 =? w) && (h0 =? h) end) l.
(* cl->scaledScreen->scaledScreenRefCount += d *)
Definition adj_ref (p : proto) (d : Z) (s : screen) : screen :=
  if p_scaled p then set_scaled (adj_scaled (p_sw p) (p_sh p) d (s_scaled s)) s else set_ref (s_ref s + d) s.

(* ------------------------------------------------------------------ rfbClientConnectionGone *)
(* with fix 2: close(cl->fileTransfer.fd) right after the socket, i.e. before the mutexes are taken *)
Fixpoint drop_all_ft (l : list res) : list res :=
  match l with [] => [] | x :: t => if res_eqb RFileFd x then drop_all_ft t else x :: drop_all_ft t end.
Definition drop_ft (p : proto) : proto := pset_ftopen false (pset_res (drop_all_ft (p_res p)) p).

Definition gone_life (hooked : bool) (l : life) : life :=
  mkLife true false (l_new l) (if hooked then S (l_gone l) else l_gone l)
         (if l_open l then S (l_close l) else l_close l).

Definition connection_gone (k : nat) (s : screen) : screen :=
  if s_hung s then s else
  match live s k with
  | None => s
  | Some c =>
    let l := c_life c in
    let p := c_proto c in
    let hooked := negb (Nat.eqb (l_new l) 0) in
    (* unlink; close if still open; scaled reference; encoder state; FD_CLR; clientGoneHook *)
    let log1 := if l_open l then EClose k :: s_log s else s_log s in
    let log2 := if hooked then EGone k :: log1 else log1 in
    (* rfbCloseSocket(cl->sock) has set cl->sock = -1, so the later
       "if (cl->sock != RFB_INVALID_SOCKET) FD_CLR(...)" never runs: allFds keeps the descriptor *)
    let fds := s_allfds s in
    let s1 := set_log log2 (set_fds fds (s_maxfd s) (adj_ref p (-1) (set_order (remove_id k (s_order s)) s))) in
    let s2 := match s_ptr s1 with
              | Some j => if Nat.eqb j k then set_ptr None s1 else s1
              | None => s1
              end in
    if p_outlock p || p_sendlock p then
      (* LOCK(cl->outputMutex) / LOCK(cl->sendMutex) on a mutex that is still held: never returns.
         The close and the hook have already happened (log); nothing else is observable any more,
         so the rest of the state is left as it was. *)
      set_hung true (set_log log2 (updp k drop_ft s))
    else
      let c' := mkConn (c_fd c) (gone_life hooked l) (pset_res [] p)
                       (filter (fun r => negb (gone_releases r)) (p_res p)) in
      set_conns (upd_nth k (fun _ => c') (s_conns s2)) s2
  end.

(* ------------------------------------------------------------------ socket I/O *)
(* number of write() attempts of rfbWriteExact while the socket stays unwritable:
   totalTimeWaited += 5000 per select() timeout until >= rfbMaxClientWait *)
Definition write_attempts : nat := Z.to_nat ((c12_max_client_wait + 4999) / 5000).

(* rfbWriteExact: one write() call (the peer's receive buffer never fills in the modelled runs).
   Returns (ok, state); ok = the caller's "< 0" test is false. *)
Definition write_exact (k : nat) (s : screen) : bool * screen :=
  if s_hung s then (false, s) else
  match live s k with
  | None => (false, s)
  | Some c =>
    let p := c_proto c in
    if p_outlock p then (false, set_hung true s)               (* LOCK(outputMutex) while held *)
    else if negb (l_open (c_life c)) then
      (* sock == -1: errno = EBADF; UNLOCK(cl->outputMutex); return -1  (commit b4cfd8a) *)
      (false, s)
    else
      let i := s_ioc s in
      let s1 := set_ioc (S i) s in
      match fault_at s i with
      | FEof => (true, s1)                                      (* write returned 0: rfbWriteExact returns 0 *)
      | FReset => (false, s1)
      | FAgain => (false, set_ioc (i + write_attempts)%nat s)   (* retried after every 5 s wait until the timeout *)
      | FNone => if p_peer p then (true, updp k (fun p => pset_wr (S (p_wr p)) p) s1)
                 else (false, s1)                               (* EPIPE *)
      end
  end.

(* rfbReadExact of n bytes: Some bytes / None (returned 0 or -1: every caller closes the client) *)
Definition read_exact (k : nat) (n : nat) (s : screen) : option (list Z) * screen :=
  if s_hung s then (None, s) else
  match n with
  | O => (Some [], s)
  | _ =>
    match live s k with
    | None => (None, s)
    | Some c =>
      if negb (l_open (c_life c)) then (None, s)                (* EBADF, no system call *)
      else
        let i := s_ioc s in
        let s1 := set_ioc (S i) s in
        match fault_at s i with
        | FEof | FReset | FAgain => (None, s1)
        | FNone =>
          let q := p_inq (c_proto c) in
          if (n <=? length q)%nat then (Some (firstn n q), updp k (pset_inq (skipn n q)) s1)
          else match q with
               | [] => (None, s1)                                (* EOF, or EAGAIN and the wait times out *)
               | _ => (None, set_ioc (S (S i)) (updp k (pset_inq []) s1))   (* partial read, second read() fails *)
               end
        end
    end
  end.

(* webSocketsCheck: rfbPeekExactTimeout of 4 bytes.  Some true = plain RFB connection,
   Some false = connection error / not a valid header, None = outside the modelled fragment *)
Definition ws_check (k : nat) (s : screen) : option bool * screen :=
  if s_hung s then (Some false, s) else
  match live s k with
  | None => (Some false, s)
  | Some c =>
    let i := s_ioc s in
    let s1 := set_ioc (S i) s in
    match fault_at s i with
    | FEof | FReset => (Some false, s1)
    | FAgain => (Some true, s1)
    | FNone =>
      match p_inq (c_proto c) with
      | [] => (Some (p_peer (c_proto c)), s1)                   (* timeout: normal connection; EOF: error *)
      | a :: b :: c0 :: d :: _ =>
        if (a =? 82) && (b =? 70) && (c0 =? 66) && (d =? 32) then (Some true, s1)       (* "RFB " *)
        else if (a =? 22) || (a =? 128) then (None, s1)                                 (* TLS *)
        else if (a =? 71) && (b =? 69) && (c0 =? 84) && (d =? 32) then (None, s1)       (* "GET " *)
        else (Some false, s1)
      | _ => (None, s1)                                         (* 1..3 bytes *)
      end
    end
  end.

(* LOCK(cl->sendMutex): blocks for ever when already held *)
Definition lock_send (k : nat) (s : screen) : screen :=
  match live s k with
  | Some c => if p_sendlock (c_proto c) then set_hung true s else s
  | None => s
  end.

(* write; on failure rfbCloseClient.  Returns success *)
Definition write_or_close (k : nat) (s : screen) : bool * screen :=
  let '(ok, s1) := write_exact k s in
  if ok then (true, s1) else (false, close_client k s1).

(* ------------------------------------------------------------------ byte helpers *)
Definition be16 (a b : Z) : Z := a * 256 + b.
Definition be32 (a b c d : Z) : Z := ((a * 256 + b) * 256 + c) * 256 + d.
Definition is_digit (x : Z) : bool := (48 <=? x) && (x <=? 57).
Definition dig3 (a b c : Z) : Z := (a - 48) * 100 + (b - 48) * 10 + (c - 48).

(* sscanf(pv, "RFB %03d.%03d\n", &major, &minor) == 2 on the 12 bytes read (NUL-terminated):
   literal "RFB", optional white space, a decimal of at most 3 characters (sign included) after
   optional white space, a literal '.', a second such decimal. *)
Definition is_ws (x : Z) : bool := (x =? 32) || ((9 <=? x) && (x <=? 13)).
Fixpoint skip_ws (l : list Z) : list Z :=
  match l with x :: t => if is_ws x then skip_ws t else l | [] => [] end.
Fixpoint take_digits (w : nat) (l : list Z) (acc : Z) (n : nat) : Z * nat * list Z :=
  match w, l with
  | S w', x :: t => if is_digit x then take_digits w' t (acc * 10 + (x - 48)) (S n) else (acc, n, l)
  | _, _ => (acc, n, l)
  end.
Definition scan_int3 (l : list Z) : option (Z * list Z) :=
  let l1 := skip_ws l in
  let '(neg, w, l2) :=
    match l1 with
    | x :: t => if x =? 45 then (true, 2%nat, t) else if x =? 43 then (false, 2%nat, t) else (false, 3%nat, l1)
    | [] => (false, 3%nat, l1)
    end in
  let '(v, n, rest) := take_digits w l2 0 0 in
  match n with O => None | _ => Some (if neg then - v else v, rest) end.
Fixpoint until_nul (l : list Z) : list Z :=
  match l with x :: t => if x =? 0 then [] else x :: until_nul t | [] => [] end.

Definition parse_version (b : list Z) : option (Z * Z) :=
  match until_nul b with
  | r :: f :: b0 :: t =>
    if (r =? 82) && (f =? 70) && (b0 =? 66) then
      match scan_int3 t with
      | Some (maj, dot :: t2) =>
        if dot =? 46 then
          match scan_int3 t2 with Some (mnr, _) => Some (maj, mnr) | None => None end
        else None
      | _ => None
      end
    else None
  | _ => None
  end.

Definition zn (z : Z) : nat := Z.to_nat z.

(* a length field taken from the wire, as a number of bytes to read: anything beyond what the peer
   has sent behaves like "one byte more than available" (keeps the computation small) *)
Definition zlen (s : screen) (k : nat) (len : Z) : nat :=
  match live s k with
  | Some c => let have := length (p_inq (c_proto c)) in
              if len <=? Z.of_nat have then Z.to_nat len else S have
  | None => O
  end.

(* ------------------------------------------------------------------ handshake *)
Definition set_state (k : nat) (st : pstate) (s : screen) : screen := updp k (pset_state st) s.

Definition send_challenge (k : nat) (s : screen) : screen :=
  let '(ok, s1) := write_or_close k s in
  if ok then set_state k PAuth s1 else s1.

(* rfbAuthNewClient *)
Definition auth_new_client (k : nat) (minor : Z) (s : screen) : screen :=
  if minor <? 7 then
    let '(ok, s1) := write_or_close k s in                       (* rfbSendSecurityType *)
    if ok then (if g_auth (s_cfg s) then send_challenge k s1 else set_state k PInit s1) else s1
  else
    let '(ok, s1) := write_or_close k s in                       (* rfbSendSecurityTypeList *)
    if ok then set_state k PSecType s1 else s1.

(* the sharing decision at the end of rfbProcessClientInitMessage *)
Definition other_normal (k : nat) (s : screen) (j : nat) : bool :=
  negb (Nat.eqb j k) &&
  match live s j with
  | Some c => l_open (c_life c) && match p_state (c_proto c) with PNormal => true | _ => false end
  | None => false
  end.

Definition close_others (k : nat) (s : screen) : screen :=
  fold_left (fun s j => if other_normal k s j then close_client j s else s) (s_order s) s.

Definition process_init (k : nat) (implicit_shared : bool) (s : screen) : screen :=
  let '(sh, s0) :=
    if implicit_shared then (Some true, set_state k PInit s)
    else match read_exact k (zn c12_sz_clientinit) s with
         | (Some [b], s') => (Some (negb (b =? 0)), s')
         | (_, s') => (None, s')
         end in
  match sh with
  | None => close_client k s0
  | Some shared =>
    let '(ok, s1) := write_or_close k s0 in                      (* ServerInit *)
    if negb ok then s1 else
    let s2 := set_state k PNormal s1 in
    let cfg := s_cfg s in
    if g_never cfg || (negb (g_always cfg) && negb shared) then
      if g_dontdisc cfg then
        if existsb (other_normal k s2) (s_order s2) then close_client k s2 else s2
      else close_others k s2
    else s2
  end.

(* rfbVncAuthNone *)
Definition auth_none (k : nat) (minor : Z) (s : screen) : screen :=
  let '(ok, s1) := if (7 <? minor) && negb (minor =? 889) then write_or_close k s else (true, s) in
  if negb ok then s1 else
  if minor =? 889 then process_init k true (set_state k PInitShared s1)
  else set_state k PInit s1.

Definition process_sectype (k : nat) (minor : Z) (s : screen) : screen :=
  match read_exact k 1 s with
  | (Some [t], s1) =>
    if g_auth (s_cfg s) then (if t =? c12_sec_vncauth then send_challenge k s1 else close_client k s1)
    else (if t =? c12_sec_none then auth_none k minor s1 else close_client k s1)
  | (_, s1) => close_client k s1
  end.

(* rfbAuthProcessClientMessage; the scripted passwordCheck hook decides on response[0]:
   1 = accept, 2 = rfbCloseClient and reject, anything else = reject *)
Definition process_auth (k : nat) (minor : Z) (s : screen) : screen :=
  match read_exact k (zn c12_challenge) s with
  | (Some (r0 :: _), s1) =>
    if r0 =? 1 then
      let '(ok, s2) := write_or_close k s1 in
      if ok then set_state k PInit s2 else s2
    else
      let s2 := if r0 =? 2 then close_client k s1 else s1 in
      let '(_, s3) := write_exact k s2 in                        (* result word, failure only logged *)
      if 7 <? minor then
        let '(_, s4) := write_exact k s3 in                      (* rfbClientSendString *)
        close_client k s4
      else close_client k s3
  | (_, s1) => close_client k s1
  end.

Definition process_version (k : nat) (s : screen) : screen :=
  match read_exact k (zn c12_sz_version) s with
  | (Some b, s1) =>
    match parse_version b with
    | Some (maj, mnr) =>
      if maj =? c12_major then auth_new_client k mnr (updp k (pset_minor mnr) s1)
      else close_client k s1
    | None => close_client k s1
    end
  | (None, s1) => close_client k s1
  end.

(* ------------------------------------------------------------------ normal messages *)
(* rfbSendXvp: LOCK(sendMutex); write; on failure rfbCloseClient; UNLOCK; always TRUE *)
Definition send_xvp (k : nat) (s : screen) : screen :=
  let s0 := lock_send k s in
  snd (write_or_close k s0).

Definition enc_supported (e : Z) : bool := (e =? c12_enc_raw) || (e =? c12_enc_zlib).
Definition enc_modelled (e : Z) : bool :=
  enc_supported e || (e =? c12_enc_copyrect) || (e =? c12_enc_xvp).

(* the loop over the encodings of a SetEncodings message; pref = cl->preferredEncoding *)
Fixpoint setenc_loop (n : nat) (k : nat) (pref : Z) (s : screen) : option Z * screen :=
  match n with
  | O => (Some pref, s)
  | S n' =>
    match read_exact k 4 s with
    | (Some [a; b; c; d], s1) =>
      let e := be32 a b c d in
      let s2 := if enc_modelled e then s1 else set_unmod true s1 in
      let pref' := if enc_supported e && (pref =? -1) then e else pref in
      let s3 := if (e =? c12_enc_xvp) && g_xvp (s_cfg s) then send_xvp k s2 else s2 in
      setenc_loop n' k pref' s3
    | (_, s1) => (None, close_client k (updp k (pset_enc pref) s1))
    end
  end.

Definition process_setenc (k : nat) (cur : Z) (s : screen) : screen :=
  match read_exact k (zn (c12_sz_setenc - 1)) s with
  | (Some [_; nh; nl], s1) =>
    match setenc_loop (zn (be16 nh nl)) k (-1) s1 with
    | (Some pref, s2) =>
      let final := if pref =? -1 then (if cur =? -1 then c12_enc_raw else cur) else pref in
      updp k (pset_enc final) s2
    | (None, s2) => s2
    end
  | (_, s1) => close_client k s1
  end.

(* the size of the framebuffer this client sees *)
Definition client_dims (cfg : config) (p : proto) : Z * Z :=
  if p_scaled p then (p_sw p, p_sh p) else (g_w cfg, g_h cfg).

Definition process_fur (k : nat) (s : screen) : screen :=
  match read_exact k (zn (c12_sz_fur - 1)) s with
  | (Some [incr; xh; xl; yh; yl; wh; wl; hh; hl], s1) =>
    let '(cw, ch) := match live s k with Some c => client_dims (s_cfg s) (c_proto c) | None => (0, 0) end in
    let full := (be16 xh xl =? 0) && (be16 yh yl =? 0) && (be16 wh wl =? cw) && (be16 hh hl =? ch) in
    let s2 := if full then s1 else set_unmod true s1 in
    updp k (fun p => pset_req true (if incr =? 0 then pset_mod true p else p)) s2
  | (_, s1) => close_client k s1
  end.

(* kbdAddEvent hook of the scripted application: keysym 0xC105E = rfbCloseClient(cl) *)
Definition process_key (k : nat) (s : screen) : screen :=
  match read_exact k (zn (c12_sz_key - 1)) s with
  | (Some [_; _; _; a; b; c; d], s1) => if be32 a b c d =? 790622 then close_client k s1 else s1
  | (_, s1) => close_client k s1
  end.

(* ptrAddEvent hook: button mask 0x55 = rfbCloseClient(cl) (the coordinates reach the hook scaled) *)
Definition process_ptr (k : nat) (s : screen) : screen :=
  match read_exact k (zn (c12_sz_ptr - 1)) s with
  | (Some [m; xh; xl; yh; yl], s1) =>
    let other := match s_ptr s1 with Some j => negb (Nat.eqb j k) | None => false end in
    if other then s1 else
    let s2 := set_ptr (if m =? 0 then None else Some k) s1 in
    if m =? 85 then close_client k s2 else s2
  | (_, s1) => close_client k s1
  end.

(* setXCutText hook: text starting with 'X' = rfbCloseClient(cl) *)
Definition process_cut (k : nat) (s : screen) : screen :=
  match read_exact k (zn (c12_sz_clientcut - 1)) s with
  | (Some [_; _; _; a; b; c; d], s1) =>
    let len := be32 a b c d in
    if c12_cut_limit <? len then close_client k s1 else
    match read_exact k (zlen s1 k len) s1 with
    | (Some txt, s2) => match txt with x :: _ => if x =? 88 then close_client k s2 else s2 | [] => s2 end
    | (None, s2) => close_client k s2
    end
  | (_, s1) => close_client k s1
  end.

(* xvpHook of the scripted application, decided by the code byte:
   2 = TRUE, 4 = rfbCloseClient + FALSE, 5 = rfbCloseClient + TRUE, other = FALSE *)
Definition process_xvp (k : nat) (s : screen) : screen :=
  match read_exact k (zn (c12_sz_xvp - 1)) s with
  | (Some [_; ver; code], s1) =>
    if negb (ver =? 1) then send_xvp k s1
    else if g_xvp (s_cfg s) then
      let s2 := if (code =? 4) || (code =? 5) then close_client k s1 else s1 in
      if (code =? 2) || (code =? 5) then s2 else send_xvp k s2
    else s1
  | (_, s1) => close_client k s1
  end.

(* rfbScalingSetup(cl, w, h): rfbScalingFind (the unscaled screen first, then the chain),
   rfbScaledScreenAllocate (refuses a zero dimension), move the reference *)
Definition scaling_setup (k : nat) (sw sh : Z) (s : screen) : screen :=
  match live s k with
  | None => s
  | Some c =>
    let p := c_proto c in
    if (sw =? g_w (s_cfg s)) && (sh =? g_h (s_cfg s)) then
      let s1 := adj_ref p (-1) s in
      updp k (pset_scale false 0 0) (set_ref (s_ref s1 + 1) s1)
    else
      let found := has_scaled sw sh (s_scaled s) in
      if negb found && ((sw =? 0) || (sh =? 0)) then s                 (* "Scaling failed, leaving things alone" *)
      else
        let s0 := if found then s else set_scaled ((sw, sh, 0) :: s_scaled s) s in
        let s1 := adj_ref p (-1) s0 in
        updp k (pset_scale true sw sh) (set_scaled (adj_scaled sw sh 1 (s_scaled s1)) s1)
  end.

(* rfbSetScale / rfbPalmVNCSetScaleFactor, then rfbSendNewScaleSize (one message, the client has
   not asked for NewFBSize in the modelled fragment) *)
Definition process_setscale (k : nat) (s : screen) : screen :=
  match read_exact k (zn (c12_sz_setscale - 1)) s with
  | (Some [sc; _; _], s1) =>
    if sc =? 0 then close_client k s1
    else
      let s2 := scaling_setup k (g_w (s_cfg s) / sc) (g_h (s_cfg s) / sc) s1 in
      snd (write_or_close k (lock_send k s2))
  | (_, s1) => close_client k s1
  end.

(* rfbSendFileTransferMessage with a payload: permission check, LOCK(sendMutex), two writes *)
Definition send_ft_message (k : nat) (payload : bool) (s : screen) : screen :=
  if negb (g_ft (s_cfg s)) then close_client k s else
  let s0 := lock_send k s in
  let '(ok, s1) := write_or_close k s0 in
  if negb ok then s1 else
  if payload then snd (write_or_close k s1) else s1.

(* the files the scripted peer may ask for: "C:/proc/self/exe" exists, "C:/nonexistent/c12" does not;
   any other name is outside the modelled fragment *)
Definition existing_file : list Z := [67; 58; 47; 112; 114; 111; 99; 47; 115; 101; 108; 102; 47; 101; 120; 101].
(* "C:/nonexistent/c12" *)
Definition missing_file : list Z := [67; 58; 47; 110; 111; 110; 101; 120; 105; 115; 116; 101; 110; 116; 47; 99; 49; 50].
Fixpoint list_eqb (a b : list Z) : bool :=
  match a, b with
  | [], [] => true
  | x :: a', y :: b' => (x =? y) && list_eqb a' b'
  | _, _ => false
  end.

Definition process_ft (k : nat) (s : screen) : screen :=
  match read_exact k (zn (c12_sz_filetransfer - 1)) s with
  | (Some [ct; cp; _; s3; s2; s1; s0; l3; l2; l1; l0], sa) =>
    if negb (g_ft (s_cfg s)) then close_client k sa else
    let size := be32 s3 s2 s1 s0 in
    let len := be32 l3 l2 l1 l0 in
    if ct =? c12_ft_request then
      if 2147483647 <? len then close_client k sa else
      if len =? 0 then sa else
      match read_exact k (zlen sa k len) sa with
      | (Some name, sb) =>
        if 259 <? len then set_unmod true sb else
        (* rfbFilenameTranslate2UNIX checks the permission once more *)
        if g_ft (s_cfg sb) then
        if list_eqb name existing_file then
          (* open() succeeded: the descriptor is stored, an earlier one is overwritten *)
          (* a transfer in progress is closed first (commit 4d56b95) *)
          let sb' := updp k (fun p => if p_ftopen p then pset_ftopen false (pset_res (remove_one RFileFd (p_res p)) p) else p) sb in
          let sc := updp k (fun p => pset_ftopen true (pset_res (RFileFd :: p_res p) p)) sb' in
          let sd := send_ft_message k true sc in
          (* fileTransfer.fd != -1: LOCK(sendMutex); rfbWriteExact(sizeHtmp) *)
          let se := lock_send k sd in
          snd (write_or_close k se)
        else if list_eqb name missing_file then
          (* open() failed: fileTransfer.fd = -1, a descriptor stored earlier is forgotten (still open) *)
          send_ft_message k true
            (updp k (fun p => if p_ftopen p then pset_ftopen false (pset_res (remove_one RFileFd (p_res p)) p) else p) sb)
        else set_unmod true sb                                    (* the model does not know this file *)
        else close_client k sb
      | (None, sb) => close_client k sb
      end
    else if ct =? c12_ft_eof then
      match live sa k with
      | Some c => if p_ftopen (c_proto c)
                  then updp k (fun p => pset_ftopen false (pset_res (remove_one RFileFd (p_res p)) p)) sa
                  else sa
      | None => sa
      end
    else if ct =? c12_ft_abort then
      match live sa k with
      | Some c => if p_ftopen (c_proto c)
                  then updp k (fun p => pset_ftopen false (pset_res (remove_one RFileFd (p_res p)) p)) sa
                  else send_ft_message k false sa
      | None => sa
      end
    else if (ct =? c12_ft_header) && (size =? 4294967295) then
      match live sa k with
      | Some c => if p_ftopen (c_proto c)
                  then updp k (fun p => pset_ftopen false (pset_res (remove_one RFileFd (p_res p)) p)) sa
                  else set_bad (S (s_bad sa)) sa                 (* close(-1) *)
      | None => sa
      end
    else set_unmod true sa
  | (_, s1) => close_client k s1
  end.

(* message types whose handling is outside the modelled fragment; only their first read is
   mirrored (a truncated message closes the client exactly like the modelled ones) *)
Definition unmodelled_size (t : Z) : option Z :=
  if t =? c12_msg_setpixfmt then Some c12_sz_setpixfmt
  else if t =? c12_msg_setserverinput then Some c12_sz_setserverinput
  else if t =? c12_msg_setsw then Some c12_sz_setsw
  else if t =? c12_msg_textchat then Some c12_sz_textchat
  else if t =? c12_msg_setdesktopsize then Some c12_sz_setdesktopsize
  else None.

Definition process_normal (k : nat) (cur_enc : Z) (s : screen) : screen :=
  match read_exact k 1 s with
  | (Some [t], s1) =>
    if t =? c12_msg_setenc then process_setenc k cur_enc s1
    else if t =? c12_msg_fur then process_fur k s1
    else if t =? c12_msg_key then process_key k s1
    else if t =? c12_msg_ptr then process_ptr k s1
    else if t =? c12_msg_cut then process_cut k s1
    else if t =? c12_msg_xvp then process_xvp k s1
    else if t =? c12_msg_filetransfer then process_ft k s1
    else if (t =? c12_msg_setscale) || (t =? c12_msg_palmscale) then process_setscale k s1
    else if t =? c12_msg_fixcmap then
      match read_exact k (zn (c12_sz_fixcmap - 1)) s1 with (_, s2) => close_client k s2 end
    else match unmodelled_size t with
         | Some sz => match read_exact k (zn (sz - 1)) s1 with
                      | (Some _, s2) => set_unmod true s2
                      | (None, s2) => close_client k s2
                      end
         | None => close_client k s1                              (* unknown message type *)
         end
  | (_, s1) => close_client k s1
  end.

(* rfbProcessClientMessage *)
Definition process_message (k : nat) (s : screen) : screen :=
  match live s k with
  | None => s
  | Some c =>
    let p := c_proto c in
    match p_state p with
    | PVersion => process_version k s
    | PSecType => process_sectype k (p_minor p) s
    | PAuth => process_auth k (p_minor p) s
    | PInit => process_init k false s
    | PInitShared => process_init k true s
    | PNormal => process_normal k (p_enc p) s
    end
  end.

(* ------------------------------------------------------------------ framebuffer update *)
(* rfbSendRectEncodingRaw after the header flush: number of further rfbSendUpdateBuf calls inside
   the rectangle loop, for h lines of bpl bytes (None: a line does not fit the buffer) *)
Fixpoint raw_flushes (fuel : nat) (bpl h nlines : Z) : option nat :=
  match fuel with
  | O => None
  | S f =>
    let nl := if h <? nlines then h else nlines in
    let h' := h - nl in
    if h' =? 0 then Some O
    else
      let nlines' := c12_update_buf / bpl in
      if nlines' =? 0 then None
      else match raw_flushes f bpl h' nlines' with Some m => Some (S m) | None => None end
  end.

Fixpoint write_n (n : nat) (k : nat) (s : screen) : bool * screen :=
  match n with
  | O => (true, s)
  | S n' => let '(ok, s1) := write_or_close k s in if ok then write_n n' k s1 else (false, s1)
  end.

(* rfbSendFramebufferUpdate for a full-screen request on the unscaled screen, no cursor *)
Definition send_update (k : nat) (s : screen) : screen :=
  match live s k with
  | None => s
  | Some c =>
    let '(w, h) := client_dims (s_cfg s) (c_proto c) in
    let enc := p_enc (c_proto c) in
    let s0 := updp k (fun p => pset_req false (pset_mod false p)) s in
    (* rfbSendOneRectEncodingZlib allocates beforeEncBuf before looking at the rectangle size *)
    let s1 := if enc =? c12_enc_zlib then updp k (fun p => pset_res (add_res RBefore (p_res p)) p) s0 else s0 in
    let raw := negb (enc =? c12_enc_zlib) || (w * h * 4 <? c12_zlib_min) in
    if raw then
      let bpl := w * 4 in
      match raw_flushes (S (zn h)) bpl h ((c12_update_buf - c12_sz_recthdr) / bpl) with
      | Some m => snd (write_n (S (S m)) k s1)                     (* header flush, m, final flush *)
      | None => set_unmod true s1
      end
    else
      let maxraw := w * h * 4 in
      if c12_update_buf <? maxraw + (maxraw + 99) / 100 + 12 + c12_sz_fbupdate + c12_sz_recthdr + c12_sz_zlibhdr
      then set_unmod true s1
      else
        let s2 := updp k (fun p => pset_res (add_res RZStream (add_res RAfter (add_res RBefore (p_res p)))) p) s1 in
        snd (write_or_close k s2)
  end.

(* rfbUpdateClient *)
Definition update_client (k : nat) (s : screen) : screen :=
  match live s k with
  | Some c =>
    let p := c_proto c in
    if l_open (c_life c) && negb (p_hold p) && p_mod p && p_req p then send_update k s else s
  | None => s
  end.

(* ------------------------------------------------------------------ accepting a connection *)
Definition new_conn (k : nat) (pre : list Z) (peer_open : bool) : conn :=
  mkConn (fd_of k) (mkLife false true 0 0 0)
         (mkProto PVersion 0 false false true (-1) [RRec; RScaledRef; RHost; RFd; RFdSet; RRegions; RListed]
                  false false false 0 pre peer_open false 0 0) [].

Definition hook_life (l : life) : life := mkLife (l_freed l) (l_open l) (S (l_new l)) (l_gone l) (l_close l).

(* calloc + list insertion + FD_SET of rfbNewTCPOrUDPClient *)
Definition add_conn (pre : list Z) (peer_open : bool) (s : screen) : screen :=
  let k := length (s_conns s) in
  let fd := fd_of k in
  set_order (k :: s_order s)
    (set_fds (fd :: s_allfds s) (Z.max fd (s_maxfd s))
      (set_ref (s_ref s + 1) (set_conns (s_conns s ++ [new_conn k pre peer_open]) s))).

(* cl->screen->newClientHook(cl): the application registers its clientGoneHook there *)
Definition run_new_hook (k : nat) (s : screen) : screen :=
  set_log (ENew k :: s_log s)
    (set_conns (upd_nth k (fun c => mkConn (c_fd c) (hook_life (c_life c)) (c_proto c) (c_leak c)) (s_conns s)) s).

Definition accept (d : decision) (pre : list Z) (peer_open : bool) (s : screen) : screen :=
  let k := length (s_conns s) in
  let s1 := add_conn pre peer_open s in
  let '(wsok, s2) := ws_check k s1 in
  match wsok with
  | None => set_unmod true s2
  | Some false => connection_gone k (close_client k s2)
  | Some true =>
    let '(ok, s3) := write_or_close k s2 in                       (* protocol version *)
    if negb ok then connection_gone k s3 else
    let s4 := run_new_hook k s3 in
    match d with
    | DHold => updp k (pset_hold true) s4
    | DAccept => s4
    | DRefuse => connection_gone k (close_client k s4)
    | DNonblock | DNonblockLate => s4
    end
  end.

(* rfbSetNonBlocking(sock) fails - in rfbNewConnectionFromSock (sockets.c:117) or in rfbNewTCPOrUDPClient
   (rfbserver.c:370, since commit e7275e4): rfbCloseSocket(sock); the record, the host string and the screen
   reference taken just before are given back; return.  The connection was never listed, never in allFds,
   newClientHook never ran: what remains is a descriptor closed exactly once. *)
Definition dead_conn_rec (k : nat) : conn :=
  mkConn (fd_of k) (mkLife true false 0 0 1)
         (mkProto PVersion 0 false false false (-1) [] false false false 0 [] false false 0 0) [].
Definition dead_conn (s : screen) : screen :=
  let k := length (s_conns s) in
  set_log (EClose k :: s_log s) (set_conns (s_conns s ++ [dead_conn_rec k]) s).
Definition accept_or_fail (d : decision) (pre : list Z) (peer_open : bool) (s : screen) : screen :=
  match d with DNonblock | DNonblockLate => dead_conn s | _ => accept d pre peer_open s end.

(* ------------------------------------------------------------------ event loop *)
Definition readable (s : screen) (k : nat) : bool :=
  match live s k with
  | Some c => l_open (c_life c) && (negb (p_peer (c_proto c)) || match p_inq (c_proto c) with [] => false | _ => true end)
  | None => false
  end.

(* rfbCheckFds: one select(); a connection waiting on the listening socket is accepted first
   (rfbProcessNewConnection -> rfbNewConnectionFromSock -> rfbNewClient, one per call); then at most
   one message per readable client *)
Definition client_loop (rd : list nat) (s : screen) : screen :=
  fold_left (fun s k =>
    match live s k with
    | Some c =>
      if l_open (c_life c) && negb (p_hold (c_proto c)) && existsb (Nat.eqb k) rd
      then process_message k s else s
    | None => s
    end) (s_order s) s.

(* inetd mode (screen->inetdSock set, no listening socket): the model state is "not listening, one connection
   waiting"; rfbCheckFds hands the descriptor to rfbNewClientConnection BEFORE its select(), so what the peer
   has already sent is served in the same call; inetdInitDone = TRUE afterwards (nothing waits any more) *)
Definition check_fds_listen (s : screen) : screen :=
  let rd := filter (readable s) (s_order s) in
  match (if s_listening s then s_pending s else []) with
  | (d, pre, po) :: rest =>
    let s1 := accept_or_fail d pre po (set_pending rest s) in
    (* rfbNewConnectionFromSock returned FALSE (its own rfbSetNonBlocking failed): "if (!rfbProcessNewConnection)
       return -1;" - no client is served in this call.  Every other outcome, including a NULL from
       rfbNewClient, returns TRUE and the loop goes on. *)
    match d with
    | DNonblock => s1
    | _ => match rd with [] => s1 | _ => client_loop rd s1 end
    end
  | [] =>
    match rd with [] => s | _ => client_loop rd s end
  end.
Definition check_fds (s : screen) : screen :=
  match (if s_listening s then [] else s_pending s) with
  | (d, pre, po) :: _ =>
    let s1 := accept_or_fail d pre po (set_pending [] s) in
    let rd := filter (readable s1) (s_order s1) in
    match rd with [] => s1 | _ => client_loop rd s1 end
  | [] => check_fds_listen s
  end.

(* the second half of rfbProcessEvents: update every client, reap the closed ones *)
Definition reap_one (s : screen) (k : nat) : screen :=
  let s1 := update_client k s in
  match live s1 k with
  | Some c => if l_open (c_life c) then s1 else connection_gone k s1
  | None => s1
  end.

Definition process_events (s : screen) : screen :=
  let s1 := check_fds s in
  fold_left reap_one (s_order s1) s1.

(* rfbShutdownServer(screen, TRUE): iterates with closed clients too (commit 8cd7191) *)
Definition shutdown_one (s : screen) (k : nat) : screen :=
  if is_open s k then connection_gone k (close_client k s) else connection_gone k s.
(* rfbShutdownSockets: FD_CLR(listenSock), close, listenSock = -1 (peers still waiting on it are never
   served).  inetd mode: the descriptor is closed here only if rfbCheckFds never handed it over
   ("if (!inetdInitDone)", commit 284406e) - then it ends as a descriptor closed once that never was a client;
   once handed over it belongs to its client record and is NOT closed again. *)
Definition shutdown_sockets (s1 : screen) : screen :=
  if s_listening s1
  then set_pending [] (set_listening false (set_fds (remove_fd LISTEN_FD (s_allfds s1)) (s_maxfd s1) s1))
  else match s_pending s1 with
       | [] => s1
       | _ :: _ =>
         set_pending [] (dead_conn (set_fds (remove_fd (fd_of (length (s_conns s1))) (s_allfds s1)) (s_maxfd s1) s1))
       end.
(* since commit 633e5d0 rfbShutdownServer stops accepting FIRST (rfbHttpShutdownSockets, rfbShutdownSockets)
   and only then closes and tears down the clients: when rfbCloseClient recomputes maxFd the listening
   descriptor is already out of allFds *)
Definition shutdown_server (s : screen) : screen :=
  let s1 := shutdown_sockets s in
  fold_left shutdown_one (s_order s1) s1.

(* rfbScreenCleanup: same iterator *)
Definition cleanup_one (s : screen) (k : nat) : screen :=
  connection_gone k s.
Definition screen_cleanup (s : screen) : screen :=
  set_cleaned true (fold_left cleanup_one (s_order s) s).

(* ------------------------------------------------------------------ server-initiated messages *)
Definition bell_one (s : screen) (k : nat) : screen :=
  if is_open s k then snd (write_or_close k (lock_send k s)) else s.
Definition cuttext_one (s : screen) (k : nat) : screen :=
  if is_open s k then
    let '(ok, s1) := write_or_close k (lock_send k s) in
    if ok then snd (write_or_close k s1) else s1
  else s.
(* rfbSendServerCutTextUTF8 with fallbackLatin1Str == NULL to a client without the extended
   clipboard: LOCK(cl->sendMutex); nothing to send; UNLOCK (commit 3fe86ea) *)
Definition cuttext8_one (s : screen) (k : nat) : screen :=
  if is_open s k then lock_send k s else s.
Definition mark_one (s : screen) (k : nat) : screen :=
  if is_open s k then updp k (pset_mod true) s else s.

(* ------------------------------------------------------------------ operations *)
Inductive op :=
  | OAccept (d : decision) (pre : list Z) (peer_open : bool)
  | OLAccept (d : decision) (pre : list Z) (peer_open : bool)     (* a peer connects to the listening socket *)
  | OIn (k : nat) (bytes : list Z)
  | OPeerClose (k : nat)
  | OPe
  | OAppClose (k : nat)
  | OStart (k : nat)
  | ORefuse (k : nat)
  | OAppXvp (k : nat)
  | OMark | OBell | OCutText | OCutText8
  | OFault (i : nat) (f : fault)
  | OShutdown | OCleanup
  | OInetd (d : decision) (pre : list Z) (peer_open : bool).   (* the process was started by inetd: rfbInitSockets with inetdSock *)

Definition step (s : screen) (o : op) : screen :=
  if s_hung s || s_cleaned s then s else
  match o with
  | OAccept d pre po =>
    (* a direct rfbNewClient while the inetd descriptor still waits would get a record number the
       correspondence run cannot line up: outside the fragment *)
    match (if s_listening s then [] else s_pending s) with
    | [] => accept_or_fail d pre po s
    | _ :: _ => set_unmod true s
    end
  | OLAccept d pre po => if s_listening s then set_pending (s_pending s ++ [(d, pre, po)]) s else s
  | OIn k b => updp k (fun p => if p_peer p then pset_inq (p_inq p ++ b) p else p) s
  | OPeerClose k => updp k (pset_peer false) s
  | OPe => process_events s
  | OAppClose k => close_client k s
  | OStart k => updp k (pset_hold false) s
  | ORefuse k => connection_gone k (close_client k s)
  | OAppXvp k => match live s k with Some _ => send_xvp k s | None => s end
  | OMark => fold_left mark_one (s_order s) s
  | OBell => fold_left bell_one (s_order s) s
  | OCutText => fold_left cuttext_one (s_order s) s
  | OCutText8 => fold_left cuttext8_one (s_order s) s
  | OFault i f => set_faults (s_faults s ++ [(i, f)]) s
  | OShutdown => shutdown_server s
  | OCleanup => screen_cleanup s
  | OInetd d pre po =>
    (* rfbInitSockets: FD_ZERO(allFds); FD_SET(inetdSock); maxFd = inetdSock; no listening socket.
       Only as the first thing after the screen is set up (anything else is outside the fragment) *)
    match s_conns s, s_pending s with
    | [], [] =>
      if s_listening s
      then set_listening false (set_fds [fd_of 0] (fd_of 0) (set_pending [(d, pre, po)] s))
      else set_unmod true s
    | _, _ => set_unmod true s
    end
  end.

Definition init (cfg : config) : screen :=
  mkScreen [] [] [LISTEN_FD] LISTEN_FD 0 None 0 0 [] false false false [] cfg [] [] true.

Definition run (cfg : config) (ops : list op) : screen := fold_left step ops (init cfg).

(* state number as printed by the implementation (cl->state) *)
Definition state_num (st : pstate) : Z :=
  match st with
  | PVersion => c12_st_version | PSecType => c12_st_sectype | PAuth => c12_st_auth
  | PInit => c12_st_init | PNormal => c12_st_normal | PInitShared => c12_st_initshared
  end.
