(* C06 - proofs, part 2: segmentation invariance of whole sessions.
   Two server states that differ only in how the pending bytes of each connection are cut
   (kernel buffer / fragments in flight) are related by [srel]; every script operation maps
   related states to related states and produces the same callbacks. *)
From Coq Require Import ZArith List Bool Lia.
From LV Require Import Gen.Consts_C06 Wire.C2SInput Session.InputDefs Session.InputProofs.
Import ListNotations.
Local Open Scope Z_scope.

Definition crel (c1 c2 : client) : Prop :=
  c2 = set_in c1 (c_in c2) /\ seq (c_in c1) (c_in c2).

Lemma set_in_set_in : forall c i j, set_in (set_in c i) j = set_in c j.
Proof. intros []; reflexivity. Qed.
Lemma set_in_self : forall c, set_in c (c_in c) = c.
Proof. intros []; reflexivity. Qed.
Lemma c_in_set_in : forall c i, c_in (set_in c i) = i.
Proof. intros []; reflexivity. Qed.

Lemma crel_refl : forall c, crel c c.
Proof. intros c; split; [symmetry; apply set_in_self | apply seq_refl]. Qed.

Lemma crel_set_in : forall c i j, seq i j -> crel (set_in c i) (set_in c j).
Proof.
  intros c i j H. split.
  - rewrite c_in_set_in, set_in_set_in. reflexivity.
  - rewrite !c_in_set_in. exact H.
Qed.

Lemma crel_inv : forall c1 c2, crel c1 c2 ->
  exists c i1 i2, c1 = set_in c i1 /\ c2 = set_in c i2 /\ seq i1 i2.
Proof.
  intros c1 c2 [H1 H2]. exists c1, (c_in c1), (c_in c2).
  rewrite set_in_self. auto.
Qed.

Lemma crel_fields : forall c1 c2, crel c1 c2 ->
  c_id c1 = c_id c2 /\ c_state c1 = c_state c2 /\ c_closed c1 = c_closed c2 /\
  c_viewonly c1 = c_viewonly c2 /\ c_clip c1 = c_clip c2 /\ c_ptr c1 = c_ptr c2.
Proof. intros c1 c2 [H _]. rewrite H. destruct c1; cbn. repeat split. Qed.

Section Seg.
Variable ext_cut : bool -> clipst -> list Z -> clipst * list utf8cb * bool.

Definition with_in (a : applied) (i : inp) : applied :=
  mkApplied (set_in (a_client a) i) (a_owner a) (a_events a) (a_close_others a).

(* no handler looks at, or changes, the pending input: only the parser does *)
Lemma apply_init_set_in : forall cfg o c sh b i,
  apply_init cfg o (set_in c i) sh b = with_in (apply_init cfg o c sh b) i.
Proof.
  intros cfg o [] sh b i. unfold apply_init, applied_close, applied_same, with_in. cbn.
  repeat match goal with |- context [if ?x then _ else _] => destruct x end; reflexivity.
Qed.

Lemma apply_handshake_set_in : forall cfg o c m b i,
  apply_handshake cfg o (set_in c i) m b = with_in (apply_handshake cfg o c m b) i.
Proof.
  intros cfg o c m b i. destruct m; cbn [apply_handshake];
    try (destruct c; reflexivity).
  - destruct (parse_version b0) as [[mj mn]|]; [|destruct c; reflexivity].
    destruct c; unfold applied_close, applied_same, with_in, needs_auth; cbn.
    repeat match goal with |- context [if ?x then _ else _] => destruct x end; reflexivity.
  - replace (primary_sec cfg (set_in c i)) with (primary_sec cfg c) by (destruct c; reflexivity).
    replace (needs_auth cfg (set_in c i)) with (needs_auth cfg c) by (destruct c; reflexivity).
    destruct (negb (t =? primary_sec cfg c)); [destruct c; reflexivity|].
    destruct (needs_auth cfg c); [destruct c; reflexivity|].
    replace (c_minor (set_in c i)) with (c_minor c) by (destruct c; reflexivity).
    destruct (c_minor c =? 889); [apply apply_init_set_in | destruct c; reflexivity].
  - replace (c_authres (set_in c i)) with (c_authres c) by (destruct c; reflexivity).
    destruct (c_authres c); [|destruct c; reflexivity].
    destruct (g_firstvo cfg <=? z); destruct c; reflexivity.
  - apply apply_init_set_in.
Qed.

Lemma apply_normal_set_in : forall cfg o c m i,
  apply_normal ext_cut cfg o (set_in c i) m = with_in (apply_normal ext_cut cfg o c m) i.
Proof.
  intros cfg o c m i. destruct m; cbn [apply_normal]; try (destruct c; reflexivity).
  - (* pixel format *)
    destruct (byte_at b c06_off_spf_bpp); [|destruct c; reflexivity].
    destruct (byte_at b c06_off_spf_truecolour); [|destruct c; reflexivity].
    match goal with |- context [if ?x then _ else _] => destruct x end; destruct c; reflexivity.
  - (* key *) destruct c; cbn. destruct c_viewonly; reflexivity.
  - (* pointer *)
    destruct c; unfold ptr_event, map_pos, applied_same, with_in; cbn.
    repeat match goal with
           | |- context [if ?x then _ else _] => destruct x
           | |- context [match scale_v ?g ?a ?b ?c with _ => _ end] => destruct (scale_v g a b c)
           end; reflexivity.
  - (* cut text *) destruct c; cbn. destruct c_viewonly; reflexivity.
  - (* extended cut text *)
    destruct c; cbn. destruct (ext_cut c_viewonly c_clip payload) as [[k' texts] close].
    destruct close; reflexivity.
  - (* scale *)
    destruct c; unfold applied_close, applied_same, with_in; cbn.
    repeat match goal with |- context [if ?x then _ else _] => destruct x end; reflexivity.
Qed.

Lemma apply_msg_set_in : forall cfg o c m b i,
  apply_msg ext_cut cfg o (set_in c i) m b = with_in (apply_msg ext_cut cfg o c m b) i.
Proof.
  intros. unfold apply_msg.
  replace (c_state (set_in c i)) with (c_state c) by (destruct c; reflexivity).
  destruct (c_state c); try apply apply_handshake_set_in. apply apply_normal_set_in.
Qed.

Definition arel (a1 a2 : applied) : Prop :=
  crel (a_client a1) (a_client a2) /\ a_owner a1 = a_owner a2 /\
  a_events a1 = a_events a2 /\ a_close_others a1 = a_close_others a2.

Lemma handle_client_rel : forall cfg o c1 c2 b, crel c1 c2 ->
  arel (handle_client ext_cut cfg o c1 b) (handle_client ext_cut cfg o c2 b).
Proof.
  intros cfg o c1 c2 b H. destruct (crel_inv _ _ H) as (c & i1 & i2 & -> & -> & Hs).
  unfold handle_client.
  replace (c_state (set_in c i1)) with (c_state c) by (destruct c; reflexivity).
  replace (c_state (set_in c i2)) with (c_state c) by (destruct c; reflexivity).
  replace (c_clip (set_in c i1)) with (c_clip c) by (destruct c; reflexivity).
  replace (c_clip (set_in c i2)) with (c_clip c) by (destruct c; reflexivity).
  rewrite !c_in_set_in.
  pose proof (resp_parse_for (c_state c) (k_ext (c_clip c)) (fix_extlimit cfg) i1 i2 Hs) as Hp.
  unfold rres_rel in Hp.
  destruct (parse_for (c_state c) (k_ext (c_clip c)) (fix_extlimit cfg) i1) as [m1 j1|e1],
           (parse_for (c_state c) (k_ext (c_clip c)) (fix_extlimit cfg) i2) as [m2 j2|e2]; try contradiction.
  - destruct Hp as [-> Hj]. rewrite !set_in_set_in. rewrite !apply_msg_set_in.
    unfold arel, with_in; cbn [a_client a_owner a_events a_close_others].
    split; [apply crel_set_in; exact Hj|repeat split; auto].
  - unfold applied_close, arel; cbn [a_client a_owner a_events a_close_others].
    split; [|repeat split; auto].
    replace (set_closed (set_in c i1) true) with (set_in (set_closed c true) i1) by (destruct c; reflexivity).
    replace (set_closed (set_in c i2) true) with (set_in (set_closed c true) i2) by (destruct c; reflexivity).
    apply crel_set_in; exact Hs.
Qed.

(* ---- client lists ---- *)
Definition lrel := Forall2 crel.

Lemma find_client_rel : forall cs1 cs2 id, lrel cs1 cs2 ->
  match find_client cs1 id, find_client cs2 id with
  | Some a, Some b => crel a b
  | None, None => True
  | _, _ => False
  end.
Proof.
  induction 1 as [|a b l1 l2 Hab Hl IH]; cbn; auto.
  destruct (crel_fields _ _ Hab) as (Hid & _). rewrite <- Hid.
  destruct (c_id a =? id); auto.
Qed.

Lemma put_client_rel : forall cs1 cs2 a b, lrel cs1 cs2 -> crel a b ->
  lrel (put_client cs1 a) (put_client cs2 b).
Proof.
  induction 1 as [|x y l1 l2 Hxy Hl IH]; intros Hab; cbn; [constructor|].
  destruct (crel_fields _ _ Hxy) as (Hid & _). destruct (crel_fields _ _ Hab) as (Hid2 & _).
  rewrite <- Hid, <- Hid2. destruct (c_id x =? c_id a); constructor; auto. apply IH; exact Hab.
Qed.

Lemma is_live_normal_rel : forall a b, crel a b -> is_live_normal a = is_live_normal b.
Proof.
  intros a b H. destruct (crel_fields _ _ H) as (_ & Hs & Hc & _).
  unfold is_live_normal. rewrite Hs, Hc. reflexivity.
Qed.

Lemma others_normal_rel : forall cs1 cs2 id, lrel cs1 cs2 ->
  others_normal_of cs1 id = others_normal_of cs2 id.
Proof.
  induction 1 as [|x y l1 l2 Hxy Hl IH]; cbn; auto.
  destruct (crel_fields _ _ Hxy) as (Hid & _). rewrite <- Hid, (is_live_normal_rel _ _ Hxy).
  unfold others_normal_of in IH. rewrite IH. reflexivity.
Qed.

Lemma set_closed_rel : forall a b v, crel a b -> crel (set_closed a v) (set_closed b v).
Proof.
  intros a b v H. destruct (crel_inv _ _ H) as (c & i1 & i2 & -> & -> & Hs).
  replace (set_closed (set_in c i1) v) with (set_in (set_closed c v) i1) by (destruct c; reflexivity).
  replace (set_closed (set_in c i2) v) with (set_in (set_closed c v) i2) by (destruct c; reflexivity).
  apply crel_set_in; exact Hs.
Qed.

Lemma close_others_rel : forall cs1 cs2 id, lrel cs1 cs2 ->
  lrel (close_others cs1 id) (close_others cs2 id).
Proof.
  induction 1 as [|x y l1 l2 Hxy Hl IH]; cbn; constructor; auto.
  destruct (crel_fields _ _ Hxy) as (Hid & _). rewrite <- Hid, (is_live_normal_rel _ _ Hxy).
  destruct (negb (c_id x =? id) && is_live_normal y); auto. apply set_closed_rel; auto.
Qed.

Definition srel (s1 s2 : server) : Prop :=
  s_cfg s1 = s_cfg s2 /\ lrel (s_clients s1) (s_clients s2) /\
  s_owner s1 = s_owner s2 /\ s_now s1 = s_now s2.

Lemma srel_refl : forall s, srel s s.
Proof.
  intros s; repeat split; auto. unfold lrel. induction (s_clients s); constructor; auto using crel_refl.
Qed.

Lemma handle_rel : forall s1 s2 id, srel s1 s2 ->
  srel (fst (handle ext_cut s1 id)) (fst (handle ext_cut s2 id)) /\
  snd (handle ext_cut s1 id) = snd (handle ext_cut s2 id).
Proof.
  intros s1 s2 id (Hc & Hl & Ho & Hn). unfold handle.
  pose proof (find_client_rel _ _ id Hl) as Hf.
  destruct (find_client (s_clients s1) id) as [c1|], (find_client (s_clients s2) id) as [c2|];
    try contradiction; [|cbn; repeat split; auto].
  destruct (crel_fields _ _ Hf) as (_ & _ & Hcl & _). rewrite <- Hcl.
  destruct (c_closed c1); [cbn; repeat split; auto|].
  rewrite <- Hc, <- Ho, <- (others_normal_rel _ _ id Hl).
  pose proof (handle_client_rel (s_cfg s1) (s_owner s1) c1 c2 (others_normal_of (s_clients s1) id) Hf)
    as (Ha & Hao & Hae & Hac).
  cbn [fst snd]. rewrite <- Hac, <- Hao, <- Hae, <- Hn. split; [|reflexivity].
  repeat split; cbn; auto.
  destruct (a_close_others _).
  - apply close_others_rel. apply put_client_rel; auto.
  - apply put_client_rel; auto.
Qed.

Lemma handle_all_rel : forall ids s1 s2, srel s1 s2 ->
  srel (fst (handle_all ext_cut s1 ids)) (fst (handle_all ext_cut s2 ids)) /\
  snd (handle_all ext_cut s1 ids) = snd (handle_all ext_cut s2 ids).
Proof.
  induction ids as [|id r IH]; intros s1 s2 H; cbn [handle_all]; [split; auto|].
  destruct (handle_rel s1 s2 id H) as [H1 H2].
  destruct (handle ext_cut s1 id) as [s1' e1], (handle ext_cut s2 id) as [s2' e2]. cbn [fst snd] in *.
  destruct (IH s1' s2' H1) as [H3 H4].
  destruct (handle_all ext_cut s1' r) as [s1'' e1'], (handle_all ext_cut s2' r) as [s2'' e2'].
  cbn [fst snd] in *. subst. auto.
Qed.

Lemma wake_all_rel : forall cs1 cs2, lrel cs1 cs2 ->
  lrel (fst (wake_all cs1)) (fst (wake_all cs2)) /\ snd (wake_all cs1) = snd (wake_all cs2).
Proof.
  induction 1 as [|x y l1 l2 Hxy Hl IH]; cbn [wake_all]; [split; [constructor|reflexivity]|].
  destruct IH as [IH1 IH2].
  destruct (wake_all l1) as [r1 ids1], (wake_all l2) as [r2 ids2]. cbn [fst snd] in *.
  destruct (crel_fields _ _ Hxy) as (Hid & _ & Hcl & _). rewrite <- Hcl.
  destruct (c_closed x); cbn [fst snd]; [split; [constructor; auto|auto]|].
  pose proof (wake_spec (c_in x)) as [Hw1 Hr1]. pose proof (wake_spec (c_in y)) as [Hw2 Hr2].
  destruct (wake (c_in x)) as [i1 rd1], (wake (c_in y)) as [i2 rd2]. cbn [fst snd] in *.
  destruct Hxy as [Hy Hs].
  assert (Hrd : rd1 = rd2) by (rewrite Hr1, Hr2; apply readable_seq; exact Hs).
  rewrite <- Hrd, <- Hid. clear Hr1 Hr2 Hrd. split.
  - constructor; auto. rewrite Hy, set_in_set_in. apply crel_set_in.
    eapply seq_trans; [exact Hw1|]. eapply seq_trans; [exact Hs|]. apply seq_sym; exact Hw2.
  - destruct rd1; congruence.
Qed.

Lemma flush_ptr_rel : forall cfg now a b, crel a b ->
  crel (fst (flush_ptr cfg now a)) (fst (flush_ptr cfg now b)) /\
  snd (flush_ptr cfg now a) = snd (flush_ptr cfg now b).
Proof.
  intros cfg now a b H. destruct (crel_inv _ _ H) as (c & i1 & i2 & -> & -> & Hs).
  assert (Hc : forall i, flush_ptr cfg now (set_in c i) =
                         (set_in (fst (flush_ptr cfg now c)) i, snd (flush_ptr cfg now c))).
  { intros i. destruct c; unfold flush_ptr; cbn.
    repeat match goal with |- context [if ?x then _ else _] => destruct x end; reflexivity. }
  rewrite !Hc. cbn [fst snd]. split; [apply crel_set_in; exact Hs|reflexivity].
Qed.

Lemma flush_all_rel : forall cfg now cs1 cs2, lrel cs1 cs2 ->
  lrel (fst (flush_all cfg now cs1)) (fst (flush_all cfg now cs2)) /\
  snd (flush_all cfg now cs1) = snd (flush_all cfg now cs2).
Proof.
  induction 1 as [|x y l1 l2 Hxy Hl IH]; cbn [flush_all]; [split; [constructor|reflexivity]|].
  destruct (flush_ptr_rel cfg now x y Hxy) as [H1 H2].
  destruct (flush_ptr cfg now x) as [x' e1], (flush_ptr cfg now y) as [y' e2].
  destruct IH as [IH1 IH2].
  destruct (flush_all cfg now l1) as [r1 f1], (flush_all cfg now l2) as [r2 f2].
  cbn [fst snd] in *. subst. split; [constructor; auto|reflexivity].
Qed.

Lemma reap_rel : forall cs1 cs2 o, lrel cs1 cs2 ->
  lrel (fst (reap cs1 o)) (fst (reap cs2 o)) /\ snd (reap cs1 o) = snd (reap cs2 o).
Proof.
  intros cs1 cs2 o H. unfold reap. cbn [fst snd]. split.
  - induction H as [|x y l1 l2 Hxy Hl IH]; cbn; [constructor|].
    destruct (crel_fields _ _ Hxy) as (_ & _ & Hcl & _). rewrite <- Hcl.
    destruct (c_closed x); cbn; auto. constructor; auto.
  - destruct o as [h|]; auto.
    assert (He : existsb (fun c => (c_id c =? h) && c_closed c) cs1 =
                 existsb (fun c => (c_id c =? h) && c_closed c) cs2).
    { induction H as [|x y l1 l2 Hxy Hl IH]; cbn; auto.
      destruct (crel_fields _ _ Hxy) as (Hid & _ & Hcl & _). rewrite <- Hid, <- Hcl, IH. reflexivity. }
    rewrite He. reflexivity.
Qed.

Lemma process_rel : forall s1 s2, srel s1 s2 ->
  srel (fst (process ext_cut s1)) (fst (process ext_cut s2)) /\
  snd (process ext_cut s1) = snd (process ext_cut s2).
Proof.
  intros s1 s2 (Hc & Hl & Ho & Hn). unfold process.
  destruct (wake_all_rel _ _ Hl) as [Hw1 Hw2].
  destruct (wake_all (s_clients s1)) as [cs1 rdy1], (wake_all (s_clients s2)) as [cs2 rdy2].
  cbn [fst snd] in *. subst rdy2.
  assert (Hs : srel (mkSrv (s_cfg s1) cs1 (s_owner s1) (s_now s1)) (mkSrv (s_cfg s2) cs2 (s_owner s2) (s_now s2)))
    by (repeat split; cbn; auto).
  destruct (handle_all_rel rdy1 _ _ Hs) as [Hh1 Hh2].
  destruct (handle_all ext_cut (mkSrv (s_cfg s1) cs1 (s_owner s1) (s_now s1)) rdy1) as [t1 ev1].
  destruct (handle_all ext_cut (mkSrv (s_cfg s2) cs2 (s_owner s2) (s_now s2)) rdy1) as [t2 ev2].
  cbn [fst snd] in *. subst ev2. destruct Hh1 as (Hc' & Hl' & Ho' & Hn').
  rewrite <- Hc', <- Hn'.
  destruct (flush_all_rel (s_cfg t1) (s_now t1) _ _ Hl') as [Hf1 Hf2].
  destruct (flush_all (s_cfg t1) (s_now t1) (s_clients t1)) as [cs3 e3].
  destruct (flush_all (s_cfg t1) (s_now t1) (s_clients t2)) as [cs3' e3'].
  cbn [fst snd] in *. subst e3'. rewrite <- Ho'.
  destruct (reap_rel _ _ (s_owner t1) Hf1) as [Hr1 Hr2].
  destruct (reap cs3 (s_owner t1)) as [cs4 o4], (reap cs3' (s_owner t1)) as [cs4' o4'].
  cbn [fst snd] in *. subst o4'. split; [|reflexivity]. repeat split; cbn; auto.
Qed.

(* ---- script operations ---- *)
Definition oprel (o1 o2 : op) : Prop :=
  match o1, o2 with
  | OSend id1 f1, OSend id2 f2 => id1 = id2 /\ concat f1 = concat f2
  | _, _ => o1 = o2
  end.

Lemma fl_bytes_app : forall fl its,
  fl_bytes (fl ++ its) = fl_bytes fl ++ (if fl_fin fl then [] else fl_bytes its).
Proof.
  induction fl as [|[b|] fl IH]; intros its; cbn; auto.
  rewrite IH, app_assoc. reflexivity.
Qed.

Lemma fl_fin_app : forall fl its, fl_fin (fl ++ its) = fl_fin fl || fl_fin its.
Proof. induction fl as [|[b|] fl IH]; intros its; cbn; auto. Qed.

Lemma fl_bytes_frags : forall fr, fl_bytes (map Frag fr) = concat fr.
Proof. induction fr as [|f fr IH]; cbn; [reflexivity|rewrite IH; reflexivity]. Qed.

Lemma fl_fin_frags : forall fr, fl_fin (map Frag fr) = false.
Proof. induction fr as [|f fr IH]; cbn; auto. Qed.

Lemma push_flight_rel : forall a b its1 its2, crel a b ->
  fl_bytes its1 = fl_bytes its2 -> fl_fin its1 = fl_fin its2 ->
  crel (push_flight its1 a) (push_flight its2 b).
Proof.
  intros a b its1 its2 H Hb Hf. destruct (crel_inv _ _ H) as (c & i1 & i2 & -> & -> & [Hs1 Hs2]).
  unfold push_flight. rewrite !c_in_set_in, !set_in_set_in. apply crel_set_in.
  unfold seq, st_bytes, st_eof in *. cbn [kbuf keof flight].
  rewrite !fl_bytes_app, !fl_fin_app, Hb, Hf.
  destruct i1 as [kb1 e1 fl1], i2 as [kb2 e2 fl2]; cbn [kbuf keof flight] in *.
  destruct e1, e2, (fl_fin fl1) eqn:F1, (fl_fin fl2) eqn:F2; cbn [orb] in *; try discriminate;
    rewrite ?app_nil_r in *; split; try reflexivity.
  all: try (rewrite Hs1; reflexivity).
  all: try (rewrite !app_assoc, Hs1; reflexivity).
Qed.

Lemma map_client_rel : forall cs1 cs2 id f g, lrel cs1 cs2 ->
  (forall a b, crel a b -> crel (f a) (g b)) ->
  lrel (map_client cs1 id f) (map_client cs2 id g).
Proof.
  intros cs1 cs2 id f g H Hfg. induction H as [|x y l1 l2 Hxy Hl IH]; cbn; constructor; auto.
  destruct (crel_fields _ _ Hxy) as (Hid & _). rewrite <- Hid. destruct (c_id x =? id); auto.
Qed.

Lemma step_rel : forall s1 s2 o1 o2, srel s1 s2 -> oprel o1 o2 ->
  srel (fst (step ext_cut s1 o1)) (fst (step ext_cut s2 o2)) /\
  snd (step ext_cut s1 o1) = snd (step ext_cut s2 o2).
Proof.
  intros s1 s2 o1 o2 Hs Ho.
  assert (Hsame : forall o, srel (fst (step ext_cut s1 o)) (fst (step ext_cut s2 o)) /\
                            snd (step ext_cut s1 o) = snd (step ext_cut s2 o)).
  { destruct Hs as (Hc & Hl & Hw & Hn). intros o. destruct o; cbn [step fst snd].
    - split; auto. repeat split; cbn; auto. constructor; auto. rewrite Hc. apply crel_refl.
    - split; auto. repeat split; cbn; auto. apply map_client_rel; auto.
      intros a b Hab. apply push_flight_rel; auto.
    - split; auto. repeat split; cbn; auto. apply map_client_rel; auto.
      intros a b Hab. apply push_flight_rel; auto.
    - apply process_rel. repeat split; auto.
    - split; auto. repeat split; cbn; auto. apply map_client_rel; auto.
      intros a b Hab. destruct (crel_inv _ _ Hab) as (c & i1 & i2 & -> & -> & Hq).
      replace (set_viewonly (set_in c i1) v) with (set_in (set_viewonly c v) i1) by (destruct c; reflexivity).
      replace (set_viewonly (set_in c i2) v) with (set_in (set_viewonly c v) i2) by (destruct c; reflexivity).
      apply crel_set_in; auto.
    - split; auto. repeat split; cbn; auto. apply map_client_rel; auto.
      intros a b Hab. destruct (crel_inv _ _ Hab) as (c & i1 & i2 & -> & -> & Hq).
      replace (set_authres (set_in c i1) k) with (set_in (set_authres c k) i1) by (destruct c; reflexivity).
      replace (set_authres (set_in c i2) k) with (set_in (set_authres c k) i2) by (destruct c; reflexivity).
      apply crel_set_in; auto.
    - split; auto. repeat split; cbn; auto. congruence. }
  destruct o1, o2; cbn [oprel] in Ho; try (inversion Ho; subst; apply Hsame); try discriminate.
  destruct Ho as [-> Hcat]. destruct Hs as (Hc & Hl & Hw & Hn). cbn [step fst snd].
  split; auto. repeat split; cbn; auto. apply map_client_rel; auto.
  intros a b Hab. apply push_flight_rel; auto.
  - rewrite !fl_bytes_frags. exact Hcat.
  - rewrite !fl_fin_frags. reflexivity.
Qed.

Lemma run_rel : forall ops1 ops2 s1 s2, srel s1 s2 -> Forall2 oprel ops1 ops2 ->
  srel (fst (run ext_cut s1 ops1)) (fst (run ext_cut s2 ops2)) /\
  snd (run ext_cut s1 ops1) = snd (run ext_cut s2 ops2).
Proof.
  intros ops1 ops2 s1 s2 Hs H. revert s1 s2 Hs.
  induction H as [|o1 o2 r1 r2 Ho Hr IH]; intros s1 s2 Hs; cbn [run]; [split; auto|].
  destruct (step_rel s1 s2 o1 o2 Hs Ho) as [H1 H2].
  destruct (step ext_cut s1 o1) as [s1' e1], (step ext_cut s2 o2) as [s2' e2]. cbn [fst snd] in *.
  destruct (IH s1' s2' H1) as [H3 H4].
  destruct (run ext_cut s1' r1) as [s1'' e1'], (run ext_cut s2' r2) as [s2'' e2'].
  cbn [fst snd] in *. subst. auto.
Qed.

(* the session-level statement: same script, every [OSend] cut differently *)
Lemma segmentation_invariant : forall cfg ops1 ops2,
  Forall2 oprel ops1 ops2 ->
  snd (run ext_cut (init_server cfg) ops1) = snd (run ext_cut (init_server cfg) ops2).
Proof. intros. apply run_rel; auto. apply srel_refl. Qed.

(* ... and from any two states holding the same streams *)
Lemma segmentation_invariant_from : forall s1 s2 ops1 ops2,
  srel s1 s2 -> Forall2 oprel ops1 ops2 ->
  snd (run ext_cut s1 ops1) = snd (run ext_cut s2 ops2).
Proof. intros. apply run_rel; auto. Qed.

End Seg.
