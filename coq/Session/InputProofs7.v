(* C06 - proofs, part 7 (audit follow-up):
   - the view-only flag is never cleared by the server's own handlers; it is set by a password
     whose index is >= authPasswdFirstViewOnly;
   - pass-level gating with the pointer-flush case tied to the connection list of the server;
   - distinct connection ids are preserved by every script whose OConnect ids are fresh;
   - the scaled view stays positive; the SetScale / PalmVNCSetScaleFactor message itself;
   - ScaleX/ScaleY as they are now, emulated in binary64, equal the integer quotient the model uses
     (operands below 2^16);
   - pointer coalescing: a remembered position is delivered (timer start + expiry) - at the level
     of flush_ptr and of whole rfbProcessEvents passes;
   - one OSend versus the same bytes sent in two parts with an rfbProcessEvents in between. *)
From Coq Require Import ZArith List Bool Lia Permutation.
From LV Require Import Gen.Consts_C06 Wire.C2SInput Session.InputDefs Session.InputProofs
  Session.InputProofs2 Session.InputProofs3 Session.InputProofs4 Session.InputProofs5 Session.InputProofs6.
Import ListNotations.
Local Open Scope Z_scope.

Ltac Zify.zify_post_hook ::= Z.to_euclidean_division_equations.

(* ------------------------------------------------------------------------------------ *)
(* view-only: set by the password position, never cleared *)
Section ViewOnly.
Variable ext_cut : bool -> clipst -> list Z -> clipst * list utf8cb * bool.

Lemma apply_init_vo : forall cfg o c sh b, c_viewonly (a_client (apply_init cfg o c sh b)) = c_viewonly c.
Proof.
  intros cfg o [] sh b. unfold apply_init, applied_close, applied_same. cbn.
  repeat match goal with |- context [if ?x then _ else _] => destruct x end; reflexivity.
Qed.

(* a VNC-authentication response made with password number k of the list *)
Lemma authresp_viewonly : forall cfg o c r b k,
  c_authres c = Some k ->
  let a := apply_handshake cfg o c (HAuthResp r) b in
  c_state (a_client a) = SInit /\ c_closed (a_client a) = c_closed c /\
  c_viewonly (a_client a) = (if g_firstvo cfg <=? k then true else c_viewonly c).
Proof.
  intros cfg o c r b k H. cbn [apply_handshake]. rewrite H.
  destruct (g_firstvo cfg <=? k); destruct c; cbn; auto.
Qed.

Lemma authresp_refused : forall cfg o c r b,
  c_authres c = None ->
  let a := apply_handshake cfg o c (HAuthResp r) b in
  c_closed (a_client a) = true /\ a_events a = [].
Proof. intros cfg o c r b H. cbn [apply_handshake]. rewrite H. destruct c; cbn; auto. Qed.

Ltac vofin c := destruct c; cbn in *; congruence.

Lemma apply_msg_vo : forall cfg o c m b,
  c_viewonly c = true -> c_viewonly (a_client (apply_msg ext_cut cfg o c m b)) = true.
Proof.
  intros cfg o c m b V. unfold apply_msg. destruct (c_state c).
  1-4: destruct m; cbn [apply_handshake]; unfold applied_close, applied_same; cbn [a_client];
       try (vofin c); try (rewrite apply_init_vo; exact V).
  1-12: try (destruct (parse_version b0) as [[mj mn]|]; [|vofin c];
             repeat match goal with |- context [if ?x then _ else _] => destruct x end; vofin c).
  1-8: try (repeat match goal with |- context [if ?x then _ else _] => destruct x end;
            try (rewrite apply_init_vo; exact V); vofin c).
  1-4: try (destruct (c_authres c); [|vofin c];
            match goal with |- context [if ?x then _ else _] => destruct x end; vofin c).
  destruct m; cbn [apply_normal]; unfold applied_close, applied_same; cbn [a_client];
    try (vofin c).
  - destruct (byte_at b0 c06_off_spf_bpp); [|vofin c].
    destruct (byte_at b0 c06_off_spf_truecolour); [|vofin c].
    match goal with |- context [if ?x then _ else _] => destruct x end; vofin c.
  - rewrite V. exact V.
  - rewrite V. destruct (negb (ptr_allowed o (c_id c))); exact V.
  - rewrite V. exact V.
  - destruct (ext_cut (c_viewonly c) (c_clip c) payload) as [[k' texts] close]. destruct close; vofin c.
  - repeat match goal with |- context [if ?x then _ else _] => destruct x end; vofin c.
Qed.

Lemma handle_client_vo : forall cfg o c b,
  c_viewonly c = true -> c_viewonly (a_client (handle_client ext_cut cfg o c b)) = true.
Proof.
  intros cfg o c b V. unfold handle_client.
  destruct (parse_for (c_state c) (k_ext (c_clip c)) (fix_extlimit cfg) (c_in c)) as [m i|e].
  - apply apply_msg_vo. destruct c; exact V.
  - destruct c; exact V.
Qed.

(* "c1 descends from c0": same connection, and a view-only c0 means a view-only c1 *)
Definition vo_desc (c0 c1 : client) : Prop := c_id c0 = c_id c1 /\ (c_viewonly c0 = true -> c_viewonly c1 = true).

Lemma vo_desc_refl : forall c, vo_desc c c.
Proof. intro c. split; auto. Qed.

Lemma vo_desc_trans : forall a b c, vo_desc a b -> vo_desc b c -> vo_desc a c.
Proof. intros a b c [H1 H2] [H3 H4]. split; [congruence|auto]. Qed.

Definition vo_sub (cs0 cs1 : list client) : Prop :=
  forall c1, In c1 cs1 -> exists c0, In c0 cs0 /\ vo_desc c0 c1.

Lemma vo_sub_refl : forall cs, vo_sub cs cs.
Proof. intros cs c H. exists c. split; [exact H|apply vo_desc_refl]. Qed.

Lemma vo_sub_trans : forall a b c, vo_sub a b -> vo_sub b c -> vo_sub a c.
Proof.
  intros a b c H1 H2 c1 Hin. destruct (H2 c1 Hin) as (cb & Hb & Db). destruct (H1 cb Hb) as (ca & Ha & Da).
  exists ca. split; [exact Ha|eapply vo_desc_trans; eassumption].
Qed.

Lemma vo_sub_map : forall (f : client -> client) cs, (forall c, vo_desc c (f c)) -> vo_sub cs (map f cs).
Proof.
  intros f cs Hf c1 Hin. apply in_map_iff in Hin. destruct Hin as (c0 & <- & Hin). exists c0. auto.
Qed.

Lemma in_put_client : forall cs c' c1, In c1 (put_client cs c') -> c1 = c' \/ In c1 cs.
Proof.
  induction cs as [|x r IH]; intros c' c1; cbn; [intros []|].
  destruct (c_id x =? c_id c'); cbn.
  - intros [H|H]; [left; auto|right; right; exact H].
  - intros [H|H]; [right; left; exact H|]. destruct (IH c' c1 H); [left|right; right]; assumption.
Qed.

Lemma handle_vo_sub : forall s id, vo_sub (s_clients s) (s_clients (fst (handle ext_cut s id))).
Proof.
  intros s id. unfold handle.
  destruct (find_client (s_clients s) id) as [c|] eqn:F; [|apply vo_sub_refl].
  destruct (c_closed c); [apply vo_sub_refl|]. cbn [fst s_clients].
  destruct (find_client_id _ _ _ F) as [Hid Hin].
  set (a := handle_client ext_cut (s_cfg s) (s_owner s) c (others_normal_of (s_clients s) id)).
  assert (P : vo_sub (s_clients s) (put_client (s_clients s) (a_client a))).
  { intros c1 H1. destruct (in_put_client _ _ _ H1) as [->|H].
    - exists c. split; [exact Hin|]. split; [unfold a; rewrite handle_client_id; reflexivity|].
      intro V. apply handle_client_vo. exact V.
    - exists c1. split; [exact H|apply vo_desc_refl]. }
  destruct (a_close_others a); [|exact P].
  eapply vo_sub_trans; [exact P|]. unfold close_others. apply vo_sub_map.
  intro x. destruct (negb (c_id x =? id) && is_live_normal x); [|apply vo_desc_refl]. destruct x; split; auto.
Qed.

Lemma handle_all_vo_sub : forall ids s, vo_sub (s_clients s) (s_clients (fst (handle_all ext_cut s ids))).
Proof.
  induction ids as [|id r IH]; intros s; cbn [handle_all]; [apply vo_sub_refl|].
  pose proof (handle_vo_sub s id) as H1. destruct (handle ext_cut s id) as [s1 e1]. cbn [fst] in H1.
  specialize (IH s1). destruct (handle_all ext_cut s1 r) as [s2 e2]. cbn [fst] in *.
  eapply vo_sub_trans; eassumption.
Qed.

Lemma wake_all_vo_sub : forall cs, vo_sub cs (fst (wake_all cs)).
Proof.
  induction cs as [|x r IH]; cbn [wake_all]; [apply vo_sub_refl|].
  destruct (wake_all r) as [r' ids]. cbn [fst] in *.
  assert (T : forall x', vo_desc x x' -> vo_sub (x :: r) (x' :: r')).
  { intros x' D c1 [<-|H]; [exists x; split; [left; reflexivity|exact D]|].
    destruct (IH c1 H) as (c0 & H0 & D0). exists c0. split; [right; exact H0|exact D0]. }
  destruct (c_closed x); cbn [fst]; [apply T, vo_desc_refl|].
  destruct (wake (c_in x)) as [i' rdy]. cbn [fst]. apply T. destruct x; split; auto.
Qed.

Lemma flush_ptr_vo : forall cfg now c, vo_desc c (fst (flush_ptr cfg now c)).
Proof.
  intros cfg now c. unfold flush_ptr.
  repeat match goal with |- context [if ?x then _ else _] => destruct x end; cbn [fst];
    try apply vo_desc_refl; destruct c; split; auto.
Qed.

Lemma flush_all_vo_sub : forall cfg now cs, vo_sub cs (fst (flush_all cfg now cs)).
Proof.
  induction cs as [|x r IH]; cbn [flush_all]; [apply vo_sub_refl|].
  pose proof (flush_ptr_vo cfg now x) as D. destruct (flush_ptr cfg now x) as [x' e1].
  destruct (flush_all cfg now r) as [r' e2]. cbn [fst] in *.
  intros c1 [<-|H]; [exists x; split; [left; reflexivity|exact D]|].
  destruct (IH c1 H) as (c0 & H0 & D0). exists c0. split; [right; exact H0|exact D0].
Qed.

(* one whole rfbProcessEvents pass: every connection that is still there descends from one that
   was there before, and if that one was view-only it still is *)
Lemma process_vo_sub : forall s, vo_sub (s_clients s) (s_clients (fst (process ext_cut s))).
Proof.
  intros s. unfold process.
  pose proof (wake_all_vo_sub (s_clients s)) as W. destruct (wake_all (s_clients s)) as [cs1 ready]. cbn [fst] in W.
  pose proof (handle_all_vo_sub ready (mkSrv (s_cfg s) cs1 (s_owner s) (s_now s))) as H.
  destruct (handle_all ext_cut (mkSrv (s_cfg s) cs1 (s_owner s) (s_now s)) ready) as [s2 ev1]. cbn [fst s_clients] in H.
  pose proof (flush_all_vo_sub (s_cfg s2) (s_now s2) (s_clients s2)) as F.
  destruct (flush_all (s_cfg s2) (s_now s2) (s_clients s2)) as [cs3 ev2]. cbn [fst] in F.
  unfold reap. cbn [fst s_clients].
  eapply vo_sub_trans; [exact W|]. eapply vo_sub_trans; [exact H|]. eapply vo_sub_trans; [exact F|].
  intros c1 Hin. apply filter_In in Hin. exists c1. split; [tauto|apply vo_desc_refl].
Qed.

Lemma in_find_nodup : forall cs c, NoDup (map c_id cs) -> In c cs -> find_client cs (c_id c) = Some c.
Proof.
  induction cs as [|x r IH]; intros c Hn Hin; [destruct Hin|].
  cbn [map] in Hn. inversion Hn as [|? ? Hni Hnd]; subst. cbn [find_client].
  destruct Hin as [->|Hin]; [rewrite Z.eqb_refl; reflexivity|].
  replace (c_id x =? c_id c) with false; [apply IH; assumption|].
  symmetry. apply Z.eqb_neq. intro E. apply Hni. rewrite E. apply in_map. exact Hin.
Qed.

(* on a server with distinct ids: a connection that was view-only before the pass and is still
   there is view-only afterwards *)
Lemma process_viewonly_kept : forall s id c0 c1, NoDup (map c_id (s_clients s)) ->
  find_client (s_clients s) id = Some c0 -> c_viewonly c0 = true ->
  find_client (s_clients (fst (process ext_cut s))) id = Some c1 -> c_viewonly c1 = true.
Proof.
  intros s id c0 c1 Hn F0 V F1.
  destruct (find_client_id _ _ _ F1) as [Hid1 Hin1]. destruct (find_client_id _ _ _ F0) as [Hid0 Hin0].
  destruct (process_vo_sub s c1 Hin1) as (c & Hc & Hd & Hv).
  pose proof (in_find_nodup _ _ Hn Hc) as Fc. rewrite Hd, Hid1 in Fc. rewrite F0 in Fc. inversion Fc; subst c.
  apply Hv. exact V.
Qed.

Hypothesis ext_gated : forall k p, snd (fst (ext_cut true k p)) = [].

(* pass-level gating, second case tied to the server: the flush of a remembered pointer position
   is attributed to a connection that is in the server's list when the pass starts and is not
   view-only at that moment *)
Lemma process_gate_tied : forall s e, NoDup (map c_id (s_clients s)) ->
  In e (snd (process ext_cut s)) ->
  (exists c, find_client (s_clients s) (ev_client e) = Some c /\ c_closed c = false /\
             c_state c = SNormal /\ c_viewonly c = false) \/
  (exists c0, find_client (s_clients s) (ev_client e) = Some c0 /\ c_viewonly c0 = false /\
              exists mask x y, e = EvPtr (c_id c0) mask x y /\ 0 <= x).
Proof.
  intros s e Hnd. unfold process.
  pose proof (wake_all_view (s_clients s)) as Wv. pose proof (wake_all_nodup (s_clients s) Hnd) as Wn.
  pose proof (wake_all_vo_sub (s_clients s)) as W.
  destruct (wake_all (s_clients s)) as [cs1 ready]. cbn [fst snd] in *.
  pose proof (handle_all_vo_sub ready (mkSrv (s_cfg s) cs1 (s_owner s) (s_now s))) as Hs.
  destruct (handle_all ext_cut (mkSrv (s_cfg s) cs1 (s_owner s) (s_now s)) ready) as [s2 ev1] eqn:H.
  cbn [fst s_clients] in Hs.
  destruct (flush_all (s_cfg s2) (s_now s2) (s_clients s2)) as [cs3 ev2] eqn:F.
  destruct (reap cs3 (s_owner s2)) as [cs4 o4]. cbn [snd].
  intros Hin. apply in_app_or in Hin. destruct Hin as [Hin|Hin].
  - left.
    assert (Hin' : In e (snd (handle_all ext_cut (mkSrv (s_cfg s) cs1 (s_owner s) (s_now s)) ready)))
      by (rewrite H; exact Hin).
    destruct (handle_all_gate ext_cut ext_gated ready _ e Wn Hin') as (c1 & F1 & Hc1 & Hs1 & Hv1 & _).
    cbn [s_clients] in F1. specialize (Wv (ev_client e)). rewrite F1 in Wv. cbn [option_map] in Wv.
    destruct (find_client (s_clients s) (ev_client e)) as [c|]; [|discriminate].
    cbn [option_map] in Wv. unfold gview in Wv. inversion Wv. exists c. repeat split; congruence.
  - right.
    assert (Hin' : In e (snd (flush_all (s_cfg s2) (s_now s2) (s_clients s2)))) by (rewrite F; exact Hin).
    destruct (flush_all_gate _ _ _ e Hin') as (c & Hc & Hv & Hl & He).
    destruct (Hs c Hc) as (c1 & Hc1 & Hd1 & Hv1). destruct (W c1 Hc1) as (c0 & Hc0 & Hd0 & Hv0).
    exists c0. pose proof (in_find_nodup _ _ Hnd Hc0) as F0.
    assert (Hid : c_id c0 = c_id c) by congruence.
    subst e. cbn [ev_client]. rewrite <- Hid. split; [exact F0|]. split.
    + destruct (c_viewonly c0) eqn:V0; [|reflexivity]. rewrite (Hv1 (Hv0 eq_refl)) in Hv. discriminate.
    + eexists _, _, _. split; [reflexivity|exact Hl].
Qed.

End ViewOnly.

(* ------------------------------------------------------------------------------------ *)
(* distinct connection ids *)
Section NoDupIds.
Variable ext_cut : bool -> clipst -> list Z -> clipst * list utf8cb * bool.

Definition ids (s : server) : list Z := map c_id (s_clients s).

Lemma put_client_ids : forall cs c', map c_id (put_client cs c') = map c_id cs.
Proof.
  induction cs as [|x r IH]; intros c'; cbn; [reflexivity|].
  destruct (c_id x =? c_id c') eqn:E; cbn; [apply Z.eqb_eq in E; congruence|rewrite IH; reflexivity].
Qed.

Lemma close_others_ids : forall cs id, map c_id (close_others cs id) = map c_id cs.
Proof.
  intros cs id. unfold close_others. rewrite map_map. apply map_ext.
  intro x. destruct (negb (c_id x =? id) && is_live_normal x); [destruct x|]; reflexivity.
Qed.

Lemma handle_ids : forall s id, ids (fst (handle ext_cut s id)) = ids s.
Proof.
  intros s id. unfold handle, ids.
  destruct (find_client (s_clients s) id) as [c|]; [|reflexivity].
  destruct (c_closed c); [reflexivity|]. cbn [fst s_clients].
  destruct (a_close_others _); rewrite ?close_others_ids, put_client_ids; reflexivity.
Qed.

Lemma handle_all_ids : forall l s, ids (fst (handle_all ext_cut s l)) = ids s.
Proof.
  induction l as [|id r IH]; intros s; cbn [handle_all]; [reflexivity|].
  pose proof (handle_ids s id) as H1. destruct (handle ext_cut s id) as [s1 e1]. cbn [fst] in H1.
  specialize (IH s1). destruct (handle_all ext_cut s1 r) as [s2 e2]. cbn [fst] in *. congruence.
Qed.

Lemma wake_all_ids_eq : forall cs, map c_id (fst (wake_all cs)) = map c_id cs.
Proof.
  induction cs as [|x r IH]; cbn [wake_all]; [reflexivity|].
  destruct (wake_all r) as [r' l]. cbn [fst] in *.
  destruct (c_closed x); cbn [fst map]; [rewrite IH; reflexivity|].
  destruct (wake (c_in x)) as [i' rdy]. cbn [fst map]. rewrite IH. destruct x; reflexivity.
Qed.

Lemma flush_ptr_id : forall cfg now c, c_id (fst (flush_ptr cfg now c)) = c_id c.
Proof. intros. destruct (flush_ptr_vo cfg now c) as [H _]. symmetry. exact H. Qed.

Lemma flush_all_ids : forall cfg now cs, map c_id (fst (flush_all cfg now cs)) = map c_id cs.
Proof.
  induction cs as [|x r IH]; cbn [flush_all]; [reflexivity|].
  pose proof (flush_ptr_id cfg now x) as D. destruct (flush_ptr cfg now x) as [x' e1].
  destruct (flush_all cfg now r) as [r' e2]. cbn [fst map] in *. congruence.
Qed.

(* sublist *)
Inductive sub {A} : list A -> list A -> Prop :=
| sub_nil : sub [] []
| sub_keep : forall a l1 l2, sub l1 l2 -> sub (a :: l1) (a :: l2)
| sub_drop : forall a l1 l2, sub l1 l2 -> sub l1 (a :: l2).

Lemma sub_refl : forall A (l : list A), sub l l.
Proof. induction l; constructor; auto. Qed.

Lemma sub_in : forall A (l1 l2 : list A) x, sub l1 l2 -> In x l1 -> In x l2.
Proof. intros A l1 l2 x H. induction H; cbn; intuition. Qed.

Lemma sub_nodup : forall A (l1 l2 : list A), sub l1 l2 -> NoDup l2 -> NoDup l1.
Proof.
  intros A l1 l2 H. induction H; intros Hn; [constructor| |].
  - inversion Hn; subst. constructor; [|auto]. intro Hi. eapply sub_in in Hi; eauto.
  - inversion Hn; subst. auto.
Qed.

Lemma sub_map_filter : forall (f : client -> Z) p cs, sub (map f (filter p cs)) (map f cs).
Proof. induction cs as [|x r IH]; cbn; [constructor|]. destruct (p x); cbn; constructor; exact IH. Qed.

Lemma process_ids : forall s, sub (ids (fst (process ext_cut s))) (ids s).
Proof.
  intros s. unfold process, ids.
  pose proof (wake_all_ids_eq (s_clients s)) as W. destruct (wake_all (s_clients s)) as [cs1 ready]. cbn [fst] in W.
  pose proof (handle_all_ids ready (mkSrv (s_cfg s) cs1 (s_owner s) (s_now s))) as H.
  destruct (handle_all ext_cut (mkSrv (s_cfg s) cs1 (s_owner s) (s_now s)) ready) as [s2 ev1].
  unfold ids in H. cbn [fst s_clients] in H.
  pose proof (flush_all_ids (s_cfg s2) (s_now s2) (s_clients s2)) as F.
  destruct (flush_all (s_cfg s2) (s_now s2) (s_clients s2)) as [cs3 ev2]. cbn [fst] in F.
  unfold reap. cbn [fst s_clients]. rewrite <- W, <- H, <- F. apply sub_map_filter.
Qed.

Lemma map_client_ids : forall cs id f, (forall c, c_id (f c) = c_id c) -> map c_id (map_client cs id f) = map c_id cs.
Proof.
  intros cs id f Hf. unfold map_client. rewrite map_map. apply map_ext.
  intro x. destruct (c_id x =? id); [apply Hf|reflexivity].
Qed.

Fixpoint connect_ids (ops : list op) : list Z :=
  match ops with
  | [] => []
  | OConnect id _ :: r => id :: connect_ids r
  | _ :: r => connect_ids r
  end.

Lemma sub_app_nodup : forall (a b b' : list Z), sub b' b -> NoDup (a ++ b) -> NoDup (a ++ b').
Proof.
  intros a b b' S. apply sub_nodup. induction a; cbn; [exact S|constructor; exact IHa].
Qed.

(* every script whose OConnect ids are new (pairwise distinct and not in use at the start) keeps
   the connection ids distinct: the hypothesis of the pass-level gating theorem is an invariant *)
Lemma run_nodup : forall ops s,
  NoDup (connect_ids ops ++ ids s) -> NoDup (ids (fst (run ext_cut s ops))).
Proof.
  induction ops as [|o r IH]; intros s Hn; cbn [run]; [exact Hn|].
  assert (K : NoDup (connect_ids r ++ ids (fst (step ext_cut s o)))).
  { destruct o; cbn [connect_ids step fst] in *; unfold ids in *; cbn [s_clients map] in *.
    - eapply Permutation_NoDup; [|exact Hn]. apply (Permutation_middle (connect_ids r) (map c_id (s_clients s)) id).
    - rewrite map_client_ids; [exact Hn|]. intro c. destruct c; reflexivity.
    - rewrite map_client_ids; [exact Hn|]. intro c. destruct c; reflexivity.
    - eapply sub_app_nodup; [|exact Hn]. apply process_ids.
    - rewrite map_client_ids; [exact Hn|]. intro c. destruct c; reflexivity.
    - rewrite map_client_ids; [exact Hn|]. intro c. destruct c; reflexivity.
    - exact Hn. }
  destruct (step ext_cut s o) as [s1 e1]. cbn [fst] in K. specialize (IH s1 K).
  destruct (run ext_cut s1 r) as [s2 e2]. cbn [fst] in *. exact IH.
Qed.

End NoDupIds.

(* ------------------------------------------------------------------------------------ *)
(* the scaled view: SetScale / PalmVNCSetScaleFactor, positivity *)
Section Scale.
Variable ext_cut : bool -> clipst -> list Z -> clipst * list utf8cb * bool.

Definition scaled_pos (c : client) : Prop := 0 < c_sw c /\ 0 < c_sh c.

Lemma new_client_scaled_pos : forall cfg id vo, 0 < g_w cfg -> 0 < g_h cfg -> scaled_pos (new_client cfg id vo).
Proof. intros. split; assumption. Qed.

Lemma apply_init_scaled : forall cfg o c sh b,
  c_sw (a_client (apply_init cfg o c sh b)) = c_sw c /\ c_sh (a_client (apply_init cfg o c sh b)) = c_sh c.
Proof.
  intros cfg o [] sh b. unfold apply_init, applied_close, applied_same. cbn.
  repeat match goal with |- context [if ?x then _ else _] => destruct x end; split; reflexivity.
Qed.

Ltac scfin c := destruct c; cbn in *; solve [auto].

(* no message makes the scaled view empty: the divisions ScaleX/ScaleY perform are by a positive
   width/height (a scale factor is one byte of the message: 0 closes the connection, 1..255 are
   accepted only if both quotients stay positive, 8e7b6f1) *)
Lemma apply_msg_scaled_pos : forall cfg o c m b,
  0 < g_w cfg -> 0 < g_h cfg -> scaled_pos c ->
  (forall p n, m = MSetScale p n -> 0 <= n) ->
  scaled_pos (a_client (apply_msg ext_cut cfg o c m b)).
Proof.
  intros cfg o c m b Gw Gh P N. unfold scaled_pos in *. unfold apply_msg. destruct (c_state c).
  1-4: destruct m; cbn [apply_handshake]; unfold applied_close, applied_same; cbn [a_client];
       try (scfin c); try (destruct (apply_init_scaled cfg o c shared b) as [-> ->]; exact P).
  1-12: try (destruct (parse_version b0) as [[mj mn]|]; [|scfin c];
             repeat match goal with |- context [if ?x then _ else _] => destruct x end; scfin c).
  1-8: try (repeat match goal with |- context [if ?x then _ else _] => destruct x end;
            try (destruct (apply_init_scaled cfg o c 1 b) as [-> ->]; exact P); scfin c).
  1-4: try (destruct (c_authres c); [|scfin c];
            match goal with |- context [if ?x then _ else _] => destruct x end; scfin c).
  destruct m; cbn [apply_normal]; unfold applied_close, applied_same; cbn [a_client];
    try (scfin c).
  - destruct (byte_at b0 c06_off_spf_bpp); [|scfin c].
    destruct (byte_at b0 c06_off_spf_truecolour); [|scfin c].
    match goal with |- context [if ?x then _ else _] => destruct x end; scfin c.
  - destruct (c_viewonly c); scfin c.
  - repeat match goal with
           | |- context [if ?x then _ else _] => destruct x
           | |- context [match map_pos ?a ?b ?c ?d with _ => _ end] => destruct (map_pos a b c d) as [[? ?]|]
           end; scfin c.
  - destruct (c_viewonly c); scfin c.
  - destruct (ext_cut (c_viewonly c) (c_clip c) payload) as [[k' texts] close]. destruct close; scfin c.
  - specialize (N palm n eq_refl).
    destruct (n =? 0) eqn:E0; [scfin c|]. apply Z.eqb_neq in E0.
    destruct ((g_w cfg / n =? g_w cfg) && (g_h cfg / n =? g_h cfg)) eqn:E1.
    + apply andb_true_iff in E1. destruct E1 as [E1 E2]. apply Z.eqb_eq in E1, E2. destruct c; cbn. lia.
    + destruct ((g_h cfg / n =? 0) || (g_w cfg / n =? 0)) eqn:E2; [scfin c|].
      apply orb_false_iff in E2. destruct E2 as [E2 E3]. apply Z.eqb_neq in E2, E3.
      assert (0 <= g_w cfg / n) by (apply Z.div_pos; lia).
      assert (0 <= g_h cfg / n) by (apply Z.div_pos; lia).
      destruct c; cbn. lia.
Qed.

(* the message itself: a permitted or view-only client in RFB_NORMAL whose stream starts with
   SetScale(n) or PalmVNCSetScaleFactor(n), n = 1..255: no callback, nothing closed, the scaled view
   becomes (W/n, H/n) unless one of them would be 0 (then nothing changes); everything else about
   the connection stays - so the pointer events that follow are mapped through the new view
   (handle_client_w with this record as c0) *)
Lemma handle_client_setscale : forall cfg o c b t n p1 p2 r,
  c_state c = SNormal -> (t = c06_rfbSetScale \/ t = c06_rfbPalmVNCSetScaleFactor) -> n <> 0 ->
  st_bytes (c_in c) = t :: n :: p1 :: p2 :: r ->
  let a := handle_client ext_cut cfg o c b in
  let w := g_w cfg / n in let h := g_h cfg / n in
  a_events a = [] /\ a_owner a = o /\ a_close_others a = false /\
  st_bytes (c_in (a_client a)) = r /\ st_eof (c_in (a_client a)) = st_eof (c_in c) /\
  exists j, a_client a =
    (if (negb ((w =? g_w cfg) && (h =? g_h cfg))) && ((h =? 0) || (w =? 0))
     then set_in c j else set_scaled (set_in c j) w h).
Proof.
  intros cfg o c b t n p1 p2 r Hst Ht Hn H. unfold handle_client. rewrite Hst. cbn [parse_for].
  destruct (parse_normal_type (k_ext (c_clip c)) (fix_extlimit cfg) (c_in c) _ _ H) as (j & P & B & E). rewrite P.
  assert (PB : parse_body (k_ext (c_clip c)) (fix_extlimit cfg) t =
               bind (read_rest t c06_sz_SetScale) (fun m =>
               need (byte_at m c06_off_scale) (fun n => ret (MSetScale (t =? c06_rfbPalmVNCSetScaleFactor) n))))
    by (destruct Ht as [-> | ->]; reflexivity).
  rewrite PB.
  destruct (read_rest_app t c06_sz_SetScale j [n; p1; p2] r B eq_refl) as (j' & R & B' & E').
  rewrite (bind_ok _ _ _ _ _ _ _ R). cbn [byte_at need]. unfold ret.
  change (byte_at (t :: [n; p1; p2]) c06_off_scale) with (Some n). cbn [need].
  unfold apply_msg. replace (c_state (set_in c j')) with SNormal by (destruct c; cbn in *; congruence).
  cbn [apply_normal]. replace (n =? 0) with false by (symmetry; apply Z.eqb_neq; exact Hn).
  cbv zeta.
  destruct ((g_w cfg / n =? g_w cfg) && (g_h cfg / n =? g_h cfg)); cbn [negb andb].
  - cbn [applied_same a_events a_owner a_close_others a_client].
    repeat split; auto; try (destruct c; cbn in *; congruence). exists j'. reflexivity.
  - destruct ((g_h cfg / n =? 0) || (g_w cfg / n =? 0)); cbn [applied_same a_events a_owner a_close_others a_client];
      (repeat split; auto; try (destruct c; cbn in *; congruence)); exists j'; reflexivity.
Qed.

End Scale.

(* ------------------------------------------------------------------------------------ *)
(* ScaleX/ScaleY as they are now: (int)(((double)x * (double)to) / (double)from), emulated in
   binary64 with the machinery of the legacy formula ([fdiv53]: the correctly rounded quotient as
   m / 2^e with 2^52 <= m <= 2^53).  The product x*to is exact (< 2^32 < 2^53). *)
Definition scale_m (x fw tw : Z) : option Z :=
  if fw <=? 0 then None
  else if x * tw <=? 0 then Some 0
  else let '(m, e) := fdiv53 (x * tw) fw in Some (m / 2 ^ e).

Lemma rne_div_bounds : forall n d, 0 < d -> n / d <= rne_div n d <= n / d + 1.
Proof.
  intros n d H. unfold rne_div.
  repeat match goal with |- context [if ?x then _ else _] => destruct x end; lia.
Qed.

Lemma quotient_survives : forall p fw E m,
  0 <= p -> 0 < fw -> 2 * fw <= E ->
  (p * E) / fw <= m <= (p * E) / fw + 1 -> m / E = p / fw.
Proof.
  intros p fw E m Hp Hf HE Hm.
  set (k := p / fw). set (r := p mod fw).
  assert (Hr : 0 <= r < fw) by (apply Z.mod_pos_bound; lia).
  assert (Hpk : p = fw * k + r) by (apply Z.div_mod; lia).
  assert (Hk : 0 <= k) by (apply Z.div_pos; lia).
  assert (Hq : (p * E) / fw = k * E + (r * E) / fw).
  { replace (p * E) with ((k * E) * fw + r * E) by (rewrite Hpk; ring).
    rewrite Z.div_add_l by lia. reflexivity. }
  assert (Hre : 0 <= (r * E) / fw <= E - 2).
  { split; [apply Z.div_pos; nia|].
    apply Z.div_le_upper_bound; [lia|]. nia. }
  symmetry. apply (Z.div_unique m E k (m - k * E)); [lia|ring].
Qed.

Lemma log2_lt_pow : forall a n, 0 < a -> a < 2 ^ n -> 0 <= n -> Z.log2 a < n.
Proof. intros a n Ha H Hn. apply Z.log2_lt_pow2; assumption. Qed.

(* for operands below 2^16 - every coordinate and every screen dimension of the protocol - the
   binary64 result IS the integer quotient (the model's [scale_v] under fix_scale) *)
Lemma scale_m_exact : forall x fw tw,
  0 <= x < 65536 -> 0 < fw < 65536 -> 0 <= tw < 65536 ->
  scale_m x fw tw = Some (x * tw / fw).
Proof.
  intros x fw tw Hx Hf Ht. unfold scale_m.
  replace (fw <=? 0) with false by (symmetry; apply Z.leb_gt; lia).
  destruct (x * tw <=? 0) eqn:E0.
  - apply Z.leb_le in E0. assert (x * tw = 0) by nia. rewrite H. reflexivity.
  - apply Z.leb_gt in E0. set (p := x * tw) in *.
    assert (Hp : 0 < p < 2 ^ 32) by (unfold p; change (2 ^ 32) with 4294967296; nia).
    unfold fdiv53.
    set (e0 := 52 - (Z.log2 p - Z.log2 fw)).
    assert (L1 : 0 <= Z.log2 p < 32) by (split; [apply Z.log2_nonneg|apply Z.log2_lt_pow2; lia]).
    assert (L2 : 0 <= Z.log2 fw < 16)
      by (split; [apply Z.log2_nonneg|apply Z.log2_lt_pow2; [lia|change (2 ^ 16) with 65536; lia]]).
    set (e := if p * 2 ^ e0 <? fw * 2 ^ 52 then e0 + 1 else e0).
    assert (He : 21 <= e <= 69) by (unfold e; destruct (p * 2 ^ e0 <? fw * 2 ^ 52); unfold e0; lia).
    f_equal. apply quotient_survives; try lia.
    + assert (2 ^ 21 <= 2 ^ e) by (apply Z.pow_le_mono_r; lia). change (2 ^ 21) with 2097152 in H. lia.
    + apply rne_div_bounds. lia.
Qed.

Lemma scale_v_is_binary64 : forall cfg x fw tw, fix_scale cfg = true ->
  0 <= x < 65536 -> 0 < fw < 65536 -> 0 <= tw < 65536 ->
  scale_v cfg x fw tw = scale_m x fw tw.
Proof.
  intros cfg x fw tw F Hx Hf Ht. rewrite scale_m_exact by assumption.
  apply scale_v_fixed; [exact F|lia].
Qed.

(* ------------------------------------------------------------------------------------ *)
(* pointer coalescing: what is remembered is delivered *)

(* the interval timer: not running, or started at a time that is not in the future *)
Definition timer_ok (now : Z) (c : client) : Prop :=
  p_defusec (c_ptr c) = 0 \/
  (0 < p_defusec (c_ptr c) < 1000000 /\ 0 <= p_defsec (c_ptr c) /\
   p_defsec (c_ptr c) * 1000 + p_defusec (c_ptr c) / 1000 <= now).

(* first visit of rfbUpdateClient with a remembered position and no timer: the timer starts
   (this establishes the hypothesis p_defusec <> 0 of defer_flush), nothing is delivered yet *)
Lemma defer_timer_starts : forall cfg now c,
  c_viewonly c = false -> 0 <= p_lastx (c_ptr c) -> p_defusec (c_ptr c) = 0 -> 0 <= now ->
  let c' := fst (flush_ptr cfg now c) in
  snd (flush_ptr cfg now c) = [] /\
  p_lastbtn (c_ptr c') = p_lastbtn (c_ptr c) /\ p_lastx (c_ptr c') = p_lastx (c_ptr c) /\
  p_lasty (c_ptr c') = p_lasty (c_ptr c) /\ c_viewonly c' = false /\ c_id c' = c_id c /\
  0 < p_defusec (c_ptr c') < 1000000 /\ timer_ok now c' /\ set_ptr c' (c_ptr c) = c.
Proof.
  intros cfg now c V L U N. unfold flush_ptr. rewrite V. cbn [negb andb].
  replace (0 <=? p_lastx (c_ptr c)) with true by (symmetry; apply Z.leb_le; exact L).
  rewrite U. cbn [Z.eqb fst snd].
  assert (T : 0 < (if now mod 1000 * 1000 =? 0 then 1 else now mod 1000 * 1000) < 1000000).
  { destruct (now mod 1000 * 1000 =? 0) eqn:E; [lia|]. apply Z.eqb_neq in E. lia. }
  destruct c as [? ? ? ? ? ? ? [] ? ? ?]; cbn in *. repeat split; auto; try lia.
  right. cbn. split; [exact T|]. split; [lia|].
  destruct (now mod 1000 * 1000 =? 0) eqn:E; lia.
Qed.

(* a remembered position of a connection that may deliver is delivered - exactly once, with the
   remembered mask and position - by two visits of rfbUpdateClient that are more than
   deferPtrUpdateTime + 1 ms apart (whether or not the timer was already running) *)
Lemma defer_eventually : forall cfg now t c,
  c_viewonly c = false -> 0 <= p_lastx (c_ptr c) -> timer_ok now c ->
  0 <= now -> 0 <= g_deferptr cfg -> g_deferptr cfg + 2 <= t ->
  let '(c1, e1) := flush_ptr cfg now c in
  let '(c2, e2) := flush_ptr cfg (now + t) c1 in
  e1 ++ e2 = [EvPtr (c_id c) (p_lastbtn (c_ptr c)) (p_lastx (c_ptr c)) (p_lasty (c_ptr c))] /\
  p_lastx (c_ptr c2) = -1 /\ c_id c2 = c_id c /\ c_viewonly c2 = false.
Proof.
  intros cfg now t c V L T N D Ht.
  destruct c as [id st cl mi vo au inn [lb lx ly ds du] sw sh kl]. cbn in V, L, T. subst vo.
  unfold timer_ok in T. cbn in T.
  unfold flush_ptr at 1. cbn [c_viewonly c_ptr p_lastx p_lasty p_lastbtn p_defsec p_defusec negb andb].
  replace (0 <=? lx) with true by (symmetry; apply Z.leb_le; exact L).
  destruct (du =? 0) eqn:E0.
  - (* timer starts now, second visit delivers *)
    set (u0 := if now mod 1000 * 1000 =? 0 then 1 else now mod 1000 * 1000).
    assert (U0 : 0 < u0 < 1000000 /\ (u0 = now mod 1000 * 1000 \/ (u0 = 1 /\ now mod 1000 = 0)))
      by (unfold u0; destruct (now mod 1000 * 1000 =? 0) eqn:E; [apply Z.eqb_eq in E|apply Z.eqb_neq in E]; lia).
    unfold flush_ptr. cbn [c_viewonly c_ptr p_lastx p_lasty p_lastbtn p_defsec p_defusec negb andb set_ptr c_id].
    replace (0 <=? lx) with true by (symmetry; apply Z.leb_le; exact L).
    replace (u0 =? 0) with false by (symmetry; apply Z.eqb_neq; lia).
    replace (((now + t) / 1000 <? now / 1000) ||
             (g_deferptr cfg <? ((now + t) / 1000 - now / 1000) * 1000 + Z.quot ((now + t) mod 1000 * 1000 - u0) 1000))
      with true.
    + cbn. auto.
    + symmetry. apply orb_true_iff. right. apply Z.ltb_lt.
      destruct U0 as [U1 [U2|[U2 U3]]]; rewrite U2; lia.
  - apply Z.eqb_neq in E0. destruct T as [T|(T1 & T2 & T3)]; [contradiction|].
    destruct ((now / 1000 <? ds) ||
              (g_deferptr cfg <? (now / 1000 - ds) * 1000 + Z.quot (now mod 1000 * 1000 - du) 1000)) eqn:E1.
    + (* already expired: delivered at the first visit, nothing left for the second *)
      unfold flush_ptr. cbn [c_viewonly c_ptr p_lastx negb andb set_ptr c_id]. cbn. auto.
    + apply orb_false_iff in E1. destruct E1 as [E1 E2]. apply Z.ltb_ge in E1, E2.
      unfold flush_ptr. cbn [c_viewonly c_ptr p_lastx p_lasty p_lastbtn p_defsec p_defusec negb andb set_ptr c_id].
      replace (0 <=? lx) with true by (symmetry; apply Z.leb_le; exact L).
      replace (du =? 0) with false by (symmetry; apply Z.eqb_neq; exact E0).
      replace (((now + t) / 1000 <? ds) ||
               (g_deferptr cfg <? ((now + t) / 1000 - ds) * 1000 + Z.quot ((now + t) mod 1000 * 1000 - du) 1000))
        with true.
      * cbn. auto.
      * symmetry. apply orb_true_iff. right. apply Z.ltb_lt. lia.
Qed.

Section DeferRun.
Variable ext_cut : bool -> clipst -> list Z -> clipst * list utf8cb * bool.

(* one rfbProcessEvents pass in which the connection has nothing to read; the others are quiet *)
Lemma process_idle_flush : forall s l1 c l2,
  s_clients s = l1 ++ c :: l2 -> Forall (quiet (c_id c)) l1 -> Forall (quiet (c_id c)) l2 ->
  c_closed c = false -> st_bytes (c_in c) = [] -> st_eof (c_in c) = false ->
  exists l1' l2' i',
    Forall (quiet (c_id c)) l1' /\ Forall (quiet (c_id c)) l2' /\ seq i' (c_in c) /\
    process ext_cut s =
      (mkSrv (s_cfg s) (l1' ++ fst (flush_ptr (s_cfg s) (s_now s) (set_in c i')) :: l2') (s_owner s) (s_now s),
       snd (flush_ptr (s_cfg s) (s_now s) (set_in c i'))).
Proof.
  intros s l1 c l2 Hs Q1 Q2 Hcl Hb Ef.
  unfold process. rewrite Hs, wake_all_app.
  destruct (wake_all_quiet _ _ Q1) as [R1 Q1']. destruct (wake_all_quiet _ _ Q2) as [R2 Q2'].
  set (l1' := fst (wake_all l1)) in *. rewrite R1.
  cbn [wake_all]. rewrite Hcl.
  destruct (wake_spec (c_in c)) as [Ws Wr].
  destruct (wake (c_in c)) as [i' rdy]. cbn [fst snd] in *.
  assert (Hrdy : rdy = false) by (rewrite Wr; unfold readable; rewrite Hb; exact Ef).
  rewrite Hrdy. clear Wr Hrdy.
  rewrite (surjective_pairing (wake_all l2)), R2. set (l2' := fst (wake_all l2)) in *.
  set (c1 := set_in c i').
  cbn [fst snd]. cbn [app handle_all s_clients s_cfg s_now s_owner].
  rewrite flush_all_app, (flush_all_quiet _ _ _ _ Q1'). cbn [fst snd flush_all].
  destruct (flush_ptr (s_cfg s) (s_now s) c1) as [c2 e2] eqn:Fp.
  rewrite (flush_all_quiet _ _ _ _ Q2'). cbn [fst snd app].
  assert (Hc2 : c_closed c2 = false).
  { replace c2 with (fst (flush_ptr (s_cfg s) (s_now s) c1)) by (rewrite Fp; reflexivity).
    unfold flush_ptr. repeat match goal with |- context [if ?x then _ else _] => destruct x end;
      cbn [fst]; destruct c; cbn in *; exact Hcl. }
  rewrite reap_open.
  2:{ apply Forall_app. split; [eapply quiet_open; exact Q1'|].
      constructor; [exact Hc2|eapply quiet_open; exact Q2']. }
  exists l1', l2', i'. split; [exact Q1'|]. split; [exact Q2'|]. split; [exact Ws|].
  fold c1. rewrite Fp. cbn [fst snd app]. rewrite ?app_nil_r. reflexivity.
Qed.

(* run level: a connection that holds a remembered position and sends nothing more gets it
   delivered by two passes that are more than deferPtrUpdateTime + 1 ms apart - with any number of
   other (quiet) connections present *)
Lemma defer_eventually_run : forall s l1 c l2 t,
  s_clients s = l1 ++ c :: l2 -> Forall (quiet (c_id c)) l1 -> Forall (quiet (c_id c)) l2 ->
  c_closed c = false -> st_bytes (c_in c) = [] -> st_eof (c_in c) = false ->
  c_viewonly c = false -> 0 <= p_lastx (c_ptr c) -> timer_ok (s_now s) c ->
  0 <= s_now s -> 0 <= g_deferptr (s_cfg s) -> g_deferptr (s_cfg s) + 2 <= t ->
  snd (run ext_cut s [OProcess; OTick t; OProcess])
  = [EvPtr (c_id c) (p_lastbtn (c_ptr c)) (p_lastx (c_ptr c)) (p_lasty (c_ptr c))].
Proof.
  intros s l1 c l2 t Hs Q1 Q2 Hcl Hb Ef V L T N D Ht.
  cbn [run step].
  destruct (process_idle_flush s l1 c l2 Hs Q1 Q2 Hcl Hb Ef) as (l1' & l2' & i' & Q1' & Q2' & Si & P).
  rewrite P. cbn [s_cfg s_clients s_owner s_now].
  set (c0 := set_in c i').
  assert (V0 : c_viewonly c0 = false) by (destruct c; exact V).
  assert (L0 : 0 <= p_lastx (c_ptr c0)) by (destruct c; exact L).
  assert (T0 : timer_ok (s_now s) c0) by (destruct c; exact T).
  pose proof (defer_eventually (s_cfg s) (s_now s) t c0 V0 L0 T0 N D Ht) as E.
  destruct (flush_ptr (s_cfg s) (s_now s) c0) as [c1 e1] eqn:F1. cbn [fst snd].
  assert (Hid1 : c_id c1 = c_id c).
  { replace c1 with (fst (flush_ptr (s_cfg s) (s_now s) c0)) by (rewrite F1; reflexivity).
    rewrite flush_ptr_id. destruct c; reflexivity. }
  assert (Hcl1 : c_closed c1 = false /\ st_bytes (c_in c1) = [] /\ st_eof (c_in c1) = false).
  { replace c1 with (fst (flush_ptr (s_cfg s) (s_now s) c0)) by (rewrite F1; reflexivity).
    destruct Si as [Sb Se].
    unfold flush_ptr. repeat match goal with |- context [if ?x then _ else _] => destruct x end;
      cbn [fst]; destruct c; cbn in *; repeat split; congruence. }
  destruct Hcl1 as (Hcl1 & Hb1 & Ef1).
  rewrite <- Hid1 in Q1', Q2'.
  destruct (process_idle_flush (mkSrv (s_cfg s) (l1' ++ c1 :: l2') (s_owner s) (s_now s + t)) l1' c1 l2'
              eq_refl Q1' Q2' Hcl1 Hb1 Ef1) as (l1'' & l2'' & i'' & _ & _ & Si2 & P2).
  rewrite P2. cbn [s_cfg s_now snd].
  (* the pointer state does not depend on the input buffer *)
  assert (Fi : forall cfg now x i, snd (flush_ptr cfg now (set_in x i)) = snd (flush_ptr cfg now x)).
  { intros cfg now x i. unfold flush_ptr. destruct x; cbn.
    repeat match goal with |- context [if ?q then _ else _] => destruct q end; reflexivity. }
  rewrite Fi. destruct (flush_ptr (s_cfg s) (s_now s + t) c1) as [c2 e2]. cbn [snd].
  destruct E as (E & _). rewrite app_nil_r.
  replace (c_id c0) with (c_id c) in E by (destruct c; reflexivity).
  replace (c_ptr c0) with (c_ptr c) in E by (destruct c; reflexivity). exact E.
Qed.

(* ---- one OSend versus the same messages in two OSends with passes in between ---- *)
(* In this model a pass that finds a message incomplete with nothing more in flight is a peer that
   stalls beyond maxClientWait: rfbReadExact times out and the connection is closed (as in the
   library).  Cutting the stream INSIDE a message across passes therefore is not neutral; cutting
   it at a message boundary is: *)
Lemma run_app : forall a b s,
  run ext_cut s (a ++ b) =
  (fst (run ext_cut (fst (run ext_cut s a)) b), snd (run ext_cut s a) ++ snd (run ext_cut (fst (run ext_cut s a)) b)).
Proof.
  induction a as [|o r IH]; intros b s; cbn [app run].
  - cbn [fst snd app]. destruct (run ext_cut s b); reflexivity.
  - destruct (step ext_cut s o) as [s1 e1]. rewrite IH.
    destruct (run ext_cut s1 r) as [s2 e2]. cbn [fst snd].
    destruct (run ext_cut s2 b) as [s3 e3]. cbn [fst snd]. rewrite app_assoc. reflexivity.
Qed.

Lemma once_in_order_state : forall msgs n s c0 l1 c l2,
  s_clients s = l1 ++ c :: l2 -> Forall (quiet (c_id c0)) l1 -> Forall (quiet (c_id c0)) l2 ->
  cinv c0 c -> ptr_allowed (s_owner s) (c_id c0) = true ->
  g_deferptr (s_cfg s) = 0 -> Forall wmsg_ok msgs ->
  st_bytes (c_in c) = concat (map enc_w msgs) -> st_eof (c_in c) = false ->
  (length msgs <= n)%nat ->
  exists l1' c' l2' o',
    run ext_cut s (processes n) =
      (mkSrv (s_cfg s) (l1' ++ c' :: l2') o' (s_now s), concat (map (expected (s_cfg s) c0) msgs)) /\
    Forall (quiet (c_id c0)) l1' /\ Forall (quiet (c_id c0)) l2' /\ cinv c0 c' /\
    st_bytes (c_in c') = [] /\ st_eof (c_in c') = false /\ ptr_allowed o' (c_id c0) = true.
Proof.
  induction msgs as [|w msgs IH]; intros n s c0 l1 c l2 Hs Q1 Q2 I A D K Hb Ef Hn.
  - cbn [map concat] in *. clear Hn D K. revert s l1 c l2 Hs Q1 Q2 I A Hb Ef.
    induction n as [|n IHn]; intros s l1 c l2 Hs Q1 Q2 I A Hb Ef; cbn [processes run].
    + exists l1, c, l2, (s_owner s). rewrite <- Hs. split; [destruct s; reflexivity|]. repeat split; auto; apply I.
    + cbn [step]. destruct (process_multi_idle ext_cut s c0 l1 c l2 Hs Q1 Q2 I Hb Ef) as (l1' & c' & l2' & P & Q1' & Q2' & I' & B' & E').
      rewrite P.
      destruct (IHn (mkSrv (s_cfg s) (l1' ++ c' :: l2') (s_owner s) (s_now s)) l1' c' l2' eq_refl Q1' Q2' I' A B' E')
        as (l1'' & c'' & l2'' & o'' & R & X).
      cbn [s_cfg s_now] in R. rewrite R. exists l1'', c'', l2'', o''. split; [reflexivity|exact X].
  - destruct n as [|n]; [cbn in Hn; lia|]. cbn [processes run step].
    inversion K as [|? ? Kw Kr]; subst. cbn [map concat] in Hb.
    destruct (process_multi_msg ext_cut s c0 l1 c l2 w _ Hs Q1 Q2 I A D Kw Hb Ef)
      as (l1' & c' & l2' & o' & P & Q1' & Q2' & I' & B' & E' & A').
    rewrite P.
    destruct (IH n (mkSrv (s_cfg s) (l1' ++ c' :: l2') o' (s_now s)) c0 l1' c' l2' eq_refl Q1' Q2' I' A' D Kr B' E')
      as (l1'' & c'' & l2'' & o'' & R & X); [cbn in Hn; lia|].
    cbn [s_cfg s_now] in R. rewrite R. exists l1'', c'', l2'', o''. cbn [map concat]. split; [reflexivity|exact X].
Qed.

Lemma map_id_on : forall (A : Type) (f : A -> A) (l : list A), (forall x, In x l -> f x = x) -> map f l = l.
Proof.
  intros A f l H. induction l as [|x r IH]; cbn; [reflexivity|].
  rewrite H by (left; reflexivity). f_equal. apply IH. intros y Hy. apply H. right. exact Hy.
Qed.

(* the peer sends [bytes] to an idle connection *)
Lemma osend_idle : forall s c0 l1 c l2 bytes,
  s_clients s = l1 ++ c :: l2 -> Forall (quiet (c_id c0)) l1 -> Forall (quiet (c_id c0)) l2 ->
  cinv c0 c -> st_bytes (c_in c) = [] -> st_eof (c_in c) = false ->
  exists c', step ext_cut s (OSend (c_id c0) [bytes]) = (mkSrv (s_cfg s) (l1 ++ c' :: l2) (s_owner s) (s_now s), []) /\
             cinv c0 c' /\ st_bytes (c_in c') = bytes /\ st_eof (c_in c') = false.
Proof.
  intros s c0 l1 c l2 bytes Hs Q1 Q2 I Hb Ef. pose proof I as (Hid & _).
  exists (push_flight (map Frag [bytes]) c). cbn [step]. split; [|split; [|split]].
  - f_equal. f_equal. rewrite Hs. unfold map_client. rewrite map_app. cbn [map]. rewrite Hid, Z.eqb_refl.
    f_equal; [|f_equal].
    + apply map_id_on. intros q Hq. rewrite Forall_forall in Q1. destruct (Q1 q Hq) as (Hne & _).
      replace (c_id q =? c_id c0) with false by (symmetry; apply Z.eqb_neq; exact Hne). reflexivity.
    + apply map_id_on. intros q Hq. rewrite Forall_forall in Q2. destruct (Q2 q Hq) as (Hne & _).
      replace (c_id q =? c_id c0) with false by (symmetry; apply Z.eqb_neq; exact Hne). reflexivity.
  - unfold push_flight. apply cinv_set_in. exact I.
  - unfold push_flight. rewrite c_in_set_in. unfold st_bytes, st_eof in *. cbn [kbuf keof flight].
    destruct (keof (c_in c)); [discriminate|]. cbn [orb] in Ef.
    rewrite fl_bytes_app, Ef, fl_bytes_frags, app_assoc, Hb. cbn. rewrite app_nil_r. reflexivity.
  - unfold push_flight. rewrite c_in_set_in. unfold st_eof in *. cbn [kbuf keof flight].
    rewrite fl_fin_app, fl_fin_frags, orb_false_r. exact Ef.
Qed.

(* the same messages sent at once, or in two OSends separated by any number of passes: the same
   callbacks, exactly once each, in order *)
Lemma two_sends_with_passes_between : forall msgs1 msgs2 n1 n2 s c0 l1 c l2,
  s_clients s = l1 ++ c :: l2 -> Forall (quiet (c_id c0)) l1 -> Forall (quiet (c_id c0)) l2 ->
  cinv c0 c -> ptr_allowed (s_owner s) (c_id c0) = true ->
  g_deferptr (s_cfg s) = 0 -> Forall wmsg_ok msgs1 -> Forall wmsg_ok msgs2 ->
  st_bytes (c_in c) = [] -> st_eof (c_in c) = false ->
  (length msgs1 <= n1)%nat -> (length msgs2 <= n2)%nat ->
  let id := c_id c0 in
  let want := concat (map (expected (s_cfg s) c0) (msgs1 ++ msgs2)) in
  snd (run ext_cut s (OSend id [concat (map enc_w (msgs1 ++ msgs2))] :: processes (n1 + n2))) = want /\
  snd (run ext_cut s ((OSend id [concat (map enc_w msgs1)] :: processes n1) ++
                      (OSend id [concat (map enc_w msgs2)] :: processes n2))) = want.
Proof.
  intros msgs1 msgs2 n1 n2 s c0 l1 c l2 Hs Q1 Q2 I A D K1 K2 Hb Ef Hn1 Hn2. cbv zeta. split.
  - cbn [run]. destruct (osend_idle s c0 l1 c l2 (concat (map enc_w (msgs1 ++ msgs2))) Hs Q1 Q2 I Hb Ef)
      as (c' & St & I' & B' & E'). rewrite St.
    pose proof (once_in_order_multi ext_cut (msgs1 ++ msgs2) (n1 + n2)
                  (mkSrv (s_cfg s) (l1 ++ c' :: l2) (s_owner s) (s_now s)) c0 l1 c' l2 eq_refl Q1 Q2 I' A D
                  ltac:(apply Forall_app; split; assumption) B' E' ltac:(rewrite app_length; lia)) as R.
    cbn [s_cfg] in R.
    destruct (run ext_cut (mkSrv (s_cfg s) (l1 ++ c' :: l2) (s_owner s) (s_now s)) (processes (n1 + n2))) as [s2 e2].
    cbn [snd app] in *. exact R.
  - rewrite run_app. cbn [snd].
    assert (R1 : exists l1' c' l2' o',
              run ext_cut s (OSend (c_id c0) [concat (map enc_w msgs1)] :: processes n1) =
                (mkSrv (s_cfg s) (l1' ++ c' :: l2') o' (s_now s), concat (map (expected (s_cfg s) c0) msgs1)) /\
              Forall (quiet (c_id c0)) l1' /\ Forall (quiet (c_id c0)) l2' /\ cinv c0 c' /\
              st_bytes (c_in c') = [] /\ st_eof (c_in c') = false /\ ptr_allowed o' (c_id c0) = true).
    { cbn [run]. destruct (osend_idle s c0 l1 c l2 (concat (map enc_w msgs1)) Hs Q1 Q2 I Hb Ef)
        as (c' & St & I' & B' & E'). rewrite St.
      destruct (once_in_order_state msgs1 n1 (mkSrv (s_cfg s) (l1 ++ c' :: l2) (s_owner s) (s_now s))
                  c0 l1 c' l2 eq_refl Q1 Q2 I' A D K1 B' E' Hn1) as (l1' & c'' & l2' & o' & R & X).
      cbn [s_cfg s_now] in R. rewrite R. exists l1', c'', l2', o'. cbn [app]. split; [reflexivity|exact X]. }
    destruct R1 as (l1' & c' & l2' & o' & R1 & Q1' & Q2' & I' & B' & E' & A').
    rewrite R1. cbn [fst snd].
    cbn [run]. destruct (osend_idle (mkSrv (s_cfg s) (l1' ++ c' :: l2') o' (s_now s)) c0 l1' c' l2'
                          (concat (map enc_w msgs2)) eq_refl Q1' Q2' I' B' E')
      as (c'' & St & I'' & B'' & E''). rewrite St. cbn [s_cfg s_owner s_now].
    pose proof (once_in_order_multi ext_cut msgs2 n2
                  (mkSrv (s_cfg s) (l1' ++ c'' :: l2') o' (s_now s)) c0 l1' c'' l2' eq_refl Q1' Q2' I'' A' D K2 B'' E'' Hn2) as R.
    cbn [s_cfg] in R.
    destruct (run ext_cut (mkSrv (s_cfg s) (l1' ++ c'' :: l2') o' (s_now s)) (processes n2)) as [s3 e3].
    cbn [snd app] in *. rewrite R, map_app, concat_app. reflexivity.
Qed.

End DeferRun.
