(* C19 - TightVNC extension: every message type is gated, and every file-system call of every handler is below the transfer root *)
From Coq Require Import ZArith List Bool Lia.
From LV Require Import Gen.Consts_C19 Session.FileXferDefs Session.FileXferProofs Session.FileXferTight.
Import ListNotations.
Local Open Scope Z_scope.

Definition v_tight_tree : tvariant := {| f19 := true; fstale := true |}.       (* the tree (fix commits 9f956a4, 7654ac8) *)
Definition v_tight_prefix : tvariant := {| f19 := true; fstale := false |}.    (* the flow before 7654ac8 *)

Lemma conv_below : forall v root n p, f19 v = true -> conv v root n = Some p -> below_root root p.
Proof.
  intros v root n p Hf. unfold conv, convert_path. rewrite Hf. cbn [andb].
  destruct (has_dotdot_component (cstr n)) eqn:E; try discriminate.
  destruct (starts_with_slash (cstr n)) eqn:Es; try discriminate. cbn [orb negb].
  destruct ((Zlength (cstr n) =? 0) || (Zlength (cstr n) + Zlength root >? C19_PATH_MAX - 1)); try discriminate.
  intro H; inversion H; subst.
  unfold starts_with_slash in Es. destruct (cstr n) as [|c rel] eqn:Ec; try discriminate.
  apply Z.eqb_eq in Es. subst c. exists rel. split; auto.
  unfold stays_below_root. unfold has_dotdot_component in E.
  destruct (walk_no_dotdot _ O E) as [d' Hd]. rewrite Hd. reflexivity.
Qed.

(* the stored upload name is empty or below the root *)
Definition name_ok (root : str) (st : tstate) : Prop := up_name st = [] \/ below_root root (up_name st).

Lemma close_undone_ok : forall root st ops st',
  name_ok root st -> close_undone st = (ops, st') ->
  Forall (fun o => below_root root (tfs_path o)) ops /\ name_ok root st'.
Proof.
  intros root st ops st' Hn. unfold close_undone. destruct (up_active st).
  - intro H; inversion H; subst. split; [|left; reflexivity].
    destruct Hn as [Hn|Hn]; [rewrite Hn; constructor|].
    destruct (up_name st) eqn:E; constructor; auto.
  - intro H; inversion H; subst. split; [constructor|exact Hn].
Qed.

Lemma step_ok : forall root st m ops st',
  name_ok root st -> tight_step v_tight_tree root st m = (ops, st') ->
  Forall (fun o => below_root root (tfs_path o)) ops /\ name_ok root st'.
Proof.
  intros root st m ops st' Hn.
  assert (Nil : forall s0, name_ok root s0 -> (@nil tfs, s0) = (ops, st') ->
                Forall (fun o => below_root root (tfs_path o)) ops /\ name_ok root st').
  { intros s0 H0 H. inversion H; subst. split; [constructor|exact H0]. }
  destruct m; cbn [tight_step].
  - destruct (len_ok name); [|apply Nil; auto].
    destruct (conv v_tight_tree root name) as [p|] eqn:Ec; [|apply Nil; auto].
    intro H; inversion H; subst. split; [repeat constructor; exact (conv_below v_tight_tree root name p eq_refl Ec)|auto].
  - destruct (len_ok name); [|apply Nil; auto].
    destruct (conv v_tight_tree root name) as [p|] eqn:Ec; [|apply Nil; auto].
    assert (B : below_root root p) by exact (conv_below v_tight_tree root name p eq_refl Ec).
    intro H; inversion H; subst. split; [repeat constructor; auto|auto].
  - destruct (len_ok name); [|apply Nil; auto].
    destruct (conv v_tight_tree root name) as [p|] eqn:Ec.
    + assert (B : below_root root p) by exact (conv_below v_tight_tree root name p eq_refl Ec).
      intro H; inversion H; subst. split; [repeat constructor; auto|right; exact B].
    + apply Nil. left. reflexivity.
  - destruct fails; [apply close_undone_ok; auto|apply Nil; auto].
  - intro H; inversion H; subst. split.
    + destruct Hn as [Hn|Hn]; [rewrite Hn; constructor|]. destruct (up_name st) eqn:E; constructor; auto.
    + exact Hn.
  - destruct has_reason; [apply close_undone_ok; auto|apply Nil; auto].
  - apply Nil; auto.
  - destruct (Zlength name >=? C19_PATH_MAX - 1); [apply Nil; auto|].
    destruct (conv v_tight_tree root name) as [p|] eqn:Ec; [|apply Nil; auto].
    intro H; inversion H; subst. split; [repeat constructor; exact (conv_below v_tight_tree root name p eq_refl Ec)|auto].
Qed.

(* C19_tight_every_entry_confined (the tree): for every sequence of extension messages of every
   type, every name, every outcome of creat/write: every path handed to the file system is
   root ++ "/" ++ rel with rel never climbing above the root *)
Theorem tight_every_entry_confined : forall reg en vo root ms st,
  name_ok root st ->
  Forall (fun o => below_root root (tfs_path o)) (tight_run v_tight_tree reg en vo root st ms).
Proof.
  intros reg en vo root ms. induction ms as [|m rest IH]; intros st Hn; cbn [tight_run]; [constructor|].
  destruct (tight_gate reg en vo); [|constructor].
  destruct (tight_step v_tight_tree root st m) as [ops st'] eqn:E.
  destruct (step_ok _ _ _ _ _ Hn E) as [H1 H2]. apply Forall_app. split; auto.
Qed.

(* every message type is gated: nothing unless registered, switched on and not view-only *)
Theorem tight_every_entry_gated : forall v reg en vo root st ms,
  tight_gate reg en vo = false -> tight_run v reg en vo root st ms = [].
Proof. intros. destruct ms; cbn [tight_run]; auto. rewrite H. reflexivity. Qed.

(* before 7654ac8: the name of a refused upload request stayed in rtcp->rcft.rcfu.fName; a later
   rfbFileUploadFailed / completion message unlinks / utimes that unconverted name (F19b):
   upload "/a" (created), upload "/../x" (refused), upload-failed  ->  unlink("/../x") *)
Lemma tight_stale_name_w :
  tight_run v_tight_prefix true true false [47; 114] tstate0
    [TUpload [47; 97] true; TUpload [47; 46; 46; 47; 120] true; TUploadFailed true]
  = [TCreat [47; 114; 47; 97]; TUnlink [47; 46; 46; 47; 120]].
Proof. vm_compute. reflexivity. Qed.

Theorem tight_every_entry_confined_refuted : exists root ms o,
  In o (tight_run v_tight_prefix true true false root tstate0 ms) /\ ~ below_root root (tfs_path o).
Proof.
  exists [47; 114], [TUpload [47; 97] true; TUpload [47; 46; 46; 47; 120] true; TUploadFailed true], (TUnlink [47; 46; 46; 47; 120]).
  split. { rewrite tight_stale_name_w. right; left; reflexivity. }
  intros [rel [H _]]. simpl in H. inversion H.
Qed.

Example tight_confined_nonvacuous :
  tight_run v_tight_tree true true false [47; 114] tstate0
    [TList [47]; TUpload [47; 97] true; TUploadDone; TMkdir [47; 100]; TDownload [47; 97]]
  = [TOpendir [47; 114; 47]; TCreat [47; 114; 47; 97]; TUtime [47; 114; 47; 97]; TMkdirOp [47; 114; 47; 100];
     TStat [47; 114; 47; 97]; TOpenR [47; 114; 47; 97]].
Proof. vm_compute. reflexivity. Qed.

(* ------------------------------------------------------------------ arguments and initialisation *)
Lemma init_idem : forall env st, t_initted st = true -> init_ft env st = st.
Proof. intros env st H. unfold init_ft. rewrite H. reflexivity. Qed.

Lemma init_initted : forall env st, t_initted (init_ft env st) = true.
Proof. intros env st. unfold init_ft. destruct (t_initted st) eqn:E; auto. Qed.

Lemma set_root_flags : forall env p st, t_initted (snd (set_root env p st)) = t_initted st /\ t_enabled (snd (set_root env p st)) = t_enabled st.
Proof. intros. unfold set_root. destruct ((Zlength p =? 0) || (Zlength p >? C19_PATH_MAX - 1) || negb (dir_ok env p)); simpl; auto. Qed.

Lemma process_arg_initted : forall env st argv, t_initted (snd (process_arg env st argv)) = true.
Proof.
  intros env st argv. unfold process_arg. pose proof (init_initted env st) as Hi.
  destruct argv as [|a tl]; simpl; auto.
  destruct (list_eqb a s_ftproot).
  - destruct tl as [|p tl2]; simpl; auto.
    pose proof (set_root_flags env p (init_ft env st)) as [F _].
    destruct (set_root env p (init_ft env st)) as [ok st']. simpl in F. destruct ok; simpl; congruence.
  - destruct (list_eqb a s_disable); simpl; auto.
Qed.

(* once initialised and disabled, no argument enables transfer again *)
Lemma process_arg_keeps_disabled : forall env st argv,
  t_initted st = true -> t_enabled st = false -> t_enabled (snd (process_arg env st argv)) = false.
Proof.
  intros env st argv Hi He. unfold process_arg. rewrite (init_idem env st Hi).
  destruct argv as [|a tl]; simpl; auto.
  destruct (list_eqb a s_ftproot).
  - destruct tl as [|p tl2]; simpl; auto.
    pose proof (set_root_flags env p st) as [_ F].
    destruct (set_root env p st) as [ok st']. simpl in F. destruct ok; simpl; congruence.
  - destruct (list_eqb a s_disable); simpl; auto.
Qed.

Lemma run_args_keeps_disabled : forall env args st,
  t_initted st = true -> t_enabled st = false -> t_enabled (run_args env st args) = false.
Proof.
  intros env args. remember (length args) as n eqn:Hn. revert args Hn.
  induction n as [n IH] using lt_wf_ind. intros args Hn st Hi He.
  destruct args as [|a tl]; [exact He|]. cbn [run_args].
  pose proof (process_arg_initted env st (a :: tl)) as Pi.
  pose proof (process_arg_keeps_disabled env st (a :: tl) Hi He) as Pe.
  destruct (process_arg env st (a :: tl)) as [h st']. simpl in Pi, Pe.
  assert (R1 : t_enabled (run_args env st' tl) = false).
  { eapply (IH (length tl)); eauto. subst n. simpl. lia. }
  destruct h as [|[|[|h]]]; auto.
  destruct tl as [|p tl2]; auto.
  eapply (IH (length tl2)); eauto. subst n. simpl. lia.
Qed.

(* C19_tight_disable_is_final: whatever the passwd entry and the file system say, in whatever state the
   extension is, after a -disablefiletransfer argument no later argument switches transfer on again *)
Theorem tight_disable_is_final : forall env st rest,
  t_enabled (run_args env st (s_disable :: rest)) = false.
Proof.
  intros env st rest. cbn [run_args].
  assert (P : process_arg env st (s_disable :: rest) =
              (1%nat, {| t_initted := t_initted (init_ft env st); t_enabled := false; t_root := t_root (init_ft env st) |})).
  { unfold process_arg. replace (list_eqb s_disable s_ftproot) with false by reflexivity.
    replace (list_eqb s_disable s_disable) with true by reflexivity. reflexivity. }
  rewrite P. apply run_args_keeps_disabled; simpl; auto. apply init_initted.
Qed.

(* -ftproot is not touched by arguments other than -ftproot once the extension is initialised *)
Lemma run_args_keeps_root : forall env args st,
  t_initted st = true -> ~ In s_ftproot args -> t_root (run_args env st args) = t_root st.
Proof.
  intros env args. remember (length args) as n eqn:Hn. revert args Hn.
  induction n as [n IH] using lt_wf_ind. intros args Hn st Hi Hno.
  destruct args as [|a tl]; [reflexivity|]. cbn [run_args].
  assert (Ha : list_eqb a s_ftproot = false).
  { destruct (list_eqb a s_ftproot) eqn:E; auto. apply list_eqb_eq in E. subst a. exfalso. apply Hno. left. reflexivity. }
  assert (P : exists h st', process_arg env st (a :: tl) = (h, st') /\ (h <= 1)%nat /\ t_initted st' = true /\ t_root st' = t_root st).
  { unfold process_arg. rewrite (init_idem env st Hi), Ha. destruct (list_eqb a s_disable); eexists; eexists; split; eauto. }
  destruct P as [h [st' [P [Hh [Pi Pr]]]]]. rewrite P.
  assert (R : t_root (run_args env st' tl) = t_root st).
  { rewrite <- Pr. eapply (IH (length tl)); eauto. subst n; simpl; lia. intro X. apply Hno. right. exact X. }
  destruct h as [|[|h]]; auto. lia.
Qed.

(* C19_tight_root_is_last_given: the transfer root is the directory of the last -ftproot option (an
   openable directory of admissible length), whatever came before and whatever the home directory is *)
Theorem tight_root_is_last_given : forall env st p rest,
  dir_ok env p = true -> 0 < Zlength p <= C19_PATH_MAX - 1 -> ~ In s_ftproot rest ->
  t_root (run_args env st (s_ftproot :: p :: rest)) = strip_slash p.
Proof.
  intros env st p rest Hd Hl Hno. cbn [run_args].
  assert (P : process_arg env st (s_ftproot :: p :: rest) =
              (2%nat, {| t_initted := t_initted (init_ft env st); t_enabled := t_enabled (init_ft env st); t_root := strip_slash p |})).
  { unfold process_arg. replace (list_eqb s_ftproot s_ftproot) with true by reflexivity.
    unfold set_root. rewrite Hd.
    replace ((Zlength p =? 0) || (Zlength p >? C19_PATH_MAX - 1) || negb true) with false; [reflexivity|].
    symmetry. apply orb_false_iff. split; [apply orb_false_iff; split|reflexivity].
    - apply Z.eqb_neq. lia.
    - rewrite Z.gtb_ltb. apply Z.ltb_ge. lia. }
  rewrite P. rewrite run_args_keeps_root; auto. simpl. apply init_initted.
Qed.

(* non-vacuity: unusable home directory, -disablefiletransfer followed by a valid -ftproot *)
Example tight_args_nonvacuous :
  let env := {| pw_home := Some [47; 120]; dir_ok := fun p => list_eqb (strip_slash p) [47; 114] |} in
  run_args env tinit0 [s_disable; s_ftproot; [47; 114]] = {| t_initted := true; t_enabled := false; t_root := [47; 114] |} /\
  run_args env tinit0 [s_ftproot; [47; 114; 47]; [45; 120]] = {| t_initted := true; t_enabled := true; t_root := [47; 114] |}.
Proof. vm_compute. auto. Qed.
