(* C19 - TightVNC extension: every message type is gated, and every file-system call of every handler is below the transfer root *)
From Coq Require Import ZArith List Bool Lia.
From LV Require Import Gen.Consts_C19 Session.FileXferDefs Session.FileXferProofs Session.FileXferTight.
Import ListNotations.
Local Open Scope Z_scope.

Definition v_tight_tree : tvariant := {| f19 := true; fstale := true |}.       (* the tree (fix commits 9f956a4, 7654ac8) *)
Definition v_tight_prefix : tvariant := {| f19 := true; fstale := false |}.    (* the flow before 7654ac8 *)

Lemma conv_below : forall v root n p, f19 v = true -> conv v root n = Some p -> below_root root p.
Proof.
  intros v root n p Hf. unfold conv, convert_path. rewrite Hf. cbn [andb].
  destruct (has_dotdot_component (cstr n)) eqn:E; try discriminate.
  destruct (starts_with_slash (cstr n)) eqn:Es; try discriminate. cbn [orb negb].
  destruct ((Zlength (cstr n) =? 0) || (Zlength (cstr n) + Zlength root >? C19_PATH_MAX - 1)); try discriminate.
  intro H; inversion H; subst.
  unfold starts_with_slash in Es. destruct (cstr n) as [|c rel] eqn:Ec; try discriminate.
  apply Z.eqb_eq in Es. subst c. exists rel. split; auto.
  unfold stays_below_root. unfold has_dotdot_component in E.
  destruct (walk_no_dotdot _ O E) as [d' Hd]. rewrite Hd. reflexivity.
Qed.

(* the stored upload name is empty or below the root *)
Definition name_ok (root : str) (st : tstate) : Prop := up_name st = [] \/ below_root root (up_name st).

Lemma close_undone_ok : forall root st ops st',
  name_ok root st -> close_undone st = (ops, st') ->
  Forall (fun o => below_root root (tfs_path o)) ops /\ name_ok root st'.
Proof.
  intros root st ops st' Hn. unfold close_undone. destruct (up_active st).
  - intro H; inversion H; subst. split; [|left; reflexivity].
    destruct Hn as [Hn|Hn]; [rewrite Hn; constructor|].
    destruct (up_name st) eqn:E; constructor; auto.
  - intro H; inversion H; subst. split; [constructor|exact Hn].
Qed.

Lemma step_ok : forall root st m ops st',
  name_ok root st -> tight_step v_tight_tree root st m = (ops, st') ->
  Forall (fun o => below_root root (tfs_path o)) ops /\ name_ok root st'.
Proof.
  intros root st m ops st' Hn.
  assert (Nil : forall s0, name_ok root s0 -> (@nil tfs, s0) = (ops, st') ->
                Forall (fun o => below_root root (tfs_path o)) ops /\ name_ok root st').
  { intros s0 H0 H. inversion H; subst. split; [constructor|exact H0]. }
  destruct m; cbn [tight_step].
  - destruct (len_ok name); [|apply Nil; auto].
    destruct (conv v_tight_tree root name) as [p|] eqn:Ec; [|apply Nil; auto].
    intro H; inversion H; subst. split; [repeat constructor; exact (conv_below v_tight_tree root name p eq_refl Ec)|auto].
  - destruct (len_ok name); [|apply Nil; auto].
    destruct (conv v_tight_tree root name) as [p|] eqn:Ec; [|apply Nil; auto].
    assert (B : below_root root p) by exact (conv_below v_tight_tree root name p eq_refl Ec).
    intro H; inversion H; subst. split; [repeat constructor; auto|auto].
  - destruct (len_ok name); [|apply Nil; auto].
    destruct (conv v_tight_tree root name) as [p|] eqn:Ec.
    + assert (B : below_root root p) by exact (conv_below v_tight_tree root name p eq_refl Ec).
      intro H; inversion H; subst. split; [repeat constructor; auto|right; exact B].
    + apply Nil. left. reflexivity.
  - destruct fails; [apply close_undone_ok; auto|apply Nil; auto].
  - intro H; inversion H; subst. split.
    + destruct Hn as [Hn|Hn]; [rewrite Hn; constructor|]. destruct (up_name st) eqn:E; constructor; auto.
    + exact Hn.
  - destruct has_reason; [apply close_undone_ok; auto|apply Nil; auto].
  - apply Nil; auto.
  - destruct (Zlength name >=? C19_PATH_MAX - 1); [apply Nil; auto|].
    destruct (conv v_tight_tree root name) as [p|] eqn:Ec; [|apply Nil; auto].
    intro H; inversion H; subst. split; [repeat constructor; exact (conv_below v_tight_tree root name p eq_refl Ec)|auto].
Qed.

(* C19_tight_every_entry_confined (the tree): for every sequence of extension messages of every
   type, every name, every outcome of creat/write: every path handed to the file system is
   root ++ "/" ++ rel with rel never climbing above the root *)
Theorem tight_every_entry_confined : forall reg en vo root ms st,
  name_ok root st ->
  Forall (fun o => below_root root (tfs_path o)) (tight_run v_tight_tree reg en vo root st ms).
Proof.
  intros reg en vo root ms. induction ms as [|m rest IH]; intros st Hn; cbn [tight_run]; [constructor|].
  destruct (tight_gate reg en vo); [|constructor].
  destruct (tight_step v_tight_tree root st m) as [ops st'] eqn:E.
  destruct (step_ok _ _ _ _ _ Hn E) as [H1 H2]. apply Forall_app. split; auto.
Qed.

(* every message type is gated: nothing unless registered, switched on and not view-only *)
Theorem tight_every_entry_gated : forall v reg en vo root st ms,
  tight_gate reg en vo = false -> tight_run v reg en vo root st ms = [].
Proof. intros. destruct ms; cbn [tight_run]; auto. rewrite H. reflexivity. Qed.

(* before 7654ac8: the name of a refused upload request stayed in rtcp->rcft.rcfu.fName; a later
   rfbFileUploadFailed / completion message unlinks / utimes that unconverted name (F19b):
   upload "/a" (created), upload "/../x" (refused), upload-failed  ->  unlink("/../x") *)
Lemma tight_stale_name_w :
  tight_run v_tight_prefix true true false [47; 114] tstate0
    [TUpload [47; 97] true; TUpload [47; 46; 46; 47; 120] true; TUploadFailed true]
  = [TCreat [47; 114; 47; 97]; TUnlink [47; 46; 46; 47; 120]].
Proof. vm_compute. reflexivity. Qed.

Theorem tight_every_entry_confined_refuted : exists root ms o,
  In o (tight_run v_tight_prefix true true false root tstate0 ms) /\ ~ below_root root (tfs_path o).
Proof.
  exists [47; 114], [TUpload [47; 97] true; TUpload [47; 46; 46; 47; 120] true; TUploadFailed true], (TUnlink [47; 46; 46; 47; 120]).
  split. { rewrite tight_stale_name_w. right; left; reflexivity. }
  intros [rel [H _]]. simpl in H. inversion H.
Qed.

Example tight_confined_nonvacuous :
  tight_run v_tight_tree true true false [47; 114] tstate0
    [TList [47]; TUpload [47; 97] true; TUploadDone; TMkdir [47; 100]; TDownload [47; 97]]
  = [TOpendir [47; 114; 47]; TCreat [47; 114; 47; 97]; TUtime [47; 114; 47; 97]; TMkdirOp [47; 114; 47; 100];
     TStat [47; 114; 47; 97]; TOpenR [47; 114; 47; 97]].
Proof. vm_compute. reflexivity. Qed.
