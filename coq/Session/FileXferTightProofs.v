(* C19 - TightVNC extension: every message type is gated per message, a dropped connection handles
   nothing, and every file-system call of every handler (incl. the close hook run by rfbCloseClient and
   the per-entry stat of a listing) is below the transfer root and fits its buffer - for the repaired flow;
   refuted by witnesses for the tree *)
From Coq Require Import ZArith List Bool Lia.
From LV Require Import Gen.Consts_C19 Session.FileXferDefs Session.FileXferProofs Session.FileXferTight.
Import ListNotations.
Local Open Scope Z_scope.

(* HEAD: 9f956a4, 7654ac8, fb3fc0a (= notes/fix_C19_4.diff) and 2214ab9 (= notes/fix_C19_5.diff) present *)
Definition v_tight_tree : tvariant := {| f19 := true; fstale := true; fundone := true; flist := true |}.
(* regression variants: the flow before fb3fc0a and 2214ab9 (F19c, F19d, F19f), before fb3fc0a only, before 2214ab9 only *)
Definition v_tight_pre45 : tvariant := {| f19 := true; fstale := true; fundone := false; flist := false |}.
Definition v_tight_pre4 : tvariant := {| f19 := true; fstale := true; fundone := false; flist := true |}.
Definition v_tight_pre5 : tvariant := {| f19 := true; fstale := true; fundone := true; flist := false |}.
(* the flow before 7654ac8 (regression variant) *)
Definition v_tight_prefix : tvariant := {| f19 := true; fstale := false; fundone := false; flist := false |}.

Lemma conv_below : forall v root n p, f19 v = true -> conv v root n = Some p -> below_root root p.
Proof.
  intros v root n p Hf. unfold conv, convert_path. rewrite Hf. cbn [andb].
  destruct (has_dotdot_component (cstr n)) eqn:E; try discriminate.
  destruct (starts_with_slash (cstr n)) eqn:Es; try discriminate. cbn [orb negb].
  destruct ((Zlength (cstr n) =? 0) || (Zlength (cstr n) + Zlength root >? C19_PATH_MAX - 1)); try discriminate.
  intro H; inversion H; subst.
  unfold starts_with_slash in Es. destruct (cstr n) as [|c rel] eqn:Ec; try discriminate.
  apply Z.eqb_eq in Es. subst c. exists rel. split; auto.
  unfold stays_below_root. unfold has_dotdot_component in E.
  destruct (walk_no_dotdot _ O E) as [d' Hd]. rewrite Hd. reflexivity.
Qed.

(* what a file-system call of the extension must satisfy *)
Definition op_ok (root : str) (o : tfs) : Prop :=
  match o with
  | TOverflow | TLostFd => False
  | TStatEntry d n => below_root root d /\ dot_entry n = false /\ Zlength d + 1 + Zlength n < C19_PATH_MAX
  | _ => below_root root (tfs_path o)
  end.

(* while the connection lives, the stored upload name is empty or below the root *)
Definition name_ok (root : str) (st : tstate) : Prop :=
  t_alive st = true -> up_name st = [] \/ below_root root (up_name st).

Lemma close_undone_ok : forall root st ops st',
  (up_active st = true -> up_name st = [] \/ below_root root (up_name st)) -> close_undone st = (ops, st') ->
  Forall (op_ok root) ops /\ up_active st' = false /\ t_alive st' = t_alive st /\
  (up_active st = true -> up_name st' = []) /\ (up_active st = false -> st' = st).
Proof.
  intros root st ops st' Hn. unfold close_undone. destruct (up_active st) eqn:Ea.
  - intro H; inversion H; subst. simpl. repeat split; auto; try discriminate.
    destruct (Hn eq_refl) as [Hx|Hx]; [rewrite Hx; constructor|].
    destruct (up_name st) eqn:E; constructor; auto; try (simpl; exact Hx).
  - intro H; inversion H; subst. repeat split; auto; try discriminate; try constructor.
Qed.

Lemma entry_ops_ok : forall root dir entries,
  below_root root dir -> Forall (op_ok root) (entry_ops v_tight_tree dir entries).
Proof.
  intros root dir entries Hd. induction entries as [|n rest IH]; cbn [entry_ops]; [constructor|].
  destruct (dot_entry n) eqn:Ed; auto.
  destruct (Zlength dir + 1 + Zlength n >=? C19_PATH_MAX) eqn:El; simpl; auto.
  constructor; auto. simpl. repeat split; auto. lia.
Qed.

Lemma step_ok : forall root st gm ops st',
  name_ok root st -> tight_step_g v_tight_tree root st gm = (ops, st') ->
  Forall (op_ok root) ops /\ name_ok root st'.
Proof.
  intros root st [g m] ops st' Hn. unfold tight_step_g. cbn [fst snd].
  destruct (t_alive st) eqn:Ea; cbn [negb].
  2:{ intro H; inversion H; subst. split; [constructor|]. intro X. congruence. }
  specialize (Hn Ea).
  assert (Hact : up_active st = true -> up_name st = [] \/ below_root root (up_name st)) by (intros _; exact Hn).
  assert (Drop : forall o s, drop st = (o, s) -> Forall (op_ok root) o /\ name_ok root s).
  { intros o s. unfold drop. destruct (close_undone st) as [o1 s1] eqn:Ec.
    destruct (close_undone_ok root st o1 s1 Hact Ec) as [F _].
    intro H; inversion H; subst. split; auto. intro X. simpl in X. discriminate. }
  assert (Nil : forall s0, name_ok root s0 -> (@nil tfs, s0) = (ops, st') -> Forall (op_ok root) ops /\ name_ok root st').
  { intros s0 H0 H. inversion H; subst. split; [constructor|exact H0]. }
  assert (Hst : name_ok root st) by (intros _; exact Hn).
  destruct g; [|apply Drop].
  destruct m; cbn [tight_step].
  - destruct (len_ok name); [|apply Nil; auto].
    destruct (conv v_tight_tree root name) as [p|] eqn:Ec; [|apply Nil; auto].
    assert (B : below_root root p) by exact (conv_below v_tight_tree root name p eq_refl Ec).
    intro H; inversion H; subst. split; auto. constructor; [exact B|apply entry_ops_ok; exact B].
  - destruct (len_ok name); [|apply Nil; auto].
    destruct (conv v_tight_tree root name) as [p|] eqn:Ec; [|apply Nil; auto].
    assert (B : below_root root p) by exact (conv_below v_tight_tree root name p eq_refl Ec).
    intro H; inversion H; subst. split; [repeat constructor; auto|auto].
  - destruct (len_ok name); [|apply Nil; auto].
    cbn [fundone v_tight_tree]. destruct (close_undone st) as [pre st1] eqn:Ecu.
    destruct (close_undone_ok root st pre st1 Hact Ecu) as [Fp [A1 [A2 _]]].
    destruct (conv v_tight_tree root name) as [p|] eqn:Ec.
    + assert (B : below_root root p) by exact (conv_below v_tight_tree root name p eq_refl Ec).
      rewrite A1. cbn [app]. intro H; inversion H; subst. split.
      * apply Forall_app. split; [exact Fp|repeat constructor; exact B].
      * intros _. simpl. right. exact B.
    + intro H; inversion H; subst. split; auto. intros _. simpl. left. reflexivity.
  - cbn [fundone v_tight_tree]. destruct (close_undone st) as [pre st1] eqn:Ecu.
    destruct (close_undone_ok root st pre st1 Hact Ecu) as [Fp [A1 [A2 _]]].
    unfold drop, close_undone. cbn [up_active]. rewrite A1.
    intro H; inversion H; subst. split.
    + rewrite app_nil_r. exact Fp.
    + intro X. simpl in X. discriminate.
  - destruct fails; [|apply Nil; auto].
    intro H. destruct (close_undone_ok root st ops st' Hact H) as [F [B1 [B2 [B3 B4]]]]. split; auto.
    intros _. destruct (up_active st) eqn:Eact; [left; apply B3; reflexivity|rewrite (B4 eq_refl); exact Hn].
  - intro H; inversion H; subst. split.
    + destruct Hn as [Hx|Hx]; [rewrite Hx; constructor|]. destruct (up_name st) eqn:E; constructor; auto; try (simpl; exact Hx).
    + intros _. simpl. exact Hn.
  - destruct has_reason; [|apply Nil; auto].
    intro H. destruct (close_undone_ok root st ops st' Hact H) as [F [B1 [B2 [B3 B4]]]]. split; auto.
    intros _. destruct (up_active st) eqn:Eact; [left; apply B3; reflexivity|rewrite (B4 eq_refl); exact Hn].
  - apply Nil; auto.
  - destruct (Zlength name >=? C19_PATH_MAX - 1); [apply Drop|].
    destruct (conv v_tight_tree root name) as [p|] eqn:Ec; [|apply Nil; auto].
    intro H; inversion H; subst. split; [repeat constructor; exact (conv_below v_tight_tree root name p eq_refl Ec)|auto].
  - apply Drop.
  - apply Drop.
Qed.

(* C19_tight_every_entry_confined (the tree since fb3fc0a and 2214ab9): for every sequence of
   extension messages of every type with the gate evaluated per message, every name (complete or cut
   short), every listing, every outcome of creat/write, and a connection dropped at any point: every
   file-system call - incl. the unlink of the close hook and the per-entry stat - is below the root
   (root ++ "/" ++ rel, rel never climbing above it) and no path buffer overflows *)
Theorem tight_every_entry_confined : forall root ms st,
  name_ok root st -> Forall (op_ok root) (tight_run v_tight_tree root st ms).
Proof.
  intros root ms. induction ms as [|m rest IH]; intros st Hn; cbn [tight_run]; [constructor|].
  destruct (tight_step_g v_tight_tree root st m) as [ops st'] eqn:E.
  destruct (step_ok _ _ _ _ _ Hn E) as [H1 H2]. apply Forall_app. split; auto.
Qed.

(* the gate is per message: with it closed no handler runs - the connection is dropped (close hook) -
   and a dropped connection handles nothing any more *)
Theorem tight_gate_closed : forall v root st m,
  t_alive st = true -> tight_step_g v root st (false, m) = drop st.
Proof. intros v root st m H. unfold tight_step_g. rewrite H. reflexivity. Qed.

Theorem tight_dead_is_silent : forall v root st ms, t_alive st = false -> tight_run v root st ms = [].
Proof.
  intros v root st ms. revert st. induction ms as [|m rest IH]; intros st H; cbn [tight_run]; auto.
  unfold tight_step_g. rewrite H. simpl. apply IH. exact H.
Qed.

Lemma drop_dead : forall st, t_alive (snd (drop st)) = false.
Proof. intros st. unfold drop. destruct (close_undone st). reflexivity. Qed.

(* the tree (F19c): an upload in progress, then a second upload header whose name stops after
   "/etc/x\0": rfbCloseClient runs the close hook, which unlinks the unconverted "/etc/x" *)
Lemma tight_closehook_w :
  tight_run v_tight_pre45 [47; 114] tstate0 [(true, TUpload [47; 97] true); (true, TUploadTrunc [47; 101; 116; 99; 47; 120; 0])]
  = [TCreat [47; 114; 47; 97]; TUnlink [47; 101; 116; 99; 47; 120]].
Proof. vm_compute. reflexivity. Qed.

(* the tree (F19d): listing a directory whose spelled-out path is long, with a long entry name *)
Lemma tight_overflow_w :
  In TOverflow (tight_run v_tight_pre45 [47; 114] tstate0
                 [(true, TList (47 :: repeat 46 3900) [repeat 110 250])]).
Proof. vm_compute. right. left. reflexivity. Qed.

Theorem tight_every_entry_confined_refuted : exists root ms o,
  In o (tight_run v_tight_pre45 root tstate0 ms) /\ ~ op_ok root o.
Proof.
  exists [47; 114], [(true, TUpload [47; 97] true); (true, TUploadTrunc [47; 101; 116; 99; 47; 120; 0])], (TUnlink [47; 101; 116; 99; 47; 120]).
  split. { rewrite tight_closehook_w. right; left; reflexivity. }
  intros [rel [H _]]. simpl in H. inversion H.
Qed.

Theorem tight_listing_overflow_refuted : exists root ms,
  In TOverflow (tight_run v_tight_pre45 root tstate0 ms).
Proof. exists [47; 114]. eexists. exact tight_overflow_w. Qed.

(* regression witness for 7654ac8 (F19b) *)
Lemma tight_stale_name_w :
  tight_run v_tight_prefix [47; 114] tstate0
    [(true, TUpload [47; 97] true); (true, TUpload [47; 46; 46; 47; 120] true); (true, TUploadFailed true)]
  = [TCreat [47; 114; 47; 97]; TUnlink [47; 46; 46; 47; 120]].
Proof. vm_compute. reflexivity. Qed.

Example tight_confined_nonvacuous :
  tight_run v_tight_tree [47; 114] tstate0
    [(true, TList [47] [[46]; [102]]); (true, TUpload [47; 97] true); (true, TUpload [47; 98] true); (true, TUploadDone);
     (true, TMkdir [47; 100]); (true, TDownload [47; 97]); (true, TUpload [47; 99] true); (false, TDownloadCancel); (true, TList [47] [])]
  = [TOpendir [47; 114; 47]; TStatEntry [47; 114; 47] [102]; TCreat [47; 114; 47; 97]; TUnlink [47; 114; 47; 97]; TCreat [47; 114; 47; 98];
     TUtime [47; 114; 47; 98]; TMkdirOp [47; 114; 47; 100]; TStat [47; 114; 47; 97]; TOpenR [47; 114; 47; 97];
     TCreat [47; 114; 47; 99]; TUnlink [47; 114; 47; 99]].
Proof. vm_compute. reflexivity. Qed.

(* ------------------------------------------------------------------ arguments and initialisation *)
Lemma init_idem : forall env st, t_initted st = true -> init_ft env st = st.
Proof. intros env st H. unfold init_ft. rewrite H. reflexivity. Qed.

Lemma init_initted : forall env st, t_initted (init_ft env st) = true.
Proof. intros env st. unfold init_ft. destruct (t_initted st) eqn:E; auto. Qed.

Lemma set_root_flags : forall env p st, t_initted (snd (set_root env p st)) = t_initted st /\ t_enabled (snd (set_root env p st)) = t_enabled st.
Proof. intros. unfold set_root. destruct ((Zlength p =? 0) || (Zlength p >? C19_PATH_MAX - 1) || negb (dir_ok env p)); simpl; auto. Qed.

Lemma process_arg_initted : forall env st argv, t_initted (snd (process_arg env st argv)) = true.
Proof.
  intros env st argv. unfold process_arg. pose proof (init_initted env st) as Hi.
  destruct argv as [|a tl]; simpl; auto.
  destruct (list_eqb a s_ftproot).
  - destruct tl as [|p tl2]; simpl; auto.
    pose proof (set_root_flags env p (init_ft env st)) as [F _].
    destruct (set_root env p (init_ft env st)) as [ok st']. simpl in F. destruct ok; simpl; congruence.
  - destruct (list_eqb a s_disable); simpl; auto.
Qed.

(* once initialised and disabled, no argument enables transfer again *)
Lemma process_arg_keeps_disabled : forall env st argv,
  t_initted st = true -> t_enabled st = false -> t_enabled (snd (process_arg env st argv)) = false.
Proof.
  intros env st argv Hi He. unfold process_arg. rewrite (init_idem env st Hi).
  destruct argv as [|a tl]; simpl; auto.
  destruct (list_eqb a s_ftproot).
  - destruct tl as [|p tl2]; simpl; auto.
    pose proof (set_root_flags env p st) as [_ F].
    destruct (set_root env p st) as [ok st']. simpl in F. destruct ok; simpl; congruence.
  - destruct (list_eqb a s_disable); simpl; auto.
Qed.

Lemma run_args_keeps_disabled : forall env args st,
  t_initted st = true -> t_enabled st = false -> t_enabled (run_args env st args) = false.
Proof.
  intros env args. remember (length args) as n eqn:Hn. revert args Hn.
  induction n as [n IH] using lt_wf_ind. intros args Hn st Hi He.
  destruct args as [|a tl]; [exact He|]. cbn [run_args].
  pose proof (process_arg_initted env st (a :: tl)) as Pi.
  pose proof (process_arg_keeps_disabled env st (a :: tl) Hi He) as Pe.
  destruct (process_arg env st (a :: tl)) as [h st']. simpl in Pi, Pe.
  assert (R1 : t_enabled (run_args env st' tl) = false).
  { eapply (IH (length tl)); eauto. subst n. simpl. lia. }
  destruct h as [|[|[|h]]]; auto.
  destruct tl as [|p tl2]; auto.
  eapply (IH (length tl2)); eauto. subst n. simpl. lia.
Qed.

(* C19_tight_disable_is_final: whatever the passwd entry and the file system say, in whatever state the
   extension is, after a -disablefiletransfer argument no later argument switches transfer on again *)
Theorem tight_disable_is_final : forall env st rest,
  t_enabled (run_args env st (s_disable :: rest)) = false.
Proof.
  intros env st rest. cbn [run_args].
  assert (P : process_arg env st (s_disable :: rest) =
              (1%nat, {| t_initted := t_initted (init_ft env st); t_enabled := false; t_root := t_root (init_ft env st); t_rootset := t_rootset (init_ft env st) |})).
  { unfold process_arg. replace (list_eqb s_disable s_ftproot) with false by reflexivity.
    replace (list_eqb s_disable s_disable) with true by reflexivity. reflexivity. }
  rewrite P. apply run_args_keeps_disabled; simpl; auto. apply init_initted.
Qed.

(* -ftproot is not touched by arguments other than -ftproot once the extension is initialised *)
Lemma run_args_keeps_root : forall env args st,
  t_initted st = true -> ~ In s_ftproot args -> t_root (run_args env st args) = t_root st.
Proof.
  intros env args. remember (length args) as n eqn:Hn. revert args Hn.
  induction n as [n IH] using lt_wf_ind. intros args Hn st Hi Hno.
  destruct args as [|a tl]; [reflexivity|]. cbn [run_args].
  assert (Ha : list_eqb a s_ftproot = false).
  { destruct (list_eqb a s_ftproot) eqn:E; auto. apply list_eqb_eq in E. subst a. exfalso. apply Hno. left. reflexivity. }
  assert (P : exists h st', process_arg env st (a :: tl) = (h, st') /\ (h <= 1)%nat /\ t_initted st' = true /\ t_root st' = t_root st).
  { unfold process_arg. rewrite (init_idem env st Hi), Ha. destruct (list_eqb a s_disable); eexists; eexists; split; eauto. }
  destruct P as [h [st' [P [Hh [Pi Pr]]]]]. rewrite P.
  assert (R : t_root (run_args env st' tl) = t_root st).
  { rewrite <- Pr. eapply (IH (length tl)); eauto. subst n; simpl; lia. intro X. apply Hno. right. exact X. }
  destruct h as [|[|h]]; auto. lia.
Qed.

(* C19_tight_root_is_last_given: the transfer root is the directory of the last -ftproot option (an
   openable directory of admissible length), whatever came before and whatever the home directory is *)
Theorem tight_root_is_last_given : forall env st p rest,
  dir_ok env p = true -> 0 < Zlength p <= C19_PATH_MAX - 1 -> ~ In s_ftproot rest ->
  t_root (run_args env st (s_ftproot :: p :: rest)) = strip_slash p.
Proof.
  intros env st p rest Hd Hl Hno. cbn [run_args].
  assert (P : process_arg env st (s_ftproot :: p :: rest) =
              (2%nat, {| t_initted := t_initted (init_ft env st); t_enabled := t_enabled (init_ft env st); t_root := strip_slash p; t_rootset := true |})).
  { unfold process_arg. replace (list_eqb s_ftproot s_ftproot) with true by reflexivity.
    unfold set_root. rewrite Hd.
    replace ((Zlength p =? 0) || (Zlength p >? C19_PATH_MAX - 1) || negb true) with false; [reflexivity|].
    symmetry. apply orb_false_iff. split; [apply orb_false_iff; split|reflexivity].
    - apply Z.eqb_neq. lia.
    - rewrite Z.gtb_ltb. apply Z.ltb_ge. lia. }
  rewrite P. rewrite run_args_keeps_root; auto. simpl. apply init_initted.
Qed.

(* non-vacuity: unusable home directory, -disablefiletransfer followed by a valid -ftproot *)
Example tight_args_nonvacuous :
  let env := {| pw_home := Some [47; 120]; dir_ok := fun p => list_eqb (strip_slash p) [47; 114] |} in
  run_args env tinit0 [s_disable; s_ftproot; [47; 114]] = {| t_initted := true; t_enabled := false; t_root := [47; 114]; t_rootset := true |} /\
  run_args env tinit0 [s_ftproot; [47; 114; 47]; [45; 120]] = {| t_initted := true; t_enabled := true; t_root := [47; 114]; t_rootset := true |}.
Proof. vm_compute. auto. Qed.

(* ------------------------------------------------------------------ audit follow-up (notes/audit_B.md, C19 items 2 and 7) *)
(* F19f: a second upload request while one is in progress loses the first descriptor (HandleFileUpload sets
   uploadFD = -1 without closing it); nothing closes it later - it outlives the connection.  The flow with
   fix commit fb3fc0a finishes the undone upload first (tight_every_entry_confined covers it: TLostFd is
   not op_ok) *)
Lemma tight_lost_fd_w :
  tight_run v_tight_pre45 [47; 114] tstate0 [(true, TUpload [47; 97] true); (true, TUpload [47; 98] true); (true, TClose)]
  = [TCreat [47; 114; 47; 97]; TLostFd; TCreat [47; 114; 47; 98]; TUnlink [47; 114; 47; 98]].
Proof. vm_compute. reflexivity. Qed.

Theorem tight_upload_fd_lost_refuted : exists root ms, In TLostFd (tight_run v_tight_pre45 root tstate0 ms).
Proof. eexists. eexists. rewrite tight_lost_fd_w. right; left; reflexivity. Qed.

(* F19e: "transfer enabled implies a non-empty root" is false: without a usable home directory (no passwd
   entry, or its pw_dir not an openable directory) and without -ftproot, InitFileTransfer leaves
   ftproot = "" and switches transfer on.  With the empty root [below_root] holds for EVERY absolute path
   without ".." components (below_root_empty): the confinement theorems then say nothing, the whole file
   system is offered.  ("-ftproot /" gives the same root, on purpose.) *)
Theorem tight_enabled_implies_root_refuted : exists env args,
  t_enabled (run_args env tinit0 args) = true /\ t_root (run_args env tinit0 args) = [].
Proof.
  exists {| pw_home := None; dir_ok := fun _ => true |}, [[45; 120]]. vm_compute. auto.
Qed.

Lemma below_root_empty : forall rel, stays_below_root (47 :: rel) = true -> below_root [] (47 :: rel).
Proof. intros rel H. exists rel. split; [reflexivity|exact H]. Qed.

(* with a usable home directory the initial root is that directory - non-empty *)
Theorem tight_root_nonempty_with_home : forall env c h,
  pw_home env = Some (c :: h) -> dir_ok env (c :: h) = true -> Zlength (c :: h) <= C19_PATH_MAX - 1 ->
  strip_slash (c :: h) <> [] ->
  t_enabled (init_ft env tinit0) = true /\ t_root (init_ft env tinit0) = strip_slash (c :: h).
Proof.
  intros env c h Hh Hd Hl _. unfold init_ft. cbn [tinit0 t_initted]. rewrite Hh. unfold set_root.
  rewrite Hd. cbn [negb orb].
  assert (E1 : Zlength (c :: h) =? 0 = false).
  { apply Z.eqb_neq. rewrite Zlength_cons. pose proof (Zlength_correct h). lia. }
  assert (E2 : Zlength (c :: h) >? C19_PATH_MAX - 1 = false).
  { rewrite Z.gtb_ltb. apply Z.ltb_ge. exact Hl. }
  rewrite E1, E2. cbn. split; reflexivity.
Qed.

(* ------------------------------------------------------------------ F19e repaired (tree since 2a9083d = notes/fix_C19_6.diff):
   transfer is on only if a root directory has been accepted *)
Definition root_justified (env : tenv) (st : tinit) : Prop :=
  t_rootset st = true -> exists p, dir_ok env p = true /\ 0 < Zlength p /\ t_root st = strip_slash p.

Lemma set_root_justified : forall env p st,
  root_justified env st -> root_justified env (snd (set_root env p st)).
Proof.
  intros env p st H. unfold set_root.
  destruct (Zlength p =? 0) eqn:E0; cbn [orb]; [exact H|].
  destruct (Zlength p >? C19_PATH_MAX - 1); cbn [orb]; [exact H|].
  destruct (dir_ok env p) eqn:Ed; cbn [negb]; [|exact H].
  intros _. exists p. cbn. repeat split; auto. apply Z.eqb_neq in E0. pose proof (Zlength_correct p). lia.
Qed.

Lemma init_justified : forall env st, root_justified env st -> root_justified env (init_ft env st).
Proof.
  intros env st H. unfold init_ft. destruct (t_initted st); [exact H|].
  set (st1 := {| t_initted := false; t_enabled := t_enabled st; t_root := []; t_rootset := false |}).
  assert (H1 : root_justified env st1) by (intro X; discriminate X).
  destruct (pw_home env) as [[|c h]|]; try (intro X; cbn in X; discriminate X).
  pose proof (set_root_justified env (c :: h) st1 H1) as H2. intro X. cbn in X. destruct (H2 X) as [p Hp]. exists p. exact Hp.
Qed.

Lemma process_arg_justified : forall env st argv,
  root_justified env st -> root_justified env (snd (process_arg env st argv)).
Proof.
  intros env st argv H. unfold process_arg. pose proof (init_justified env st H) as Hi.
  destruct argv as [|a tl]; [exact Hi|].
  destruct (list_eqb a s_ftproot).
  - destruct tl as [|p tl2]; [exact Hi|].
    pose proof (set_root_justified env p (init_ft env st) Hi) as Hs.
    destruct (set_root env p (init_ft env st)) as [ok st']. cbn [snd] in Hs. destruct ok; [exact Hs|exact Hi].
  - destruct (list_eqb a s_disable); [|exact Hi]. intro X. cbn in X. destruct (Hi X) as [p Hp]. exists p. exact Hp.
Qed.

Lemma run_args_justified : forall env args st, root_justified env st -> root_justified env (run_args env st args).
Proof.
  intros env args. remember (length args) as n eqn:Hn. revert args Hn.
  induction n as [n IH] using lt_wf_ind. intros args Hn st H.
  destruct args as [|a tl]; [exact H|]. cbn [run_args].
  pose proof (process_arg_justified env st (a :: tl) H) as Pj.
  destruct (process_arg env st (a :: tl)) as [h st']. cbn [snd] in Pj.
  assert (R1 : root_justified env (run_args env st' tl)).
  { eapply (IH (length tl)); eauto. subst n. simpl. lia. }
  destruct h as [|[|[|h]]]; auto.
  destruct tl as [|p tl2]; auto.
  eapply (IH (length tl2)); eauto. subst n. simpl. lia.
Qed.

(* with the repair: after any command line, transfer is on only with a root that is (the stripped name of) an
   openable directory - the user's home or a -ftproot argument; "-ftproot /" keeps working (strip_slash "/" = "") *)
Theorem tight_enabled_implies_root_fixed : forall env args,
  t_effective true (run_args env tinit0 args) = true ->
  exists p, dir_ok env p = true /\ 0 < Zlength p /\ t_root (run_args env tinit0 args) = strip_slash p.
Proof.
  intros env args H. unfold t_effective in H. apply andb_true_iff in H. destruct H as [_ H]. cbn [negb orb] in H.
  apply (run_args_justified env args tinit0); [intro X; discriminate X|exact H].
Qed.

(* -disablefiletransfer stays final in both flows *)
Theorem tight_effective_disable_is_final : forall fx env st rest,
  t_effective fx (run_args env st (s_disable :: rest)) = false.
Proof. intros. unfold t_effective. rewrite tight_disable_is_final. reflexivity. Qed.

(* the F19e situation in the repaired flow: off *)
Example tight_no_root_fixed_w :
  t_effective true (run_args {| pw_home := None; dir_ok := fun _ => true |} tinit0 [[45; 120]]) = false /\
  t_effective false (run_args {| pw_home := None; dir_ok := fun _ => true |} tinit0 [[45; 120]]) = true /\
  t_effective true (run_args {| pw_home := None; dir_ok := fun _ => true |} tinit0 [s_ftproot; [47]]) = true.
Proof. vm_compute. auto. Qed.

(* regression witness for the flow before 2a9083d ([t_effective false]): on, with the empty root *)
Theorem tight_enabled_implies_root_before_fix_refuted : exists env args,
  t_effective false (run_args env tinit0 args) = true /\ t_root (run_args env tinit0 args) = [] /\
  t_effective true (run_args env tinit0 args) = false.
Proof. exists {| pw_home := None; dir_ok := fun _ => true |}, [[45; 120]]. vm_compute. auto. Qed.
