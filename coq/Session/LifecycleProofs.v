(* C12 - proofs about Session/LifecycleModel.v.
   Architecture: every function of the model is shown to be a finite composition of a few BASIC
   transitions (update of the protocol part of one live record, rfbCloseClient, rfbClientConnectionGone,
   counters/flags).  Invariants, monotonicity of the "hung" flag and the frame property (a transition
   for connection k leaves every other record alone) are proved once for the basic transitions and
   lifted through the composition. *)
From Coq Require Import ZArith List Bool Lia Arith PeanoNat.
From LV Require Import Gen.Consts_C12 Session.LifecycleModel.
Import ListNotations.

(* ------------------------------------------------------------------ list helpers *)
Lemma nth_upd_same : forall A (f : A -> A) l k, nth_error (upd_nth k f l) k = option_map f (nth_error l k).
Proof. induction l as [|x t IH]; intros [|k]; simpl; auto. Qed.

Lemma nth_upd_other : forall A (f : A -> A) l k j, j <> k -> nth_error (upd_nth k f l) j = nth_error l j.
Proof.
  induction l as [|x t IH]; intros [|k] [|j] H; simpl; auto; try congruence.
  all: try (apply IH; congruence).
Qed.

Lemma upd_length : forall A (f : A -> A) l k, length (upd_nth k f l) = length l.
Proof. induction l as [|x t IH]; intros [|k]; simpl; auto. Qed.

Lemma Forall_upd : forall A (P : A -> Prop) f l k,
  Forall P l -> (forall x, nth_error l k = Some x -> P x -> P (f x)) -> Forall P (upd_nth k f l).
Proof.
  induction l as [|x t IH]; intros [|k] HF Hf; simpl; auto; inversion HF; subst; constructor; auto.
  all: try (apply (Hf x); auto; fail).
  all: try (apply IH; auto).
Qed.

Lemma Forall_nth : forall A (P : A -> Prop) l k x, Forall P l -> nth_error l k = Some x -> P x.
Proof.
  induction l as [|a t IH]; intros [|k] x HF H; simpl in H; try discriminate; inversion HF; subst.
  - inversion H; subst; auto.
  - eapply IH; eauto.
Qed.

Lemma in_remove_id : forall k l j, In j (remove_id k l) <-> In j l /\ j <> k.
Proof.
  induction l as [|x t IH]; intros j; simpl.
  - tauto.
  - destruct (Nat.eqb x k) eqn:E.
    + apply Nat.eqb_eq in E. subst. rewrite IH. split; intros H.
      * tauto.
      * destruct H as [[H | H] Hn]; [congruence | tauto].
    + apply Nat.eqb_neq in E. simpl. rewrite IH. split; intros H.
      * destruct H as [H | H]; [subst; tauto | tauto].
      * destruct H as [[H | H] Hn]; tauto.
Qed.

Lemma nodup_remove_id : forall k l, NoDup l -> NoDup (remove_id k l).
Proof.
  induction l as [|x t IH]; intros H; simpl; auto.
  inversion H; subst. destruct (Nat.eqb x k); auto.
  constructor; auto. rewrite in_remove_id. tauto.
Qed.

Lemma in_remove_one : forall r x l, In r (remove_one x l) -> In r l.
Proof.
  induction l as [|y t IH]; simpl; auto.
  destruct (res_eqb x y); simpl; intros H; auto. destruct H; auto.
Qed.

Lemma res_eqb_eq : forall a b, res_eqb a b = true -> a = b.
Proof. destruct a, b; simpl; intros; congruence. Qed.

Lemma in_add_res : forall r x l, In r (add_res x l) -> r = x \/ In r l.
Proof. intros r x l. unfold add_res. destruct (has_res x l); simpl; intros H; auto. destruct H; auto. Qed.

(* every kind of resource a connection can hold has its release statement in rfbClientConnectionGone *)
Lemma every_resource_has_a_release_site : forall r, gone_releases r = true.
Proof. destruct r; reflexivity. Qed.
Lemma filter_leak_nil : forall l, filter (fun r => negb (gone_releases r)) l = [].
Proof. induction l as [|x t IH]; simpl; auto. rewrite every_resource_has_a_release_site. simpl. exact IH. Qed.

(* ------------------------------------------------------------------ invariants *)
Definition life_ok (l : life) : Prop :=
  (l_new l <= 1)%nat /\
  (l_freed l = true -> l_open l = false /\ l_close l = 1%nat /\ l_gone l = l_new l) /\
  (l_freed l = false -> l_gone l = 0%nat /\ l_close l = (if l_open l then 0%nat else 1%nat)).

Definition conn_ok (cfg : config) (c : conn) : Prop :=
  life_ok (c_life c) /\
  (l_freed (c_life c) = true -> p_res (c_proto c) = []) /\
  c_leak c = [].

Definition order_ok (s : screen) : Prop :=
  NoDup (s_order s) /\
  forall k, In k (s_order s) <-> exists c, get s k = Some c /\ l_freed (c_life c) = false.

Definition inv (s : screen) : Prop := Forall (conn_ok (s_cfg s)) (s_conns s) /\ order_ok s.

(* protocol updates that leave the two mutex flags alone *)
Definition nolock (f : proto -> proto) : Prop :=
  forall p, p_outlock (f p) = p_outlock p /\ p_sendlock (f p) = p_sendlock p.

(* ------------------------------------------------------------------ basic transitions *)
(* protocol updates that leave the scaled-screen selection of the client alone *)
Definition noscale (f : proto -> proto) : Prop :=
  forall p, p_scaled (f p) = p_scaled p /\ p_sw (f p) = p_sw p /\ p_sh (f p) = p_sh p.

(* rfbScalingSetup either leaves the state alone or is: one reference-count move + the client's selection *)
Lemma scaling_setup_form : forall k sw sh s,
  scaling_setup k sw sh s = s \/
  exists b w h v r, scaling_setup k sw sh s = updp k (pset_scale b w h) (set_scaled v (set_ref r s)).
Proof.
  intros. unfold scaling_setup. destruct (live s k) as [c|]; auto.
  destruct ((sw =? g_w (s_cfg s)) && (sh =? g_h (s_cfg s)))%Z.
  - right. unfold adj_ref. destruct (p_scaled (c_proto c)).
    + exists false, 0%Z, 0%Z, (adj_scaled (p_sw (c_proto c)) (p_sh (c_proto c)) (-1) (s_scaled s)), (s_ref s + 1)%Z. reflexivity.
    + exists false, 0%Z, 0%Z, (s_scaled s), (s_ref s + -1 + 1)%Z. reflexivity.
  - destruct (negb (has_scaled sw sh (s_scaled s)) && ((sw =? 0) || (sh =? 0)))%Z; auto.
    right. unfold adj_ref.
    set (ch0 := if has_scaled sw sh (s_scaled s) then s_scaled s else (sw, sh, 0%Z) :: s_scaled s).
    destruct (p_scaled (c_proto c)).
    + exists true, sw, sh, (adj_scaled sw sh 1 (adj_scaled (p_sw (c_proto c)) (p_sh (c_proto c)) (-1) ch0)), (s_ref s).
      unfold ch0. destruct (has_scaled sw sh (s_scaled s)); reflexivity.
    + exists true, sw, sh, (adj_scaled sw sh 1 ch0), (s_ref s + -1)%Z.
      unfold ch0. destruct (has_scaled sw sh (s_scaled s)); reflexivity.
Qed.

Inductive bstep (k : nat) : screen -> screen -> Prop :=
  | b_updp : forall f s, nolock f -> noscale f -> bstep k s (updp k f s)
  | b_close : forall s, bstep k s (close_client k s)
  | b_gone : forall s, bstep k s (connection_gone k s)
  | b_ioc : forall n s, bstep k s (set_ioc n s)
  | b_bad : forall n s, bstep k s (set_bad n s)
  | b_unmod : forall s, bstep k s (set_unmod true s)
  | b_hung : forall s c, live s k = Some c -> p_outlock (c_proto c) || p_sendlock (c_proto c) = true ->
             bstep k s (set_hung true s)
  | b_ptr : forall v s, bstep k s (set_ptr v s)
  | b_rescale : forall sw sh s, bstep k s (scaling_setup k sw sh s).

Inductive reachk (k : nat) : screen -> screen -> Prop :=
  | rk_refl : forall s, reachk k s s
  | rk_step : forall s1 s2 s3, reachk k s1 s2 -> bstep k s2 s3 -> reachk k s1 s3.

Lemma rk_trans : forall k s1 s2 s3, reachk k s1 s2 -> reachk k s2 s3 -> reachk k s1 s3.
Proof. intros k s1 s2 s3 H1 H2. induction H2; auto. eapply rk_step; [apply IHreachk; auto | auto]. Qed.

(* facts about get / live *)
Lemma get_updp_same : forall k f s, get (updp k f s) k = option_map (on_proto f) (get s k).
Proof. intros. unfold get, updp. simpl. apply nth_upd_same. Qed.
Lemma get_updp_other : forall k f s j, j <> k -> get (updp k f s) j = get s j.
Proof. intros. unfold get, updp. simpl. apply nth_upd_other; auto. Qed.

Lemma on_proto_life : forall f c, c_life (on_proto f c) = c_life c.
Proof. intros. unfold on_proto. destruct (l_freed (c_life c)); auto. Qed.
Lemma on_proto_leak : forall f c, c_leak (on_proto f c) = c_leak c.
Proof. intros. unfold on_proto. destruct (l_freed (c_life c)); auto. Qed.

Lemma live_some : forall s k c, live s k = Some c -> get s k = Some c /\ l_freed (c_life c) = false.
Proof.
  unfold live. intros s k c H. destruct (get s k) as [c0|]; try discriminate.
  destruct (l_freed (c_life c0)) eqn:E; try discriminate. inversion H; subst. auto.
Qed.

(* ---- frame: a basic transition for k leaves every other record alone *)
Lemma bstep_frame : forall k s s', bstep k s s' -> forall j, j <> k -> get s' j = get s j.
Proof.
  intros k s s' H j Hj. destruct H; auto using get_updp_other.
  - (* close *) unfold close_client. destruct (s_hung s); auto. destruct (live s k); auto.
    destruct (l_open (c_life c)); auto. unfold get. simpl. apply nth_upd_other; auto.
  - (* gone *) unfold connection_gone. destruct (s_hung s); auto. destruct (live s k); auto.
    destruct (p_outlock (c_proto c) || p_sendlock (c_proto c)).
    { unfold get. simpl. apply nth_upd_other; auto. }
    unfold get, adj_ref. destruct (p_scaled (c_proto c)); simpl.
    all: destruct (s_ptr s) as [j0|]; simpl; try destruct (Nat.eqb j0 k); simpl; apply nth_upd_other; auto.
  - (* rescale *) destruct (scaling_setup_form k sw sh s) as [->|(b&w&h&v&r&->)]; auto.
    rewrite get_updp_other; auto.
Qed.

Lemma reachk_frame : forall k s s', reachk k s s' -> forall j, j <> k -> get s' j = get s j.
Proof.
  intros k s s' H. induction H; intros j Hj; auto.
  rewrite (bstep_frame _ _ _ H0 j Hj). auto.
Qed.

(* ---- configuration, cleaned flag and number of records never change; hung is monotone *)
Lemma bstep_cfg : forall k s s', bstep k s s' -> s_cfg s' = s_cfg s /\ s_cleaned s' = s_cleaned s
  /\ length (s_conns s') = length (s_conns s) /\ (s_hung s = true -> s_hung s' = true) /\ s_faults s' = s_faults s.
Proof.
  intros k s s' H.
  assert (RS : forall sw sh, s_cfg (scaling_setup k sw sh s) = s_cfg s /\ s_cleaned (scaling_setup k sw sh s) = s_cleaned s
     /\ length (s_conns (scaling_setup k sw sh s)) = length (s_conns s)
     /\ (s_hung s = true -> s_hung (scaling_setup k sw sh s) = true) /\ s_faults (scaling_setup k sw sh s) = s_faults s).
  { intros sw sh. destruct (scaling_setup_form k sw sh s) as [->|(b&w&h&v&r&->)]; [repeat split; auto|].
    simpl. repeat split; auto. apply upd_length. }
  destruct H; try (apply RS; fail); simpl; repeat split; auto; try (apply upd_length).
  - unfold close_client. destruct (s_hung s); auto. destruct (live s k); auto. destruct (l_open (c_life c)); auto.
  - unfold close_client. destruct (s_hung s); auto. destruct (live s k); auto. destruct (l_open (c_life c)); auto.
  - unfold close_client. destruct (s_hung s); auto. destruct (live s k); auto. destruct (l_open (c_life c)); auto.
    simpl. apply upd_length.
  - unfold close_client. intros E. rewrite E. auto.
  - unfold close_client. destruct (s_hung s); auto. destruct (live s k); auto. destruct (l_open (c_life c)); auto.
  - unfold connection_gone. destruct (s_hung s); auto. destruct (live s k); auto.
    destruct (p_outlock (c_proto c) || p_sendlock (c_proto c)); [auto|].
    unfold adj_ref; destruct (p_scaled (c_proto c)); simpl; destruct (s_ptr s) as [j0|]; simpl; try destruct (Nat.eqb j0 k); auto.
  - unfold connection_gone. destruct (s_hung s); auto. destruct (live s k); auto.
    destruct (p_outlock (c_proto c) || p_sendlock (c_proto c)); [auto|].
    unfold adj_ref; destruct (p_scaled (c_proto c)); simpl; destruct (s_ptr s) as [j0|]; simpl; try destruct (Nat.eqb j0 k); auto.
  - unfold connection_gone. destruct (s_hung s); auto. destruct (live s k); auto.
    destruct (p_outlock (c_proto c) || p_sendlock (c_proto c)); [simpl; apply upd_length|].
    unfold adj_ref; destruct (p_scaled (c_proto c)); simpl; destruct (s_ptr s) as [j0|]; simpl; try destruct (Nat.eqb j0 k); simpl; apply upd_length.
  - unfold connection_gone. intros E. rewrite E. auto.
  - unfold connection_gone. destruct (s_hung s); auto. destruct (live s k); auto.
    destruct (p_outlock (c_proto c) || p_sendlock (c_proto c)); [auto|].
    unfold adj_ref; destruct (p_scaled (c_proto c)); simpl; destruct (s_ptr s) as [j0|]; simpl; try destruct (Nat.eqb j0 k); auto.
Qed.

Lemma reachk_cfg : forall k s s', reachk k s s' -> s_cfg s' = s_cfg s /\ s_cleaned s' = s_cleaned s
  /\ length (s_conns s') = length (s_conns s) /\ (s_hung s = true -> s_hung s' = true) /\ s_faults s' = s_faults s.
Proof.
  intros k s s' H. induction H.
  - repeat split; auto.
  - destruct IHreachk as (A & B & C & D & E). destruct (bstep_cfg _ _ _ H0) as (A' & B' & C' & D' & E').
    repeat split; congruence || auto.
Qed.

(* ------------------------------------------------------------------ the invariant is kept by basic transitions *)
Lemma inv_upd : forall s s' k g,
  inv s -> s_cfg s' = s_cfg s -> s_order s' = s_order s -> s_conns s' = upd_nth k g (s_conns s) ->
  (forall c, get s k = Some c -> conn_ok (s_cfg s) c ->
             conn_ok (s_cfg s) (g c) /\ l_freed (c_life (g c)) = l_freed (c_life c)) ->
  inv s'.
Proof.
  intros s s' k g [HF [HN HO]] Hcfg Hord Hcon Hg. split.
  - rewrite Hcfg, Hcon. apply Forall_upd; auto. intros x Hx Px. apply Hg; auto.
  - split; [rewrite Hord; auto|]. intros j. rewrite Hord, HO. unfold get. rewrite Hcon.
    destruct (Nat.eq_dec j k) as [->|Hn].
    + rewrite nth_upd_same. split; intros [c [Hc Hfr]].
      * rewrite Hc. simpl. exists (g c). split; auto.
        destruct (Hg c Hc (Forall_nth _ _ _ _ _ HF Hc)) as [_ E]. congruence.
      * destruct (nth_error (s_conns s) k) as [c0|] eqn:E0; simpl in Hc; try discriminate.
        inversion Hc; subst. exists c0. split; auto.
        destruct (Hg c0 E0 (Forall_nth _ _ _ _ _ HF E0)) as [_ E]. congruence.
    + rewrite nth_upd_other; auto. tauto.
Qed.

Lemma life_ok_close : forall l, life_ok l -> l_freed l = false -> l_open l = true -> life_ok (close_life l).
Proof.
  intros l (A & B & C) Hf Ho. destruct (C Hf) as [G X]. rewrite Ho in X.
  unfold life_ok, close_life; simpl. repeat split; auto; try congruence; intros; try congruence.
Qed.

Lemma life_ok_gone : forall l, life_ok l -> l_freed l = false ->
  life_ok (gone_life (negb (Nat.eqb (l_new l) 0)) l).
Proof.
  intros l (A & B & C) Hf. destruct (C Hf) as [G X].
  unfold life_ok, gone_life; simpl. repeat split; auto; try congruence.
  - destruct (l_open l); lia.
  - destruct (Nat.eqb (l_new l) 0) eqn:E; simpl.
    + apply Nat.eqb_eq in E. lia.
    + apply Nat.eqb_neq in E. lia.
Qed.

Lemma conn_ok_on_proto : forall cfg f c, conn_ok cfg c -> conn_ok cfg (on_proto f c).
Proof.
  intros cfg f c OK. unfold on_proto. destruct (l_freed (c_life c)) eqn:Hf; auto.
  destruct OK as (L & R1 & R2).
  unfold conn_ok; simpl. split; [exact L|]. split; [congruence|exact R2].
Qed.

Lemma inv_updp : forall k f s, inv s -> inv (updp k f s).
Proof.
  intros k f s I.
  eapply inv_upd with (k := k) (g := on_proto f); eauto.
  intros c Hc OK. rewrite on_proto_life. split; auto.
  apply conn_ok_on_proto; auto.
Qed.

Lemma inv_screen_only : forall s s', inv s -> s_cfg s' = s_cfg s -> s_conns s' = s_conns s -> s_order s' = s_order s -> inv s'.
Proof.
  intros s s' [HF [HN HO]] E1 E2 E3. split; [rewrite E1, E2; auto|].
  split; [rewrite E3; auto|]. intros j. rewrite E3, HO. unfold get. rewrite E2. tauto.
Qed.

Lemma bstep_inv : forall k s s', bstep k s s' -> inv s -> inv s'.
Proof.
  intros k s s' H I. destruct H; try exact I; try (eapply inv_screen_only; eauto; fail).
  - apply inv_updp; auto.
  - (* rfbCloseClient *)
    unfold close_client. destruct (s_hung s); auto. destruct (live s k) as [c|] eqn:E; auto.
    destruct (live_some _ _ _ E) as [Hg Hfr]. destruct (l_open (c_life c)) eqn:Ho; auto.
    eapply inv_upd with (k := k) (g := fun _ => _); simpl; eauto.
    intros c0 Hc0 (L & R1 & R2). rewrite Hg in Hc0. inversion Hc0; subst c0. simpl. split; auto.
    unfold conn_ok; simpl. split; [apply life_ok_close; auto|]. split; [congruence|exact R2].
  - (* rfbClientConnectionGone *)
    unfold connection_gone. destruct (s_hung s); auto. destruct (live s k) as [c|] eqn:E; auto.
    destruct (live_some _ _ _ E) as [Hg Hfr].
    destruct (p_outlock (c_proto c) || p_sendlock (c_proto c)).
    + exact (inv_updp k drop_ft s I).
    + destruct I as [HF [HN HO]].
      set (hooked := negb (l_new (c_life c) =? 0)%nat).
      set (c' := mkConn (c_fd c) (gone_life hooked (c_life c)) (pset_res [] (c_proto c))
                        (filter (fun r => negb (gone_releases r)) (p_res (c_proto c)))).
      assert (Hconns : Forall (conn_ok (s_cfg s)) (upd_nth k (fun _ => c') (s_conns s))).
      { apply Forall_upd; auto. intros x Hx (L & R1 & R2).
        unfold get in Hg. rewrite Hg in Hx. inversion Hx; subst x.
        unfold conn_ok, c'; simpl. split; [apply life_ok_gone; auto|]. split; [auto|]. apply filter_leak_nil. }
      assert (Hord : forall s2, s_conns s2 = upd_nth k (fun _ => c') (s_conns s) ->
                s_order s2 = remove_id k (s_order s) -> order_ok s2).
      { intros s2 E1 E2. split.
        - rewrite E2. apply nodup_remove_id; auto.
        - intros j. rewrite E2, in_remove_id, HO. unfold get. rewrite E1.
          destruct (Nat.eq_dec j k) as [->|Hn].
          + rewrite nth_upd_same. unfold get in Hg. rewrite Hg. simpl. split.
            * intros [_ Hn]. congruence.
            * intros [c0 [Hc0 Hf0]]. inversion Hc0; subst c0. simpl in Hf0. discriminate.
          + rewrite nth_upd_other; auto. tauto. }
      unfold adj_ref. destruct (p_scaled (c_proto c)); simpl;
      destruct (s_ptr s) as [j0|] eqn:Ep; simpl; rewrite ?Ep; simpl;
        try destruct (Nat.eqb j0 k); simpl; split;
        try (exact Hconns); try (apply Hord; simpl; auto).
  - (* rescale *) destruct (scaling_setup_form k sw sh s) as [->|(b&w&h&v&r&->)]; auto.
    apply inv_updp. eapply inv_screen_only; [exact I|reflexivity|reflexivity|reflexivity].
Qed.

Lemma reachk_inv : forall k s s', reachk k s s' -> inv s -> inv s'.
Proof. intros k s s' H. induction H; auto. intros I. eapply bstep_inv; eauto. Qed.

(* ------------------------------------------------------------------ every k-directed function is a composition of basic transitions for k *)
Create HintDb rk.

Lemma R_refl : forall k s, reachk k s s. Proof. apply rk_refl. Qed.
Lemma R_updp : forall k f s0 x, nolock f -> noscale f -> reachk k s0 x -> reachk k s0 (updp k f x).
Proof. intros. eapply rk_step; eauto. apply b_updp; auto. Qed.
Lemma orb_l : forall a b, a = true -> a || b = true. Proof. intros; subst; reflexivity. Qed.
Lemma orb_r : forall a b, b = true -> a || b = true. Proof. intros; subst; apply orb_true_r. Qed.
Lemma R_close : forall k s0 x, reachk k s0 x -> reachk k s0 (close_client k x).
Proof. intros. eapply rk_step; eauto. apply b_close. Qed.
Lemma R_gone : forall k s0 x, reachk k s0 x -> reachk k s0 (connection_gone k x).
Proof. intros. eapply rk_step; eauto. apply b_gone. Qed.
Lemma R_ioc : forall k n s0 x, reachk k s0 x -> reachk k s0 (set_ioc n x).
Proof. intros. eapply rk_step; eauto. apply b_ioc. Qed.
Lemma R_bad : forall k n s0 x, reachk k s0 x -> reachk k s0 (set_bad n x).
Proof. intros. eapply rk_step; eauto. apply b_bad. Qed.
Lemma R_unmod : forall k s0 x, reachk k s0 x -> reachk k s0 (set_unmod true x).
Proof. intros. eapply rk_step; eauto. apply b_unmod. Qed.
Lemma R_hung : forall k s0 x c, live x k = Some c -> p_outlock (c_proto c) || p_sendlock (c_proto c) = true ->
  reachk k s0 x -> reachk k s0 (set_hung true x).
Proof. intros. eapply rk_step; eauto. eapply b_hung; eauto. Qed.
Lemma R_ptr : forall k v s0 x, reachk k s0 x -> reachk k s0 (set_ptr v x).
Proof. intros. eapply rk_step; eauto. apply b_ptr. Qed.
#[export] Hint Resolve R_refl R_updp R_close R_gone R_ioc R_bad R_unmod R_ptr : rk.

Ltac solve_nolock :=
  unfold nolock; intros ?p; simpl;
  repeat match goal with |- context [if ?b then _ else _] => destruct b; simpl end;
  split; reflexivity.
#[export] Hint Extern 1 (nolock _) => solve_nolock : rk.
Ltac solve_noscale :=
  unfold noscale; intros ?p; simpl;
  repeat match goal with |- context [if ?b then _ else _] => destruct b; simpl end;
  repeat split; reflexivity.
#[export] Hint Extern 1 (noscale _) => solve_noscale : rk.

Ltac dm := match goal with |- context [match ?x with _ => _ end] => destruct x eqn:? end.
Ltac dmh H := match type of H with context [match ?x with _ => _ end] => destruct x eqn:? end.
Ltac dmhyp := match goal with H : context [if ?b then _ else _] |- _ => destruct b eqn:? end.
Ltac fin := eauto 14 with rk.
Ltac sndfix := repeat match goal with
  | |- context [snd (write_or_close ?k ?s)] => destruct (write_or_close k s) eqn:?; simpl
  | |- context [snd (write_n ?n ?k ?s)] => destruct (write_n n k s) eqn:?; simpl
  end.
Ltac go := repeat dm; repeat dmhyp; sndfix; fin.
Ltac pairfun H := repeat dmh H; inversion H; subst; fin.

Lemma R_write : forall k x r y s0, write_exact k x = (r, y) -> reachk k s0 x -> reachk k s0 y.
Proof.
  intros k x r y s0 H R. unfold write_exact in H. repeat dmh H; inversion H; subst; fin.
  eapply R_hung; eauto. apply orb_l; auto.
Qed.
Lemma R_read : forall k n x r y s0, read_exact k n x = (r, y) -> reachk k s0 x -> reachk k s0 y.
Proof. intros k n x r y s0 H R. unfold read_exact in H. pairfun H. Qed.
Lemma R_ws : forall k x r y s0, ws_check k x = (r, y) -> reachk k s0 x -> reachk k s0 y.
Proof. intros k x r y s0 H R. unfold ws_check in H. pairfun H. Qed.
Lemma R_lock : forall k s0 x, reachk k s0 x -> reachk k s0 (lock_send k x).
Proof.
  intros. unfold lock_send. repeat dm; fin.
  eapply R_hung; eauto. apply orb_r; auto.
Qed.
#[export] Hint Resolve R_write R_read R_ws R_lock : rk.

Lemma R_woc : forall k x r y s0, write_or_close k x = (r, y) -> reachk k s0 x -> reachk k s0 y.
Proof. intros k x r y s0 H R. unfold write_or_close in H. pairfun H. Qed.
#[export] Hint Resolve R_woc : rk.

Lemma R_set_state : forall k st s0 x, reachk k s0 x -> reachk k s0 (set_state k st x).
Proof. intros. unfold set_state. fin. Qed.
#[export] Hint Resolve R_set_state : rk.

Lemma R_challenge : forall k s0 x, reachk k s0 x -> reachk k s0 (send_challenge k x).
Proof. intros. unfold send_challenge. go. Qed.
#[export] Hint Resolve R_challenge : rk.

Lemma R_auth_new : forall k m s0 x, reachk k s0 x -> reachk k s0 (auth_new_client k m x).
Proof. intros. unfold auth_new_client. go. Qed.
#[export] Hint Resolve R_auth_new : rk.

Lemma R_version : forall k s0 x, reachk k s0 x -> reachk k s0 (process_version k x).
Proof. intros. unfold process_version. go. Qed.

Lemma R_auth : forall k m s0 x, reachk k s0 x -> reachk k s0 (process_auth k m x).
Proof. intros. unfold process_auth. go. Qed.

Lemma R_xvp_send : forall k s0 x, reachk k s0 x -> reachk k s0 (send_xvp k x).
Proof. intros. unfold send_xvp. destruct (write_or_close k (lock_send k x)) eqn:E. simpl. fin. Qed.
#[export] Hint Resolve R_version R_auth R_xvp_send : rk.

Lemma R_setenc_loop : forall n k pref x r y s0, setenc_loop n k pref x = (r, y) -> reachk k s0 x -> reachk k s0 y.
Proof.
  induction n as [|n IH]; intros k pref x r y s0 H R; simpl in H.
  - inversion H; subst; auto.
  - destruct (read_exact k 4 x) as [o s1] eqn:E.
    destruct o as [[|a [|b [|c [|d [|e l]]]]]|]; try (inversion H; subst; fin).
    eapply IH; [exact H|]. go.
Qed.
#[export] Hint Resolve R_setenc_loop : rk.

Lemma R_setenc : forall k cur s0 x, reachk k s0 x -> reachk k s0 (process_setenc k cur x).
Proof. intros. unfold process_setenc. go. Qed.
Lemma R_fur : forall k s0 x, reachk k s0 x -> reachk k s0 (process_fur k x).
Proof. intros. unfold process_fur. go. Qed.
Lemma R_key : forall k s0 x, reachk k s0 x -> reachk k s0 (process_key k x).
Proof. intros. unfold process_key. go. Qed.
Lemma R_ptrmsg : forall k s0 x, reachk k s0 x -> reachk k s0 (process_ptr k x).
Proof. intros. unfold process_ptr. go. Qed.
Lemma R_cut : forall k s0 x, reachk k s0 x -> reachk k s0 (process_cut k x).
Proof. intros. unfold process_cut. go. Qed.
Lemma R_xvpmsg : forall k s0 x, reachk k s0 x -> reachk k s0 (process_xvp k x).
Proof. intros. unfold process_xvp. go. Qed.
#[export] Hint Resolve R_setenc R_fur R_key R_ptrmsg R_cut R_xvpmsg : rk.

Lemma R_ftmsg : forall k b s0 x, reachk k s0 x -> reachk k s0 (send_ft_message k b x).
Proof.
  intros. unfold send_ft_message. go.
Qed.
#[export] Hint Resolve R_ftmsg : rk.

Lemma R_ft : forall k s0 x, reachk k s0 x -> reachk k s0 (process_ft k x).
Proof. intros. unfold process_ft. go. Qed.
#[export] Hint Resolve R_ft : rk.

Lemma R_scaling_setup : forall k a b s0 x, reachk k s0 x -> reachk k s0 (scaling_setup k a b x).
Proof. intros. eapply rk_step; eauto. apply b_rescale. Qed.
#[export] Hint Resolve R_scaling_setup : rk.
Lemma R_setscale : forall k s0 x, reachk k s0 x -> reachk k s0 (process_setscale k x).
Proof. intros. unfold process_setscale. go. Qed.
#[export] Hint Resolve R_setscale : rk.

Lemma R_normal : forall k cur s0 x, reachk k s0 x -> reachk k s0 (process_normal k cur x).
Proof. intros. unfold process_normal. go. Qed.
#[export] Hint Resolve R_normal : rk.

Lemma R_write_n : forall n k x r y s0, write_n n k x = (r, y) -> reachk k s0 x -> reachk k s0 y.
Proof.
  induction n as [|n IH]; intros k x r y s0 H R; simpl in H.
  - inversion H; subst; auto.
  - destruct (write_or_close k x) as [ok s1] eqn:E. destruct ok.
    + eapply IH; [exact H|]. fin.
    + inversion H; subst. fin.
Qed.
#[export] Hint Resolve R_write_n : rk.

Lemma R_update : forall k s0 x, reachk k s0 x -> reachk k s0 (send_update k x).
Proof.
  intros. unfold send_update. go.
Qed.
#[export] Hint Resolve R_update : rk.

Lemma R_update_client : forall k s0 x, reachk k s0 x -> reachk k s0 (update_client k x).
Proof. intros. unfold update_client. go. Qed.
#[export] Hint Resolve R_update_client : rk.

Lemma R_reap_one : forall k s0 x, reachk k s0 x -> reachk k s0 (reap_one x k).
Proof. intros. unfold reap_one. go. Qed.
Lemma R_shutdown_one : forall k s0 x, reachk k s0 x -> reachk k s0 (shutdown_one x k).
Proof. intros. unfold shutdown_one. go. Qed.
Lemma R_cleanup_one : forall k s0 x, reachk k s0 x -> reachk k s0 (cleanup_one x k).
Proof. intros. unfold cleanup_one. go. Qed.
Lemma R_bell_one : forall k s0 x, reachk k s0 x -> reachk k s0 (bell_one x k).
Proof.
  intros. unfold bell_one. go.
Qed.
Lemma R_cuttext_one : forall k s0 x, reachk k s0 x -> reachk k s0 (cuttext_one x k).
Proof.
  intros. unfold cuttext_one. go.
Qed.
Lemma R_cuttext8_one : forall k s0 x, reachk k s0 x -> reachk k s0 (cuttext8_one x k).
Proof. intros. unfold cuttext8_one. go. Qed.
Lemma R_mark_one : forall k s0 x, reachk k s0 x -> reachk k s0 (mark_one x k).
Proof. intros. unfold mark_one. go. Qed.
#[export] Hint Resolve R_reap_one R_shutdown_one R_cleanup_one R_bell_one R_cuttext_one R_cuttext8_one R_mark_one : rk.

(* ------------------------------------------------------------------ l_new never changes under basic transitions *)
Lemma bstep_new : forall k s s', bstep k s s' -> forall j c, get s j = Some c ->
  exists c', get s' j = Some c' /\ l_new (c_life c') = l_new (c_life c).
Proof.
  intros k s s' H j c Hc. destruct (Nat.eq_dec j k) as [->|Hn].
  2:{ exists c. split; auto. rewrite (bstep_frame _ _ _ H j Hn). auto. }
  destruct H; try (exists c; split; auto; fail).
  - rewrite get_updp_same, Hc. simpl. eexists; split; eauto. rewrite on_proto_life. auto.
  - unfold close_client. destruct (s_hung s); eauto. destruct (live s k) as [c0|] eqn:E; eauto.
    destruct (live_some _ _ _ E) as [Hg _]. rewrite Hg in Hc. inversion Hc; subst c0.
    destruct (l_open (c_life c)); eauto. unfold get; simpl. rewrite nth_upd_same. unfold get in Hg. rewrite Hg. simpl.
    eexists; split; eauto.
  - unfold connection_gone. destruct (s_hung s); eauto. destruct (live s k) as [c0|] eqn:E; eauto.
    destruct (live_some _ _ _ E) as [Hg _]. rewrite Hg in Hc. inversion Hc; subst c0.
    destruct (p_outlock (c_proto c) || p_sendlock (c_proto c)).
    { assert (E2 : get (updp k drop_ft s) k = option_map (on_proto drop_ft) (get s k)) by apply get_updp_same.
      rewrite Hg in E2. simpl in E2. eexists. split; [exact E2|]. rewrite on_proto_life. auto. }
    unfold get, adj_ref in *. destruct (p_scaled (c_proto c)); simpl;
    destruct (s_ptr s) as [j0|]; simpl; try destruct (Nat.eqb j0 k); simpl;
      rewrite nth_upd_same, Hg; simpl; eexists; split; eauto.
  - (* rescale *) destruct (scaling_setup_form k sw sh s) as [->|(b&w&h&v&r&->)]; [exists c; split; auto|].
    rewrite get_updp_same. change (get (set_scaled v (set_ref r s)) k) with (get s k). rewrite Hc. simpl.
    eexists; split; eauto. rewrite on_proto_life. auto.
Qed.

Lemma reachk_new : forall k s s', reachk k s s' -> forall j c, get s j = Some c ->
  exists c', get s' j = Some c' /\ l_new (c_life c') = l_new (c_life c).
Proof.
  intros k s s' H. induction H; intros j c Hc; eauto.
  destruct (IHreachk j c Hc) as [c1 [H1 E1]].
  destruct (bstep_new _ _ _ H0 j c1 H1) as [c2 [H2 E2]]. exists c2. split; auto. congruence.
Qed.

(* ------------------------------------------------------------------ global transitions *)
Inductive gstep : screen -> screen -> Prop :=
  | g_k : forall k s s', bstep k s s' -> gstep s s'
  | g_faults : forall v s, gstep s (set_faults v s)
  | g_cleaned : forall s, gstep s (set_cleaned true s)
  | g_pending : forall v s, gstep s (set_pending v s)
  | g_unlisten : forall s, gstep s (set_listening false (set_fds (remove_fd LISTEN_FD (s_allfds s)) (s_maxfd s) s))
  | g_add : forall pre po s, gstep s (add_conn pre po s)
  | g_hook : forall k s c, live s k = Some c -> l_new (c_life c) = 0%nat -> gstep s (run_new_hook k s)
  | g_dead : forall s, gstep s (dead_conn s)
  | g_listening : forall v s, gstep s (set_listening v s)
  | g_initfds : forall v m s, s_conns s = [] -> gstep s (set_fds v m s)
  | g_dropfd : forall s, gstep s (set_fds (remove_fd (fd_of (length (s_conns s))) (s_allfds s)) (s_maxfd s) s).

Inductive reach : screen -> screen -> Prop :=
  | r_refl : forall s, reach s s
  | r_step : forall s1 s2 s3, reach s1 s2 -> gstep s2 s3 -> reach s1 s3.

Lemma reach_trans : forall s1 s2 s3, reach s1 s2 -> reach s2 s3 -> reach s1 s3.
Proof. intros s1 s2 s3 H1 H2. induction H2; auto. eapply r_step; [apply IHreach; auto | auto]. Qed.

Lemma reachk_reach : forall k s s', reachk k s s' -> reach s s'.
Proof. intros k s s' H. induction H; [apply r_refl|]. eapply r_step; eauto. eapply g_k; eauto. Qed.

Lemma get_add_conn_new : forall pre po s,
  get (add_conn pre po s) (length (s_conns s)) = Some (new_conn (length (s_conns s)) pre po).
Proof. intros. unfold get, add_conn. simpl. rewrite nth_error_app2; auto. rewrite Nat.sub_diag. auto. Qed.

Lemma get_add_conn_old : forall pre po s j c, get s j = Some c -> get (add_conn pre po s) j = Some c.
Proof.
  intros. unfold get, add_conn in *. simpl. rewrite nth_error_app1; auto.
  apply nth_error_Some. congruence.
Qed.

Lemma get_lt : forall s j c, get s j = Some c -> (j < length (s_conns s))%nat.
Proof. intros. apply nth_error_Some. unfold get in H. congruence. Qed.

Lemma gstep_inv : forall s s', gstep s s' -> inv s -> inv s'.
Proof.
  intros s s' H I. destruct H.
  - eapply bstep_inv; eauto.
  - exact I.
  - exact I.
  - exact I.
  - exact I.
  - (* add_conn *)
    destruct I as [HF [HN HO]]. set (k := length (s_conns s)).
    split.
    + simpl. apply Forall_app. split; auto. constructor; auto.
      unfold conn_ok, new_conn; simpl. split.
      * unfold life_ok; simpl. repeat split; auto; intros; discriminate.
      * split; [intros; discriminate|auto].
    + split.
      * simpl. constructor; auto. intros Hin. apply HO in Hin. destruct Hin as [c [Hc _]].
        apply get_lt in Hc. fold k in Hc. lia.
      * intros j. simpl. split.
        -- intros [<-|Hin].
           ++ exists (new_conn k pre po). split; [apply get_add_conn_new|auto].
           ++ apply HO in Hin. destruct Hin as [c [Hc Hf]]. exists c. split; auto. apply get_add_conn_old; auto.
        -- intros [c [Hc Hf]]. destruct (Nat.eq_dec j k) as [->|Hn]; auto. right. apply HO.
           exists c. split; auto. unfold get, add_conn in Hc. simpl in Hc.
           assert (Hlt : (j < length (s_conns s ++ [new_conn (length (s_conns s)) pre po]))%nat)
             by (apply nth_error_Some; congruence).
           rewrite app_length in Hlt. simpl in Hlt. fold k in Hlt.
           rewrite nth_error_app1 in Hc by lia. exact Hc.
  - (* newClientHook *)
    destruct (live_some _ _ _ H) as [Hg Hfr].
    eapply inv_upd with (k := k) (g := fun c => _); simpl; eauto.
    intros c0 Hc0 (L & R1 & R2). rewrite Hg in Hc0. inversion Hc0; subst c0. simpl. split; auto.
    unfold conn_ok; simpl. split.
    + destruct L as (A & B & C). destruct (C Hfr) as [G X].
      unfold life_ok, hook_life; simpl. rewrite H0. repeat split; auto; intros; congruence.
    + auto.
  - (* rfbSetNonBlocking failed: a record that is closed once and already gone *)
    destruct I as [HF [HN HO]]. set (k := length (s_conns s)). split.
    + simpl. apply Forall_app. split; auto. constructor; auto.
      unfold conn_ok, dead_conn_rec; simpl. split; [|split; auto].
      unfold life_ok; simpl. repeat split; auto; intros; discriminate.
    + split; [exact HN|]. intros j. simpl. rewrite HO. unfold get. simpl. split.
      * intros [c [Hc Hf]]. exists c. split; auto. rewrite nth_error_app1; auto. apply nth_error_Some. congruence.
      * intros [c [Hc Hf]]. destruct (Nat.lt_ge_cases j (length (s_conns s))) as [Hlt|Hge].
        -- rewrite nth_error_app1 in Hc by auto. exists c. auto.
        -- rewrite nth_error_app2 in Hc by auto. destruct (j - length (s_conns s))%nat as [|n].
           ++ simpl in Hc. inversion Hc; subst c. simpl in Hf. discriminate.
           ++ simpl in Hc. destruct n; discriminate.
  - exact I.
  - exact I.
  - exact I.
Qed.

Lemma reach_inv : forall s s', reach s s' -> inv s -> inv s'.
Proof. intros s s' H. induction H; auto. intros I. eapply gstep_inv; eauto. Qed.

Lemma gstep_cfg : forall s s', gstep s s' -> s_cfg s' = s_cfg s /\ (s_hung s = true -> s_hung s' = true).
Proof.
  intros s s' H. destruct H; simpl; auto.
  destruct (bstep_cfg _ _ _ H) as (A & _ & _ & D & _). auto.
Qed.

Lemma reach_cfg : forall s s', reach s s' -> s_cfg s' = s_cfg s /\ (s_hung s = true -> s_hung s' = true).
Proof.
  intros s s' H. induction H; auto. destruct IHreach as [A B]. destruct (gstep_cfg _ _ H0) as [A' B'].
  split; [congruence | auto].
Qed.

(* ------------------------------------------------------------------ the remaining functions are compositions of global transitions *)
Create HintDb gr.
Lemma G_refl : forall s, reach s s. Proof. apply r_refl. Qed.
Lemma G_k : forall k x y s0, reachk k x y -> reach s0 x -> reach s0 y.
Proof. intros. eapply reach_trans; eauto. eapply reachk_reach; eauto. Qed.
Lemma G_fold : forall (g : screen -> nat -> screen) l s0 x,
  (forall y j, reach s0 y -> reach s0 (g y j)) -> reach s0 x -> reach s0 (fold_left g l x).
Proof. induction l as [|a t IH]; intros; simpl; auto. Qed.

Ltac viak k := eapply (G_k k); [ | eassumption ]; fin.

Lemma G_close_others : forall k s0 x, reach s0 x -> reach s0 (close_others k x).
Proof.
  intros. unfold close_others. apply G_fold; auto. intros y j Hy.
  destruct (other_normal k y j); auto. eapply (G_k j); [|exact Hy]. fin.
Qed.

Lemma G_init : forall k b s0 x, reach s0 x -> reach s0 (process_init k b x).
Proof.
  intros. unfold process_init. repeat dm; repeat dmhyp.
  all: repeat match goal with H : context [match ?x with _ => _ end] |- _ => destruct x eqn:? end.
  all: try (apply G_close_others).
  all: try (eapply (G_k k); [|eassumption]; fin; fail).
  all: repeat match goal with H : (_, _) = (_, _) |- _ => inversion H; subst; clear H end.
  all: try (eapply (G_k k); [|eassumption]; fin; fail).
Qed.

Ltac gfin k := try (eapply (G_k k); [|eassumption]; fin; fail).

Lemma G_auth_none : forall k m s0 x, reach s0 x -> reach s0 (auth_none k m x).
Proof.
  intros. unfold auth_none. repeat dm; repeat dmhyp.
  all: repeat match goal with H : (_, _) = (_, _) |- _ => inversion H; subst; clear H end.
  all: try (apply G_init).
  all: gfin k.
Qed.

Lemma G_sectype : forall k m s0 x, reach s0 x -> reach s0 (process_sectype k m x).
Proof.
  intros. unfold process_sectype. repeat dm; repeat dmhyp.
  all: try (apply G_auth_none).
  all: gfin k.
Qed.

Lemma G_message : forall k s0 x, reach s0 x -> reach s0 (process_message k x).
Proof.
  intros. unfold process_message. repeat dm; auto.
  all: try (apply G_init; auto; fail).
  all: try (apply G_sectype; auto; fail).
  all: gfin k.
Qed.

Lemma G_sockets : forall s0 x, reach s0 x -> reach s0 (shutdown_sockets x).
Proof.
  intros s0 x R. unfold shutdown_sockets. destruct (s_listening x).
  - eapply r_step; [eapply r_step; [exact R | apply g_unlisten] | apply g_pending].
  - destruct (s_pending x); auto.
    eapply r_step; [eapply r_step; [eapply r_step; [exact R | apply g_dropfd] | apply g_dead] | apply g_pending].
Qed.

Lemma G_shutdown : forall s0 x, reach s0 x -> reach s0 (shutdown_server x).
Proof.
  intros. unfold shutdown_server.
  apply G_fold; [|apply G_sockets; auto]. intros y j Hy. eapply (G_k j); [|exact Hy]. fin.
Qed.

Lemma G_cleanup : forall s0 x, reach s0 x -> reach s0 (screen_cleanup x).
Proof.
  intros. unfold screen_cleanup. eapply r_step; [|apply g_cleaned]. apply G_fold; auto.
  intros y j Hy. eapply (G_k j); [|exact Hy]. fin.
Qed.

(* a successful write leaves the record live *)
Lemma updp_live : forall k f s j c, live s j = Some c -> exists c', live (updp k f s) j = Some c' /\ c_life c' = c_life c.
Proof.
  intros k f s j c H. destruct (live_some _ _ _ H) as [Hg Hf]. unfold live.
  destruct (Nat.eq_dec j k) as [->|Hn].
  - rewrite get_updp_same, Hg. simpl. rewrite on_proto_life, Hf. eexists; split; eauto. apply on_proto_life.
  - rewrite get_updp_other, Hg, Hf; eauto.
Qed.

Lemma live_set_ioc : forall n s j, live (set_ioc n s) j = live s j.
Proof. reflexivity. Qed.

Lemma write_ok_live : forall k x y, write_or_close k x = (true, y) -> exists c, live y k = Some c.
Proof.
  intros k x y H. unfold write_or_close in H. destruct (write_exact k x) as [ok s1] eqn:E.
  destruct ok; [|inversion H]. inversion H; subst y. clear H.
  unfold write_exact in E. repeat dmh E; inversion E; subst; eauto.
  destruct (updp_live k (fun p0 : proto => pset_wr (S (p_wr p0)) p0) (set_ioc (S (s_ioc x)) x) k c) as [c' [Hc' _]]; eauto.
Qed.

Lemma G_accept : forall d pre po s0 x, reach s0 x -> reach s0 (accept d pre po x).
Proof.
  intros d pre po s0 x H. unfold accept.
  set (k := length (s_conns x)).
  assert (H1 : reach s0 (add_conn pre po x)) by (eapply r_step; [exact H | apply g_add]).
  destruct (ws_check k (add_conn pre po x)) as [wsok s2] eqn:Ews.
  assert (R2 : reachk k (add_conn pre po x) s2) by (eapply R_ws; [exact Ews | apply rk_refl]).
  assert (H2 : reach s0 s2) by (eapply G_k; eauto).
  destruct wsok as [[|]|].
  - destruct (write_or_close k s2) as [ok s3] eqn:Ew.
    assert (R3 : reachk k s2 s3) by (eapply R_woc; [exact Ew | apply rk_refl]).
    assert (H3 : reach s0 s3) by (eapply G_k; eauto).
    destruct ok; simpl.
    + destruct (write_ok_live _ _ _ Ew) as [c3 Hc3].
      assert (Hn : l_new (c_life c3) = 0%nat).
      { destruct (live_some _ _ _ Hc3) as [Hg3 _].
        destruct (reachk_new _ _ _ (rk_trans _ _ _ _ R2 R3) k _ (get_add_conn_new pre po x)) as [c' [Hc' En]].
        fold k in Hc'. rewrite Hg3 in Hc'. inversion Hc'; subst c'. rewrite En. reflexivity. }
      assert (H4 : reach s0 (run_new_hook k s3)) by (eapply r_step; [exact H3 | eapply g_hook; eauto]).
      destruct d; auto.
      * eapply (G_k k); [|exact H4]. fin.
      * eapply (G_k k); [|exact H4]. fin.
    + eapply (G_k k); [|exact H3]. fin.
  - eapply (G_k k); [|exact H2]. fin.
  - eapply (G_k k); [|exact H2]. fin.
Qed.

Lemma G_accept_or_fail : forall d pre po s0 x, reach s0 x -> reach s0 (accept_or_fail d pre po x).
Proof.
  intros d pre po s0 x H. unfold accept_or_fail. destruct d; try (apply G_accept; auto; fail);
    (eapply r_step; [exact H | apply g_dead]).
Qed.

Lemma G_client_loop : forall rd s0 x, reach s0 x -> reach s0 (client_loop rd x).
Proof.
  intros. unfold client_loop. apply G_fold; auto. intros y j Hy.
  repeat dm; auto. apply G_message; auto.
Qed.

Lemma G_check_fds_listen : forall s0 x, reach s0 x -> reach s0 (check_fds_listen x).
Proof.
  intros. unfold check_fds_listen.
  destruct (if s_listening x then s_pending x else []) as [|[[d pre] po] rest].
  - dm; auto. apply G_client_loop; auto.
  - assert (reach s0 (accept_or_fail d pre po (set_pending rest x))).
    { apply G_accept_or_fail. eapply r_step; [exact H | apply g_pending]. }
    destruct d; auto; dm; auto; apply G_client_loop; auto.
Qed.

Lemma G_check_fds : forall s0 x, reach s0 x -> reach s0 (check_fds x).
Proof.
  intros. unfold check_fds.
  destruct (if s_listening x then [] else s_pending x) as [|[[d pre] po] rest].
  - apply G_check_fds_listen; auto.
  - assert (reach s0 (accept_or_fail d pre po (set_pending [] x))).
    { apply G_accept_or_fail. eapply r_step; [exact H | apply g_pending]. }
    dm; auto. apply G_client_loop; auto.
Qed.

Lemma G_events : forall s0 x, reach s0 x -> reach s0 (process_events x).
Proof.
  intros. unfold process_events. apply G_fold; [|apply G_check_fds; auto].
  intros y j Hy. eapply (G_k j); [|exact Hy]. fin.
Qed.

Lemma G_step : forall o s0 x, reach s0 x -> reach s0 (step x o).
Proof.
  intros o s0 x H. unfold step. destruct (s_hung x || s_cleaned x); auto.
  destruct o.
  - destruct (if s_listening x then [] else s_pending x); [apply G_accept_or_fail; auto|].
    eapply (G_k 0%nat); [|exact H]. fin.
  - destruct (s_listening x); auto. eapply r_step; [exact H | apply g_pending].
  - eapply (G_k k); [|exact H]. fin.
  - eapply (G_k k); [|exact H]. fin.
  - apply G_events; auto.
  - eapply (G_k k); [|exact H]. fin.
  - eapply (G_k k); [|exact H]. fin.
  - eapply (G_k k); [|exact H]. fin.
  - destruct (live x k); auto. eapply (G_k k); [|exact H]. fin.
  - apply G_fold; auto. intros y j Hy. eapply (G_k j); [|exact Hy]. fin.
  - apply G_fold; auto. intros y j Hy. eapply (G_k j); [|exact Hy]. fin.
  - apply G_fold; auto. intros y j Hy. eapply (G_k j); [|exact Hy]. fin.
  - apply G_fold; auto. intros y j Hy. eapply (G_k j); [|exact Hy]. fin.
  - eapply r_step; [exact H | apply g_faults].
  - apply G_shutdown; auto.
  - apply G_cleanup; auto.
  - assert (U : reach s0 (set_unmod true x)) by (eapply (G_k 0%nat); [|exact H]; fin).
    destruct (s_conns x) eqn:Ec; auto. destruct (s_pending x); auto. destruct (s_listening x); auto.
    eapply r_step; [eapply r_step; [eapply r_step; [exact H | apply g_pending] | apply g_initfds; exact Ec] | apply g_listening].
Qed.

Lemma reach_run_from : forall ops s0 x, reach s0 x -> reach s0 (fold_left step ops x).
Proof. induction ops as [|o t IH]; intros; simpl; auto. apply IH. apply G_step; auto. Qed.

Lemma inv_init : forall cfg, inv (init cfg).
Proof.
  intros cfg. split; simpl; [constructor|]. split; [constructor|].
  intros k. simpl. split; [tauto|]. intros [c [Hc _]]. unfold get in Hc. simpl in Hc. destruct k; discriminate.
Qed.

Theorem inv_run : forall cfg ops, inv (run cfg ops).
Proof.
  intros. unfold run. eapply reach_inv; [|apply inv_init]. apply reach_run_from. apply r_refl.
Qed.

(* ------------------------------------------------------------------ quiescence: what rfbProcessEvents and rfbShutdownServer guarantee *)
Definition settled (s : screen) (k : nat) : Prop :=
  match get s k with Some c => l_freed (c_life c) = true \/ l_open (c_life c) = true | None => True end.
Definition freed_at (s : screen) (k : nat) : Prop :=
  match get s k with Some c => l_freed (c_life c) = true | None => True end.

Lemma freed_settled : forall s k, freed_at s k -> settled s k.
Proof. unfold freed_at, settled. intros s k. destruct (get s k); auto. Qed.

Lemma live_none : forall s k, live s k = None -> freed_at s k.
Proof.
  unfold live, freed_at. intros s k. destruct (get s k) as [c|]; auto.
  destruct (l_freed (c_life c)); auto. discriminate.
Qed.

Lemma gone_frees : forall k s, s_hung (connection_gone k s) = false -> freed_at (connection_gone k s) k.
Proof.
  intros k s. unfold connection_gone. destruct (s_hung s) eqn:Eh; [congruence|].
  destruct (live s k) as [c|] eqn:E; [|intros _; apply live_none; auto].
  destruct (live_some _ _ _ E) as [Hg _].
  destruct (p_outlock (c_proto c) || p_sendlock (c_proto c)); [simpl; congruence|].
  intros _. unfold freed_at, get, adj_ref in *. destruct (p_scaled (c_proto c)); simpl;
  destruct (s_ptr s) as [j0|]; simpl; try destruct (Nat.eqb j0 k); simpl; rewrite nth_upd_same, Hg; simpl; auto.
Qed.

Lemma reap_settles : forall s k, s_hung (reap_one s k) = false -> settled (reap_one s k) k.
Proof.
  intros s k. unfold reap_one. destruct (live (update_client k s) k) as [c|] eqn:E.
  - destruct (live_some _ _ _ E) as [Hg _]. destruct (l_open (c_life c)) eqn:Eo.
    + intros _. unfold settled. rewrite Hg. auto.
    + intros Hh. apply freed_settled. apply gone_frees; auto.
  - intros _. apply freed_settled. apply live_none; auto.
Qed.

Lemma reach_hung_back : forall s s', reach s s' -> s_hung s' = false -> s_hung s = false.
Proof.
  intros s s' R H. destruct (s_hung s) eqn:E; auto. destruct (reach_cfg _ _ R) as [_ M]. rewrite M in H; auto.
Qed.

Lemma fold_k_reach : forall (g : screen -> nat -> screen) l s,
  (forall y j, reachk j y (g y j)) -> reach s (fold_left g l s).
Proof.
  intros g l s Hg. apply G_fold; [|apply r_refl]. intros y j Hy. eapply (G_k j); [apply Hg | exact Hy].
Qed.

Section FoldOverClients.
  Variable g : screen -> nat -> screen.
  Hypothesis g_k : forall y j, reachk j y (g y j).
  Variable G : screen -> Prop.             (* a screen-level fact kept by every visit *)
  Hypothesis G_step : forall s k, G s -> G (g s k).
  Variable P : screen -> nat -> Prop.      (* what visiting k establishes, a property of record k only *)
  Variable Q : screen -> nat -> Prop.      (* what is needed of record k before *)
  Hypothesis P_get : forall s s' k, get s' k = get s k -> P s k -> P s' k.
  Hypothesis Q_other : forall s a k, k <> a -> Q s k -> Q (g s a) k.
  Hypothesis P_Q : forall s k, P s k -> Q s k.
  Hypothesis g_est : forall s k, G s -> Q s k -> s_hung (g s k) = false -> P (g s k) k.

  Lemma fold_clients : forall l s, G s -> s_hung (fold_left g l s) = false ->
    (forall k, In k l -> Q s k -> P (fold_left g l s) k) /\
    (forall k, ~ In k l -> get (fold_left g l s) k = get s k).
  Proof.
    induction l as [|a t IH]; intros s HG Hh; simpl in *.
    - split; [tauto | auto].
    - destruct (IH (g s a) (G_step _ _ HG) Hh) as [IH1 IH2].
      assert (Hh' : s_hung (g s a) = false).
      { eapply reach_hung_back; [|exact Hh]. apply fold_k_reach. exact g_k. }
      split.
      + intros k Hin HQ. destruct (in_dec Nat.eq_dec k t) as [Ht|Ht].
        * apply IH1; auto. destruct (Nat.eq_dec k a) as [->|Hn].
          -- apply P_Q. apply g_est; auto.
          -- apply Q_other; auto.
        * assert (k = a) by (destruct Hin; [auto | contradiction]). subst k.
          eapply P_get; [apply IH2; auto|]. apply g_est; auto.
      + intros k Hn. rewrite IH2 by tauto. eapply reachk_frame; [apply g_k|]. intros ->. tauto.
  Qed.
End FoldOverClients.

Lemma R_reap_one0 : forall y j, reachk j y (reap_one y j).
Proof. intros. apply R_reap_one. apply rk_refl. Qed.
Lemma R_shutdown_one0 : forall y j, reachk j y (shutdown_one y j).
Proof. intros. apply R_shutdown_one. apply rk_refl. Qed.

Lemma not_in_order_freed : forall s k, inv s -> ~ In k (s_order s) -> freed_at s k.
Proof.
  intros s k [_ [_ HO]] Hn. unfold freed_at. destruct (get s k) as [c|] eqn:E; auto.
  destruct (l_freed (c_life c)) eqn:Ef; auto. exfalso. apply Hn. apply HO. eauto.
Qed.

Lemma events_settle : forall s, inv s -> s_hung (process_events s) = false -> forall k, settled (process_events s) k.
Proof.
  intros s I Hh k. unfold process_events in *.
  set (s1 := check_fds s) in *.
  assert (I1 : inv s1) by (eapply reach_inv; [apply G_check_fds; apply r_refl | exact I]).
  destruct (fold_clients reap_one R_reap_one0 (fun _ => True) (fun _ _ H => H) settled (fun _ _ => True))
    with (l := s_order s1) (s := s1) as [F1 F2]; auto.
  - unfold settled. intros ? ? ? E. rewrite E. auto.
  - intros ? ? _ _ Hh0. apply reap_settles; auto.
  - destruct (in_dec Nat.eq_dec k (s_order s1)) as [Hin|Hn].
    + apply F1; auto.
    + unfold settled. rewrite F2 by auto. apply freed_settled. apply not_in_order_freed; auto.
Qed.

(* rfbShutdownServer visits every record still in the list, closed or not *)
Lemma shutdown_one_frees : forall s k, s_hung (shutdown_one s k) = false -> freed_at (shutdown_one s k) k.
Proof.
  intros s k. unfold shutdown_one. destruct (is_open s k); intros Hh; apply gone_frees; auto.
Qed.

Lemma folds_reach : forall s, reach s (fold_left shutdown_one (s_order s) s).
Proof. intros. apply fold_k_reach. apply R_shutdown_one0. Qed.

Lemma shutdown_frees_all : forall s, inv s ->
  s_hung (shutdown_server s) = false -> forall k, freed_at (shutdown_server s) k.
Proof.
  intros s I Hh k. unfold shutdown_server in *. set (s1 := shutdown_sockets s) in *.
  assert (I1 : inv s1) by (eapply reach_inv; [apply G_sockets; apply r_refl | exact I]).
  destruct (fold_clients shutdown_one R_shutdown_one0 (fun _ => True) (fun _ _ H => H))
    with (P := freed_at) (Q := fun (_ : screen) (_ : nat) => True) (l := s_order s1) (s := s1) as [F1 F2]; auto.
  - unfold freed_at. intros ? ? ? E. rewrite E. auto.
  - intros s0 k0 _ _ Hh0. apply shutdown_one_frees; auto.
  - destruct (in_dec Nat.eq_dec k (s_order s1)) as [Hin|Hn].
    + apply F1; auto.
    + unfold freed_at. rewrite F2 by auto. apply not_in_order_freed; auto.
Qed.

(* ------------------------------------------------------------------ no teardown ever blocks *)
Definition locks_clear (s : screen) : Prop :=
  Forall (fun c => p_outlock (c_proto c) = false /\ p_sendlock (c_proto c) = false) (s_conns s).
Definition NH (s : screen) : Prop := s_hung s = false /\ locks_clear s.

Lemma locks_updp : forall k f s, nolock f -> locks_clear s -> locks_clear (updp k f s).
Proof.
  intros k f s Hn HL. unfold locks_clear, updp. simpl. apply Forall_upd; auto.
  intros c _ [A B]. unfold on_proto. destruct (l_freed (c_life c)); simpl; auto.
  destruct (Hn (c_proto c)) as [E1 E2]. rewrite E1, E2. auto.
Qed.

Lemma live_locks : forall s k c, locks_clear s -> live s k = Some c ->
  p_outlock (c_proto c) || p_sendlock (c_proto c) = false.
Proof.
  intros s k c HL H. destruct (live_some _ _ _ H) as [Hg _].
  destruct (Forall_nth _ _ _ _ _ HL Hg) as [A B]. rewrite A, B. reflexivity.
Qed.

Lemma bstep_nh : forall k s s', bstep k s s' -> NH s -> NH s'.
Proof.
  intros k s s' H (Hh & HL). destruct H; try (split; auto; fail).
  - split; auto. apply locks_updp; auto.
  - (* close *) unfold close_client. rewrite Hh. destruct (live s k) as [c|] eqn:E; [|split; auto].
    destruct (l_open (c_life c)); [|split; auto].
    split; auto. unfold locks_clear. simpl. apply Forall_upd; auto.
    intros x Hx _. destruct (live_some _ _ _ E) as [Hg _]. unfold get in Hg. rewrite Hg in Hx. inversion Hx; subst x.
    simpl. destruct (Forall_nth _ _ _ _ _ HL Hg). auto.
  - (* gone *) unfold connection_gone. rewrite Hh. destruct (live s k) as [c|] eqn:E; [|split; auto].
    rewrite (live_locks _ _ _ HL E).
    destruct (live_some _ _ _ E) as [Hg _].
    assert (Hc : p_outlock (c_proto c) = false /\ p_sendlock (c_proto c) = false) by (apply (Forall_nth _ _ _ _ _ HL Hg)).
    unfold adj_ref. destruct (p_scaled (c_proto c)); simpl;
    destruct (s_ptr s) as [j0|] eqn:Ep; simpl; rewrite ?Ep; simpl; try destruct (Nat.eqb j0 k); simpl;
      split; auto; unfold locks_clear; simpl; apply Forall_upd; auto; intros x _ _; simpl; auto.
  - rewrite (live_locks _ _ _ HL H) in H0. discriminate.
  - (* rescale *) destruct (scaling_setup_form k sw sh s) as [->|(b&w&h&v&r&->)]; [split; auto|].
    split; auto. apply locks_updp; [solve_nolock|]. exact HL.
Qed.

Lemma gstep_nh : forall s s', gstep s s' -> NH s -> NH s'.
Proof.
  intros s s' H N. destruct H; try exact N.
  - eapply bstep_nh; eauto.
  - destruct N as (Hh & HL). split; auto. unfold locks_clear. simpl. apply Forall_app. split; auto.
  - destruct N as (Hh & HL). split; auto. unfold locks_clear, run_new_hook. simpl. apply Forall_upd; auto.
  - destruct N as (Hh & HL). split; auto. unfold locks_clear. simpl. apply Forall_app. split; auto.
Qed.

Lemma reach_nh : forall s s', reach s s' -> NH s -> NH s'.
Proof. intros s s' H. induction H; auto. intros N. eapply gstep_nh; eauto. Qed.

Lemma reach_never_hung : forall s s', reach s s' -> NH s -> s_hung s' = false.
Proof. intros s s' R N. destruct (reach_nh _ _ R N). auto. Qed.

(* ------------------------------------------------------------------ statements about whole runs *)
Lemma run_app : forall cfg a b, run cfg (a ++ b) = fold_left step b (run cfg a).
Proof. intros. unfold run. apply fold_left_app. Qed.

Lemma run_cfg : forall cfg ops, s_cfg (run cfg ops) = cfg.
Proof.
  intros. destruct (reach_cfg (init cfg) (run cfg ops)) as [A _]; [apply reach_run_from; apply r_refl|].
  rewrite A. reflexivity.
Qed.

Lemma nh_run : forall cfg ops, NH (run cfg ops).
Proof.
  intros. eapply reach_nh; [apply reach_run_from; apply r_refl|]. split; auto. constructor.
Qed.

Theorem never_blocks : forall cfg ops, s_hung (run cfg ops) = false.
Proof. intros. destruct (nh_run cfg ops). auto. Qed.

Theorem exactly_once_invariant : forall cfg ops k c, get (run cfg ops) k = Some c -> life_ok (c_life c).
Proof.
  intros cfg ops k c H. destruct (inv_run cfg ops) as [HF _].
  destruct (Forall_nth _ _ _ _ _ HF H) as [L _]. exact L.
Qed.

Lemma step_uncleaned : forall s o, s_cleaned (step s o) = false -> s_cleaned s = false.
Proof.
  intros s o Hc. destruct (s_cleaned s) eqn:E; auto. unfold step in Hc. rewrite E, orb_true_r in Hc. congruence.
Qed.

Theorem reaped_when_idle : forall cfg ops,
  let s := run cfg (ops ++ [OPe]) in
  s_cleaned s = false ->
  forall k c, get s k = Some c ->
    l_open (c_life c) = true \/
    (l_freed (c_life c) = true /\ l_close (c_life c) = 1%nat /\ l_gone (c_life c) = l_new (c_life c)).
Proof.
  intros cfg ops s Hc k c Hg.
  assert (Hh : s_hung s = false) by apply never_blocks.
  unfold s in *. rewrite run_app in *. simpl in *.
  set (s0 := run cfg ops) in *.
  assert (Hc0 := step_uncleaned _ _ Hc). assert (Hh0 : s_hung s0 = false) by apply never_blocks.
  unfold step in *. rewrite Hh0, Hc0 in *. simpl in *.
  assert (St := events_settle s0 (inv_run cfg ops) Hh k). unfold settled in St. rewrite Hg in St.
  destruct St as [Hf|Ho]; auto. right.
  assert (I : inv (process_events s0)) by (eapply reach_inv; [apply G_events; apply r_refl | apply inv_run]).
  destruct I as [HF _]. destruct (Forall_nth _ _ _ _ _ HF Hg) as [(A & B & C) _].
  destruct (B Hf) as (B1 & B2 & B3). auto.
Qed.

Theorem torn_down_after_shutdown : forall cfg ops,
  let s := run cfg (ops ++ [OShutdown]) in
  s_cleaned s = false ->
  forall k c, get s k = Some c ->
    l_freed (c_life c) = true /\ l_close (c_life c) = 1%nat /\ l_gone (c_life c) = l_new (c_life c)
    /\ (l_new (c_life c) <= 1)%nat /\ ~ In k (s_order s).
Proof.
  intros cfg ops s Hc k c Hg.
  assert (Hh : s_hung s = false) by apply never_blocks.
  unfold s in *. rewrite run_app in *. simpl in *.
  set (s0 := run cfg ops) in *.
  assert (Hc0 := step_uncleaned _ _ Hc). assert (Hh0 : s_hung s0 = false) by apply never_blocks.
  assert (E : step s0 OShutdown = shutdown_server s0) by (unfold step; rewrite Hh0, Hc0; reflexivity).
  rewrite E in *.
  assert (Fr := shutdown_frees_all s0 (inv_run cfg ops) Hh k). unfold freed_at in Fr. rewrite Hg in Fr.
  assert (I2 : inv (shutdown_server s0)) by (eapply reach_inv; [apply G_shutdown; apply r_refl | apply inv_run]).
  destruct I2 as [HF [_ HO]]. destruct (Forall_nth _ _ _ _ _ HF Hg) as [(A & B & C) _].
  destruct (B Fr) as (B1 & B2 & B3). repeat split; auto.
  intros Hin. apply HO in Hin. destruct Hin as [c' [Hc' Hf']]. rewrite Hg in Hc'. inversion Hc'; subst. congruence.
Qed.

(* rfbScreenCleanup alone does the same *)
Lemma cleanup_frees_all : forall s, inv s -> s_hung (screen_cleanup s) = false -> forall k, freed_at (screen_cleanup s) k.
Proof.
  intros s I Hh k. unfold screen_cleanup in *. simpl in Hh.
  assert (R0 : forall y j, reachk j y (cleanup_one y j)) by (intros; apply R_cleanup_one; apply rk_refl).
  assert (F : freed_at (fold_left cleanup_one (s_order s) s) k).
  { destruct (fold_clients cleanup_one R0 (fun _ => True) (fun _ _ H => H))
      with (P := freed_at) (Q := fun (_ : screen) (_ : nat) => True) (l := s_order s) (s := s) as [F1 F2]; auto.
    - unfold freed_at. intros ? ? ? E. rewrite E. auto.
    - intros s0 k0 _ _ Hh0. unfold cleanup_one in *. apply gone_frees; auto.
    - destruct (in_dec Nat.eq_dec k (s_order s)) as [Hin|Hn].
      + apply F1; auto.
      + unfold freed_at. rewrite F2 by auto. apply not_in_order_freed; auto. }
  exact F.
Qed.

Theorem torn_down_after_cleanup : forall cfg ops,
  s_cleaned (run cfg ops) = false ->
  forall k c, get (run cfg (ops ++ [OCleanup])) k = Some c ->
    l_freed (c_life c) = true /\ l_close (c_life c) = 1%nat /\ l_gone (c_life c) = l_new (c_life c).
Proof.
  intros cfg ops Hc0 k c Hg. rewrite run_app in Hg. simpl in Hg.
  set (s0 := run cfg ops) in *. assert (Hh0 : s_hung s0 = false) by apply never_blocks.
  assert (E : step s0 OCleanup = screen_cleanup s0) by (unfold step; rewrite Hh0, Hc0; reflexivity).
  rewrite E in Hg.
  assert (R : reach s0 (screen_cleanup s0)) by (apply G_cleanup; apply r_refl).
  assert (Hh : s_hung (screen_cleanup s0) = false) by (eapply reach_never_hung; [exact R | apply nh_run]).
  assert (Fr := cleanup_frees_all s0 (inv_run cfg ops) Hh k). unfold freed_at in Fr. rewrite Hg in Fr.
  assert (I2 : inv (screen_cleanup s0)) by (eapply reach_inv; [exact R | apply inv_run]).
  destruct I2 as [HF _]. destruct (Forall_nth _ _ _ _ _ HF Hg) as [(A & B & C) _].
  destruct (B Fr) as (B1 & B2 & B3). auto.
Qed.

(* released resources, reachability, frame *)
Theorem released_after_gone : forall cfg ops k c, get (run cfg ops) k = Some c ->
  c_leak c = [] /\ (l_freed (c_life c) = true -> p_res (c_proto c) = []).
Proof.
  intros cfg ops k c H. destruct (inv_run cfg ops) as [HF _].
  destruct (Forall_nth _ _ _ _ _ HF H) as (L & R1 & R2). auto.
Qed.

Theorem listed_iff_not_freed : forall cfg ops k,
  In k (s_order (run cfg ops)) <-> exists c, get (run cfg ops) k = Some c /\ l_freed (c_life c) = false.
Proof. intros. destruct (inv_run cfg ops) as [_ [_ HO]]. apply HO. Qed.

Theorem iteration_yields_open_only : forall s k, is_open s k = true ->
  exists c, get s k = Some c /\ l_freed (c_life c) = false /\ l_open (c_life c) = true.
Proof.
  intros s k H. unfold is_open in H. destruct (live s k) as [c|] eqn:E; [|discriminate].
  destruct (live_some _ _ _ E). eauto.
Qed.

(* ---- the iterator as a function: exactly the live, open records; a freed record never comes back *)
Lemma bstep_freed_stays : forall k s s', bstep k s s' -> forall j c, get s j = Some c ->
  l_freed (c_life c) = true -> get s' j = Some c.
Proof.
  intros k s s' H j c Hc Hf. destruct (Nat.eq_dec j k) as [->|Hn].
  2:{ rewrite (bstep_frame _ _ _ H j Hn). auto. }
  assert (Hl : live s k = None) by (unfold live; rewrite Hc, Hf; reflexivity).
  destruct H; auto.
  - rewrite get_updp_same, Hc. simpl. unfold on_proto. rewrite Hf. reflexivity.
  - unfold close_client. destruct (s_hung s); auto. rewrite Hl. auto.
  - unfold connection_gone. destruct (s_hung s); auto. rewrite Hl. auto.
  - destruct (scaling_setup_form k sw sh s) as [->|(b&w&h&v&r&->)]; auto.
    rewrite get_updp_same. change (get (set_scaled v (set_ref r s)) k) with (get s k). rewrite Hc. simpl.
    unfold on_proto. rewrite Hf. reflexivity.
Qed.

Lemma gstep_freed_stays : forall s s', gstep s s' -> forall j c, get s j = Some c ->
  l_freed (c_life c) = true -> get s' j = Some c.
Proof.
  intros s s' H j c Hc Hf. destruct H; auto.
  - eapply bstep_freed_stays; eauto.
  - apply get_add_conn_old; auto.
  - destruct (Nat.eq_dec j k) as [->|Hn].
    + destruct (live_some _ _ _ H) as [Hg Hnf]. rewrite Hg in Hc. inversion Hc; subst. congruence.
    + unfold run_new_hook, get. simpl. rewrite nth_upd_other; auto.
  - unfold dead_conn, get. simpl. rewrite nth_error_app1; auto. apply nth_error_Some. unfold get in Hc. congruence.
Qed.

Lemma reach_freed_stays : forall s s', reach s s' -> forall j c, get s j = Some c ->
  l_freed (c_life c) = true -> get s' j = Some c.
Proof. intros s s' H. induction H; intros j c Hc Hf; auto. eapply gstep_freed_stays; eauto. Qed.

Theorem iteration_exact : forall cfg ops k,
  In k (iter_clients (run cfg ops)) <->
  exists c, get (run cfg ops) k = Some c /\ l_freed (c_life c) = false /\ l_open (c_life c) = true.
Proof.
  intros cfg ops k. unfold iter_clients. rewrite filter_In. split.
  - intros [_ H]. apply iteration_yields_open_only; auto.
  - intros [c [Hg [Hf Ho]]]. split.
    + apply listed_iff_not_freed. eauto.
    + unfold is_open, live. rewrite Hg, Hf. exact Ho.
Qed.

Theorem freed_never_iterated_again : forall cfg ops ops' k c,
  get (run cfg ops) k = Some c -> l_freed (c_life c) = true ->
  ~ In k (iter_clients (run cfg (ops ++ ops'))).
Proof.
  intros cfg ops ops' k c Hg Hf Hin. rewrite run_app in Hin.
  assert (R : reach (run cfg ops) (fold_left step ops' (run cfg ops))) by (apply reach_run_from; apply r_refl).
  pose proof (reach_freed_stays _ _ R k c Hg Hf) as Hg'.
  unfold iter_clients in Hin. apply filter_In in Hin. destruct Hin as [_ Ho].
  unfold is_open, live in Ho. rewrite Hg', Hf in Ho. discriminate.
Qed.

(* ---- descriptor set: in every reachable state the descriptor of every open client is in allFds and
   not above maxFd, whatever was closed, torn down or accepted around it *)
Definition fd_inv (s : screen) : Prop :=
  forall k c, get s k = Some c ->
    c_fd c = fd_of k /\
    (l_freed (c_life c) = false -> l_open (c_life c) = true ->
       In (fd_of k) (s_allfds s) /\ (fd_of k <= s_maxfd s)%Z).

Lemma in_remove_fd : forall y l x, In x (remove_fd y l) <-> In x l /\ x <> y.
Proof.
  induction l as [|a l IH]; simpl; intros x. { tauto. }
  destruct (a =? y)%Z eqn:E.
  - apply Z.eqb_eq in E. subst a. rewrite IH. split; [tauto|]. intros [[->|H] N]; [congruence|tauto].
  - apply Z.eqb_neq in E. simpl. rewrite IH. split.
    + intros [->|[H N]]; [split; auto | tauto].
    + intros [[->|H] N]; [left; auto | right; tauto].
Qed.

Lemma lower_max_ge : forall fds mx x, In x fds -> (0 < x)%Z -> (x <= mx)%Z -> (x <= lower_max fds mx)%Z.
Proof.
  unfold lower_max. induction fds as [|a fds IH]; simpl; intros mx x H H0 H1. { tauto. }
  destruct H as [->|H].
  - assert (E : ((0 <? x) && (x <=? mx))%Z = true)
      by (apply andb_true_iff; split; [apply Z.ltb_lt | apply Z.leb_le]; auto).
    rewrite E. simpl. lia.
  - specialize (IH mx x H H0 H1). destruct ((0 <? a) && (a <=? mx))%Z; simpl; lia.
Qed.

Lemma fd_of_inj : forall a b, fd_of a = fd_of b -> a = b.
Proof. unfold fd_of. intros. lia. Qed.
Lemma fd_of_pos : forall k, (200 <= fd_of k)%Z.
Proof. unfold fd_of, FDBASE. intros. lia. Qed.

Lemma gone_fds : forall k s,
  s_allfds (connection_gone k s) = s_allfds s /\ s_maxfd (connection_gone k s) = s_maxfd s.
Proof.
  intros. unfold connection_gone. destruct (s_hung s); auto. destruct (live s k) as [c|]; auto.
  destruct (p_outlock (c_proto c) || p_sendlock (c_proto c)); simpl; auto.
  unfold adj_ref. destruct (p_scaled (c_proto c)); simpl; destruct (s_ptr s) as [j0|]; simpl;
    try destruct (Nat.eqb j0 k); simpl; auto.
Qed.

Lemma fd_inv_updp : forall k f s, fd_inv s -> fd_inv (updp k f s).
Proof.
  intros k f s I. intros j c Hc. destruct (Nat.eq_dec j k) as [->|Hn].
  + rewrite get_updp_same in Hc. destruct (get s k) as [c0|] eqn:E; simpl in Hc; inversion Hc; subst c.
    destruct (I k c0 E) as [F1 F2]. unfold on_proto. destruct (l_freed (c_life c0)) eqn:Ef; simpl.
    * split; auto. intros; congruence.
    * split; auto.
  + rewrite get_updp_other in Hc by auto. apply I; auto.
Qed.

Lemma bstep_fd : forall k s s', bstep k s s' -> fd_inv s -> fd_inv s'.
Proof.
  intros k s s' H I. destruct H; try exact I;
    try (destruct (scaling_setup_form k sw sh s) as [->|(b&w&h&v&r&->)]; [exact I | apply fd_inv_updp; exact I]).
  - (* updp *) intros j c Hc. destruct (Nat.eq_dec j k) as [->|Hn].
    + rewrite get_updp_same in Hc. destruct (get s k) as [c0|] eqn:E; simpl in Hc; inversion Hc; subst c.
      destruct (I k c0 E) as [F1 F2]. unfold on_proto. destruct (l_freed (c_life c0)) eqn:Ef; simpl.
      * split; auto. intros; congruence.
      * split; auto.
    + rewrite get_updp_other in Hc by auto. apply I; auto.
  - (* close *) unfold close_client. destruct (s_hung s); [exact I|].
    destruct (live s k) as [c0|] eqn:E; [|exact I]. destruct (l_open (c_life c0)) eqn:O; [|exact I].
    destruct (live_some _ _ _ E) as [Hg Hnf]. destruct (I k c0 Hg) as [Fk _].
    intros j c Hc. unfold get in Hc. simpl in Hc. destruct (Nat.eq_dec j k) as [->|Hn].
    + rewrite nth_upd_same in Hc. unfold get in Hg. rewrite Hg in Hc. simpl in Hc. inversion Hc; subst c. simpl.
      split; auto. intros _ Ho. discriminate.
    + rewrite nth_upd_other in Hc by auto. destruct (I j c Hc) as [F1 F2]. split; auto.
      intros A B. destruct (F2 A B) as [Hin Hle]. simpl. split.
      * apply in_remove_fd. split; auto. rewrite Fk. intro Heq. apply fd_of_inj in Heq. contradiction.
      * destruct (c_fd c0 =? s_maxfd s)%Z; auto. apply lower_max_ge; auto.
        -- apply in_remove_fd. split; auto. rewrite Fk. intro Heq. apply fd_of_inj in Heq. contradiction.
        -- pose proof (fd_of_pos j). lia.
  - (* gone *) intros j c' Hc. destruct (gone_fds k s) as [Ea Em]. rewrite Ea, Em.
    destruct (Nat.eq_dec j k) as [->|Hn].
    2:{ rewrite (bstep_frame _ _ _ (b_gone k s) j Hn) in Hc. apply I; auto. }
    revert Hc. unfold connection_gone. destruct (s_hung s); [apply I|].
    destruct (live s k) as [c0|] eqn:E; [|apply I].
    destruct (live_some _ _ _ E) as [Hg Hnf]. destruct (I k c0 Hg) as [F1 F2].
    destruct (p_outlock (c_proto c0) || p_sendlock (c_proto c0)).
    { intros Hc. assert (E2 := get_updp_same k drop_ft s). rewrite Hg in E2. simpl in E2.
      change (get (updp k drop_ft s) k = Some c') in Hc. rewrite E2 in Hc. inversion Hc; subst c'.
      unfold on_proto. rewrite Hnf. simpl. split; auto. }
    intros Hc. unfold get, adj_ref in Hc. unfold get in Hg.
    destruct (p_scaled (c_proto c0)); simpl in Hc; destruct (s_ptr s) as [j0|]; simpl in Hc;
      try destruct (Nat.eqb j0 k); simpl in Hc; rewrite nth_upd_same, Hg in Hc; simpl in Hc;
      inversion Hc; subst c'; simpl; (split; [auto | intros; discriminate]).
Qed.

Lemma gstep_fd : forall s s', gstep s s' -> fd_inv s -> fd_inv s'.
Proof.
  intros s s' H I. destruct H; try exact I.
  - eapply bstep_fd; eauto.
  - (* the listening socket goes away *) intros j c Hc. destruct (I j c Hc) as [F1 F2]. split; auto.
    intros A B. destruct (F2 A B) as [Hin Hle]. simpl. split; auto.
    apply in_remove_fd. split; auto. pose proof (fd_of_pos j). unfold LISTEN_FD. lia.
  - (* a connection is accepted *) intros j c Hc. unfold add_conn, get in Hc. simpl in Hc.
    destruct (Nat.lt_ge_cases j (length (s_conns s))) as [Hlt|Hge].
    + rewrite nth_error_app1 in Hc by auto. destruct (I j c Hc) as [F1 F2]. split; auto.
      intros A B. destruct (F2 A B) as [Hin Hle]. unfold add_conn. simpl. split; [right; auto | lia].
    + rewrite nth_error_app2 in Hc by auto.
      destruct (j - length (s_conns s))%nat as [|n] eqn:Ej.
      * simpl in Hc. inversion Hc; subst c. assert (j = length (s_conns s)) by lia. subst j.
        unfold new_conn. simpl. split; auto. intros _ _. unfold add_conn. simpl. split; [left; auto | lia].
      * simpl in Hc. destruct n; discriminate.
  - (* newClientHook *) intros j c' Hc. unfold run_new_hook, get in Hc. simpl in Hc.
    destruct (live_some _ _ _ H) as [Hg Hnf]. destruct (Nat.eq_dec j k) as [->|Hn].
    + rewrite nth_upd_same in Hc. unfold get in Hg. rewrite Hg in Hc. simpl in Hc. inversion Hc; subst c'. simpl.
      apply (I k c); auto.
    + rewrite nth_upd_other in Hc by auto. apply (I j c'); auto.
  - (* rfbSetNonBlocking failed *) intros j c Hc. unfold dead_conn, get in Hc. simpl in Hc.
    destruct (Nat.lt_ge_cases j (length (s_conns s))) as [Hlt|Hge].
    + rewrite nth_error_app1 in Hc by auto. apply (I j c Hc).
    + rewrite nth_error_app2 in Hc by auto. destruct (j - length (s_conns s))%nat as [|n] eqn:Ej.
      * simpl in Hc. inversion Hc; subst c. assert (j = length (s_conns s)) by lia. subst j.
        simpl. split; auto. intros; discriminate.
      * simpl in Hc. destruct n; discriminate.
  - (* rfbInitSockets before any connection exists *)
    intros j c Hc. unfold get in Hc. simpl in Hc. rewrite H in Hc. destruct j; discriminate.
  - (* FD_CLR of a descriptor number no record has *)
    intros j c Hc. destruct (I j c Hc) as [F1 F2]. split; auto.
    intros A B. destruct (F2 A B) as [Hin Hle]. simpl. split; auto.
    apply in_remove_fd. split; auto. intro Heq. apply fd_of_inj in Heq. apply get_lt in Hc. simpl in Hc. lia.
Qed.

Lemma reach_fd : forall s s', reach s s' -> fd_inv s -> fd_inv s'.
Proof. intros s s' H. induction H; auto. intros. eapply gstep_fd; eauto. Qed.

Theorem open_clients_stay_in_fd_set : forall cfg ops k c,
  get (run cfg ops) k = Some c -> l_freed (c_life c) = false -> l_open (c_life c) = true ->
  In (c_fd c) (s_allfds (run cfg ops)) /\ (c_fd c <= s_maxfd (run cfg ops))%Z.
Proof.
  intros cfg ops k c Hg Hf Ho.
  assert (I : fd_inv (run cfg ops)).
  { apply (reach_fd (init cfg)).
    - unfold run. apply reach_run_from. apply r_refl.
    - intros j c0 Hc. unfold get, init in Hc. simpl in Hc. destruct j; discriminate. }
  destruct (I k c Hg) as [F1 F2]. rewrite F1. apply F2; auto.
Qed.

(* ---- step-level frame: an operation directed at connection k, and every handshake / message function
   of k that is a composition of basic transitions of k, leaves the full record of every other
   connection unchanged and keeps every other open client in the descriptor set *)
Definition directed (o : op) : option nat :=
  match o with
  | OIn k _ | OPeerClose k | OAppClose k | OStart k | ORefuse k | OAppXvp k => Some k
  | _ => None
  end.

Lemma step_directed_reachk : forall o k s, directed o = Some k -> reachk k s (step s o).
Proof.
  intros o k s H. unfold step. destruct (s_hung s || s_cleaned s); [apply rk_refl|].
  destruct o; simpl in H; inversion H; subst; try (fin; fail).
  destruct (live s k); fin.
Qed.

Lemma reachk_fd_frame : forall k s s', reachk k s s' -> fd_inv s -> forall j c, j <> k ->
  get s j = Some c -> l_freed (c_life c) = false -> l_open (c_life c) = true ->
  get s' j = Some c /\ In (c_fd c) (s_allfds s') /\ (c_fd c <= s_maxfd s')%Z.
Proof.
  intros k s s' R I j c Hn Hg Hf Ho.
  assert (Hg' : get s' j = Some c) by (rewrite (reachk_frame _ _ _ R j Hn); auto).
  split; auto.
  assert (I' : fd_inv s') by (eapply reach_fd; [eapply reachk_reach; eauto | auto]).
  destruct (I' j c Hg') as [F1 F2]. rewrite F1. apply F2; auto.
Qed.

Theorem step_frame : forall o k j s, directed o = Some k -> j <> k -> get (step s o) j = get s j.
Proof. intros. eapply reachk_frame; eauto. apply step_directed_reachk; auto. Qed.

Theorem step_fd_frame : forall cfg ops o k j c, directed o = Some k -> j <> k ->
  get (run cfg ops) j = Some c -> l_freed (c_life c) = false -> l_open (c_life c) = true ->
  get (run cfg (ops ++ [o])) j = Some c /\
  In (c_fd c) (s_allfds (run cfg (ops ++ [o]))) /\ (c_fd c <= s_maxfd (run cfg (ops ++ [o])))%Z.
Proof.
  intros cfg ops o k j c Hd Hn Hg Hf Ho. rewrite run_app. simpl.
  eapply reachk_fd_frame; eauto.
  - apply step_directed_reachk; auto.
  - apply (reach_fd (init cfg)).
    + unfold run. apply reach_run_from. apply r_refl.
    + intros i c0 Hc. unfold get, init in Hc. simpl in Hc. destruct i; discriminate.
Qed.

Theorem handshake_frame : forall k j m s, j <> k ->
  get (process_version k s) j = get s j /\ get (auth_new_client k m s) j = get s j /\
  get (send_challenge k s) j = get s j /\ get (process_auth k m s) j = get s j /\
  get (send_xvp k s) j = get s j /\ get (send_update k s) j = get s j.
Proof.
  intros k j m s Hn. repeat split; eapply reachk_frame; eauto; fin.
Qed.

(* ---- reference counts of the screen chain: in every reachable state the count of the unscaled screen and
   of every scaled screen equals the number of live client records that use it; no two chain entries
   have the same size; every live scaled client's size has an entry *)
Definition b2z (b : bool) : Z := if b then 1%Z else 0%Z.
Fixpoint cnt (P : conn -> bool) (l : list conn) : Z :=
  match l with [] => 0%Z | c :: t => (b2z (P c) + cnt P t)%Z end.
Definition islive (c : conn) : bool := negb (l_freed (c_life c)).
Definition uses_un (c : conn) : bool := islive c && negb (p_scaled (c_proto c)).
Definition uses_sc (w h : Z) (c : conn) : bool :=
  islive c && p_scaled (c_proto c) && ((w =? p_sw (c_proto c)) && (h =? p_sh (c_proto c)))%Z.
Definition keys (l : list (Z * Z * Z)) : list (Z * Z) := map fst l.
Definition sel_ok (ch : list (Z * Z * Z)) (c : conn) : Prop :=
  islive c = true -> p_scaled (c_proto c) = true ->
  has_scaled (p_sw (c_proto c)) (p_sh (c_proto c)) ch = true.
Definition rc_inv (s : screen) : Prop :=
  s_ref s = cnt uses_un (s_conns s) /\
  (forall w h r, In (w, h, r) (s_scaled s) -> r = cnt (uses_sc w h) (s_conns s)) /\
  NoDup (keys (s_scaled s)) /\
  Forall (sel_ok (s_scaled s)) (s_conns s).

Lemma cnt_replace : forall P g l k c, nth_error l k = Some c ->
  cnt P (upd_nth k g l) = (cnt P l - b2z (P c) + b2z (P (g c)))%Z.
Proof.
  induction l as [|x t IH]; intros [|k] c H; simpl in *; try discriminate.
  - inversion H; subst. lia.
  - rewrite (IH k c H). lia.
Qed.
Lemma cnt_upd_eq : forall P g l k, (forall c, nth_error l k = Some c -> P (g c) = P c) ->
  cnt P (upd_nth k g l) = cnt P l.
Proof.
  induction l as [|x t IH]; intros [|k] H; simpl; auto.
  - rewrite (H x); auto.
  - rewrite IH; auto.
Qed.
Lemma cnt_app : forall P l c, cnt P (l ++ [c]) = (cnt P l + b2z (P c))%Z.
Proof. induction l as [|x t IH]; simpl; intros; [lia | rewrite IH; lia]. Qed.
Lemma cnt_zero : forall P l, (forall c, In c l -> P c = false) -> cnt P l = 0%Z.
Proof.
  induction l as [|x t IH]; simpl; intros H; auto.
  rewrite (H x) by auto. rewrite IH; auto.
Qed.
Lemma upd_nth_ext : forall A (g : A -> A) l k c, nth_error l k = Some c ->
  upd_nth k g l = upd_nth k (fun _ => g c) l.
Proof.
  induction l as [|x t IH]; intros [|k] c H; simpl in *; try discriminate; auto.
  - inversion H; subst; auto.
  - rewrite (IH k c H). auto.
Qed.

Lemma keys_adj : forall a b d l, keys (adj_scaled a b d l) = keys l.
Proof.
  unfold keys. induction l as [|[[w0 h0] r0] t IH]; simpl; auto.
  destruct ((w0 =? a) && (h0 =? b))%Z; simpl; [auto | rewrite IH; auto].
Qed.
Lemma in_keys : forall w h r l, In (w, h, r) l -> In (w, h) (keys l).
Proof. intros. unfold keys. apply (in_map fst) in H. exact H. Qed.
Lemma in_adj : forall a b d l, NoDup (keys l) -> forall w h r', In (w, h, r') (adj_scaled a b d l) ->
  exists r, In (w, h, r) l /\ r' = (r + (if ((w =? a) && (h =? b))%Z then d else 0))%Z.
Proof.
  induction l as [|[[w0 h0] r0] t IH]; simpl; intros ND w h r' H; [tauto|].
  unfold keys in ND. simpl in ND. inversion ND as [|x xs Hnotin ND']; subst.
  destruct ((w0 =? a) && (h0 =? b))%Z eqn:E.
  - simpl in H. destruct H as [H|H].
    + inversion H; subst. rewrite E. exists r0. split; auto.
    + destruct ((w =? a) && (h =? b))%Z eqn:E2.
      * exfalso. apply andb_true_iff in E. apply andb_true_iff in E2.
        destruct E as [E1a E1b]. destruct E2 as [E2a E2b].
        apply Z.eqb_eq in E1a. apply Z.eqb_eq in E1b. apply Z.eqb_eq in E2a. apply Z.eqb_eq in E2b. subst.
        apply Hnotin. apply (in_keys _ _ _ _ H).
      * exists r'. split; [right; auto | lia].
  - simpl in H. destruct H as [H|H].
    + inversion H; subst. rewrite E. exists r'. split; [left; auto | lia].
    + destruct (IH ND' w h r' H) as [r [Hin Hr]]. exists r. split; [right; auto | auto].
Qed.
Lemma has_scaled_keys : forall w h l, has_scaled w h l = true <-> In (w, h) (keys l).
Proof.
  intros. unfold has_scaled, keys. rewrite existsb_exists. split.
  - intros [[[w0 h0] r0] [Hin E]]. apply andb_true_iff in E. destruct E as [E1 E2].
    apply Z.eqb_eq in E1. apply Z.eqb_eq in E2. subst. apply (in_map fst) in Hin. exact Hin.
  - intros H. apply in_map_iff in H. destruct H as [[[w0 h0] r0] [E Hin]]. simpl in E. inversion E; subst.
    exists (w, h, r0). split; auto. rewrite !Z.eqb_refl. reflexivity.
Qed.
Lemma has_scaled_adj : forall w h a b d l, has_scaled w h (adj_scaled a b d l) = has_scaled w h l.
Proof.
  intros. destruct (has_scaled w h l) eqn:E.
  - apply has_scaled_keys. rewrite keys_adj. apply has_scaled_keys. auto.
  - destruct (has_scaled w h (adj_scaled a b d l)) eqn:E2; auto.
    apply has_scaled_keys in E2. rewrite keys_adj in E2. apply has_scaled_keys in E2. congruence.
Qed.

Lemma uses_live_un : forall c, l_freed (c_life c) = false -> p_scaled (c_proto c) = false ->
  uses_un c = true /\ forall w h, uses_sc w h c = false.
Proof. intros c A B. unfold uses_un, uses_sc, islive. rewrite A, B. split; auto. Qed.
Lemma uses_live_sc : forall c, l_freed (c_life c) = false -> p_scaled (c_proto c) = true ->
  uses_un c = false /\ forall w h, uses_sc w h c = ((w =? p_sw (c_proto c)) && (h =? p_sh (c_proto c)))%Z.
Proof. intros c A B. unfold uses_un, uses_sc, islive. rewrite A, B. split; auto. Qed.
Lemma uses_freed : forall c, l_freed (c_life c) = true -> uses_un c = false /\ forall w h, uses_sc w h c = false.
Proof. intros c A. unfold uses_un, uses_sc, islive. rewrite A. split; auto. Qed.

(* a record is replaced and the counts move accordingly *)
Lemma rc_replace : forall s k c c' ch' (dun : Z) (dsc : Z -> Z -> Z) s',
  rc_inv s -> get s k = Some c ->
  (b2z (uses_un c') - b2z (uses_un c) = dun)%Z ->
  (forall w h, b2z (uses_sc w h c') - b2z (uses_sc w h c) = dsc w h)%Z ->
  NoDup (keys ch') ->
  (forall w h r', In (w, h, r') ch' -> exists r, In (w, h, r) (s_scaled s) /\ r' = (r + dsc w h)%Z) ->
  (forall w h, has_scaled w h (s_scaled s) = true -> has_scaled w h ch' = true) ->
  sel_ok ch' c' ->
  s_ref s' = (s_ref s + dun)%Z -> s_scaled s' = ch' -> s_conns s' = upd_nth k (fun _ => c') (s_conns s) ->
  rc_inv s'.
Proof.
  intros s k c c' ch' dun dsc s' (R1 & R2 & R3 & R4) Hg Hun Hsc ND Hin Hmono Hsel E1 E2 E3.
  unfold get in Hg. unfold rc_inv. rewrite E1, E2, E3. repeat split; auto.
  - rewrite (cnt_replace _ _ _ _ _ Hg). lia.
  - intros w h r' H. destruct (Hin w h r' H) as [r [Hr ->]]. rewrite (cnt_replace _ _ _ _ _ Hg).
    rewrite (R2 w h r Hr). specialize (Hsc w h). lia.
  - apply Forall_upd.
    + eapply Forall_impl; [|exact R4]. intros x Hx A B. apply Hmono. apply Hx; auto.
    + intros x _ _. exact Hsel.
Qed.

(* a record is updated without touching what the counts depend on *)
Lemma rc_same : forall s k g s',
  rc_inv s -> s_ref s' = s_ref s -> s_scaled s' = s_scaled s -> s_conns s' = upd_nth k g (s_conns s) ->
  (forall c, nth_error (s_conns s) k = Some c ->
     uses_un (g c) = uses_un c /\ (forall w h, uses_sc w h (g c) = uses_sc w h c) /\
     (sel_ok (s_scaled s) c -> sel_ok (s_scaled s) (g c))) ->
  rc_inv s'.
Proof.
  intros s k g s' (R1 & R2 & R3 & R4) E1 E2 E3 H. unfold rc_inv. rewrite E1, E2, E3. repeat split; auto.
  - rewrite cnt_upd_eq; auto. intros c Hc. apply (H c Hc).
  - intros w h r Hr. rewrite cnt_upd_eq; auto. intros c Hc. apply (H c Hc).
  - apply Forall_upd; auto. intros x Hx Px. apply (H x Hx). exact Px.
Qed.

Lemma uses_on_proto : forall f c, noscale f ->
  uses_un (on_proto f c) = uses_un c /\ (forall w h, uses_sc w h (on_proto f c) = uses_sc w h c) /\
  (forall ch, sel_ok ch c -> sel_ok ch (on_proto f c)).
Proof.
  intros f c Hf. unfold on_proto. destruct (l_freed (c_life c)) eqn:E; [auto|].
  destruct (Hf (c_proto c)) as (A & B & C).
  unfold uses_un, uses_sc, sel_ok, islive; simpl. rewrite A, B, C. auto.
Qed.

Lemma rc_updp : forall k f s, noscale f -> rc_inv s -> rc_inv (updp k f s).
Proof.
  intros k f s Hf I. eapply rc_same with (k := k) (g := on_proto f); [exact I | reflexivity | reflexivity | reflexivity | ].
  intros c _. destruct (uses_on_proto f c Hf) as (A & B & C). repeat split; auto.
Qed.

Lemma rc_close : forall k s, rc_inv s -> rc_inv (close_client k s).
Proof.
  intros k s I. unfold close_client. destruct (s_hung s); auto. destruct (live s k) as [c|] eqn:Hl; auto.
  destruct (l_open (c_life c)); auto. destruct (live_some _ _ _ Hl) as [Hg Hnf].
  eapply rc_same with (k := k) (g := fun _ => _); [exact I | reflexivity | reflexivity | reflexivity | ].
  intros c0 Hc0. unfold get in Hg. rewrite Hg in Hc0. inversion Hc0; subst c0.
  unfold uses_un, uses_sc, sel_ok, islive; simpl. repeat split; auto.
Qed.

Lemma gone_shape : forall k s c, s_hung s = false -> live s k = Some c ->
  p_outlock (c_proto c) || p_sendlock (c_proto c) = false ->
  exists c', l_freed (c_life c') = true /\
    s_conns (connection_gone k s) = upd_nth k (fun _ => c') (s_conns s) /\
    s_ref (connection_gone k s) = s_ref (adj_ref (c_proto c) (-1) s) /\
    s_scaled (connection_gone k s) = s_scaled (adj_ref (c_proto c) (-1) s).
Proof.
  intros k s c Hh Hl Hk. unfold connection_gone. rewrite Hh, Hl, Hk.
  eexists. split; [|unfold adj_ref; destruct (p_scaled (c_proto c)); simpl; destruct (s_ptr s) as [j0|]; simpl;
    try destruct (Nat.eqb j0 k); simpl; repeat split; reflexivity].
  reflexivity.
Qed.

Lemma rc_gone : forall k s, rc_inv s -> rc_inv (connection_gone k s).
Proof.
  intros k s I. destruct (s_hung s) eqn:Hh. { unfold connection_gone. rewrite Hh. exact I. }
  destruct (live s k) as [c|] eqn:Hl. 2:{ unfold connection_gone. rewrite Hh, Hl. exact I. }
  destruct (p_outlock (c_proto c) || p_sendlock (c_proto c)) eqn:Hk.
  { unfold connection_gone. rewrite Hh, Hl, Hk. exact (rc_updp k drop_ft s ltac:(solve_noscale) I). }
  destruct (gone_shape k s c Hh Hl Hk) as (c' & Hf' & E3 & E1 & E2).
  destruct (live_some _ _ _ Hl) as [Hg Hnf].
  destruct (uses_freed c' Hf') as [F1 F2].
  assert (Hsel : forall ch, sel_ok ch c').
  { intros ch A. unfold islive in A. rewrite Hf' in A. discriminate. }
  destruct (p_scaled (c_proto c)) eqn:Hs.
  - destruct (uses_live_sc c Hnf Hs) as [U1 U2].
    eapply rc_replace with (k := k) (c := c) (c' := c') (dun := 0%Z)
       (dsc := fun w h => (if ((w =? p_sw (c_proto c)) && (h =? p_sh (c_proto c)))%Z then -1 else 0)%Z)
       (ch' := adj_scaled (p_sw (c_proto c)) (p_sh (c_proto c)) (-1) (s_scaled s)); eauto.
    + rewrite F1, U1. reflexivity.
    + intros w h. rewrite F2, U2. destruct ((w =? p_sw (c_proto c)) && (h =? p_sh (c_proto c)))%Z; reflexivity.
    + rewrite keys_adj. apply I.
    + intros w h r' H. apply in_adj; auto. apply I.
    + intros w h H. rewrite has_scaled_adj. auto.
    + rewrite E1. unfold adj_ref. rewrite Hs. change (s_ref s = s_ref s + 0)%Z. lia.
    + rewrite E2. unfold adj_ref. rewrite Hs. reflexivity.
  - destruct (uses_live_un c Hnf Hs) as [U1 U2].
    eapply rc_replace with (k := k) (c := c) (c' := c') (dun := (-1)%Z) (dsc := fun _ _ => 0%Z)
       (ch' := s_scaled s); eauto.
    + rewrite F1, U1. reflexivity.
    + intros w h. rewrite F2, U2. reflexivity.
    + apply I.
    + intros w h r' H. exists r'. split; auto. lia.
    + rewrite E1. unfold adj_ref. rewrite Hs. reflexivity.
    + rewrite E2. unfold adj_ref. rewrite Hs. reflexivity.
Qed.

Lemma rc_add_entry : forall sw sh s, rc_inv s -> has_scaled sw sh (s_scaled s) = false ->
  rc_inv (set_scaled ((sw, sh, 0%Z) :: s_scaled s) s).
Proof.
  intros sw sh s (R1 & R2 & R3 & R4) Hn. unfold rc_inv; simpl. repeat split; auto.
  - intros w h r [H|H]; [|auto]. inversion H; subst. symmetry. apply cnt_zero. intros c Hc.
    destruct (uses_sc w h c) eqn:U; auto. exfalso.
    unfold uses_sc in U. apply andb_true_iff in U. destruct U as [U U3]. apply andb_true_iff in U. destruct U as [U1 U2].
    apply andb_true_iff in U3. destruct U3 as [Ua Ub]. apply Z.eqb_eq in Ua. apply Z.eqb_eq in Ub.
    pose proof (proj1 (Forall_forall _ _) R4 c Hc U1 U2) as Hs. rewrite <- Ua, <- Ub in Hs. congruence.
  - unfold keys in *; simpl. constructor; auto. intro Hin. apply has_scaled_keys in Hin. congruence.
  - eapply Forall_impl; [|exact R4]. intros c Hc A B. pose proof (Hc A B) as E. unfold has_scaled in *. simpl. rewrite E. apply orb_true_r.
Qed.

Lemma rc_move : forall k sw sh s0 c, rc_inv s0 -> live s0 k = Some c -> has_scaled sw sh (s_scaled s0) = true ->
  rc_inv (updp k (pset_scale true sw sh)
            (set_scaled (adj_scaled sw sh 1 (s_scaled (adj_ref (c_proto c) (-1) s0))) (adj_ref (c_proto c) (-1) s0))).
Proof.
  intros k sw sh s0 c I Hl F0. destruct (live_some _ _ _ Hl) as [Hg Hnf].
  set (c' := on_proto (pset_scale true sw sh) c).
  assert (Hc' : l_freed (c_life c') = false /\ p_scaled (c_proto c') = true /\ p_sw (c_proto c') = sw /\ p_sh (c_proto c') = sh)
    by (unfold c', on_proto; rewrite Hnf; simpl; auto).
  destruct Hc' as (Hf' & Hs' & Pw & Ph). destruct (uses_live_sc c' Hf' Hs') as [V1 V2]. rewrite Pw, Ph in V2.
  destruct (p_scaled (c_proto c)) eqn:Hs.
  - destruct (uses_live_sc c Hnf Hs) as [U1 U2].
    eapply rc_replace with (k := k) (c := c) (c' := c') (dun := 0%Z)
       (dsc := fun w h => ((if ((w =? sw) && (h =? sh))%Z then 1 else 0) +
                           (if ((w =? p_sw (c_proto c)) && (h =? p_sh (c_proto c)))%Z then -1 else 0))%Z)
       (ch' := adj_scaled sw sh 1 (adj_scaled (p_sw (c_proto c)) (p_sh (c_proto c)) (-1) (s_scaled s0))); eauto.
    + rewrite V1, U1. reflexivity.
    + intros w h. rewrite V2, U2.
      destruct ((w =? sw) && (h =? sh))%Z; destruct ((w =? p_sw (c_proto c)) && (h =? p_sh (c_proto c)))%Z; reflexivity.
    + rewrite !keys_adj. apply I.
    + intros w h r' H. apply in_adj in H; [|rewrite keys_adj; apply I]. destruct H as [r1 [H1 ->]].
      apply in_adj in H1; [|apply I]. destruct H1 as [r [H0 ->]]. exists r. split; auto. lia.
    + intros w h H. rewrite !has_scaled_adj. auto.
    + intros _ _. rewrite Pw, Ph, !has_scaled_adj. exact F0.
    + unfold adj_ref. rewrite Hs. change (s_ref s0 = s_ref s0 + 0)%Z. lia.
    + unfold adj_ref. rewrite Hs. reflexivity.
    + unfold adj_ref. rewrite Hs. exact (upd_nth_ext _ _ _ _ _ Hg).
  - destruct (uses_live_un c Hnf Hs) as [U1 U2].
    eapply rc_replace with (k := k) (c := c) (c' := c') (dun := (-1)%Z)
       (dsc := fun w h => (if ((w =? sw) && (h =? sh))%Z then 1 else 0)%Z)
       (ch' := adj_scaled sw sh 1 (s_scaled s0)); eauto.
    + rewrite V1, U1. reflexivity.
    + intros w h. rewrite V2, U2. destruct ((w =? sw) && (h =? sh))%Z; reflexivity.
    + rewrite keys_adj. apply I.
    + intros w h r' H. apply in_adj; auto. apply I.
    + intros w h H. rewrite has_scaled_adj. auto.
    + intros _ _. rewrite Pw, Ph, has_scaled_adj. exact F0.
    + unfold adj_ref. rewrite Hs. reflexivity.
    + unfold adj_ref. rewrite Hs. reflexivity.
    + unfold adj_ref. rewrite Hs. exact (upd_nth_ext _ _ _ _ _ Hg).
Qed.

Lemma rc_rescale : forall k sw sh s, rc_inv s -> rc_inv (scaling_setup k sw sh s).
Proof.
  intros k sw sh s I. unfold scaling_setup. destruct (live s k) as [c|] eqn:Hl; auto.
  destruct (live_some _ _ _ Hl) as [Hg Hnf].
  destruct ((sw =? g_w (s_cfg s)) && (sh =? g_h (s_cfg s)))%Z.
  - set (c' := on_proto (pset_scale false 0 0) c).
    assert (Hc' : l_freed (c_life c') = false /\ p_scaled (c_proto c') = false)
      by (unfold c', on_proto; rewrite Hnf; simpl; auto).
    destruct Hc' as [Hf' Hs']. destruct (uses_live_un c' Hf' Hs') as [V1 V2].
    assert (Hsel : forall ch, sel_ok ch c') by (intros ch _ B; congruence).
    destruct (p_scaled (c_proto c)) eqn:Hs.
    + destruct (uses_live_sc c Hnf Hs) as [U1 U2].
      eapply rc_replace with (k := k) (c := c) (c' := c') (dun := 1%Z)
         (dsc := fun w h => (if ((w =? p_sw (c_proto c)) && (h =? p_sh (c_proto c)))%Z then -1 else 0)%Z)
         (ch' := adj_scaled (p_sw (c_proto c)) (p_sh (c_proto c)) (-1) (s_scaled s)); eauto.
      * rewrite V1, U1. reflexivity.
      * intros w h. rewrite V2, U2. destruct ((w =? p_sw (c_proto c)) && (h =? p_sh (c_proto c)))%Z; reflexivity.
      * rewrite keys_adj. apply I.
      * intros w h r' H. apply in_adj; auto. apply I.
      * intros w h H. rewrite has_scaled_adj. auto.
      * unfold adj_ref. rewrite Hs. reflexivity.
      * unfold adj_ref. rewrite Hs. reflexivity.
      * unfold adj_ref. rewrite Hs. exact (upd_nth_ext _ _ _ _ _ Hg).
    + destruct (uses_live_un c Hnf Hs) as [U1 U2].
      eapply rc_replace with (k := k) (c := c) (c' := c') (dun := 0%Z) (dsc := fun _ _ => 0%Z)
         (ch' := s_scaled s); eauto.
      * rewrite V1, U1. reflexivity.
      * intros w h. rewrite V2, U2. reflexivity.
      * apply I.
      * intros w h r' H. exists r'. split; auto. lia.
      * unfold adj_ref. rewrite Hs. change (s_ref s + -1 + 1 = s_ref s + 0)%Z. lia.
      * unfold adj_ref. rewrite Hs. reflexivity.
      * unfold adj_ref. rewrite Hs. exact (upd_nth_ext _ _ _ _ _ Hg).
  - destruct (has_scaled sw sh (s_scaled s)) eqn:F.
    + apply (rc_move k sw sh s c); auto.
    + destruct ((sw =? 0) || (sh =? 0))%Z; [exact I|].
      apply (rc_move k sw sh (set_scaled ((sw, sh, 0%Z) :: s_scaled s) s) c).
      * apply rc_add_entry; auto.
      * exact Hl.
      * unfold has_scaled. simpl. rewrite !Z.eqb_refl. reflexivity.
Qed.

Lemma bstep_rc : forall k s s', bstep k s s' -> rc_inv s -> rc_inv s'.
Proof.
  intros k s s' H I. destruct H; try exact I.
  - apply rc_updp; auto.
  - apply rc_close; auto.
  - apply rc_gone; auto.
  - apply rc_rescale; auto.
Qed.

Lemma gstep_rc : forall s s', gstep s s' -> rc_inv s -> rc_inv s'.
Proof.
  intros s s' H I. destruct H; try exact I.
  - eapply bstep_rc; eauto.
  - (* a connection is accepted: one more user of the unscaled screen *)
    destruct I as (R1 & R2 & R3 & R4). unfold rc_inv, add_conn. simpl. repeat split; auto.
    + rewrite cnt_app. rewrite R1. reflexivity.
    + intros w h r Hr. rewrite cnt_app. rewrite (R2 w h r Hr). unfold uses_sc. simpl. lia.
    + apply Forall_app. split; auto. constructor; auto. intros _ B. simpl in B. discriminate.
  - (* newClientHook *)
    eapply rc_same with (k := k); [exact I | reflexivity | reflexivity | reflexivity | ].
    intros c0 _. unfold uses_un, uses_sc, sel_ok, islive; simpl. repeat split; auto.
  - (* rfbSetNonBlocking failed: nobody's user *)
    destruct I as (R1 & R2 & R3 & R4). unfold rc_inv, dead_conn. simpl. repeat split; auto.
    + rewrite cnt_app. rewrite R1. unfold uses_un, islive. simpl. lia.
    + intros w h r Hr. rewrite cnt_app. rewrite (R2 w h r Hr). unfold uses_sc, islive. simpl. lia.
    + apply Forall_app. split; auto. constructor; auto. intros A. unfold islive in A. simpl in A. discriminate.
Qed.

Lemma reach_rc : forall s s', reach s s' -> rc_inv s -> rc_inv s'.
Proof. intros s s' H. induction H; auto. intros. eapply gstep_rc; eauto. Qed.

Theorem refcounts_match_users : forall cfg ops, rc_inv (run cfg ops).
Proof.
  intros. apply (reach_rc (init cfg)).
  - unfold run. apply reach_run_from. apply r_refl.
  - unfold rc_inv, init; simpl. repeat split; auto; try constructor. intros w h r [].
Qed.

Theorem refcounts_match_users_stmt : forall cfg ops,
  let s := run cfg ops in
  s_ref s = cnt uses_un (s_conns s) /\
  (forall w h r, In (w, h, r) (s_scaled s) -> r = cnt (uses_sc w h) (s_conns s)) /\
  NoDup (keys (s_scaled s)) /\
  (forall k c, live s k = Some c -> p_scaled (c_proto c) = true ->
     has_scaled (p_sw (c_proto c)) (p_sh (c_proto c)) (s_scaled s) = true).
Proof.
  intros cfg ops s. destruct (refcounts_match_users cfg ops) as (R1 & R2 & R3 & R4). repeat split; auto.
  intros k c Hl Hs. destruct (live_some _ _ _ Hl) as [Hg Hnf].
  apply (Forall_nth _ _ _ _ _ R4 Hg); auto. unfold islive. rewrite Hnf. reflexivity.
Qed.

Lemma all_freed_counts_zero : forall s, rc_inv s ->
  (forall k c, get s k = Some c -> l_freed (c_life c) = true) ->
  s_ref s = 0%Z /\ forall w h r, In (w, h, r) (s_scaled s) -> r = 0%Z.
Proof.
  intros s (R1 & R2 & _ & _) Hall.
  assert (Z0 : forall P, (forall c, l_freed (c_life c) = true -> P c = false) -> cnt P (s_conns s) = 0%Z).
  { intros P HP. apply cnt_zero. intros c Hin. apply In_nth_error in Hin. destruct Hin as [k Hk].
    apply HP. apply (Hall k c Hk). }
  split.
  - rewrite R1. apply Z0. intros c Hf. apply (uses_freed c Hf).
  - intros w h r Hr. rewrite (R2 w h r Hr). apply Z0. intros c Hf. apply (uses_freed c Hf).
Qed.

Theorem counts_zero_after_shutdown : forall cfg ops,
  let s := run cfg (ops ++ [OShutdown]) in
  s_cleaned s = false ->
  s_ref s = 0%Z /\ forall w h r, In (w, h, r) (s_scaled s) -> r = 0%Z.
Proof.
  intros cfg ops s Hc. apply all_freed_counts_zero; [apply refcounts_match_users|].
  intros k c Hg. apply (torn_down_after_shutdown cfg ops Hc k c Hg).
Qed.

Theorem counts_zero_after_cleanup : forall cfg ops,
  s_cleaned (run cfg ops) = false ->
  let s := run cfg (ops ++ [OCleanup]) in
  s_ref s = 0%Z /\ forall w h r, In (w, h, r) (s_scaled s) -> r = 0%Z.
Proof.
  intros cfg ops Hc s. apply all_freed_counts_zero; [apply refcounts_match_users|].
  intros k c Hg. apply (torn_down_after_cleanup cfg ops Hc k c Hg).
Qed.

(* ---- rfbSetNonBlocking fails on a new descriptor: one close, nothing kept, nothing else touched *)
Theorem nonblock_failure_outcome : forall cfg ops pre po,
  let s0 := run cfg ops in
  let s := run cfg (ops ++ [OAccept DNonblock pre po]) in
  s_cleaned s0 = false -> (if s_listening s0 then [] else s_pending s0) = [] ->
  (exists c, get s (length (s_conns s0)) = Some c /\ l_freed (c_life c) = true /\ l_close (c_life c) = 1%nat /\
             l_new (c_life c) = 0%nat /\ l_gone (c_life c) = 0%nat /\ p_res (c_proto c) = [] /\ c_leak c = []) /\
  s_ref s = s_ref s0 /\ s_scaled s = s_scaled s0 /\ s_order s = s_order s0 /\
  s_allfds s = s_allfds s0 /\ s_maxfd s = s_maxfd s0 /\ s_ioc s = s_ioc s0 /\
  (forall j c, get s0 j = Some c -> get s j = Some c).
Proof.
  intros cfg ops pre po s0 s Hc Hw. unfold s. rewrite run_app. simpl. fold s0. unfold step.
  rewrite (never_blocks cfg ops : s_hung s0 = false), Hc, Hw. simpl. split; [|repeat split; auto].
  - eexists. split; [unfold get, dead_conn; simpl; rewrite nth_error_app2, Nat.sub_diag by auto; reflexivity|].
    simpl. repeat split; auto.
  - intros j c Hg. unfold get, dead_conn. simpl. rewrite nth_error_app1; auto. apply nth_error_Some. unfold get in Hg. congruence.
Qed.

Theorem teardown_frame : forall k j s, j <> k ->
  get (close_client k s) j = get s j /\ get (connection_gone k s) j = get s j.
Proof.
  intros. split; eapply bstep_frame; eauto; [apply b_close | apply b_gone].
Qed.

Theorem message_frame : forall k j cur s, j <> k ->
  get (process_normal k cur s) j = get s j /\ get (update_client k s) j = get s j /\ get (reap_one s k) j = get s j.
Proof.
  intros. repeat split; eapply reachk_frame; eauto.
  - apply R_normal; apply rk_refl.
  - apply R_update_client; apply rk_refl.
  - apply R_reap_one0.
Qed.

(* the scaled-screen references: a teardown changes exactly the count of the screen the client
   referenced, by -1, and nothing else in the chain *)
Theorem gone_releases_own_reference : forall k s c, s_hung s = false -> live s k = Some c ->
  p_outlock (c_proto c) || p_sendlock (c_proto c) = false ->
  let s' := connection_gone k s in
  if p_scaled (c_proto c)
  then s_ref s' = s_ref s /\ s_scaled s' = adj_scaled (p_sw (c_proto c)) (p_sh (c_proto c)) (-1) (s_scaled s)
  else s_ref s' = (s_ref s - 1)%Z /\ s_scaled s' = s_scaled s.
Proof.
  intros k s c Hh E HL. unfold connection_gone. rewrite Hh, E, HL. unfold adj_ref.
  destruct (p_scaled (c_proto c)); simpl; destruct (s_ptr s) as [j0|]; simpl; try destruct (Nat.eqb j0 k); simpl; auto.
Qed.

Theorem close_keeps_references : forall k s, s_ref (close_client k s) = s_ref s /\ s_scaled (close_client k s) = s_scaled s
  /\ s_ptr (close_client k s) = s_ptr s /\ s_order (close_client k s) = s_order s /\ s_cfg (close_client k s) = s_cfg s.
Proof.
  intros. unfold close_client. destruct (s_hung s); auto. destruct (live s k); auto.
  destruct (l_open (c_life c)); auto.
Qed.

(* ------------------------------------------------------------------ witnesses (by computation) *)
Definition cfg0 : config := mkConfig 8 8 false false false false false false.
Definition cfg_ft : config := mkConfig 8 8 false false false false false true.

Definition ver38 : list Z := [82; 70; 66; 32; 48; 48; 51; 46; 48; 48; 56; 10]%Z.
Definition ft_request : list Z := ([7; 3; 0; 0; 0; 0; 0; 0; 0; 0; 0; 16] ++ existing_file)%Z.
Definition hs (k : nat) : list op := [OIn k ver38; OPe; OIn k [1%Z]; OPe; OIn k [1%Z]; OPe].

Lemma nonblock_listen_nonvacuous :
  let s := run cfg0 [OAccept DAccept [] true; OLAccept DNonblock [] true; OPe; OShutdown] in
  length (s_conns s) = 2%nat /\ s_ref s = 0%Z /\
  exists c, get s 1%nat = Some c /\ l_freed (c_life c) = true /\ l_close (c_life c) = 1%nat /\ l_new (c_life c) = 0%nat.
Proof. vm_compute. repeat split. eexists. repeat split. Qed.

(* the inetd route: the descriptor handed over at the first rfbCheckFds belongs to its client record and is
   closed exactly once, whether the peer goes away or the server is shut down with it open; a descriptor
   that was never handed over is closed exactly once by rfbShutdownSockets *)
Lemma inetd_witnesses :
  (let s := run cfg0 ([OInetd DAccept ver38 true; OPe; OPeerClose 0; OPe; OShutdown]) in
   s_ref s = 0%Z /\ exists c, get s 0%nat = Some c /\ l_freed (c_life c) = true /\ l_close (c_life c) = 1%nat /\
                              l_gone (c_life c) = 1%nat /\ c_leak c = []) /\
  (let s := run cfg0 ([OInetd DAccept ver38 true; OPe; OShutdown]) in
   s_ref s = 0%Z /\ exists c, get s 0%nat = Some c /\ l_freed (c_life c) = true /\ l_close (c_life c) = 1%nat /\
                              l_gone (c_life c) = 1%nat) /\
  (let s := run cfg0 ([OInetd DAccept ver38 true; OShutdown; OPe]) in
   s_ref s = 0%Z /\ length (s_conns s) = 1%nat /\
   exists c, get s 0%nat = Some c /\ l_freed (c_life c) = true /\ l_close (c_life c) = 1%nat /\ l_new (c_life c) = 0%nat) /\
  (let s := run cfg0 ([OInetd DNonblock ver38 true; OPe; OShutdown]) in
   s_ref s = 0%Z /\ exists c, get s 0%nat = Some c /\ l_freed (c_life c) = true /\ l_close (c_life c) = 1%nat /\ l_new (c_life c) = 0%nat).
Proof. vm_compute. repeat split; eexists; repeat split. Qed.

Lemma idle_nonvacuous :
  let s := run cfg0 ([OAccept DAccept [] true; OAccept DAccept [] true; OPeerClose 0] ++ [OPe]) in
  s_cleaned s = false /\
  exists c, get s 0%nat = Some c /\ l_freed (c_life c) = true /\ l_gone (c_life c) = 1%nat.
Proof. vm_compute. split; auto. eexists. repeat split. Qed.

(* the former defects C12-N1 / C12-F7 / C12-F14a / C12-N2 (fixed in /repo): their witnesses now end well *)
Lemma shutdown_nonvacuous :
  let s := run cfg0 ([OAccept DAccept [] true; OAccept DHold [] true; OAppClose 0] ++ [OShutdown]) in
  s_cleaned s = false /\ length (s_conns s) = 2%nat /\
  exists c, get s 0%nat = Some c /\ l_freed (c_life c) = true /\ l_gone (c_life c) = 1%nat.
Proof. vm_compute. repeat split. eexists. repeat split. Qed.

Lemma former_witnesses :
  (exists c, get (run cfg_ft ([OAccept DAccept [] true] ++ hs 0 ++ [OIn 0 ft_request; OPeerClose 0; OPe; OCutText8; OPe])) 0%nat = Some c
             /\ l_freed (c_life c) = true /\ l_gone (c_life c) = 1%nat /\ c_leak c = []) /\
  (exists c, get (run cfg0 ([OAccept DAccept [] true; OAppClose 0] ++ [OCleanup])) 0%nat = Some c
             /\ l_freed (c_life c) = true /\ l_gone (c_life c) = 1%nat).
Proof. split; vm_compute; eexists; repeat split. Qed.

(* two clients on the same scaled screen, one on the unscaled one: every teardown gives back exactly
   its own reference *)
Definition setscale (f : Z) : list Z := [8; f; 0; 0]%Z.
Lemma scaled_nonvacuous :
  let pre := [OAccept DAccept [] true] ++ hs 0 ++ [OAccept DAccept [] true] ++ hs 1 ++ [OAccept DAccept [] true] ++ hs 2
             ++ [OIn 0 (setscale 2); OPe; OIn 1 (15 :: tl (setscale 2))%Z; OPe] in
  s_scaled (run cfg0 pre) = [(4, 4, 2)]%Z /\ s_ref (run cfg0 pre) = 1%Z /\
  s_scaled (run cfg0 (pre ++ [OPeerClose 0; OPe])) = [(4, 4, 1)]%Z /\ s_ref (run cfg0 (pre ++ [OPeerClose 0; OPe])) = 1%Z /\
  s_scaled (run cfg0 (pre ++ [OShutdown])) = [(4, 4, 0)]%Z /\ s_ref (run cfg0 (pre ++ [OShutdown])) = 0%Z.
Proof. vm_compute. repeat split. Qed.

(* a connection refused on the listening-socket path is closed exactly once *)
Lemma listen_refuse_nonvacuous :
  exists c, get (run cfg0 [OLAccept DRefuse [] true; OPe]) 0%nat = Some c /\
            l_freed (c_life c) = true /\ l_close (c_life c) = 1%nat /\ l_gone (c_life c) = 1%nat.
Proof. vm_compute. eexists. repeat split. Qed.
