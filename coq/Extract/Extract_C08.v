(* Extraction of the C08 model: the same client mirror as C07 (CliMsg/CliInit) and the reference encoders
   used to produce the valid streams that are then mutated.  ExtrOcamlBasic only. *)
From LV Require Import Dec.CliInit Dec.RefEnc Dec.RefEncZ.
Require Import ExtrOcamlBasic.
Extraction Language OCaml.
Extraction "../build/ocaml/C08/model.ml"
  init_state init_out step clr_log load_fb set_fix api_ext_size c_w c_h c_fb c_ev c_out c_taint c_fmt
  ref_raw ref_copyrect ref_rre ref_corre ref_hextile rect_header fbu_header
  ref_zlib ref_ultra ref_zrle ref_trle ref_tight toks.
