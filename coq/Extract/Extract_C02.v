(* Extraction of the C02 model (ExtrOcamlBasic only; Z/positive/nat stay inductive). *)
From LV Require Import Region.RegionDefs Update.UpdateDefs.
Require Import ExtrOcamlBasic.
Extraction Language OCaml.
Extraction "../build/ocaml/C02/model.ml"
  step init_state pending inv_client_b pic_get rgn_iter rgn_is_empty zrange fmt_bpp fmt_bits.
