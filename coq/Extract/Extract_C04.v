(* Extraction of the C04 model (ExtrOcamlBasic only; Z/positive/nat stay inductive). *)
From LV Require Import Wire.C2S.
Require Import ExtrOcamlBasic.
Extraction Language OCaml.
Extraction "../build/ocaml/C04/model.ml"
  connect process_message run_conn conn_fuel update init_state top_feed clip parse_version bsum.
