(* Extraction of the C01 model (ExtrOcamlBasic only; Z/positive/nat stay inductive). *)
From LV Require Import Enc.EncBase Enc.ZRLE Enc.Update Enc.Tight Enc.TightSplit Enc.RawSplit Dec.SpecZRLE Dec.SpecTight Dec.SpecUpdate.
Require Import ExtrOcamlBasic.
Extraction Language OCaml.
Extraction "../build/ocaml/C01/model.ml" send_rect send_rect_split send_tight_session wire_bytes dec_rect zrle_cmode_gen zrle_bpp15 spec_cmode spec_tpixel3 dec_tight le_val le_bytes grid_bytes.
