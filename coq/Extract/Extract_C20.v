(* Extraction of the C20 model (ExtrOcamlBasic only; Z/positive/nat stay inductive). *)
From LV Require Import Gen.Consts_C20 Httpd.HttpdDefs Httpd.HttpdSend.
Require Import ExtrOcamlBasic.
Extraction Language OCaml.
Extraction "../build/ocaml/C20/model.ml" http_process_n v_prefix v_tree parse_params atoi accept_step http_call subst_text wx_loop wxd_loop C20_WX_SLICE_MS.
