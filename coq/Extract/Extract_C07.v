(* Extraction of the C07 model: client mirror (CliMsg/CliInit) and reference encoders (RefEnc).
   ExtrOcamlBasic only; Z/positive/nat stay inductive. *)
From LV Require Import Dec.CliInit Dec.RefEnc Dec.RefEncZ.
Require Import ExtrOcamlBasic.
Extraction Language OCaml.
Extraction "../build/ocaml/C07/model.ml"
  init_state init_out step clr_log load_fb set_fix api_ext_size c_w c_h c_fb c_ev c_out c_taint c_fmt
  ref_raw ref_copyrect ref_rre ref_corre ref_hextile rect_header fbu_header
  ref_zlib ref_ultra ref_zrle ref_trle ref_tight toks.
