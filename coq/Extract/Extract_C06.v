(* Extraction of the C06 model (ExtrOcamlBasic only; Z/positive/nat stay inductive). *)
From LV Require Import Wire.C2SInput Session.InputDefs Session.InputWorld.
Require Import ExtrOcamlBasic.
Extraction Language OCaml.
Extraction "../build/ocaml/C06/model.ml"
  c06_step c06_run init_server state_code scale_d scale_v ev_client enc_input c06_ustep init_world.
