(* Extraction of the C13 protocol models (ExtrOcamlBasic only). *)
From LV Require Import Session.ThreadsModel Session.ThreadsProofs.
Require Import ExtrOcamlBasic.
(* ocaml/vutil.ml (shared) mentions the extracted types z and positive *)
Definition c13_z_for_vutil : BinNums.Z := BinNums.Z0.
Extraction Language OCaml.
Extraction "../build/ocaml/C13/model.ml"
  run enabled cur_step cur_init cur_final cu_fb it_step it_init it_uaf sh_step sh_step_cfg sh_init sh_final sh_gone sh_pcI sh_wait sh_shut
  cfg_head cfg_before_86ddb5d cfg_nojoin sh_init_pending sh_init_onhold sh_pend sh_selfail_witness sh_nojoin_witness
  th_run th_cycles th_zombie th_live lock_table lock_table_palette lock_table_n respects_rank
  c13_z_for_vutil cur_witness it_witness sh_witness sh_finishing sj_step sj_init sj_uaf sj_freed sj_final sj_witness
  nf_step nf_init nf_final nf_ok nf_send nf_badunlock nf_pcA nf_pcB nf_gone_witness nf_new_witness nf_finishing
  rc_step rc_init rc_final rc_reclaimed rc_bad rc_joined rc_detached rc_leak_witness rc_early_witness rc_finishing
  ls_step ls_init ls_final ls_badjoin ls_late ls_witness
  hs_step hs_init hs_final hs_state hs_witness hs_finishing
  iw_step iw_init iw_final iw_uaf iw_fr0 iw_fr1
  P_send P_cursor P_upd P_list P_ref P_out.
