(* Extraction of the integer part of the C17 model (ExtrOcamlBasic only).  ScaleF (primitive floats)
   is not extracted: see props/C17.py (coqc evaluates it on generated case lists). *)
From LV Require Import Scale.ScaleDefs Scale.ScaleQ Scale.ScalePtr Scale.ScaleCopy Gen.Consts_C17.
Require Import ExtrOcamlBasic.
Extraction Language OCaml.
Extraction "../build/ocaml/C17/model.ml"
  update_rect scaling_setup client_new client_gone mark_modified resize_msg scaled_size split_rect_count
  blank_fb find_scaled scaleQ correctionQ zlib_max_rect_size ultra_max_rect_size
  ptr_new ptr_gone ptr_msg ptr_flush copy_pixels.
