(* Extraction of the C05 model (ExtrOcamlBasic only; Z/N/positive/nat stay inductive). *)
From LV Require Import Auth.Des Auth.AuthModel.
Require Import ExtrOcamlBasic.
Extraction Language OCaml.
Extraction "../build/ocaml/C05/model.ml"
  step proc_init st_code encrypt_bytes vnc_encrypt des_encrypt des_decrypt gcrypt_weak vnc_key
  mkCfg cfgF cfgE cfgU xor_check cfg_fixed cfg_fixed3 cfg_legacy default_ext mkScreen PwNone.
