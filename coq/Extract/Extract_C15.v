(* Extraction of the C15 model (ExtrOcamlBasic only; Z/positive/nat stay inductive). *)
From LV Require Import Cursor.CursorDefs Cursor.CursorSession Cursor.CursorReqClip.
Require Import ExtrOcamlBasic.
Extraction Language OCaml.
Extraction "../build/ocaml/C15/model.ml"
  show hide make_rich_from_x make_mask_for_xcursor make_x_from_rich shape_msg pos_msg
  new_client set_cursor set_encodings ptr_event fur fill send_update pump pump_h pump_rounds pump_rounds_r use_shared default_cursor new_framebuffer init_format.
