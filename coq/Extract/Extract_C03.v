(* Extraction of the C03 model (ExtrOcamlBasic only; Z/positive/nat stay inductive). *)
From LV Require Import Region.RegionDefs Gen.Consts_C03 Gen.Funs_C03
     Wire.CountsModel Wire.CapsModel Wire.UpdateModel Wire.S2CModel.
Require Import ExtrOcamlBasic.
Extraction Language OCaml.
Extraction "../build/ocaml/C03/model.ml"
  caps_init set_encodings model_update model_update_sel hdr_matches phdr_count region_of_rects
  on_fur fur_accepted clip_request on_pixfmt on_ptr_moved on_set_cursor on_newfb on_setscale on_sds_fail
  emit_rect announce n_region_rects emit_region emitted_len copy_ublen copy_peak count_tight
  parse_stream pst_set_fb pst_set_encodings pst_set_format pst_set_scale
  check_handshake handshake_shape server_init_bytes
  enc_Tight enc_TightPng enc_Raw.
