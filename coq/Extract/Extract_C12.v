(* Extraction of the C12 lifecycle model (ExtrOcamlBasic only; Z/positive/nat stay inductive). *)
From LV Require Import Gen.Consts_C12 Session.LifecycleModel.
Require Import ExtrOcamlBasic.
Extraction Language OCaml.
Extraction "../build/ocaml/C12/model.ml"
  step init run state_num live get
  s_conns s_order s_allfds s_maxfd s_ref s_ptr s_ioc s_bad s_log s_hung s_unmod s_cleaned s_cfg
  c_fd c_life c_proto c_leak l_freed l_open l_new l_gone l_close
  p_state p_minor p_hold p_req p_mod p_enc p_res p_ftopen p_outlock p_sendlock p_wr p_inq p_peer
  has_res is_open iter_clients s_scaled p_scaled p_sw p_sh s_pending.
