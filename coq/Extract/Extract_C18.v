(* Extraction of the C18 model (ExtrOcamlBasic only; Z/positive/nat stay inductive). *)
From LV Require Import Wire.C2SInput Session.InputDefs Session.ClipboardDefs.
Require Import ExtrOcamlBasic.
Extraction Language OCaml.
Extraction "../build/ocaml/C18/model.ml"
  wstep unlock_all init_server state_code out_view enc_out lvc_send_utf8 lvc_recv ztake lvc_write_all.
