(* Extraction of the C19 model (ExtrOcamlBasic only; Z/positive/nat stay inductive). *)
From LV Require Import Session.FileXferDefs Session.FileXferTight Session.FileXferTightProofs.
Require Import ExtrOcamlBasic.
Extraction Language OCaml.
Extraction "../build/ocaml/C19/model.ml" run_message run_chunk run_gone st0 translate_pure tight_target stays_below_root convert_path
  tight_step_g join_dir tight_gate tstate0 v_tight_tree v_tight_pre45 v_tight_pre4 v_tight_pre5 v_tight_prefix run_args t_effective tinit0.
