(* Extraction of the C09 model (ExtrOcamlBasic only; Z/positive/nat stay inductive). *)
From LV Require Import Ws.WsDefs Ws.Base64Defs Ws.Sha1Defs Ws.WsSpecDefs Ws.WsDecoderModel Ws.WsEncoderModel Ws.WsHandshakeModel.
Require Import ExtrOcamlBasic.
Extraction Language OCaml.
Extraction "../build/ocaml/C09/model.ml"
  ws_init ws_decode ws_encode ws_write ws_accept ws_handshake b64_ntop b64_pton sha1 parse_stream encode_frame
  w_st w_hd h_nread w_readlen w_carrylen w_contop mkIO io_stream io_sched.
