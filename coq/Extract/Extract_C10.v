(* Extraction of the C10 model (ExtrOcamlBasic only; Z/positive/nat stay inductive). *)
From LV Require Import Pixel.Translate.
Require Import ExtrOcamlBasic.
Extraction Language OCaml.
Extraction "../build/ocaml/C10/model.ml"
  mkfmt mkcmap empty_cmap bgr233 set_translate translate_fn reads_fn read_extent table_bytes recolour recolour_marks_screen wire_flag new_framebuffer.
