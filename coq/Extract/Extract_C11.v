(* Extraction of the C11 model (ExtrOcamlBasic only; Z/positive/nat stay inductive). *)
From LV Require Import Region.RegionDefs Gen.Funs_C11.
Require Import ExtrOcamlBasic.
Extraction Language OCaml.
Extraction "../build/ocaml/C11/model.ml"
  rgn_or rgn_and rgn_sub rgn_empty rgn_create_rect rgn_is_empty rgn_offset rgn_count rgn_bbox
  rgn_iter rgn_iter_machine rgn_pop_rect rgn_mem sraClipRect sraClipRect2.
