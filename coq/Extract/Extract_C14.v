(* Extraction of the C14 model (ExtrOcamlBasic only). *)
From LV Require Import Session.Sharing.
Require Import ExtrOcamlBasic.
Extraction Language OCaml.
Extraction "../build/ocaml/C14/model.ml" step pump obs_code mkFlags mkClient count_inbound_normal.
