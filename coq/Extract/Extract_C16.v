(* Extraction of the C16 model: the update model of C02 with rfbNewFramebuffer, SetDesktopSize and
   the size pseudo-rectangles (ExtrOcamlBasic only; Z/positive/nat stay inductive). *)
From LV Require Import Region.RegionDefs Update.UpdateDefs.
Require Import ExtrOcamlBasic.
Extraction Language OCaml.
Extraction "../build/ocaml/C16/model.ml"
  step init_state pending inv_client_b pic_get rgn_iter rgn_is_empty zrange fmt_bpp fmt_bits.
