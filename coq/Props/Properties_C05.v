(* C05 - Password-protected screens let in exactly the clients that prove the password.
   Only property theorems here, each closed by [exact] of a lemma proved in Auth/*.v.
   The model (Auth/AuthModel.v) is parametrised by [cfg].  The baseline is
     cfgF single ext tight = the code with the committed fixes 39c3ee3 (global handler list), fa69878
     (weak DES keys) and 93b245e (UDP input gated), for BOTH variants of rfbUnregisterSecurityHandler (single = false: /repo HEAD,
     recursion on ->next; single = true: notes/fix_C05_3.diff) and ARBITRARY security types [ext] of
     the four application handler objects (the TightVNC type 16 included);
   cfg_legacy (the code before the fixes) only serves as regression witness (the *_refuted theorems). *)
From Coq Require Import NArith ZArith List Bool.
From LV Require Import Auth.Des Auth.DesProofs Auth.AuthModel Auth.HandlerSweep Auth.AuthProofs Auth.AuthWitness
  Gen.Consts_C05.
Import ListNotations.

(* ---- soundness: every interleaved trace; any screens (password list, password file that may be
   rewritten at any time, none), application (un)registrations of handlers of any type, inbound and
   reverse connections, any client bytes; both list-handling variants.  [proved c]: the response
   read from the client is the DES encryption of the challenge sent to it under a password that
   was configured on its screen at the moment of the check (ghost c_pws, see C05_password_snapshot). *)
Theorem C05_sound : forall single ext tight chk ops c s,
  let p := run (cfgF single ext tight chk) proc_init ops in
  In c (p_conns p) -> nth_error (p_screens p) (c_screen c) = Some s ->
  protected s c = true -> granted c = true -> proved c.
Proof. exact sound_fixed. Qed.

(* wire level: the same for what the client has been TOLD.  c_told logs every SecurityResult OK /
   failed / ServerInit written ([say] appends bytes and token together, C05_told_coupled): a client of a
   protected screen that has been told OK or been given ServerInit has proved the password, also when
   the connection has been closed since. *)
Theorem C05_sound_wire : forall single ext tight chk ops c s,
  let p := run (cfgF single ext tight chk) proc_init ops in
  In c (p_conns p) -> nth_error (p_screens p) (c_screen c) = Some s ->
  protected s c = true -> told_in c -> proved c.
Proof. exact sound_wire_fixed. Qed.

Theorem C05_told_coupled : forall c t b, c_out (say c t b) = c_out c ++ b /\ c_told (say c t b) = c_told c ++ [t].
Proof. exact say_coupled. Qed.

(* soundness is not obtained by the totalisation of the mirror: on every trace whose operations name
   existing screens / connections / handler objects the error flag (fuel or index exhaustion, which
   would close a client where C does not) is never raised.  Bound: four application handler types. *)
Theorem C05_no_error_flag_4handlers : forall single ext tight chk ops, length ext = 4%nat ->
  valid_run (cfgF single ext tight chk) proc_init ops -> p_err (run (cfgF single ext tight chk) proc_init ops) = false.
Proof. exact no_err_fixed. Qed.

(* the password set recorded for a connection is the one of its screen when the response is handled *)
(* custom passwordCheck callbacks: C05_sound is for an ARBITRARY callback [chk] (screens of mode PwCustom);
   for such a screen "proved" means: the callback returned TRUE for the challenge sent on this connection *)
Theorem C05_proved_custom : forall c, proved c -> c_pws c = [] ->
  exists r, c_resp c = Some r /\ c_judged c = Some (c_sent c, r).
Proof. exact proved_custom. Qed.

Theorem C05_judged_is_verdict : forall cf s e c resp e' c',
  on_response cf s e c resp = (e', c') -> s_pw s = PwCustom ->
  (c_judged c' = Some (c_chal c, resp) /\ cfg_check cf (c_chal c) resp = true /\ c_st c' = StInit) \/
  (c_judged c' = c_judged c /\ cfg_check cf (c_chal c) resp = false /\ c_st c' = StClosed).
Proof. exact judged_is_verdict. Qed.

(* a failing DES backend (fail-closed branch of rfbEncryptBytes / rfbDecryptPasswdFromFile): refused *)
Theorem C05_encrypt_failure_refuses : forall cf s e c resp e' c',
  cfg_enc_fail cf = true -> s_pw s <> PwCustom ->
  on_response cf s e c resp = (e', c') ->
  c_st c' = StClosed /\ granted c' = false /\ c_told c' = c_told c ++ [TokFail].
Proof. exact encrypt_failure_refuses. Qed.

Theorem C05_password_snapshot : forall cf s e c resp e' c',
  on_response cf s e c resp = (e', c') -> c_pws c' = screen_passwords s /\ c_resp c' = Some resp.
Proof. exact on_response_snapshot. Qed.

(* ---- completeness under arbitrary activity of other connections, screens AND of the application
   (registering / unregistering handlers of any non-built-in type between the client's messages) *)
Theorem C05_complete_4handlers : forall single ext tight chk p0 s scr pw ver mi tr1 tr2 tr3 b,
  acyc (p_hs p0) = true -> ext_ok ext -> nth_error (p_screens p0) s = Some scr -> has_password scr = true ->
  In pw (screen_passwords scr) ->
  length ver = 12%nat -> parse_version ver = Some (c05_rfbProtocolMajorVersion, mi) -> (7 <= mi)%Z ->
  let ci := length (p_conns p0) in
  forallb (foreign ci s) tr1 = true -> forallb (foreign ci s) tr2 = true -> forallb (foreign ci s) tr3 = true ->
  let p1 := step (cfgF single ext tight chk) p0 (OConn s false ver false) in
  let p2 := run (cfgF single ext tight chk) p1 tr1 in
  let ch := fst (take_rand (p_rand p2) 16) in
  let p3 := step (cfgF single ext tight chk) p2 (OSend ci [zbyte c05_rfbSecTypeVncAuth] false) in
  let p4 := run (cfgF single ext tight chk) p3 tr2 in
  forall r, vnc_encrypt pw ch = Some r ->
  let p5 := step (cfgF single ext tight chk) p4 (OSend ci r false) in
  let p6 := run (cfgF single ext tight chk) p5 tr3 in
  let p7 := step (cfgF single ext tight chk) p6 (OSend ci [b] false) in
  exists c tl, nth_error (p_conns p7) ci = Some c /\ c_st c = StNormal /\ In c05_rfbSecTypeVncAuth tl /\
    c_out c = server_version ++ (N.of_nat (length tl) :: map zbyte tl) ++ ch ++ auth_ok ++ server_init scr.
Proof. exact complete_fixed. Qed.

Theorem C05_complete_33_4handlers : forall single ext tight chk p0 s scr pw ver mi tr2 tr3 b,
  acyc (p_hs p0) = true -> nth_error (p_screens p0) s = Some scr -> has_password scr = true ->
  In pw (screen_passwords scr) ->
  length ver = 12%nat -> parse_version ver = Some (c05_rfbProtocolMajorVersion, mi) -> (mi < 7)%Z ->
  let ci := length (p_conns p0) in
  forallb (foreign ci s) tr2 = true -> forallb (foreign ci s) tr3 = true ->
  let ch := fst (take_rand (p_rand p0) 16) in
  let p3 := step (cfgF single ext tight chk) p0 (OConn s false ver false) in
  let p4 := run (cfgF single ext tight chk) p3 tr2 in
  forall r, vnc_encrypt pw ch = Some r ->
  let p5 := step (cfgF single ext tight chk) p4 (OSend ci r false) in
  let p6 := run (cfgF single ext tight chk) p5 tr3 in
  let p7 := step (cfgF single ext tight chk) p6 (OSend ci [b] false) in
  exists c, nth_error (p_conns p7) ci = Some c /\ c_st c = StNormal /\
            c_out c = server_version ++ be32 (Z.to_N c05_rfbSecTypeVncAuth) ++ ch ++ auth_ok ++ server_init scr.
Proof. exact complete_fixed_33. Qed.

(* the world of C05_complete ([acyc]) is the world of EVERY trace, any cfg: no restriction on the
   application *)
Theorem C05_complete_world_4handlers : forall cf tr p, acyc (p_hs p) = true -> acyc (p_hs (run cf p tr)) = true.
Proof. exact run_acyc. Qed.

Theorem C05_response_defined : forall pw chal, length chal = 16%nat ->
  exists r, vnc_encrypt pw chal = Some r /\ length r = 16%nat.
Proof. exact vnc_encrypt_some. Qed.

(* ---- the global handler list with application handlers: fuel and sanity (finite sweep over all
   7^7 stores of six handler objects, both unregister variants; bound: four application objects) *)
Theorem C05_list_fuel_suffices_4handlers : forall single st, acyc st = true -> store_ok single st = true.
Proof. exact acyc_store_ok. Qed.

Theorem C05_offer_registers_own_type_4handlers : forall single st primary, acyc st = true -> is_prim primary ->
  exists st', offer_store single st primary = Some st' /\ acyc st' = true /\
              hs_member LIST_FUEL st' (h_head st') (prim_id primary) = Some true.
Proof. exact acyc_offer. Qed.

Theorem C05_own_type_honoured_4handlers : forall ext f st cur primary,
  ext_ok ext -> is_prim primary -> hs_member f st cur 99 = Some false -> length (h_next st) = NHANDLERS ->
  forall fuel, (f <= fuel)%nat ->
  hs_find fuel (htypes ext) false st cur primary primary = Some (builtin_sel primary).
Proof. exact hs_find_own. Qed.

Theorem C05_deliver_fuel_suffices : forall extra cf p ci buf eof,
  deliver (S (length buf) + extra) cf p ci buf eof = deliver (S (length buf)) cf p ci buf eof.
Proof. exact deliver_fuel_suffices. Qed.

(* ---- view-only passwords: any list, authPasswdFirstViewOnly at any position *)
Theorem C05_viewonly : forall single ext tight chk p ci c scr pws fvo r i,
  nth_error (p_conns p) ci = Some c -> nth_error (p_screens p) (c_screen c) = Some scr ->
  s_pw scr = PwList pws fvo -> c_st c = StAuth -> c_vo c = false -> length r = 16%nat ->
  check_list (cfgF single ext tight chk) pws (c_chal c) r 0 = Some i ->
  let p' := step (cfgF single ext tight chk) p (OSend ci r false) in
  exists c', nth_error (p_conns p') ci = Some c' /\ c_st c' = StInit /\ c_vo c' = (fvo <=? i)%Z.
Proof. exact viewonly_fixed. Qed.

Theorem C05_viewonly_first_match : forall cf pws chal resp i0 i,
  check_list cf pws chal resp i0 = Some i ->
  (i0 <= i)%Z /\
  (exists pw, nth_error pws (Z.to_nat (i - i0)) = Some pw /\ matches cf chal resp pw = true) /\
  (forall j pw, (j < Z.to_nat (i - i0))%nat -> nth_error pws j = Some pw -> matches cf chal resp pw = false).
Proof. exact check_list_first. Qed.

(* ---- message shapes per protocol version *)
Theorem C05_versions_33 : forall cf scr e c ver mi,
  c_st c = StPV -> parse_version ver = Some (c05_rfbProtocolMajorVersion, mi) -> (mi < 7)%Z ->
  exists e' c', on_message cf scr e c ver = (e', c', false) /\ c_minor c' = mi /\
    (protected scr c = false ->
       c_st c' = StInit /\ c_out c' = c_out c ++ be32 (Z.to_N c05_rfbSecTypeNone)) /\
    (protected scr c = true ->
       c_st c' = StAuth /\ c_sent c' = fst (take_rand (e_rand e) 16) /\
       c_out c' = c_out c ++ be32 (Z.to_N c05_rfbSecTypeVncAuth) ++ fst (take_rand (e_rand e) 16)).
Proof. exact versions_33. Qed.

Theorem C05_versions_37_4handlers : forall single ext tight chk scr e c ver mi,
  c_st c = StPV -> parse_version ver = Some (c05_rfbProtocolMajorVersion, mi) -> (7 <= mi)%Z ->
  acyc (e_hs e) = true -> length ext = 4%nat ->
  exists e' c' tl, on_message (cfgF single ext tight chk) scr e c ver = (e', c', false) /\ c_minor c' = mi /\ c_st c' = StSec /\
    In (primary_type scr c) tl /\ c_out c' = c_out c ++ N.of_nat (length tl) :: map zbyte tl.
Proof. exact versions_37. Qed.

Theorem C05_versions_failure : forall single ext tight chk scr e c r,
  c_st c = StAuth -> length (c_chal c) = 16%nat ->
  (forall pw, In pw (screen_passwords scr) -> vnc_encrypt pw (c_chal c) <> Some r) ->
  (s_pw scr = PwCustom -> chk (c_chal c) r = false) ->
  exists c', on_message (cfgF single ext tight chk) scr e c r = (e, c', false) /\ c_st c' = StClosed /\
    c_out c' = c_out c ++ auth_failed ++
               (if (7 <? c_minor c)%Z then be32 (N.of_nat (length reason_failed)) ++ reason_failed else []).
Proof. exact versions_failure. Qed.

Theorem C05_versions_none : forall scr c,
  let '(c', co) := auth_none scr c in
  c_out c' = c_out c ++
    (if ((7 <? c_minor c)%Z && negb (c_minor c =? 889)%Z)%bool then auth_ok else []) ++
    (if (c_minor c =? 889)%Z then server_init scr else []) /\
  c_st c' = (if (c_minor c =? 889)%Z then StNormal else StInit) /\ co = false.
Proof. exact versions_none. Qed.

(* ---- regression witnesses: the code before 39c3ee3 / fa69878 violates the property *)
Theorem C05_sound_global_list_refuted :
  exists ops c s, let p := run cfg_legacy proc_init ops in
    In c (p_conns p) /\ nth_error (p_screens p) (c_screen c) = Some s /\
    protected s c = true /\ c_st c = StNormal /\ ~ proved c.
Proof. exact sound_global_list_refuted. Qed.

Theorem C05_weakkey_refuted :
  exists ops c s, let p := run cfg_legacy proc_init ops in
    In c (p_conns p) /\ nth_error (p_screens p) (c_screen c) = Some s /\
    protected s c = true /\ c_st c = StInit /\ ~ proved c.
Proof. exact weakkey_refuted. Qed.

Theorem C05_weakkey_complete_refuted :
  map c_st (p_conns (run cfg_legacy proc_init f1b_trace2)) = [StClosed] /\
  map c_st (p_conns (run cfg_fixed proc_init f1b_trace2)) = [StInit] /\
  map c_st (p_conns (run cfg_fixed proc_init f1b_trace)) = [StClosed].
Proof. exact weakkey_complete_refuted. Qed.

Theorem C05_complete_interleaved_legacy_refuted :
  map c_st (p_conns (run cfg_legacy proc_init f1a_refused_trace)) = [StClosed; StSec] /\
  map c_st (p_conns (run cfg_fixed proc_init f1a_refused_trace)) = [StAuth; StSec].
Proof. exact complete_interleaved_legacy_refuted. Qed.

(* ---- what 39c3ee3 does not repair (application handlers; repaired by notes/fix_C05_3.diff):
   unregistering one handler unregisters its successors; an unregistered handler is re-linked
   through a stale ->next and advertised again *)
Theorem C05_unregister_chain_remains :
  offered cfg_fixed f1c_app_trace 0 = [1; 1]%N /\ offered cfg_fixed3 f1c_app_trace 0 = [2; 1; 16]%N.
Proof. exact unregister_chain_remains. Qed.

Theorem C05_stale_next_remains :
  offered cfg_fixed f1d_app_trace 2 = [2; 16; 2]%N /\ offered cfg_fixed f1d_app_trace 1 = [1; 1]%N /\
  offered cfg_fixed3 f1d_app_trace 2 = [1; 2]%N /\ offered cfg_fixed3 f1d_app_trace 1 = [2; 1; 16]%N.
Proof. exact stale_next_remains. Qed.

(* ---- the TightVNC security type (nested negotiation) on a protected screen: the not-offered
   authentication type None is refused, VNC authentication with the right response is let in *)
Theorem C05_tight_negotiation :
  map c_st (p_conns (run tight_cfg proc_init (tight_trace [0;0;0;1]%N []))) = [StClosed] /\
  map c_st (p_conns (run tight_cfg proc_init (tight_trace [0;0;0;2]%N demo_resp))) = [StInit] /\
  map c_st (p_conns (run tight_cfg proc_init (tight_trace [0;0;0;2]%N demo_chal))) = [StClosed] /\
  map c_st (p_conns (run tight_cfg proc_init (tight_trace [0;0;0;2]%N []))) = [StClosed].
Proof. exact tight_negotiation. Qed.

(* ---- UDP input channel (screen->udpPort): since 93b245e (= notes/fix_C05_4.diff, part of the baseline cfgF) no input
   event reaches the application of a screen that requires a password, on any trace (property theorem);
   the code before it (cfgU, regression witness) hands a datagram of a peer that proved nothing to kbdAddEvent *)
Theorem C05_udp_input_gated : forall single ext tight chk ops s scr,
  let p := run (cfgF single ext tight chk) proc_init ops in
  In s (p_input p) -> nth_error (p_screens p) s = Some scr -> has_password scr = false.
Proof. exact udp_gated_fixed. Qed.

Theorem C05_udp_input_refuted :
  exists ops s scr, let p := run (cfgU true default_ext false) proc_init ops in
    In s (p_input p) /\ nth_error (p_screens p) s = Some scr /\ has_password scr = true /\ p_conns p = [].
Proof. exact udp_input_refuted. Qed.

(* universally quantified completeness of the nested TightVNC path: any process state in which the
   lookup of type 16 finds the library's handler, any protected screen, configured password, challenge
   and protocol minor version *)
Theorem C05_tight_complete : forall single ext tight chk p ci c scr pw r,
  tight = true ->
  nth_error (p_conns p) ci = Some c -> nth_error (p_screens p) (c_screen c) = Some scr ->
  c_st c = StSec -> protected scr c = true ->
  hs_find LIST_FUEL (htypes ext) false (p_hs p) (h_head (p_hs p)) 16 (primary_type scr c) = Some (HExt 2) ->
  In pw (screen_passwords scr) ->
  let ch := fst (take_rand (p_rand p) 16) in
  vnc_encrypt pw ch = Some r ->
  let p' := step (cfgF single ext tight chk) p (OSend ci ([16%N] ++ be32 (Z.to_N c05_rfbSecTypeVncAuth) ++ r) false) in
  exists c', nth_error (p_conns p') ci = Some c' /\ c_st c' = StInit /\ told_in c' /\ c_resp c' = Some r /\
             c_out c' = c_out c ++ be32 0 ++ (be32 1 ++ tight_vnc_cap) ++ ch ++ auth_ok.
Proof. exact tight_complete. Qed.

(* ---- reference cipher *)
Theorem C05_des_known_answers :
  des_encrypt 0x133457799BBCDFF1 0x0123456789ABCDEF = Some 0x85E813540F0AB405%N /\
  des_encrypt 0x0101010101010101 0x8000000000000000 = Some 0x95F8A5E5DD31D900%N /\
  des_encrypt 0x8001010101010101 0 = Some 0x95A8D72813DAA94D%N /\
  des_encrypt 0x7CA110454A1A6E57 0x01A1D6D039776742 = Some 0x690F5B0D9A26939B%N /\
  des_encrypt 0x0131D9619DC1376E 0x5CD54CA83DEF57DA = Some 0x7A389D10354BD271%N /\
  des_decrypt 0x133457799BBCDFF1 0x85E813540F0AB405 = Some 0x0123456789ABCDEF%N.
Proof. exact des_known_answers. Qed.
