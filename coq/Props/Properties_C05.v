(* C05 - Password-protected screens let in exactly the clients that prove the password.
   Only property theorems here, each closed by [exact] of a lemma proved in Auth/*Proofs.v.
   The model (Auth/AuthModel.v) is parametrised by [cfg]: [cfg_fixed] mirrors the code with
   notes/fix_C05_1.diff + notes/fix_C05_2.diff (what the correspondence run executes),
   [cfg_legacy] the code before the fixes. *)
From Coq Require Import NArith ZArith List Bool.
From LV Require Import Auth.Des Auth.DesProofs Auth.AuthModel Auth.AuthProofs Gen.Consts_C05.
Import ListNotations.

(* ---- soundness: every interleaved trace, every screen / handler / connection configuration *)
Theorem C05_sound : forall ops c s,
  let p := run cfg_fixed proc_init ops in
  In c (p_conns p) -> nth_error (p_screens p) (c_screen c) = Some s ->
  protected s c = true -> granted c = true -> proved s c.
Proof. exact sound_fixed. Qed.

(* ---- completeness under arbitrary activity of other connections / screens (no application handlers) *)
Theorem C05_complete : forall p0 s scr pw ver mi tr1 tr2 tr3 b,
  bstore (p_hs p0) -> nth_error (p_screens p0) s = Some scr -> has_password scr = true ->
  In pw (screen_passwords scr) ->
  length ver = 12%nat -> parse_version ver = Some (c05_rfbProtocolMajorVersion, mi) -> (7 <= mi)%Z ->
  let ci := length (p_conns p0) in
  forallb (foreign ci) tr1 = true -> forallb (foreign ci) tr2 = true -> forallb (foreign ci) tr3 = true ->
  let p1 := step cfg_fixed p0 (OConn s false ver false) in
  let p2 := run cfg_fixed p1 tr1 in
  let ch := fst (take_rand (p_rand p2) 16) in
  let p3 := step cfg_fixed p2 (OSend ci [zbyte c05_rfbSecTypeVncAuth] false) in
  let p4 := run cfg_fixed p3 tr2 in
  forall r, vnc_encrypt pw ch = Some r ->
  let p5 := step cfg_fixed p4 (OSend ci r false) in
  let p6 := run cfg_fixed p5 tr3 in
  let p7 := step cfg_fixed p6 (OSend ci [b] false) in
  exists c, nth_error (p_conns p7) ci = Some c /\ c_st c = StNormal /\
            c_out c = server_version ++ [1%N; zbyte c05_rfbSecTypeVncAuth] ++ ch ++ auth_ok ++ server_init scr.
Proof. exact complete_fixed. Qed.

Theorem C05_complete_33 : forall p0 s scr pw ver mi tr2 tr3 b,
  bstore (p_hs p0) -> nth_error (p_screens p0) s = Some scr -> has_password scr = true ->
  In pw (screen_passwords scr) ->
  length ver = 12%nat -> parse_version ver = Some (c05_rfbProtocolMajorVersion, mi) -> (mi < 7)%Z ->
  let ci := length (p_conns p0) in
  forallb (foreign ci) tr2 = true -> forallb (foreign ci) tr3 = true ->
  let ch := fst (take_rand (p_rand p0) 16) in
  let p3 := step cfg_fixed p0 (OConn s false ver false) in
  let p4 := run cfg_fixed p3 tr2 in
  forall r, vnc_encrypt pw ch = Some r ->
  let p5 := step cfg_fixed p4 (OSend ci r false) in
  let p6 := run cfg_fixed p5 tr3 in
  let p7 := step cfg_fixed p6 (OSend ci [b] false) in
  exists c, nth_error (p_conns p7) ci = Some c /\ c_st c = StNormal /\
            c_out c = server_version ++ be32 (Z.to_N c05_rfbSecTypeVncAuth) ++ ch ++ auth_ok ++ server_init scr.
Proof. exact complete_fixed_33. Qed.

(* the world of C05_complete is the one of every process whose application registers no handler *)
Theorem C05_complete_world : forall cf tr p,
  forallb no_app_op tr = true -> bstore (p_hs p) -> bstore (p_hs (run cf p tr)).
Proof. exact run_bstore. Qed.

(* every password and every 16-byte challenge has a response (DES never fails) *)
Theorem C05_response_defined : forall pw chal, length chal = 16%nat ->
  exists r, vnc_encrypt pw chal = Some r /\ length r = 16%nat.
Proof. exact vnc_encrypt_some. Qed.

(* ---- view-only passwords *)
Theorem C05_viewonly : forall p ci c scr pws fvo r i,
  nth_error (p_conns p) ci = Some c -> nth_error (p_screens p) (c_screen c) = Some scr ->
  s_pw scr = PwList pws fvo -> c_st c = StAuth -> c_vo c = false -> length r = 16%nat ->
  check_list cfg_fixed pws (c_chal c) r 0 = Some i ->
  let p' := step cfg_fixed p (OSend ci r false) in
  exists c', nth_error (p_conns p') ci = Some c' /\ c_st c' = StInit /\ c_vo c' = (fvo <=? i)%Z.
Proof. exact viewonly_fixed. Qed.

Theorem C05_viewonly_first_match : forall cf pws chal resp i0 i,
  check_list cf pws chal resp i0 = Some i ->
  (i0 <= i)%Z /\
  (exists pw, nth_error pws (Z.to_nat (i - i0)) = Some pw /\ matches cf chal resp pw = true) /\
  (forall j pw, (j < Z.to_nat (i - i0))%nat -> nth_error pws j = Some pw -> matches cf chal resp pw = false).
Proof. exact check_list_first. Qed.

(* ---- message shapes per protocol version *)
Theorem C05_versions_33 : forall cf scr e c ver mi,
  c_st c = StPV -> parse_version ver = Some (c05_rfbProtocolMajorVersion, mi) -> (mi < 7)%Z ->
  exists e' c', on_message cf scr e c ver = (e', c', false) /\ c_minor c' = mi /\
    (protected scr c = false ->
       c_st c' = StInit /\ c_out c' = c_out c ++ be32 (Z.to_N c05_rfbSecTypeNone)) /\
    (protected scr c = true ->
       c_st c' = StAuth /\ c_sent c' = fst (take_rand (e_rand e) 16) /\
       c_out c' = c_out c ++ be32 (Z.to_N c05_rfbSecTypeVncAuth) ++ fst (take_rand (e_rand e) 16)).
Proof. exact versions_33. Qed.

Theorem C05_versions_37 : forall cf scr e c ver mi,
  c_st c = StPV -> parse_version ver = Some (c05_rfbProtocolMajorVersion, mi) -> (7 <= mi)%Z -> bstore (e_hs e) ->
  exists e' c', on_message cf scr e c ver = (e', c', false) /\ c_minor c' = mi /\ c_st c' = StSec /\
    c_out c' = c_out c ++ [1%N; zbyte (primary_type scr c)].
Proof. exact versions_37. Qed.

Theorem C05_versions_failure : forall scr e c r,
  c_st c = StAuth -> length (c_chal c) = 16%nat ->
  (forall pw, In pw (screen_passwords scr) -> vnc_encrypt pw (c_chal c) <> Some r) ->
  exists c', on_message cfg_fixed scr e c r = (e, c', false) /\ c_st c' = StClosed /\
    c_out c' = c_out c ++ auth_failed ++
               (if (7 <? c_minor c)%Z then be32 (N.of_nat (length reason_failed)) ++ reason_failed else []).
Proof. exact versions_failure. Qed.

Theorem C05_versions_none : forall scr c,
  let '(c', co) := auth_none scr c in
  c_out c' = c_out c ++
    (if ((7 <? c_minor c)%Z && negb (c_minor c =? 889)%Z)%bool then auth_ok else []) ++
    (if (c_minor c =? 889)%Z then server_init scr else []) /\
  c_st c' = (if (c_minor c =? 889)%Z then StNormal else StInit) /\ co = false.
Proof. exact versions_none. Qed.

(* ---- the code before the fixes violates the property (DESIGN.md section 7 F1a, F1b) *)
(* full statement = C05_sound with cfg_legacy; refuted: *)
Theorem C05_sound_global_list_refuted :
  exists ops c s, let p := run cfg_legacy proc_init ops in
    In c (p_conns p) /\ nth_error (p_screens p) (c_screen c) = Some s /\
    protected s c = true /\ c_st c = StNormal /\ ~ proved s c.
Proof. exact sound_global_list_refuted. Qed.

Theorem C05_weakkey_refuted :
  exists ops c s, let p := run cfg_legacy proc_init ops in
    In c (p_conns p) /\ nth_error (p_screens p) (c_screen c) = Some s /\
    protected s c = true /\ c_st c = StInit /\ ~ proved s c.
Proof. exact weakkey_refuted. Qed.

Theorem C05_weakkey_complete_refuted :
  map c_st (p_conns (run cfg_legacy proc_init f1b_trace2)) = [StClosed] /\
  map c_st (p_conns (run cfg_fixed proc_init f1b_trace2)) = [StInit] /\
  map c_st (p_conns (run cfg_fixed proc_init f1b_trace)) = [StClosed].
Proof. exact weakkey_complete_refuted. Qed.

Theorem C05_complete_interleaved_legacy_refuted :
  map c_st (p_conns (run cfg_legacy proc_init f1a_refused_trace)) = [StClosed; StSec] /\
  map c_st (p_conns (run cfg_fixed proc_init f1a_refused_trace)) = [StAuth; StSec].
Proof. exact complete_interleaved_legacy_refuted. Qed.

(* ---- reference cipher and fuel *)
Theorem C05_des_known_answers :
  des_encrypt 0x133457799BBCDFF1 0x0123456789ABCDEF = Some 0x85E813540F0AB405%N /\
  des_encrypt 0x0101010101010101 0x8000000000000000 = Some 0x95F8A5E5DD31D900%N /\
  des_encrypt 0x8001010101010101 0 = Some 0x95A8D72813DAA94D%N /\
  des_encrypt 0x7CA110454A1A6E57 0x01A1D6D039776742 = Some 0x690F5B0D9A26939B%N /\
  des_encrypt 0x0131D9619DC1376E 0x5CD54CA83DEF57DA = Some 0x7A389D10354BD271%N /\
  des_decrypt 0x133457799BBCDFF1 0x85E813540F0AB405 = Some 0x0123456789ABCDEF%N.
Proof. exact des_known_answers. Qed.

Theorem C05_deliver_fuel_suffices : forall extra cf p ci buf eof,
  deliver (S (length buf) + extra) cf p ci buf eof = deliver (S (length buf)) cf p ci buf eof.
Proof. exact deliver_fuel_suffices. Qed.

Theorem C05_list_fuel_suffices_builtin : forall st primary, bstore st -> is_prim primary ->
  exists st', offer_store st primary = Some st' /\ bstore st' /\
              forall legacy, offer_types legacy primary st' = Some [primary].
Proof. exact bstore_offer. Qed.
