(* C07 - LibVNCClient reconstructs exactly what a conforming server encoded.
   Only property theorems here, each closed by [exact] of a lemma proved elsewhere.
   The decoders are the extracted mirror of the client (Dec/CliDec.v, CliDecZ.v, CliMsg.v), the encoders
   the extracted reference encoders (Dec/RefEnc.v, RefEncZ.v) consulted with an ARBITRARY choice oracle
   [ch].  [blit_spec fb x y rows] is the framebuffer with the block [rows] placed at (x,y).
   A compressed block is the opaque letter TZ/TL of the input alphabet (CliBase.v): the round trip of
   zlib / LZO with paired persistent state is assumed there and exercised by the correspondence run. *)
From LV Require Import Dec.CliBase Dec.CliFbProofs Dec.CliDec Dec.CliDecZ Dec.CliMsg Dec.CliInit Dec.RefEnc Dec.RefEncZ
     Dec.CliRtBase Dec.CliRtSimple Dec.CliRtHextile Dec.CliRtZ Dec.CliRtTile Dec.CliRtZrle Dec.CliRtTrle Dec.CliRtTight Dec.CliCopyProofs Dec.CliRead Dec.CliReqProofs Dec.CliMsgProofs Dec.CliExamples Dec.CliMsgAll Dec.CliReadLink Dec.CliZrleBound Dec.CliCompact.
Local Open Scope Z_scope.

(* the partial, C-mirroring row writer coincides with the total spec-level blit inside the framebuffer *)
Theorem C07_write_rows_spec : forall W H fb x y w rows,
  fb_wf W H fb -> 0 <= x -> 0 <= y -> x + w <= W -> y + zlen rows <= H ->
  Forall (fun r => zlen r = w) rows ->
  fb_write_rows fb x y rows = Some (blit_spec fb x y rows).
Proof. exact fb_write_rows_spec. Qed.

Theorem C07_roundtrip_raw : forall s x y w h rows ts,
  st_wf s -> bypp_ok s -> 0 <= x -> 0 <= y -> 1 <= w <= 65535 -> x + w <= c_w s -> y + h <= c_h s ->
  rows_wf w h rows -> Forall (Forall (px_ok (bypp_of s))) rows ->
  dec_raw x y w h s (toks (ref_raw (bypp_of s) rows) ++ ts) = Ok tt (set_fb s (blit_spec (c_fb s) x y rows)) ts.
Proof. exact roundtrip_raw. Qed.
Example C07_roundtrip_raw_nonvacuous :
  dec_raw 1 2 3 2 s_ex (toks (ref_raw 4 rows_ex) ++ [TB 9])
  = Ok tt (set_fb s_ex [[1; 2; 3; 4; 5]; [6; 7; 8; 9; 10]; [11; 100; 200; 200; 15]; [16; 100; 300; 16777215; 20]]) [TB 9].
Proof. exact ex_raw. Qed.

Theorem C07_roundtrip_rre : forall ch s x y w h tgt ts,
  st_wf s -> bypp_ok s -> 0 <= x -> 0 <= y -> 0 <= w <= 65535 -> 0 <= h <= 65535 ->
  x + w <= c_w s -> y + h <= c_h s ->
  rows_wf w h tgt -> Forall (Forall (px_ok (bypp_of s))) tgt ->
  dec_rre x y w h s (toks (ref_rre ch (bypp_of s) w h tgt) ++ ts) = Ok tt (set_fb s (blit_spec (c_fb s) x y tgt)) ts.
Proof. exact roundtrip_rre. Qed.
Example C07_roundtrip_rre_nonvacuous :
  dec_rre 1 2 3 2 s_ex (toks (ref_rre ch_ex 4 3 2 rows_ex) ++ [TB 9])
  = Ok tt (set_fb s_ex [[1; 2; 3; 4; 5]; [6; 7; 8; 9; 10]; [11; 100; 200; 200; 15]; [16; 100; 300; 16777215; 20]]) [TB 9].
Proof. exact ex_rre. Qed.

(* CoRRE: the client refuses more than RFB_BUFFER_SIZE/(4+Bpp) sub-rectangles, hence the last hypothesis *)
Theorem C07_roundtrip_corre : forall ch s x y w h tgt ts,
  st_wf s -> bypp_ok s -> 0 <= x -> 0 <= y -> 0 <= w <= 255 -> 0 <= h <= 255 ->
  x + w <= c_w s -> y + h <= c_h s ->
  rows_wf w h tgt -> Forall (Forall (px_ok (bypp_of s))) tgt ->
  3 + w * h <= cCoRREBound_num / (4 + bypp_of s) ->
  dec_corre x y w h s (toks (ref_corre ch (bypp_of s) w h tgt) ++ ts) = Ok tt (set_fb s (blit_spec (c_fb s) x y tgt)) ts.
Proof. exact roundtrip_corre. Qed.
Example C07_roundtrip_corre_nonvacuous :
  st_wf s_ex /\ bypp_ok s_ex /\ 0 <= 1 /\ 0 <= 2 /\ 1 <= 3 <= 255 /\ 0 <= 2 <= 255 /\ 1 + 3 <= c_w s_ex /\ 2 + 2 <= c_h s_ex /\
  rows_wf 3 2 rows_ex /\ Forall (Forall (px_ok (bypp_of s_ex))) rows_ex /\ 3 + 3 * 2 <= cCoRREBound_num / (4 + bypp_of s_ex).
Proof. exact hyps_rect_ex. Qed.

(* ... stated on what the client actually tests - the EMITTED sub-rectangle count (audit item 12): a flat 255 x 255 rectangle,
   excluded by the area condition above, is covered (its plan has at most 3 redundant sub-rectangles) *)
Theorem C07_roundtrip_corre_count : forall ch s x y w h tgt ts,
  st_wf s -> bypp_ok s -> 0 <= x -> 0 <= y -> 0 <= w <= 255 -> 0 <= h <= 255 ->
  x + w <= c_w s -> y + h <= c_h s ->
  rows_wf w h tgt -> Forall (Forall (px_ok (bypp_of s))) tgt ->
  zlen (snd (plan ch 0 255 255 w h (pxmod_of (bypp_of s)) tgt)) <= cCoRREBound_num / (4 + bypp_of s) ->
  dec_corre x y w h s (toks (ref_corre ch (bypp_of s) w h tgt) ++ ts) = Ok tt (set_fb s (blit_spec (c_fb s) x y tgt)) ts.
Proof. exact roundtrip_corre_count. Qed.

(* Hextile: raw tiles, background / foreground specified or carried over from the previous tile,
   monochrome or coloured sub-rectangles, redundant sub-rectangles, empty sub-rectangle lists *)
Theorem C07_roundtrip_hextile : forall ch s x y w h tgt ts,
  st_wf s -> bypp_ok s -> 0 <= x -> 0 <= y -> 0 <= w -> 0 <= h -> x + w <= c_w s -> y + h <= c_h s ->
  rows_wf w h tgt -> Forall (Forall (px_ok (bypp_of s))) tgt ->
  dec_hextile x y w h s (toks (ref_hextile ch (bypp_of s) w h tgt) ++ ts) = Ok tt (set_fb s (blit_spec (c_fb s) x y tgt)) ts.
Proof. exact roundtrip_hextile. Qed.
Example C07_roundtrip_hextile_nonvacuous :
  dec_hextile 1 2 3 2 s_ex (toks (ref_hextile ch_ex 4 3 2 rows_ex) ++ [TB 9])
  = Ok tt (set_fb s_ex [[1; 2; 3; 4; 5]; [6; 7; 8; 9; 10]; [11; 100; 200; 200; 15]; [16; 100; 300; 16777215; 20]]) [TB 9].
Proof. exact ex_hextile. Qed.

Theorem C07_roundtrip_zlib : forall s x y w h tgt ts fresh,
  st_wf s -> bypp_ok s -> 0 <= x -> 0 <= y -> 1 <= w -> 0 <= h -> x + w <= c_w s -> y + h <= c_h s ->
  rows_wf w h tgt -> Forall (Forall (px_ok (bypp_of s))) tgt ->
  zs_ready c_zlibz c_zrlez s -> fresh = negb (zact_get s 0) ->
  let cap := if c_rawsz s <? w * h * bypp_of s then w * h * bypp_of s else c_rawsz s in
  dec_zlib x y w h s (ref_zlib (c_fmt s) fresh tgt ++ ts)
  = Ok tt (set_fb (zlib_mark (set_rawsz s cap)) (blit_spec (c_fb s) x y tgt)) ts.
Proof. exact roundtrip_zlib. Qed.

Theorem C07_roundtrip_ultra : forall s x y w h tgt ts,
  st_wf s -> bypp_ok s -> 0 <= x -> 0 <= y -> 1 <= w -> 1 <= h -> x + w <= c_w s -> y + h <= c_h s ->
  rows_wf w h tgt -> Forall (Forall (px_ok (bypp_of s))) tgt ->
  let cap := if c_rawsz s <? w * h * bypp_of s then round4 (w * h * bypp_of s) else c_rawsz s in
  dec_ultra x y w h s (ref_ultra (c_fmt s) tgt ++ ts)
  = Ok tt (set_fb (set_rawsz s cap) (blit_spec (c_fb s) x y tgt)) ts.
Proof. exact roundtrip_ultra. Qed.

(* ZRLE / TRLE: for every choice oracle - tile sub-encoding (raw, solid, packed palette, plain RLE, palette RLE, TRLE
   reuse of the previous palette), palette padding, run splitting - the client paints exactly the encoded pixels.
   Little-endian client formats only ([f_be = false]: the reference encoders serialise little-endian and the mirror's
   RGB_TO_PIXEL does not model the byte swap of big-endian formats).
   [cp_agree f v]: the client's CPIXEL instance [v] (chosen by rfbclient.c from the format) reads the CPIXEL layout
   the RFC prescribes for [f]; [cp_ok v p]: the pixel value has only the bits that CPIXEL transports.
   ZRLE additionally needs the tile stream to fit the scratch area (2 x raw size: finding C07-F2 otherwise). *)
Theorem C07_roundtrip_zrle : forall ch s x y w h tgt ts fresh,
  st_wf s -> f_be (c_fmt s) = false -> cp_agree (c_fmt s) (variant_of s) -> fixed s 8 = true ->
  0 <= x -> 0 <= y -> 0 <= w -> 0 <= h -> x + w <= c_w s -> y + h <= c_h s ->
  rows_wf w h tgt -> Forall (Forall (cp_ok (variant_of s))) tgt ->
  zs_ready c_zrlez c_zlibz s -> fresh = zrle_fresh s ->
  let minsz := (if fixed s 12 then zrle_bound w h (rbytes (variant_of s)) else w * h * rbytes (variant_of s) * 2) + 4 in
  let cap := if c_rawsz s <? minsz then minsz else c_rawsz s in
  zlen (tiles_rows ch 0 (c_fmt s) false 64 (Z.to_nat (h / 64 + 1)) 0 w h tgt 0 []) <= cap - 4 ->
  dec_zrle x y w h s (ref_zrle ch (c_fmt s) fresh w h tgt ++ ts)
  = Ok tt (set_fb (zrle_mark (set_rawsz s cap)) (blit_spec (c_fb s) x y tgt)) ts.
Proof. intros ch s x y w h tgt ts fresh Hs _. now apply roundtrip_zrle. Qed.

(* Finding C07-F2 closed: the worst case of a ZRLE tile stream.  For EVERY choice oracle of the reference encoder the
   tile stream of a w x h rectangle has at most [zrle_bound w h c] = (w/64+1)*(h/64+1)*(1+127*c) + w*h*(c+1) bytes
   (c = bytes per CPIXEL; per tile a type byte and at most 127 palette CPIXELs, per pixel at most c+1 bytes - plain RLE
   with runs of length 1 is the worst sub-encoding).  HandleZRLE before the fix sized raw_buffer as 2 x raw size and refused
   e.g. a 1x1 rectangle sent with a palette; with fix 12 (notes/fix_C07_4.diff: raw_buffer sized by this bound) the round
   trip holds for every rectangle and oracle WITHOUT the size hypothesis of [C07_roundtrip_zrle] *)
Theorem C07_zrle_stream_bound : forall f v ch w h rows, cp_agree f v -> 0 <= w -> 0 <= h ->
  zlen (tiles_rows ch 0 f false 64 (Z.to_nat (h / 64 + 1)) 0 w h rows 0 []) <= zrle_bound w h (rbytes v).
Proof. intros f v ch w h rows Hag. now apply zrle_stream_bound. Qed.

Theorem C07_roundtrip_zrle_sized : forall ch s x y w h tgt ts fresh,
  st_wf s -> f_be (c_fmt s) = false -> cp_agree (c_fmt s) (variant_of s) -> fixed s 8 = true -> fixed s 12 = true ->
  0 <= x -> 0 <= y -> 0 <= w -> 0 <= h -> x + w <= c_w s -> y + h <= c_h s ->
  rows_wf w h tgt -> Forall (Forall (cp_ok (variant_of s))) tgt ->
  zs_ready c_zrlez c_zlibz s -> fresh = zrle_fresh s ->
  let minsz := zrle_bound w h (rbytes (variant_of s)) + 4 in
  let cap := if c_rawsz s <? minsz then minsz else c_rawsz s in
  dec_zrle x y w h s (ref_zrle ch (c_fmt s) fresh w h tgt ++ ts)
  = Ok tt (set_fb (zrle_mark (set_rawsz s cap)) (blit_spec (c_fb s) x y tgt)) ts.
Proof. intros ch s x y w h tgt ts fresh Hs _. now apply roundtrip_zrle_sized. Qed.

(* the old sizing really refused a valid rectangle: 1x1, 24-bit CPIXEL, palette-RLE tile with a padded palette (8 bytes > 2*3) *)
Example C07_zrle_oversize_refused :
  let f888 := mkfmt 32 24 false 255 255 255 16 8 0 in
  dec_zrle 0 0 1 1 (set_fix (init_state f888 255 4 4) 4095) [TZ 5 true true [130; 1; 2; 3; 4; 5; 6; 0]] = Fail /\
  (exists s', dec_zrle 0 0 1 1 (init_state f888 255 4 4) [TZ 5 true true [130; 1; 2; 3; 4; 5; 6; 0]] = Ok tt s' []) /\
  fixed (init_state f888 255 4 4) 12 = true.
Proof. cbv zeta. split; [vm_compute; reflexivity|]. split; [eexists; vm_compute; reflexivity|reflexivity]. Qed.

(* The reference server keeps ONE deflate stream PER ENCODING (RFC 6143 7.7.6 for ZRLE; this repository's server:
   cl->compStream for Zlib, cl->zrleData for ZRLE): [ref_zrle] emits blocks of stream 5, [ref_zlib] of stream 0.
   Since 9fe693e (fix bit 11, in the baseline [init_state]) the client has an inflate stream per encoding too and
   [zs_ready] holds in every state, so the two theorems above compose in any order.  The client BEFORE 9fe693e fed
   both into its single decompStream: after a Zlib rectangle the first ZRLE rectangle of a conforming server was
   REFUSED by the mirror - and by the real client paired with this repository's server (finding C07-F4, fixed);
   regression witness *)
Theorem C07_zlib_then_zrle_refused : forall s x y w h z data ts,
  fixed s 11 = false -> zact_get s 0 = true ->
  dec_zrle x y w h s (TZ 5 true z data :: ts) = Fail.
Proof.
  intros s x y w h z data ts F Hz. unfold dec_zrle, bind, get_st, upd_st, rd_zrle_stream, rd_shared, rd_zblock, bind, get_st.
  cbn [negb Z.eqb Pos.eqb andb]. unfold fixed in *. cbn [c_fix set_rawsz]. rewrite F.
  unfold zact_get in *. cbn [c_zact set_rawsz]. rewrite Hz. reflexivity.
Qed.

Theorem C07_roundtrip_trle : forall ch s x y w h tgt ts,
  st_wf s -> f_be (c_fmt s) = false -> cp_agree (c_fmt s) (variant_of s) -> fixed s 4 = true ->
  0 <= x -> 0 <= y -> 0 <= w -> 0 <= h -> x + w <= c_w s -> y + h <= c_h s ->
  rows_wf w h tgt -> Forall (Forall (cp_ok (variant_of s))) tgt ->
  let minsz := cTRLE_tile * cTRLE_tile * rbytes (variant_of s) * 2 in
  let cap := if c_rawsz s <? minsz then minsz else c_rawsz s in
  dec_trle x y w h s (ref_trle ch (c_fmt s) w h tgt ++ ts)
  = Ok tt (set_fb (set_rawsz s cap) (blit_spec (c_fb s) x y tgt)) ts.
Proof. intros ch s x y w h tgt ts Hs _. now apply roundtrip_trle. Qed.

(* the hypotheses are satisfiable: the baseline client state for 24-in-32 (3-byte CPIXEL), 10-10-10 (4 bytes),
   RGB565 and BGR233 formats *)
Example C07_roundtrip_zrle_nonvacuous :
  let f888 := mkfmt 32 24 false 255 255 255 16 8 0 in
  let f30 := mkfmt 32 30 false 1023 1023 1023 20 10 0 in
  let f565 := mkfmt 16 16 false 31 63 31 11 5 0 in
  let f233 := mkfmt 8 8 false 7 7 3 0 3 6 in
  cp_agree f888 (variant_of (init_state f888 255 8 8)) /\ cp_agree f30 (variant_of (init_state f30 255 8 8)) /\
  cp_agree f565 (variant_of (init_state f565 31 8 8)) /\ cp_agree f233 (variant_of (init_state f233 7 8 8)) /\
  fixed (init_state f888 255 8 8) 8 = true /\ fixed (init_state f888 255 8 8) 4 = true /\
  (forall s, fixed s 11 = true -> zs_ready c_zrlez c_zlibz s /\ zs_ready c_zlibz c_zrlez s) /\ fixed (init_state f888 255 8 8) 11 = true.
Proof. cbv zeta. repeat split; try reflexivity; left; assumption. Qed.

(* Tight: for every choice oracle - fill, basic / explicit copy filter, palette filter (1-bit or 8-bit indices, padded
   palette), gradient filter, any of the four zlib streams, any stream-reset bits, raw (< 12 bytes) or compressed
   payload - the client paints exactly the encoded pixels and its four stream states follow the encoder's.
   [tpix_ok f p]: TPIXEL transports the pixel ([tp_ok]) and its colour components recompose it ([gp_ok]);
   [gfmt_ok f bypp]: the three colour fields are separate power-of-two fields (needed by the gradient filter of the
   non-888 formats; trivially true for 888 formats, proved for RGB565: CliRtTight.gfmt_ok_565);
   w <= 2048: the Tight specification's maximal rectangle width (the client's row buffers). *)
Theorem C07_roundtrip_tight : forall ch s x y w h tgt ts z0 a b c d,
  st_wf s -> f_be (c_fmt s) = false -> bypp_ok s -> c_zact s = [z0; a; b; c; d] -> gfmt_ok (c_fmt s) (bypp_of s) ->
  0 <= x -> 0 <= y -> 1 <= w <= 2048 -> 1 <= h -> x + w <= c_w s -> y + h <= c_h s ->
  rows_wf w h tgt -> Forall (Forall (tpix_ok (c_fmt s))) tgt ->
  dec_tight x y w h s (fst (ref_tight ch (c_fmt s) w h tgt [a; b; c; d]) ++ ts)
  = Ok tt (set_fb (set_zact s (z0 :: snd (ref_tight ch (c_fmt s) w h tgt [a; b; c; d]))) (blit_spec (c_fb s) x y tgt)) ts.
Proof. intros ch s x y w h tgt ts z0 a b c d Hs _. now apply roundtrip_tight. Qed.

Example C07_roundtrip_tight_nonvacuous :
  let f888 := mkfmt 32 24 false 255 255 255 16 8 0 in
  let f565 := mkfmt 16 16 false 31 63 31 11 5 0 in
  c_zact (init_state f888 255 8 8) = [false; false; false; false; false] /\
  gfmt_ok f888 4 /\ gfmt_ok f565 2 /\ tpix_ok f888 1193046 /\ tpix_ok f565 43981.
Proof.
  cbv zeta. split; [reflexivity|]. split; [exact I|]. split; [exact gfmt_ok_565|]. split; (split; [|split]); vm_compute; intuition congruence.
Qed.

(* CopyRect: the pixel-by-pixel mirror of CopyRectangleFromRectangle delivers the ORIGINAL source block
   whatever the overlap (all four loop directions) *)
Theorem C07_copyrect_memmove : forall s sx sy w h dx dy ts,
  st_wf s -> 0 <= sx -> 0 <= sy -> 0 <= dx -> 0 <= dy -> 0 <= w -> 0 <= h ->
  sx + w <= c_w s -> sy + h <= c_h s -> dx + w <= c_w s -> dy + h <= c_h s ->
  copy_from_rect sx sy w h dx dy s ts
  = Ok tt (set_fb s (blit_spec (c_fb s) dx dy (sub_block (c_fb s) sx sy w h))) ts.
Proof. exact copyrect_memmove. Qed.
Example C07_copyrect_memmove_nonvacuous :
  dec_copyrect 1 1 3 2 s_ex (toks (ref_copyrect 0 0) ++ [TB 9])
  = Ok tt (set_fb s_ex [[1; 2; 3; 4; 5]; [6; 1; 2; 3; 10]; [11; 6; 7; 8; 15]; [16; 17; 18; 19; 20]]) [TB 9].
Proof. exact ex_copy2. Qed.

(* ReadFromRFBServer: whatever the segmentation of the stream into read() results, a request for n bytes
   returns exactly the next n bytes and leaves exactly the rest pending; it fails only when fewer than n
   bytes will ever arrive; client->buf never holds more than RFB_BUF_SIZE bytes *)
Theorem C07_read_buffering : forall n st,
  0 <= n -> zlen (r_buf st) <= cRFB_BUF_SIZE ->
  (n <= zlen (pending st) ->
     exists out st', read_exact n st = Some (out, st') /\ out = firstn (Z.to_nat n) (pending st) /\
                     pending st' = skipn (Z.to_nat n) (pending st) /\ zlen (r_buf st') <= cRFB_BUF_SIZE) /\
  (zlen (pending st) < n -> read_exact n st = None).
Proof. exact read_buffering. Qed.
Example C07_read_buffering_nonvacuous :
  read_exact 5 (mkr [1; 2] [3; 4; 5; 6; 7] [1; 1; 3]) = Some ([1; 2; 3; 4; 5], mkr [6; 7] [] []).
Proof. exact ex_read. Qed.

(* ... and that buffered reader IS the byte source of the decoder mirror: for every segmentation schedule one read of
   n bytes returns the bytes [rd n] returns on the token form of the pending bytes and leaves the same bytes pending
   ([rst_ok]: at most RFB_BUF_SIZE bytes buffered, pending values are bytes) *)
Theorem C07_read_exact_is_rd : forall n st s, 0 <= n -> rst_ok st ->
  rd n s (toks (pending st)) =
    match read_exact n st with
    | Some (out, st') => Ok out s (toks (pending st'))
    | None => More
    end
  /\ (forall out st', read_exact n st = Some (out, st') -> rst_ok st').
Proof. exact read_exact_is_rd. Qed.

(* hence EVERY adaptive reader ([rprog]: each read size and the continuation depend on all bytes read so far - every
   decoder as far as it consumes plain bytes) has the same outcome over the buffered, arbitrarily segmented socket as
   over the token stream, and two segmentations of the same bytes cannot be told apart *)
Theorem C07_reader_schedule_independent : forall A (p : rprog A), rprog_ok p -> forall st s, rst_ok st ->
  run_tok p s (toks (pending st)) =
    match run_sock p st with
    | Some (Some (a, st')) => Ok a s (toks (pending st'))
    | Some None => Fail
    | None => More
    end.
Proof. exact @reader_schedule_independent. Qed.
Theorem C07_reader_two_schedules : forall A (p : rprog A) st1 st2, rprog_ok p -> rst_ok st1 -> rst_ok st2 ->
  pending st1 = pending st2 ->
  match run_sock p st1, run_sock p st2 with
  | Some (Some (a1, r1)), Some (Some (a2, r2)) => a1 = a2 /\ pending r1 = pending r2
  | Some None, Some None => True
  | None, None => True
  | _, _ => False
  end.
Proof. exact @reader_two_schedules. Qed.
Example C07_reader_nonvacuous :
  rst_ok (mkr [1; 2] [3; 4; 5; 6; 7] [1; 1; 3]) /\ rprog_ok (RRead 2 (fun l => RRead (be_val l mod 4) (fun m => RDone (l ++ m)))) /\
  (forall s ts, rd_u16 s ts = run_tok (RRead 2 (fun l => RDone (be_val l))) s ts).
Proof.
  split; [split; [vm_compute; discriminate|repeat constructor; unfold byte_ok; lia]|]. split; [|exact rd_u16_is_rprog].
  constructor; [lia|]. intros l. constructor; [apply Z.mod_pos_bound; lia|]. intros m. constructor.
Qed.

(* the client's own requests parse under the client-to-server grammar with the values it holds *)
Theorem C07_client_requests_wf : forall f encs incr x y w h fuel,
  fmt_wire_ok f -> Forall (fun e => 0 <= e < 4294967296) encs -> zlen encs < 65536 ->
  0 <= x < 65536 -> 0 <= y < 65536 -> 0 <= w < 65536 -> 0 <= h < 65536 ->
  c2s_parse (S (S (S fuel))) (spf_bytes f ++ se_bytes encs ++ fur_bytes incr x y w h) =
  Some [MSPF (f_bpp f) (f_depth f) (if f_be f then 1 else 0) 1 (f_rmax f) (f_gmax f) (f_bmax f)
             (f_rshift f) (f_gshift f) (f_bshift f); MSE encs; MFUR incr x y w h].
Proof. exact requests_wf. Qed.
Example C07_client_requests_wf_nonvacuous :
  c2s_parse 40 (spf_bytes (mkfmt 32 24 false 255 255 255 16 8 0) ++ se_bytes (client_encodings [0; 1; 2; 3; 7; 9] 3 9 false true true)
                ++ fur_bytes 0 0 0 640 480)
  = Some [MSPF 32 24 0 1 255 255 255 16 8 0;
          MSE (client_encodings [0; 1; 2; 3; 7; 9] 3 9 false true true); MFUR 0 0 0 640 480].
Proof. exact requests_wf_nonvacuous. Qed.

(* callbacks receive the transmitted values *)
Theorem C07_callbacks_bell : forall s ts, handle_msg s (TB cM_Bell :: ts) = Ok tt (add_ev s EvBell) ts.
Proof. exact msg_bell. Qed.

Theorem C07_callbacks_cuttext : forall s txt ts,
  Forall byte_ok txt -> zlen txt <= cCutTextLimit ->
  handle_msg s (toks ([cM_ServerCutText; 0; 0; 0] ++ be32 (zlen txt) ++ txt) ++ ts) = Ok tt (add_ev s (EvCut txt)) ts.
Proof. exact msg_cuttext. Qed.

Theorem C07_callbacks_cursor : forall s xh yh w h pix mask ts,
  1 <= w < cMAX_CURSOR_SIZE -> 1 <= h < cMAX_CURSOR_SIZE ->
  Forall byte_ok pix -> Forall byte_ok mask -> 0 <= bypp_of s ->
  zlen pix = w * h * bypp_of s -> zlen mask = (w + 7) / 8 * h ->
  dec_cursor xh yh w h cE_RichCursor s (toks (pix ++ mask) ++ ts)
  = Ok tt (add_ev s (EvCursor xh yh w h (bypp_of s) pix (bits_of mask ((w + 7) / 8) w h))) ts.
Proof. exact cursor_rich. Qed.

(* Tight's compact length (audit item 5): the client's reader inverts the encoder for every length below 2^22, across the
   127/128 and 16383/16384 boundaries.  (In the mirror it is read on Tight's "no zlib" path; the length field in front of
   a deflate block is rendered by the harness from the real zlib output and is not part of the token alphabet.) *)
Theorem C07_compact_len_roundtrip : forall n s ts, 0 <= n < 4194304 ->
  rd_compact s (toks (compact_len n) ++ ts) = Ok n s ts.
Proof. exact compact_len_roundtrip. Qed.

(* a FramebufferUpdate whose rectangles each decode (rect_steps) is processed completely: incremental
   update request sent, FinishedFrameBufferUpdate reported; a Raw rectangle is such a step *)
Theorem C07_update_framing : forall s rs s' ts,
  rects_run s rs s' -> zlen rs < 65535 -> c_canfur s' = true -> c_reqrs s' = false ->
  handle_msg s (toks (fbu_header (zlen rs)) ++ concat rs ++ ts)
  = Ok tt (add_ev (add_out s' (let '(x, y, w, h) := c_upd s' in fur_bytes 1 x y w h)) EvFinished) ts.
Proof. exact fbu_run. Qed.

(* SendExtDesktopSize (application call): while the SetDesktopSize it sent is unanswered ([c_reqrs]) the incremental
   update request is withheld; an ExtendedDesktopSize rectangle - whatever size it announces - ends that state *)
Theorem C07_update_request_withheld : forall s ts, c_reqrs s = true -> send_incr s ts = Ok tt s ts.
Proof. exact send_incr_pending. Qed.

Theorem C07_update_rect_raw : forall s x y w h rows,
  st_wf s -> bypp_ok s -> c_w s <= 65535 -> c_h s <= 65535 ->
  0 <= x -> 0 <= y -> 1 <= w <= 65535 -> 0 <= h <= 65535 ->
  x + w <= c_w s -> y + h <= c_h s ->
  rows_wf w h rows -> Forall (Forall (px_ok (bypp_of s))) rows ->
  rect_steps s (toks (rect_header x y w h cE_Raw ++ ref_raw (bypp_of s) rows))
             (add_ev (set_fb s (blit_spec (c_fb s) x y rows)) (EvUpdate x y w h)).
Proof. exact rect_step_raw. Qed.

(* ---- message level for EVERY pixel encoding (audit item 4).  [pix_enc enc dec]: the encoding number and the decoder
   HandleRFBServerMessage dispatches to (Raw, CopyRect, RRE, CoRRE, Hextile, Ultra, TRLE, Zlib, Tight, ZRLE, ZYWRLE).
   Whenever the decoder turns a rectangle body into the state s1 (every round-trip theorem above has this form), header +
   body is a step of the rectangle loop - dispatch, "Rect too large" test, decoder, GotFrameBufferUpdate - so
   [C07_update_framing] composes rectangles of any mix of encodings, with the state (zlib streams, raw_buffer size,
   framebuffer) threaded from rectangle to rectangle by [rects_run] *)
Theorem C07_update_rect_any : forall s x y w h enc dec body s1,
  pix_enc enc dec -> bpp_std s ->
  0 <= x < 65536 -> 0 <= y < 65536 -> 0 <= w < 65536 -> 0 <= h < 65536 ->
  x + w <= c_w s -> y + h <= c_h s ->
  (forall ts, dec x y w h s (body ++ ts) = Ok tt s1 ts) ->
  rect_steps s (toks (rect_header x y w h enc) ++ body) (add_ev s1 (EvUpdate x y w h)).
Proof. exact rect_step_any. Qed.

Lemma bypp_ok_std s : bypp_ok s -> bpp_std s.
Proof. unfold bypp_ok, bpp_std. lia. Qed.

(* instances: the round-trip theorems lifted to the message level *)
Theorem C07_update_rect_rre : forall ch s x y w h tgt,
  st_wf s -> bypp_ok s -> 0 <= x < 65536 -> 0 <= y < 65536 -> 0 <= w <= 65535 -> 0 <= h <= 65535 ->
  x + w <= c_w s -> y + h <= c_h s -> rows_wf w h tgt -> Forall (Forall (px_ok (bypp_of s))) tgt ->
  rect_steps s (toks (rect_header x y w h cE_RRE) ++ toks (ref_rre ch (bypp_of s) w h tgt))
             (add_ev (set_fb s (blit_spec (c_fb s) x y tgt)) (EvUpdate x y w h)).
Proof.
  intros. apply (rect_step_any s x y w h cE_RRE dec_rre); auto using pe_rre, bypp_ok_std; try lia.
  intros ts. apply roundtrip_rre; auto; lia.
Qed.
Theorem C07_update_rect_corre : forall ch s x y w h tgt,
  st_wf s -> bypp_ok s -> 0 <= x < 65536 -> 0 <= y < 65536 -> 0 <= w <= 255 -> 0 <= h <= 255 ->
  x + w <= c_w s -> y + h <= c_h s -> rows_wf w h tgt -> Forall (Forall (px_ok (bypp_of s))) tgt ->
  3 + w * h <= cCoRREBound_num / (4 + bypp_of s) ->
  rect_steps s (toks (rect_header x y w h cE_CoRRE) ++ toks (ref_corre ch (bypp_of s) w h tgt))
             (add_ev (set_fb s (blit_spec (c_fb s) x y tgt)) (EvUpdate x y w h)).
Proof.
  intros. apply (rect_step_any s x y w h cE_CoRRE dec_corre); auto using pe_corre, bypp_ok_std; try lia.
  intros ts. apply roundtrip_corre; auto; lia.
Qed.
Theorem C07_update_rect_hextile : forall ch s x y w h tgt,
  st_wf s -> bypp_ok s -> 0 <= x < 65536 -> 0 <= y < 65536 -> 0 <= w < 65536 -> 0 <= h < 65536 ->
  x + w <= c_w s -> y + h <= c_h s -> rows_wf w h tgt -> Forall (Forall (px_ok (bypp_of s))) tgt ->
  rect_steps s (toks (rect_header x y w h cE_Hextile) ++ toks (ref_hextile ch (bypp_of s) w h tgt))
             (add_ev (set_fb s (blit_spec (c_fb s) x y tgt)) (EvUpdate x y w h)).
Proof.
  intros. apply (rect_step_any s x y w h cE_Hextile dec_hextile); auto using pe_hextile, bypp_ok_std; try lia.
  intros ts. apply roundtrip_hextile; auto; lia.
Qed.
Theorem C07_update_rect_zlib : forall s x y w h tgt fresh,
  st_wf s -> bypp_ok s -> 0 <= x < 65536 -> 0 <= y < 65536 -> 1 <= w < 65536 -> 0 <= h < 65536 ->
  x + w <= c_w s -> y + h <= c_h s -> rows_wf w h tgt -> Forall (Forall (px_ok (bypp_of s))) tgt ->
  zs_ready c_zlibz c_zrlez s -> fresh = negb (zact_get s 0) ->
  let cap := if c_rawsz s <? w * h * bypp_of s then w * h * bypp_of s else c_rawsz s in
  rect_steps s (toks (rect_header x y w h cE_Zlib) ++ ref_zlib (c_fmt s) fresh tgt)
             (add_ev (set_fb (zlib_mark (set_rawsz s cap)) (blit_spec (c_fb s) x y tgt)) (EvUpdate x y w h)).
Proof.
  intros. apply (rect_step_any s x y w h cE_Zlib dec_zlib); auto using pe_zlib, bypp_ok_std; try lia.
  intros ts. apply roundtrip_zlib; auto; lia.
Qed.
Theorem C07_update_rect_ultra : forall s x y w h tgt,
  st_wf s -> bypp_ok s -> 0 <= x < 65536 -> 0 <= y < 65536 -> 1 <= w < 65536 -> 1 <= h < 65536 ->
  x + w <= c_w s -> y + h <= c_h s -> rows_wf w h tgt -> Forall (Forall (px_ok (bypp_of s))) tgt ->
  let cap := if c_rawsz s <? w * h * bypp_of s then round4 (w * h * bypp_of s) else c_rawsz s in
  rect_steps s (toks (rect_header x y w h cE_Ultra) ++ ref_ultra (c_fmt s) tgt)
             (add_ev (set_fb (set_rawsz s cap) (blit_spec (c_fb s) x y tgt)) (EvUpdate x y w h)).
Proof.
  intros. apply (rect_step_any s x y w h cE_Ultra dec_ultra); auto using pe_ultra, bypp_ok_std; try lia.
  intros ts. apply roundtrip_ultra; auto; lia.
Qed.
Theorem C07_update_rect_zrle : forall ch s x y w h tgt fresh,
  st_wf s -> bpp_std s -> f_be (c_fmt s) = false -> cp_agree (c_fmt s) (variant_of s) -> fixed s 8 = true ->
  0 <= x < 65536 -> 0 <= y < 65536 -> 0 <= w < 65536 -> 0 <= h < 65536 -> x + w <= c_w s -> y + h <= c_h s ->
  rows_wf w h tgt -> Forall (Forall (cp_ok (variant_of s))) tgt ->
  zs_ready c_zrlez c_zlibz s -> fresh = zrle_fresh s ->
  let minsz := (if fixed s 12 then zrle_bound w h (rbytes (variant_of s)) else w * h * rbytes (variant_of s) * 2) + 4 in
  let cap := if c_rawsz s <? minsz then minsz else c_rawsz s in
  zlen (tiles_rows ch 0 (c_fmt s) false 64 (Z.to_nat (h / 64 + 1)) 0 w h tgt 0 []) <= cap - 4 ->
  rect_steps s (toks (rect_header x y w h cE_ZRLE) ++ ref_zrle ch (c_fmt s) fresh w h tgt)
             (add_ev (set_fb (zrle_mark (set_rawsz s cap)) (blit_spec (c_fb s) x y tgt)) (EvUpdate x y w h)).
Proof.
  intros. apply (rect_step_any s x y w h cE_ZRLE dec_zrle); auto using pe_zrle; try lia.
  intros ts. apply roundtrip_zrle; auto; lia.
Qed.
Theorem C07_update_rect_trle : forall ch s x y w h tgt,
  st_wf s -> bpp_std s -> f_be (c_fmt s) = false -> cp_agree (c_fmt s) (variant_of s) -> fixed s 4 = true ->
  0 <= x < 65536 -> 0 <= y < 65536 -> 0 <= w < 65536 -> 0 <= h < 65536 -> x + w <= c_w s -> y + h <= c_h s ->
  rows_wf w h tgt -> Forall (Forall (cp_ok (variant_of s))) tgt ->
  let minsz := cTRLE_tile * cTRLE_tile * rbytes (variant_of s) * 2 in
  let cap := if c_rawsz s <? minsz then minsz else c_rawsz s in
  rect_steps s (toks (rect_header x y w h cE_TRLE) ++ ref_trle ch (c_fmt s) w h tgt)
             (add_ev (set_fb (set_rawsz s cap) (blit_spec (c_fb s) x y tgt)) (EvUpdate x y w h)).
Proof.
  intros. apply (rect_step_any s x y w h cE_TRLE dec_trle); auto using pe_trle; try lia.
  intros ts. apply roundtrip_trle; auto; lia.
Qed.
Theorem C07_update_rect_tight : forall ch s x y w h tgt z0 a b c d,
  st_wf s -> f_be (c_fmt s) = false -> bypp_ok s -> c_zact s = [z0; a; b; c; d] -> gfmt_ok (c_fmt s) (bypp_of s) ->
  0 <= x < 65536 -> 0 <= y < 65536 -> 1 <= w <= 2048 -> 1 <= h < 65536 -> x + w <= c_w s -> y + h <= c_h s ->
  rows_wf w h tgt -> Forall (Forall (tpix_ok (c_fmt s))) tgt ->
  rect_steps s (toks (rect_header x y w h cE_Tight) ++ fst (ref_tight ch (c_fmt s) w h tgt [a; b; c; d]))
             (add_ev (set_fb (set_zact s (z0 :: snd (ref_tight ch (c_fmt s) w h tgt [a; b; c; d]))) (blit_spec (c_fb s) x y tgt))
                     (EvUpdate x y w h)).
Proof.
  intros. apply (rect_step_any s x y w h cE_Tight dec_tight); auto using pe_tight, bypp_ok_std; try lia.
  intros ts. apply roundtrip_tight; auto; lia.
Qed.

(* "Rect too large": a pixel rectangle that leaves the framebuffer is refused before any decoder runs, for every
   continuation of the stream (UltraZip is exempt in the C code and not covered here; its own checks: C08) *)
Theorem C07_update_rect_too_large : forall s x y w h enc dec ts,
  pix_enc enc dec -> 0 <= x < 65536 -> 0 <= y < 65536 -> 0 <= w < 65536 -> 0 <= h < 65536 ->
  c_w s < x + w \/ c_h s < y + h ->
  do_rect s (toks (rect_header x y w h enc) ++ ts) = Fail.
Proof. exact rect_too_large. Qed.

(* LastRect ends the rectangle loop whatever count the message header announced *)
Theorem C07_update_lastrect : forall s x y w h n ts,
  0 <= x < 65536 -> 0 <= y < 65536 -> 0 <= w < 65536 -> 0 <= h < 65536 ->
  rect_loop (S n) s (toks (rect_header x y w h cE_LastRect) ++ ts) = Ok tt s ts.
Proof. exact lastrect_stops. Qed.
