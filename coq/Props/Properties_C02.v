(* C02 - Clients converge to the framebuffer: no lost, stale or spurious updates.
   Only property theorems here, each closed by [exact] of a lemma proved elsewhere
   (Update/UpdateFacts.v, Update/UpdateProofs.v, Update/UpdateThms.v), all about the model that the
   correspondence run executes (Update/UpdateDefs.v: step / send_client / ...). *)
From LV Require Import Region.RegionDefs Region.RegionProofs Update.UpdateDefs Update.UpdateFacts
     Update.UpdateProofs0 Update.UpdateProofs Update.UpdateThms Update.NewFB Update.Slices Update.Trans
     Update.Life Update.StateLevel Update.Audit02 Update.NoCopy Update.SliceInv Update.InvAll Update.Count Update.CountRel.
From LV Require Wire.CountsModel.
Local Open Scope Z_scope.

(* ---------------------------------------------------------------- the invariant
   Inv st: for every client c and every pixel p of the screen outside M(c):
             p in C(c)      ->  cfb_c (p - d_c) = fb p     (as seen in c's pixel format)
             p not in C(c)  ->  cfb_c p         = fb p
   plus well-formedness of M, C, R, M and C (and C - d) inside the screen, and
   "the client's picture has the framebuffer's size unless the size message is pending". *)

Theorem C02_inv_initial : forall W H bpp, 0 < W -> 0 < H -> Inv (init_state W H bpp).
Proof. exact init_inv. Qed.

(* DESIGN.md C02_inv_preserved: for every operation list, any number of clients, any screen size,
   offsets and knobs.  [run_ok] only states input well-formedness (op_ok): copy rectangles handed to
   the library are non-empty, the four fields of a FramebufferUpdateRequest are unsigned wire
   values, a cursor has a positive size.
   Since the fixes 737e111 (rfbDoCopyRegion order), 812461a (NULL cursor), d179288 (off-screen
   marks), d5a464d (empty requests are ignored) the theorem covers rfbDoCopyRegion on EVERY
   well-formed region, marks / draws with ANY arguments, screens without a cursor and requests of
   ANY geometry; the former refutations / exclusions are gone. *)
Theorem C02_inv_preserved : forall ops st st',
  Inv st -> run_ok st ops -> run st ops = Some st' -> Inv st'.
Proof. exact run_inv. Qed.

Theorem C02_inv_preserved_step : forall st o st' out,
  Inv st -> op_ok st o -> step st o = Some (st', out) -> Inv st'.
Proof. exact step_inv. Qed.

(* the former F9 witness (two-band rfbDoCopyRegion, dy = 5) now keeps the invariant; the order used
   before the fix is unsafe for that region, the present one is safe *)
Theorem C02_f9_witness_passes :
  exists st', run (init_state 12 12 4) f9_ops = Some st' /\ Inv st' /\
              forall c, In c (sClients st') -> inv_client_b st' c = true.
Proof. exact f9_history_keeps_inv. Qed.

Theorem C02_f9_old_order_unsafe :
  order_safe_b 0 5 (rgn_iter (0 <? 0) (5 <? 0) f9_region) = false /\
  order_safe_b 0 5 (docopy_rects f9_region 0 5) = true.
Proof. exact f9_old_order_unsafe. Qed.

(* the executable form of the invariant that both drivers print (field I=) is implied by Inv *)
Theorem C02_inv_executable : forall st c,
  Inv st -> In c (sClients st) -> cPW c = sW st -> cPH c = sH st -> inv_client_b st c = true.
Proof. exact inv_client_b_complete. Qed.

(* ---------------------------------------------------------------- delivery *)
(* SCOPE of every statement about a client's PICTURE (send_delivers, idle_converged, slices_converge):
   clients for which the server paints no cursor into the pixels - [NoSoftCursor st c]: the client announced
   cursor-shape support or the screen has no cursor.  For the others rfbShowCursor draws the cursor into the
   framebuffer before encoding (C15's subject); the model paints nothing, and the correspondence run masks
   exactly those pictures, so the claim would be neither true of the C code nor tested.  [Inv] itself is a
   statement about the model's pictures (without the painted cursor) for all clients.
   `_noslice`: progressiveSliceHeight <= 0 (with slicing: C02_slices_converge). *)
Theorem C02_send_delivers_noslice : forall st c c' m,
  Inv st -> In c (sClients st) -> NoSoftCursor st c -> sSliceH st <= 0 ->
  cUseNewFB c && cNewFBPending c = false ->
  send_client st c = Some (c', m) ->
  forall x y, inS (sW st) (sH st) x y -> rgn_mem (cR c) x y = true ->
    pic_get (cPic c') x y = fb_for st c x y.
Proof. exact send_delivers_nocursor. Qed.

Theorem C02_send_clears_requested_noslice : forall st c c' m,
  Inv st -> In c (sClients st) -> sSliceH st <= 0 ->
  cUseNewFB c && cNewFBPending c = false ->
  send_client st c = Some (c', m) ->
  forall x y, rgn_mem (cR c) x y = true ->
    rgn_mem (cM c') x y = false /\ rgn_mem (cC c') x y = false.
Proof. exact send_clears_requested. Qed.

(* ---------------------------------------------------------------- nothing more to send => equal *)
Theorem C02_idle_converged : forall st c,
  Inv st -> In c (sClients st) -> NoSoftCursor st c -> pending st c = false ->
  cPW c = sW st /\ cPH c = sH st /\
  forall x y, inS (sW st) (sH st) x y -> pic_get (cPic c) x y = fb_for st c x y.
Proof. exact idle_converged_nocursor. Qed.

(* ... in terms of the CURRENT server format: [fb_for] goes through the translation selected for the client;
   it is the one for the current server format in every reachable state ([TransOK], kept by every operation:
   C16_translation_current) *)
Theorem C02_idle_converged_current_format : forall st c,
  Inv st -> TransOK st -> In c (sClients st) -> NoSoftCursor st c -> pending st c = false ->
  forall x y, inS (sW st) (sH st) x y ->
    pic_get (cPic c) x y = translate (sBpp st) (tTo (cBpp c)) (fbf st x y).
Proof. exact idle_converged_current_nocursor. Qed.

(* ---------------------------------------------------------------- CopyRect order *)
Theorem C02_copy_order_safe : forall r dx dy f x y,
  WF r -> copy_seq f (rgn_iter (dx >? 0) (dy >? 0) r) dx dy x y = copy_simul f r dx dy x y.
Proof. exact copy_order_safe. Qed.

(* rfbDoCopyRect (one rectangle, rows in the order of the memmove loops) is the simultaneous copy *)
Theorem C02_docopy_simultaneous : forall f x1 y1 x2 y2 dx dy x y,
  docopy_fun f (rgn_create_rect x1 y1 x2 y2) dx dy x y =
  copy_simul f (rgn_create_rect x1 y1 x2 y2) dx dy x y.
Proof. exact docopy_rect_simul. Qed.

(* rfbDoCopyRegion performs the simultaneous copy  fb'(p) = fb(p-d)  on every well-formed region
   (rectangles in the safe order, rows in the order of the memmove loops) *)
Theorem C02_docopy_region_simultaneous : forall f K dx dy x y,
  WF K -> docopy_fun f K dx dy x y = copy_simul f K dx dy x y.
Proof. exact docopy_region_simul. Qed.

(* ---------------------------------------------------------------- non-incremental requests *)
Theorem C02_send_covers_modified_requested_noslice : forall st c c' n rects,
  Inv st -> In c (sClients st) -> sSliceH st <= 0 ->
  cUseNewFB c && cNewFBPending c = false ->
  send_client st c = Some (c', Some (n, rects)) ->
  forall x y, rgn_mem (cM c) x y = true -> rgn_mem (cR c) x y = true ->
    existsb (wraw_has x y) rects = true /\ existsb (wcopy_has x y) rects = false.
Proof. exact send_covers. Qed.

Theorem C02_nonincremental_full_noslice : forall st c c' n rects x y w h x0 y0,
  Inv st -> In c (sClients st) -> sSliceH st <= 0 ->
  req_ok (sW st) (sH st) x y w h -> w < 65536 -> h < 65536 ->
  let c1 := request_client (sW st) (sH st) false x y w h c in
  cUseNewFB c1 && cNewFBPending c1 = false ->
  send_client st c1 = Some (c', Some (n, rects)) ->
  rect_mem (x, y, x + w, y + h) x0 y0 = true -> inS (sW st) (sH st) x0 y0 ->
  existsb (wraw_has x0 y0) rects = true /\ existsb (wcopy_has x0 y0) rects = false.
Proof. exact nonincremental_full. Qed.

(* the two theorems above are conditional on a message being sent; it IS sent as soon as one requested pixel is
   modified (existential form) ... *)
Theorem C02_update_emitted_noslice : forall st c x y,
  Inv st -> In c (sClients st) -> sSliceH st <= 0 ->
  cUseNewFB c && cNewFBPending c = false -> scaled_guard c = false ->
  rgn_mem (cM c) x y = true -> rgn_mem (cR c) x y = true ->
  exists c' n rects, send_client st c = Some (c', Some (n, rects)).
Proof. exact send_emits. Qed.

(* ... and when the client's size message is pending (every ExtendedDesktopSize client after a non-incremental
   request, every resize-capable client after rfbNewFramebuffer) the first send is the size message and the
   second one carries the pixels: two-send form *)
Theorem C02_update_emitted_after_size_noslice : forall st c x y,
  Inv st -> In c (sClients st) -> sSliceH st <= 0 -> cScaled c = None ->
  cUseNewFB c = true -> cNewFBPending c = true ->
  rgn_mem (cM c) x y = true -> rgn_mem (cR c) x y = true ->
  exists c1 m1 c2 n rects,
    send_client st c = Some (c1, Some m1) /\ send_client st c1 = Some (c2, Some (n, rects)).
Proof. exact send_emits_after_size. Qed.

(* ---------------------------------------------------------------- silence when up to date *)
Theorem C02_idle_incremental_silent : forall st c x y w h,
  pending st c = false -> cScaled c = None ->
  let c1 := request_client (sW st) (sH st) true x y w h c in
  tick_client st c1 = Some (c1, None) /\
  exists c', send_client st c1 = Some (c', None).
Proof. exact idle_incremental_silent. Qed.

(* the requested area is clean (nothing of it is modified or waits for a copy) while OTHER areas are dirty, no
   cursor business pending: nothing is sent, the picture and the dirty areas are left alone *)
Theorem C02_clean_request_silent : forall st c,
  Inv st -> In c (sClients st) ->
  cUseNewFB c && cNewFBPending c = false -> scaled_guard c = false ->
  (forall x y, rgn_mem (cR c) x y = true -> rgn_mem (cM c) x y = false /\ rgn_mem (cC c) x y = false) ->
  cShape c && cCurChanged c && cReady c = false ->
  (cShape c = true \/ (cCurX c = sCurX st /\ cCurY c = sCurY st)) ->
  exists c', send_client st c = Some (c', None) /\ cPic c' = cPic c /\ cR c' = cR c /\
             forall x y, rgn_mem (cM c') x y = rgn_mem (cM c) x y.
Proof. exact clean_request_silent. Qed.

(* CopyRect only while advertised (C03-F25, fixed 690d81d): a SetEncodings without CopyRect leaves no copy
   pending, and a client without a pending copy is never sent a CopyRect *)
Theorem C02_setenc_without_copyrect_drops_copy : forall st shape newfb ext c,
  rgn_is_empty (cC (setenc_client st false shape newfb ext c)) = true.
Proof. exact setenc_without_copyrect_no_copy. Qed.

Theorem C02_no_pending_copy_no_copyrect : forall st c c' n rects,
  Inv st -> In c (sClients st) ->
  rgn_is_empty (cC c) = true -> send_client st c = Some (c', Some (n, rects)) ->
  existsb is_wcopy rects = false.
Proof. exact no_copy_region_no_copyrect. Qed.

(* ---------------------------------------------------------------- progressive slicing *)
(* with progressiveSliceHeight > 0 a bounded number of rounds - one round = an incremental request
   for the whole screen followed by rfbSendFramebufferUpdate, nothing else in between, no copy
   pending - empties the modified region and makes the client's picture equal to the framebuffer:
   at most  floor(H / slice) + 2  (>= ceil(H/slice) + 1)  rounds, wherever the sweep currently is
   (progressiveSliceY arbitrary >= 0).  The framebuffer height fits a C int. *)
Theorem C02_slices_converge : forall st c,
  InvAll st -> In c (sClients st) -> NoSoftCursor st c -> sH st <= INT_MAX -> 0 < sSliceH st ->
  no_pix (cC c) -> cUseNewFB c && cNewFBPending c = false -> cScaled c = None ->
  exists c', slice_rounds st c (Z.to_nat (sH st / sSliceH st + 2)) = Some c' /\
             no_pix (cM c') /\
             forall x y, inS (sW st) (sH st) x y -> pic_get (cPic c') x y = fb_for st c x y.
Proof. exact slices_converge_all. Qed.

(* ---------------------------------------------------------------- the full invariant
   InvAll = Inv + TransOK (translation selected for the current server format) + NoCopyInv (no copy pending for a
   client without CopyRect) + SliceOK (0 <= progressiveSliceY) + NoDangling (C16): holds initially, kept by every
   operation, hence in every state reachable with well-formed inputs *)
Theorem C02_full_invariant_initial : forall W H bpp, 0 < W -> 0 < H -> InvAll (init_state W H bpp).
Proof. exact init_invall. Qed.

Theorem C02_full_invariant_step : forall st o st' out,
  InvAll st -> op_ok st o -> step st o = Some (st', out) -> InvAll st'.
Proof. exact step_invall. Qed.

Theorem C02_full_invariant_run : forall ops st st',
  InvAll st -> run_ok st ops -> run st ops = Some st' -> InvAll st'.
Proof. exact run_invall. Qed.

(* history level: a client whose useCopyRect flag is off - it never advertised CopyRect, or its last SetEncodings
   did not name it - is never sent a CopyRect rectangle, after ANY history (rfbScheduleCopyRegion gives it pixels,
   SetEncodings turns a pending copy into modified pixels: 690d81d, b141ef8) *)
Theorem C02_nocopy_invariant_step : forall st o st' out,
  NoCopyInv st -> step st o = Some (st', out) -> NoCopyInv st'.
Proof. exact step_nocopy. Qed.

Theorem C02_copyrect_only_if_advertised : forall W H bpp ops st c c' n rects,
  0 < W -> 0 < H -> run_ok (init_state W H bpp) ops ->
  run (init_state W H bpp) ops = Some st ->
  In c (sClients st) -> cUseCopy c = false ->
  send_client st c = Some (c', Some (n, rects)) ->
  existsb is_wcopy rects = false.
Proof. exact copyrect_only_if_advertised. Qed.

(* ---------------------------------------------------------------- the deferral timer *)
(* deferring never loses an update: whatever deferUpdateTime and the clock (gettimeofday) are - also
   when the clock runs backwards - rfbUpdateClient keeps the invariant (C02_inv_preserved quantifies
   over histories that contain OpTime / OpDefer / OpTick in any order) *)
Theorem C02_deferral_sound : forall st c c' m,
  Inv st -> In c (sClients st) -> tick_client st c = Some (c', m) ->
  InvC (sW st) (sH st) (fb_for st c') c'.
Proof. exact deferral_sound. Qed.

(* while it defers, only the timer changes: M, C, R, flags and the picture are untouched *)
Theorem C02_deferral_keeps_update : forall st c c' m,
  tick_client st c = Some (c', m) -> xDefer (sExt st) <> 0 ->
  xDefU (cExt c) = 0 \/
  ((xNowS (sExt st) <? xDefS (cExt c)) || (elapsed_ms st c >? xDefer (sExt st)) = false) ->
  m = None /\ exists e, c' = set_cext c e.
Proof. exact tick_deferring_keeps. Qed.

(* once the timer has expired the update is sent exactly as without deferral *)
Theorem C02_deferral_expired_sends : forall st c,
  scaled_guard c = false -> pending st c && negb (rgn_is_empty (cR c)) = true ->
  xDefer (sExt st) <> 0 -> xDefU (cExt c) <> 0 ->
  (xNowS (sExt st) <? xDefS (cExt c)) || (elapsed_ms st c >? xDefer (sExt st)) = true ->
  tick_client st c = send_client st (set_cext c (ext_timer (cExt c) (xDefS (cExt c)) 0)).
Proof. exact tick_expired_sends. Qed.

(* ---------------------------------------------------------------- SetPixelFormat mid-session *)
(* PARTIAL: the modelled operation is SetPixelFormat (to one of the three server-style formats) FUSED with the
   non-incremental request for the whole screen that a conforming client sends next; a bare SetPixelFormat
   marks nothing in the C code and would leave the old-format pixels in the client's picture *)
Theorem C02_setpixelformat_with_full_rerequest_partial : forall st c bpp,
  Inv st -> In c (sClients st) ->
  let c' := setpf_client st bpp c in
  InvC (sW st) (sH st) (fb_for st c') c' /\ cBpp c' = mkX (sBpp st) bpp.
Proof. exact setpixelformat_resync. Qed.

(* ---------------------------------------------------------------- other encodings *)
(* RAW ONLY: the model's sender is parametric in what a pixel rectangle delivers; this says that any [deliver]
   that equals the Raw delivery pointwise gives the same sender - it is not instantiated with a decode/encode
   theorem of any other encoding (C01's subject), and the per-encoding rectangle counts and the coalescing
   exemptions of rfbSendFramebufferUpdate are not modelled.  Other encodings are covered BY TEST only: the
   "enc" class of the correspondence run (real LibVNCClient decoders for RRE, CoRRE, Hextile, Zlib, ZlibHex,
   Tight, Ultra, TRLE, ZRLE) compares regions, flags and the convergence verdict. *)
Theorem C02_any_lossless_encoding_raw_only : forall deliver st c,
  delivers_fb deliver -> send_client_gen (client_apply_with deliver) st c = send_client st c.
Proof. exact any_lossless_encoding. Qed.

(* ---------------------------------------------------------------- the announced count
   rfbSendFramebufferUpdate's two-stage repair of the 16-bit count is mirrored in [count_fix] (bounding box of the
   pixel region; if the copy rectangles alone reach the field size they are merged into the pixel region): for
   every state of the invariant and every client the announced count equals the number of rectangles sent
   (cursor / size pseudo-rectangle, CopyRects, pixel rectangles) and stays below 0xFFFF - no wrap-around *)
Theorem C02_announced_count_exact : forall st c c' n rects,
  Inv st -> In c (sClients st) -> send_client st c = Some (c', Some (n, rects)) ->
  n = Z.of_nat (length rects) /\ n < 65535.
Proof. exact send_count. Qed.

(* the same announced count as the count-stage model of property C03 (Wire/CountsModel.v, announce_fixed with both
   repairs, Raw counting rule), written independently from the same C text: for any rectangle lists with the
   lengths of the two regions *)
Theorem C02_count_agrees_with_C03_model : forall st UC U (region copyl : list Wire.CountsModel.xywh) cmw cmh s,
  WF UC -> WF U ->
  Z.of_nat (length region) = rgn_count U -> Z.of_nat (length copyl) = rgn_count UC ->
  exists region' keep,
    Wire.CountsModel.announce_fixed true 0 false cmw cmh (sMaxRects st) region copyl s =
    Some (Wire.CountsModel.wrap16 (rgn_count (fst (count_fix UC U)) + rgn_count (coalesce st (snd (count_fix UC U))) + s),
          region', false, keep).
Proof. exact count_stage_agrees. Qed.

Theorem C02_count_repair_sound : forall UC U,
  WF UC -> WF U ->
  WF (fst (count_fix UC U)) /\ WF (snd (count_fix UC U)) /\
  (forall x y, rgn_mem U x y = true -> rgn_mem (snd (count_fix UC U)) x y = true) /\
  (forall x y, rgn_mem (fst (count_fix UC U)) x y = true -> rgn_mem UC x y = true) /\
  (forall x y, rgn_mem UC x y = true ->
               rgn_mem (fst (count_fix UC U)) x y = true \/ rgn_mem (snd (count_fix UC U)) x y = true) /\
  (fst (count_fix UC U) = UC \/ fst (count_fix UC U) = rgn_empty) /\
  rgn_count (fst (count_fix UC U)) + rgn_count (snd (count_fix UC U)) + 6 < 65535.
Proof. exact count_fix_spec. Qed.

(* ---------------------------------------------------------------- coalescing *)
Theorem C02_coalesce_sound : forall st U,
  WF U -> WF (coalesce st U) /\
  (forall x y, rgn_mem U x y = true -> rgn_mem (coalesce st U) x y = true).
Proof. exact coalesce_spec. Qed.

(* ---------------------------------------------------------------- copies never fail, marks never corrupt *)
(* an application copy inside the framebuffer always succeeds in the model (its explicit error used
   to be the NULL dereference of screen->cursor in rfbScheduleCopyRegion, F18) *)
Theorem C02_copy_never_fails : forall st x1 y1 x2 y2 rects dx dy,
  (copy_inside (sW st) (sH st) (rgn_create_rect x1 y1 x2 y2) dx dy = true ->
   exists r, step st (OpDoCopyRect x1 y1 x2 y2 dx dy) = Some r) /\
  (copy_inside (sW st) (sH st) (rgn_of_rects rects) dx dy = true ->
   (exists r, step st (OpDoCopyRegion rects dx dy) = Some r) /\
   (exists r, step st (OpSchedCopy rects dx dy) = Some r)).
Proof. exact copy_ops_total. Qed.

Theorem C02_f18_witness_passes :
  exists st, run (init_state 8 6 4) f18_ops = Some st /\ Inv st /\
             exists st', step st (OpDoCopyRect 4 2 7 4 3 1) = Some (st', []) /\ Inv st'.
Proof. exact schedule_copy_null_cursor_ok. Qed.

(* rfbMarkRectAsModified: the marked rectangle is the non-empty intersection with the screen, a
   rectangle that does not meet the screen changes nothing (F21) *)
Theorem C02_mark_clip_sem : forall W H x1 y1 x2 y2 rc,
  mark_clip W H x1 y1 x2 y2 = Some rc ->
  let '(a, b, c, d) := rc in
  a = Z.max 0 (Z.min x1 x2) /\ c = Z.min W (Z.max x1 x2) /\
  b = Z.max 0 (Z.min y1 y2) /\ d = Z.min H (Z.max y1 y2) /\ a < c /\ b < d.
Proof. exact mark_clip_sem. Qed.

Theorem C02_mark_outside_ignored : forall st x1 y1 x2 y2,
  Z.min (sW st) (Z.max x1 x2) <= Z.max 0 (Z.min x1 x2) \/ Z.min (sH st) (Z.max y1 y2) <= Z.max 0 (Z.min y1 y2) ->
  step st (OpMark x1 y1 x2 y2) = Some (st, []).
Proof. exact mark_outside_ignored. Qed.

(* ---------------------------------------------------------------- non-vacuity *)
Definition nv_ops : list op :=
  [OpAddClient; OpAddClient; OpSetEncodings 0 true true false false; OpSetEncodings 1 false true false false;
   OpRequest 0 false 0 0 12 8; OpTick 0; OpDraw 1 1 9 6 7; OpDoCopyRect 4 2 8 5 2 1;
   OpSchedCopy [(5, 3, 9, 6); (2, 1, 4, 3)] 2 1; OpDoCopyRegion [(1, 4, 6, 6); (2, 6, 10, 8)] 1 3;
   OpMark (-3) 9 5 2; OpMark 15 1 20 5; OpSetCursor None; OpDoCopyRect 4 2 8 5 2 1; OpRequest 0 true 2 1 8 5; OpTick 0; OpRequest 1 false 0 0 20 20; OpSend 1;
   OpKnobs 1 3; OpDraw 0 0 2 2 5; OpDraw 9 6 12 8 6; OpRequest 0 true 0 0 12 8; OpTick 0;
   OpDefer 40; OpDraw 3 3 6 6 8; OpRequest 0 true 0 0 12 8; OpTick 0; OpTime 1000 30000; OpTick 0;
   OpTime 999 0; OpTick 0; OpSetPixelFormat 1 2; OpTick 1; OpTime 1001 0; OpTick 1].

Ltac run_ok_tac :=
  repeat (split; [first [exact I | solve [cbn; repeat split; lia] | solve [repeat constructor; cbn; lia]] |
                  let st' := fresh "st" in let out := fresh "out" in let Hs := fresh "Hs" in
                  intros st' out Hs; vm_compute in Hs; inversion Hs; subst; clear Hs]).

(* the hypotheses of C02_inv_preserved are satisfiable by a history with two clients, draws, an
   inverted / partly and wholly out-of-range mark, all three kinds of copies (incl. a two-band
   rfbDoCopyRegion moved down into itself and a copy with a NULL cursor), requests, sends,
   coalescing and slicing *)
Example C02_inv_preserved_nonvacuous :
  run_ok (init_state 12 8 4) nv_ops /\ exists st', run (init_state 12 8 4) nv_ops = Some st'.
Proof.
  split.
  - unfold nv_ops. run_ok_tac. exact I.
  - vm_compute. eexists. reflexivity.
Qed.

(* idle_converged / idle_incremental_silent: a client that is really idle after a history *)
Example C02_idle_nonvacuous :
  exists st c, run (init_state 12 8 4)
                   [OpAddClient; OpSetEncodings 0 true true false false; OpRequest 0 false 0 0 12 8; OpTick 0;
                    OpDraw 1 1 9 6 7; OpRequest 0 true 0 0 12 8; OpTick 0] = Some st /\
               In c (sClients st) /\ pending st c = false.
Proof. vm_compute. eexists. eexists. split; [reflexivity|]. split; [left; reflexivity|reflexivity]. Qed.

(* copy_order_safe: a well-formed multi-rectangle region *)
Example C02_copy_order_nonvacuous : WF f9_region /\ length (rgn_iter true true f9_region) = 2%nat.
Proof.
  split; [|reflexivity]. unfold f9_region. apply rgn_of_rects_wf. repeat constructor; cbn; lia.
Qed.


(* slices_converge: a client in the middle of a sweep (slice height 3, progressiveSliceY = 3, modified
   pixels above and below) *)
Example C02_slices_nonvacuous :
  exists st c, run (init_state 12 8 4)
                   [OpAddClient; OpSetEncodings 0 true true false false; OpRequest 0 false 0 0 12 8; OpTick 0;
                    OpKnobs 50 3; OpDraw 0 0 12 8 7; OpRequest 0 true 0 0 12 8; OpTick 0] = Some st /\
               In c (sClients st) /\ sSliceH st = 3 /\ cSliceY c = 3 /\ cC c = [] /\
               rgn_mem (cM c) 0 5 = true /\ cUseNewFB c && cNewFBPending c = false /\ cScaled c = None.
Proof. vm_compute. eexists. eexists. split; [reflexivity|]. split; [left; reflexivity|]. repeat split. Qed.
