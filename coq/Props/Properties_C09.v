(* C09 - WebSocket transport is transparent and strict.
   Only property theorems here, each closed by [exact] of a lemma proved elsewhere.

   fx = true  : webSocketsDecodeHybi with notes/fix_C09_1.diff (EAGAIN = pending, header remainder
                computed from the bytes already held);
   fx = false : webSocketsDecodeHybi as in the snapshot of /repo.
   props/C09.py runs the variant that matches the tree under test against the library, and the
   other one against a patched / unpatched copy of ws_decode.c. *)
From Coq Require Import ZArith List Bool.
From LV Require Import Ws.WsDefs Ws.Base64Defs Ws.Sha1Defs Ws.WsSpecDefs Ws.WsDecoderModel Ws.WsEncoderModel Ws.WsHandshakeModel
  Ws.WsTransparency Ws.WsRefuted Ws.WsPartial Ws.Base64Proofs Ws.WsDecoderProofs4 Ws.WsDecoderProofs6
  Ws.WsEncoderProofs Ws.WsStrictProofs Ws.WsHandshakeProofs Ws.WsSafetyProofs Ws.WsDrainProofs Ws.WsProgressProofs Ws.WsStrict2Proofs Ws.WsStrict3Proofs Ws.WsHandshakeRoundtrip Gen.Consts_C09 Gen.Strs_C09.
Import ListNotations.
Local Open Scope Z_scope.

(* ---- transparency ----
   For every conforming conversation cs (any number of binary / base64-text messages, fragmented
   at will, any payload lengths, any masks, ping/pong frames anywhere), EVERY segmentation of its
   byte stream into read() results (any chunk sizes, EAGAIN before any read) and every sequence
   of caller buffer lengths: each call delivers bytes or says EAGAIN (never an error, never a
   closed socket, never an access outside codeBufDecode), the bytes delivered are a prefix of the
   application data, and they are all of it once the stream is consumed and the decoder is idle. *)
Theorem C09_transparent : forall cs sched lens,
  conv_valid None cs = true -> sched_live sched = true -> lens_ok lens = true ->
  transparent_b true cs sched lens = true.
Proof. exact transparent_fixed. Qed.

Example C09_transparent_nonvacuous :
  conv_valid None wit_conv = true /\ sched_live wit_sched_eagain = true /\ lens_ok wit_lens = true /\
  delivered (fst (fst (ws_run true ws_init (mkIO (conv_stream wit_conv) wit_sched_eagain) wit_lens))) = conv_expected wit_conv.
Proof. vm_compute. repeat split; reflexivity. Qed.

(* ---- progress: with a reader that always has at least one byte to give (every scheduled event RAvail k,
   k >= 1), three events per call and |stream| + |application data| calls, ALL application data has been
   delivered.  (C09_transparent alone would be satisfied by a decoder that never consumes anything.) ---- *)
Theorem C09_progress : forall cs sched lens,
  conv_valid None cs = true -> all_avail sched = true -> lens_ok lens = true ->
  (3 * length lens <= length sched)%nat ->
  zlen (conv_stream cs) + zlen (conv_expected cs) <= Z.of_nat (length lens) ->
  delivered (fst (fst (ws_run true ws_init (mkIO (conv_stream cs) sched) lens))) = conv_expected cs.
Proof. exact progress_fixed. Qed.

Example C09_progress_nonvacuous :
  conv_valid None wit_conv = true /\ all_avail (repeat (RAvail 1) 1230) = true /\ lens_ok (repeat 3 410) = true /\
  zlen (conv_stream wit_conv) + zlen (conv_expected wit_conv) = 408.
Proof. vm_compute. repeat split; reflexivity. Qed.

(* ---- restriction of the base64 mode, stated and witnessed (finding C09-F24, both decoder variants):
   conv_valid requires every fragment of a text message to be a base64 string of its own; an RFC-valid text
   message fragmented elsewhere is lost silently ---- *)
Theorem C09_text_fragment_split_refuted :
  b64_pton [81; 85; 74; 68] 10 = Some [65; 66; 67] /\
  (forall fx, let '(rs, w', i') := ws_run fx ws_init (mkIO (encode_frames split_frames) avail6) [100; 100; 100; 100; 100; 100] in
     delivered rs = [] /\ forallb call_ok rs = true /\ io_stream i' = [] /\ at_boundary w' = true) /\
  (forall fx, delivered (fst (fst (ws_run fx ws_init (mkIO (encode_frames whole_frame) avail6) [100; 100]))) = [65; 66; 67]).
Proof. exact text_split_lost. Qed.

(* The decoder of the snapshot violates the same statement (DESIGN section 7, F3):
     forall cs sched lens, conv_valid None cs = true -> sched_live sched = true -> lens_ok lens = true ->
       transparent_b false cs sched lens = true
   is FALSE. *)
Theorem C09_transparent_refuted :
  exists cs sched lens,
    conv_valid None cs = true /\ sched_live sched = true /\ lens_ok lens = true /\
    transparent_b false cs sched lens = false.
Proof. exact transparent_refuted. Qed.

(* the snapshot decoder hands SIZE_MAX to the read callback on a header delivered as 6+1+1 bytes *)
Theorem C09_read_request_refuted :
  match ws_decode false ws_init (mkIO (conv_stream wit_conv) wit_sched_split) 300 with
  | ORet _ _ _ w1 i1 _ =>
    match ws_decode false w1 i1 300 with
    | ORet ret _ _ _ _ log => max_request log = two64 - 1 /\ ret = 0
    | OFault _ => False
    end
  | OFault _ => False
  end.
Proof. exact size_max_request. Qed.

(* ---- index safety and read-request bound (repaired decoder), for ARBITRARY input ----
   G = geometric invariant of the decoder state (WsSafetyProofs.v); ws_init satisfies it.  From a G
   state, for every byte stream (frames or garbage), every reader schedule (data in any pieces,
   EAGAIN, EOF, errors) and every caller length >= 0: the call returns (no access outside
   codeBufDecode: the model has no default values, an out-of-range index is OFault), the new state
   satisfies G, and every read request (dst, n, _) has 1 <= n and dst + n <= sizeof codeBufDecode. *)
Theorem C09_read_request_bounded : forall w i len, G w -> 0 <= len ->
  match ws_decode true w i len with
  | OFault _ => False
  | ORet ret e d w' i' log => G w' /\ log_ok log
  end.
Proof. exact decode_safe. Qed.

Theorem C09_index_safe : forall lens i, Forall (fun l => 0 <= l) lens -> run_safe ws_init i lens.
Proof. intros lens i H. exact (session_safe lens ws_init i G_init H). Qed.

Example C09_index_safe_nonvacuous :
  G ws_init /\ run_safe ws_init (mkIO [130; 254; 255; 255; 9; 9; 9; 9; 1; 2; 3] [RAvail 3; RAgain; RAvail 9; REof]) [0; 5; 5; 5].
Proof. split; [exact G_init|]. vm_compute. repeat split; repeat constructor; vm_compute; intro H; discriminate H. Qed.

(* the snapshot decoder does not have this property *)
Theorem C09_index_safe_refuted :
  conv_valid None wit_conv_big = true /\
  match ws_decode false ws_init (mkIO (conv_stream wit_conv_big) [RAvail 6; RAvail 1; RAvail 4096]) 300 with
  | ORet _ _ _ w1 i1 _ => match ws_decode false w1 i1 300 with OFault _ => True | ORet _ _ _ _ _ _ => False end
  | OFault _ => False
  end.
Proof. exact snapshot_faults. Qed.

(* conforming conversations: corollary of C09_transparent *)
Theorem C09_index_safe_valid : forall cs sched lens,
  conv_valid None cs = true -> sched_live sched = true -> lens_ok lens = true ->
  let '(rs, _, _) := ws_run true ws_init (mkIO (conv_stream cs) sched) lens in
  forallb (fun r => match r with CFault => false | _ => true end) rs = true.
Proof. exact no_fault_valid. Qed.

(* ---- strictness ---- *)
(* every segmentation: a stream starting with an unmasked frame, a fragmented control frame or a
   continuation frame without a message to continue yields EAGAIN* then EPROTO, never data *)
Theorem C09_strict : forall cont w b0 b1 rest sched lens,
  BD w cont -> bad2 cont b0 b1 = true -> sched_live sched = true ->
  match first_hard (fst (fst (ws_run true w (mkIO (b0 :: b1 :: rest) sched) lens))) with
  | None => True
  | Some r => r = CRet (-1) (Some EPROTO) []
  end.
Proof. exact strict_two_byte_violations. Qed.

(* ... and the violation IS reported: with bytes available, EPROTO comes within two calls *)
Theorem C09_strict_progress : forall cont w b0 b1 rest sched l1 l2 lens,
  BD w cont -> bad2 cont b0 b1 = true -> all_avail sched = true -> (4 <= length sched)%nat ->
  first_hard (fst (fst (ws_run true w (mkIO (b0 :: b1 :: rest) sched) (l1 :: l2 :: lens)))) = Some (CRet (-1) (Some EPROTO) []).
Proof. exact strict_progress. Qed.

(* non-minimal 16- / 64-bit length (masked frame, any opcode byte): every segmentation -> EAGAIN*, EPROTO, never
   data; with bytes always available the EPROTO comes within 14 calls *)
Theorem C09_strict_nonminimal : forall cont w H rest sched lens,
  BD w cont -> nonminimal_header H -> sched_live sched = true ->
  match first_hard (fst (fst (ws_run true w (mkIO (H ++ rest) sched) lens))) with
  | None => True
  | Some r => r = CRet (-1) (Some EPROTO) []
  end.
Proof. exact strict_nonminimal. Qed.

Theorem C09_strict_nonminimal_progress : forall cont w H rest sched lens,
  BD w cont -> nonminimal_header H -> all_avail sched = true ->
  (3 * length lens <= length sched)%nat -> 14 <= Z.of_nat (length lens) ->
  first_hard (fst (fst (ws_run true w (mkIO (H ++ rest) sched) lens))) = Some (CRet (-1) (Some EPROTO) []).
Proof. exact strict_nonminimal_progress. Qed.

Example C09_strict_nonminimal_nonvacuous :
  nonminimal_header [130; 254; 0; 5; 1; 2; 3; 4] /\ nonminimal_header [129; 255; 0; 0; 0; 0; 0; 0; 255; 255; 9; 9; 9; 9].
Proof. split; do 3 eexists; (split; [reflexivity|]); (split; [reflexivity|]); [left|right]; repeat split; vm_compute; reflexivity. Qed.

(* close frame (masked, final, payload 0..125 bytes): every segmentation -> EAGAIN*, then ECONNRESET; no byte of
   it, nor anything behind it, is delivered before the error; with bytes always available within 6 + L + 1 calls *)
Theorem C09_strict_close_frame : forall cont w L m0 m1 m2 m3 M rest sched lens,
  BD w cont -> 0 <= L <= 125 -> zlen M = L -> sched_live sched = true ->
  match first_hard (fst (fst (ws_run true w (mkIO (close_header L m0 m1 m2 m3 ++ M ++ rest) sched) lens))) with
  | None => True
  | Some r => r = CRet (-1) (Some ECONNRESET) []
  end.
Proof. exact strict_close_frame. Qed.

Theorem C09_strict_close_frame_progress : forall cont w L m0 m1 m2 m3 M rest sched lens,
  BD w cont -> 0 <= L <= 125 -> zlen M = L -> all_avail sched = true ->
  (3 * length lens <= length sched)%nat -> 6 + L + 1 <= Z.of_nat (length lens) ->
  first_hard (fst (fst (ws_run true w (mkIO (close_header L m0 m1 m2 m3 ++ M ++ rest) sched) lens))) = Some (CRet (-1) (Some ECONNRESET) []).
Proof. exact strict_close_frame_progress. Qed.

Example C09_strict_close_frame_nonvacuous :
  first_hard (fst (fst (ws_run true ws_init (mkIO (close_header 2 9 9 9 9 ++ [10; 226] ++ [130; 129; 1; 1; 1; 1; 66])
                                                  [RAvail 1; RAgain; RAvail 4; RAvail 1; RAvail 1; RAvail 9; RAvail 9]) [5; 5; 5; 5; 5; 5])))
  = Some (CRet (-1) (Some ECONNRESET) []).
Proof. vm_compute. reflexivity. Qed.

(* violations this decoder does NOT reject (both variants), by witness: reserved bits, reserved opcodes,
   control frames longer than 125 bytes - the property text does not list them; recorded, not repaired *)
Theorem C09_not_rejected :
  (forall fx, run2 fx [194; 130; 1; 2; 3; 4; 64; 64] = [CRet 2 None [65; 66]; CRet (-1) (Some EAGAIN) []]) /\
  (forall fx, run2 fx [131; 130; 1; 2; 3; 4; 64; 64] = [CRet (-1) (Some EAGAIN) []; CRet (-1) (Some EAGAIN) []]) /\
  (forall fx, run2 fx ([137; 254; 0; 126; 1; 2; 3; 4] ++ repeat 7 126) = [CRet (-1) (Some EAGAIN) []; CRet (-1) (Some EAGAIN) []]).
Proof. exact (conj rsv_bits_accepted (conj reserved_opcode_accepted long_control_accepted)). Qed.

Example C09_strict_nonvacuous :
  BD ws_init None /\ bad2 None 130 5 = true /\ bad2 None 9 128 = true /\ bad2 None 128 133 = true /\
  first_hard (fst (fst (ws_run true ws_init (mkIO [130; 5; 1; 2; 3; 4; 5] [RAvail 1; RAgain; RAvail 1; RAvail 9]) [10; 10; 10; 10])))
  = Some (CRet (-1) (Some EPROTO) []).
Proof. split; [exact BD_init|]. vm_compute. repeat split; reflexivity. Qed.

(* every decoder state, both variants: the header checks themselves *)
Theorem C09_strict_unmasked : forall fx w i log b0 b1,
  buf_get (w_buf w) 0 = Some b0 -> buf_get (w_buf w) 1 = Some b1 -> Z.land b1 128 = 0 ->
  is_eproto (hdr_parse fx w i log) i log.
Proof. exact strict_unmasked. Qed.

Theorem C09_strict_fragmented_control : forall fx w i log b0 b1,
  buf_get (w_buf w) 0 = Some b0 -> buf_get (w_buf w) 1 = Some b1 ->
  is_control (Z.land b0 15) = true -> Z.shiftr (Z.land b0 128) 7 = 0 ->
  is_eproto (hdr_parse fx w i log) i log.
Proof. exact strict_fragmented_control. Qed.

Theorem C09_strict_continuation : forall fx w i log b0 b1,
  buf_get (w_buf w) 0 = Some b0 -> buf_get (w_buf w) 1 = Some b1 ->
  Z.land b0 15 = OP_CONT -> w_contop w = OP_INVALID ->
  is_eproto (hdr_parse fx w i log) i log.
Proof. exact strict_cont_without_start. Qed.

Theorem C09_strict_minimal_length : forall w i log s r e np w' i' log',
  hdr_finish w i log = HRet s r e np w' i' log' -> s = ST_DATA_NEEDED ->
  (h_hlen (w_hd w') = HL_SHORT /\ h_plen (w_hd w') < 126) \/
  (h_hlen (w_hd w') = HL_EXT /\ 126 <= h_plen (w_hd w')) \/
  (h_hlen (w_hd w') = HL_LONG /\ 65536 <= h_plen (w_hd w')).
Proof. exact strict_minimal_length. Qed.

Theorem C09_strict_close : forall w2 i log len data toReturn bufsize,
  h_opcode (w_hd w2) = OP_CLOSE ->
  match deliver w2 i log len data toReturn bufsize with
  | DFault => True
  | DRet s ret e d _ _ _ =>
      d = [] /\ ret = -1 /\
      ((remaining w2 = 0 /\ s = ST_FRAME_COMPLETE /\ e = Some ECONNRESET) \/
       (remaining w2 <> 0 /\ s = ST_CLOSE_REASON_PENDING /\ e = Some EAGAIN))
  end.
Proof. exact strict_close. Qed.

(* ---- encoder ---- *)
Theorem C09_encode_valid : forall b64 src, bytes_ok src = true -> 1 <= zlen src <= ws_update_buf_size ->
  fst (ws_encode b64 src) = zlen (snd (ws_encode b64 src)) /\ enc_frame_ok b64 src (snd (ws_encode b64 src)).
Proof. exact encode_valid. Qed.

Example C09_encode_valid_nonvacuous :
  bytes_ok [1; 2; 3; 255] = true /\ ws_encode true [1; 2; 3; 255] = (10, [129; 8; 65; 81; 73; 68; 47; 119; 61; 61]).
Proof. vm_compute. split; reflexivity. Qed.

Theorem C09_write_chunks : forall b64 l, bytes_ok l = true ->
  ws_write b64 l = Some (concat (map (fun ch => snd (ws_encode b64 ch)) (chunks (length l) l))) /\
  concat (chunks (length l) l) = l /\
  Forall (fun ch => zlen ch <= ws_update_buf_size /\ (l <> [] -> 1 <= zlen ch)) (chunks (length l) l).
Proof. exact ws_write_chunks. Qed.

(* composite: what rfbWriteExact hands to write() parses (strict RFC 6455 parser) into exactly one final unmasked
   frame per UPDATE_BUF_SIZE chunk, whose payload is the chunk itself (binary) or its canonical RFC 4648
   encoding b64_enc (text: syntactic equality, no lenient decoder involved), and the chunks concatenate to l *)
Theorem C09_write_parses_back : forall b64 l, bytes_ok l = true -> l <> [] ->
  exists out, ws_write b64 l = Some out /\
    parse_stream out = Some (map (out_frame b64) (chunks (length l) l)) /\
    concat (chunks (length l) l) = l /\
    Forall (fun ch => 1 <= zlen ch <= ws_update_buf_size) (chunks (length l) l).
Proof. exact write_parses_back. Qed.

(* ---- base64 ---- *)
Theorem C09_base64_roundtrip : forall d ts1 ts2 t,
  bytes_ok d = true -> b64_ntop d ts1 = Some t -> zlen d < ts2 -> b64_pton t ts2 = Some d.
Proof. exact b64_roundtrip. Qed.

Example C09_base64_roundtrip_nonvacuous :
  b64_ntop [102; 111; 111; 98] 9 = Some [90; 109; 57; 118; 89; 103; 61; 61] /\
  b64_pton [90; 109; 57; 118; 89; 103; 61; 61] 5 = Some [102; 111; 111; 98].
Proof. vm_compute. split; reflexivity. Qed.

(* ---- handshake answer ---- *)
Theorem C09_accept_key : forall key,
  exists a, ws_accept key = Some a /\ zlen a = 28 /\ b64_pton a 21 = Some (sha1 (take_nonzero key ++ ws_guid)).
Proof. exact accept_is_b64_sha1. Qed.

Theorem C09_accept_key_rfc6455 : ws_accept rfc_key = Some rfc_accept.
Proof. exact accept_rfc_example. Qed.

Theorem C09_sha1_fips180 :
  sha1 [97; 98; 99] = [169; 153; 62; 54; 71; 6; 129; 106; 186; 62; 37; 113; 120; 80; 194; 108; 156; 208; 216; 157] /\
  sha1 fips_two_block = [132; 152; 62; 68; 28; 59; 210; 110; 186; 174; 74; 161; 249; 81; 41; 229; 229; 70; 112; 241].
Proof. exact (conj sha1_abc sha1_two_block). Qed.

(* once the request lines are parsed (version, key, path, host, an origin): the answer is 101 with
   accept = base64(sha1(key ++ GUID)) and the sub-protocol base64 / binary / none *)
Theorem C09_handshake_answer : forall st key,
  hs_version st <> 0 -> hs_field st (hs_key st) = Some key ->
  is_some (hs_path st) = true -> is_some (hs_host st) = true ->
  (is_some (hs_origin st) || is_some (hs_sorigin st)) = true ->
  exists accept, ws_accept key = Some accept /\ zlen accept = 28 /\
    b64_pton accept 21 = Some (sha1 (take_nonzero key ++ ws_guid)) /\
    let '(b64, proto) := chosen_protocol (hs_field st (hs_proto st)) in
    hs_finish st = HsOk (hs_wspath st) b64
      (match proto with
       | [] => hs_noproto_0 ++ accept ++ hs_noproto_1
       | _ => hs_proto_0 ++ accept ++ hs_proto_1 ++ proto ++ hs_proto_2
       end).
Proof. exact hs_finish_answer. Qed.

Example C09_handshake_answer_nonvacuous :
  ws_handshake false ascii_req =
  HsOk (Some [47; 119; 115]) true (hs_proto_0 ++ rfc_accept ++ hs_proto_1 ++ s_base64 ++ hs_proto_2).
Proof. exact handshake_example. Qed.

(* the whole handshake, from the request bytes: hs_print r is the request
     GET <path> HTTP/1.1 / Host: <host> / Origin: <origin> / Sec-WebSocket-Key: <key> /
     [Sec-WebSocket-Protocol: <proto>] / Sec-WebSocket-Version: 13 / blank line
   (CRLF line ends) for ANY field values without NUL / LF (req_ok; path non-empty; whole request below
   WEBSOCKETS_MAX_HANDSHAKE_LEN - 1).  ws_handshake (byte-at-a-time line reader, header matching, in-place
   NUL termination, field extraction, answer) returns exactly [answer r]: the 101 response with
   accept(<key>) and the sub-protocol chosen from <proto>, the path handed on as wspath. *)
Theorem C09_handshake_roundtrip : forall r, req_ok r = true ->
  ws_handshake false (hs_print r) =
  match ws_accept (q_key r) with
  | None => HsFault
  | Some accept =>
    let '(b64, proto) := chosen_protocol (q_proto r) in
    HsOk (Some (q_path r)) b64
      (match proto with
       | [] => hs_noproto_0 ++ accept ++ hs_noproto_1
       | _ => hs_proto_0 ++ accept ++ hs_proto_1 ++ proto ++ hs_proto_2
       end)
  end.
Proof. exact handshake_roundtrip. Qed.

Example C09_handshake_roundtrip_nonvacuous :
  req_ok (mkReq [47; 119; 115] [104] [104; 116; 116; 112; 58; 47; 47; 104] [100; 71; 104; 108] (Some s_binary)) = true /\
  req_ok (mkReq [47] [104] [120] [100; 71; 104; 108] None) = true.
Proof. exact handshake_roundtrip_nonvacuous. Qed.

(* refusal: the same request without its Sec-WebSocket-Key line, or without its Sec-WebSocket-Version line,
   is refused (no 101 answer; the path is still handed back for the caller to free), for all field values;
   and at the state level: whatever was parsed, a missing version / key / path / host / origin refuses. *)
Theorem C09_handshake_refuses : forall r, req_ok r = true ->
  ws_handshake false (hs_print_nokey r) = HsFail (Some (q_path r)) /\
  ws_handshake false (hs_print_nover r) = HsFail (Some (q_path r)).
Proof. intros r H. split; [exact (handshake_refuses_nokey r H)|exact (handshake_refuses_nover r H)]. Qed.

Theorem C09_handshake_refuses_state : forall st,
  hs_version st = 0 \/ hs_key st = None \/ hs_path st = None \/ hs_host st = None \/
  (hs_origin st = None /\ hs_sorigin st = None) ->
  hs_finish st = HsFail (hs_wspath st).
Proof. exact hs_finish_refuses. Qed.

(* ---- the drain obligation of both server loops (rfbCheckFds, clientInput):
   `do rfbProcessClientMessage(cl) while (webSocketsHasDataInBuffer(cl))` ----
   has_data w = (0 < readlen) = webSocketsHasDataInBuffer.  From every G state, for every caller length
   >= 1: repeating decode calls while has_data holds ends within readlen calls with has_data = false, does not
   touch the socket (reader state unchanged: the buffered bytes are invisible to select(), so a loop that
   blocks while has_data holds leaves them undelivered until the peer sends something else), and hands out
   exactly the readlen buffered bytes, every call returning at least one byte (call_data, never EAGAIN).
   This is a statement about the decoder under the loop discipline [drain]; the C loops themselves
   (sockets.c rfbCheckFds, main.c clientInput) are not modelled, see the differential server runs. *)
Theorem C09_drain_complete : forall w i len, G w -> 1 <= len ->
  let '(rs, w', i') := drain (Z.to_nat (w_readlen w)) w i len in
  has_data w' = false /\ i' = i /\ G w' /\ forallb call_data rs = true /\
  zlen (delivered rs) = Z.max 0 (w_readlen w) /\ zlen rs <= Z.max 0 (w_readlen w).
Proof. exact drain_complete. Qed.

Example C09_drain_complete_nonvacuous :
  match ws_decode true ws_init (mkIO (conv_stream wit_conv) [RAvail 4096; RAvail 4096; RAvail 4096]) 7 with
  | ORet ret _ _ w1 i1 _ =>
      ret = 7 /\ has_data w1 = true /\ w_readlen w1 = 193 /\
      let '(rs, w2, i2) := drain (Z.to_nat (w_readlen w1)) w1 i1 7 in
      has_data w2 = false /\ i2 = i1 /\ zlen (delivered rs) = 193 /\ zlen rs = 28
  | OFault _ => False
  end.
Proof. vm_compute. repeat split; reflexivity. Qed.
