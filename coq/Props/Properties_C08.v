(* C08 - No server input can corrupt memory or wedge LibVNCClient.
   Only property theorems here, each closed by [exact] of a lemma proved elsewhere.
   The model is the extracted mirror of the client (Dec/Cli*.v): every framebuffer / scratch-buffer
   access goes through a partial primitive that yields [Oob] when the C code would leave the object
   (framebuffer rows, client->buffer, raw_buffer, tightPrevRow, the stack arrays palette[128] and
   thisRow[2048*3]).  All theorems quantify over EVERY token stream [ts] (valid or not) and every
   well-formed client state. *)
From LV Require Import Dec.CliBase Dec.CliFbProofs Dec.CliDec Dec.CliDecZ Dec.CliMsg Dec.CliInit Dec.RefEnc
     Dec.CliSound Dec.CliSafe Dec.CliSafeFix Dec.CliSafeZ Dec.CliOobWitness Dec.CliDesync Dec.CliFuel Dec.CliSize.
Local Open Scope Z_scope.

(* ---- progress: a step that returns TRUE consumed at least one token and leaves a consistent state;
        on an exhausted stream the step does not return TRUE (fuel of the message loop = stream length) *)
Theorem C08_progress : forall s ts s' ts',
  st_wf s -> handle_msg s ts = Ok tt s' ts' -> keeps s s' /\ (length ts' < length ts)%nat.
Proof. exact progress. Qed.

Theorem C08_progress_exhausted : forall s, handle_msg s [] = More.
Proof. exact exhausted_fails. Qed.
Example C08_progress_nonvacuous :
  exists s ts s' ts', st_wf s /\ handle_msg s ts = Ok tt s' ts'.
Proof.
  exists (init_state f888 255 4 4), [TB 2; TB 7], (add_ev (init_state f888 255 4 4) EvBell), [TB 7].
  split; [apply init_state_wf; lia|reflexivity].
Qed.

(* ---- memory safety.  The full statement
          forall s ts c, st_ok s -> handle_msg s ts <> Oob c
        is FALSE for the faithful mirror (see the ..._refuted theorems below).  What holds: an
        out-of-bounds access can only originate in a rectangle whose encoding is Tight, TRLE, ZRLE,
        ZYWRLE or UltraZip; for every other message, pseudo-encoding and encoding (Raw, CopyRect, RRE,
        CoRRE, Hextile, Zlib, Ultra, cursor shapes, resizes, ...) the checks present in the C code
        suffice, whatever the server sends. *)
Theorem C08_no_oob_write_partial : forall s ts c,
  st_ok s -> handle_msg s ts = Oob c ->
  exists s' x y w h enc ts', st_ok s' /\ 0 <= x /\ 0 <= y /\ 0 <= w /\ 0 <= h /\
    In enc [cE_Tight; cE_TRLE; cE_ZRLE; cE_ZYWRLE; cE_UltraZip] /\ rect_body x y w h enc s' ts' = Oob c.
Proof. exact no_oob_partial. Qed.

Theorem C08_no_oob_rect : forall x y w h enc,
  0 <= x -> 0 <= y -> 0 <= w -> 0 <= h -> ~ In enc [cE_Tight; cE_TRLE; cE_ZRLE; cE_ZYWRLE; cE_UltraZip] ->
  forall s ts, st_ok s -> match rect_body x y w h enc s ts with Oob _ => False | _ => True end.
Proof.
  intros x y w h enc Hx Hy Hw Hh Hn s ts Hs.
  pose proof (rect_body_safe x y w h enc Hx Hy Hw Hh Hn s ts Hs) as H. destruct (rect_body x y w h enc s ts); auto.
Qed.
Example C08_no_oob_nonvacuous : st_ok (init_state f888 255 16 16).
Proof. split; [apply init_state_wf; lia|]. unfold bypp_pos. cbn. lia. Qed.

(* per decoder, for arbitrary rectangle coordinates (the "Rect too large" test is not even needed:
   CheckRect in the primitives suffices) *)
Theorem C08_no_oob_raw : forall x y w h, 0 <= x -> 0 <= y -> 0 <= w -> safe (dec_raw x y w h).
Proof. exact safe_dec_raw. Qed.
Theorem C08_no_oob_copyrect : forall x y w h, 0 <= x -> 0 <= y -> 0 <= w -> 0 <= h -> safe (dec_copyrect x y w h).
Proof. exact safe_dec_copyrect. Qed.
Theorem C08_no_oob_rre : forall x y w h, 0 <= x -> 0 <= y -> 0 <= w -> 0 <= h -> safe (dec_rre x y w h).
Proof. exact safe_dec_rre. Qed.
Theorem C08_no_oob_corre : forall x y w h, 0 <= x -> 0 <= y -> 0 <= w -> 0 <= h -> safe (dec_corre x y w h).
Proof. exact safe_dec_corre. Qed.
Theorem C08_no_oob_hextile : forall x y w h, 0 <= x -> 0 <= y -> safe (dec_hextile x y w h).
Proof. exact safe_dec_hextile. Qed.
Theorem C08_no_oob_zlib : forall x y w h, 0 <= x -> 0 <= y -> 0 <= w -> 0 <= h -> safe (dec_zlib x y w h).
Proof. exact safe_dec_zlib. Qed.
Theorem C08_no_oob_ultra : forall x y w h, 0 <= x -> 0 <= y -> 0 <= w -> 0 <= h -> safe (dec_ultra x y w h).
Proof. exact safe_dec_ultra. Qed.
Theorem C08_no_oob_cursor : forall xh yh w h enc, safe (dec_cursor xh yh w h enc).
Proof. exact safe_dec_cursor. Qed.

(* ---- the REPAIRED control flow (the mirror's baseline [init_state]: fix bits 0..6 = library commits
        dd06ff7, 0870444, 01fc326, 6de7bdd, d9a5962, 112b5b7, a7a3a60).  With the UltraZip bound checks (bit 0)
        and the three Tight checks (bits 1..3) in place, UltraZip and Tight rectangles can no longer leave an
        object either, whatever the server sends: an out-of-bounds access of the repaired mirror can only
        originate in a TRLE / ZRLE rectangle; those are covered by the full theorem [C08_no_oob_write] below. *)
Definition fixes_0_3_9_10 (s : cst) : Prop :=
  fixed s 0 = true /\ fixed s 1 = true /\ fixed s 2 = true /\ fixed s 3 = true /\ fixed s 9 = true /\ fixed s 10 = true.

Theorem C08_no_oob_write_fixes_0_3_9_10_9_10 : forall s ts c,
  st_ok s -> fixes_0_3_9_10 s -> handle_msg s ts = Oob c ->
  exists s' x y w h enc ts', st_ok s' /\ fixes_0_3_9_10 s' /\ 0 <= x /\ 0 <= y /\ 0 <= w /\ 0 <= h /\
    In enc [cE_TRLE; cE_ZRLE; cE_ZYWRLE] /\ rect_body x y w h enc s' ts' = Oob c.
Proof. exact no_oob_fixed. Qed.

Theorem C08_no_oob_rect_fixed : forall x y w h enc,
  0 <= x -> 0 <= y -> 0 <= w -> 0 <= h -> ~ In enc [cE_TRLE; cE_ZRLE; cE_ZYWRLE] ->
  forall s ts, st_ok s -> fixes_0_3_9_10 s -> match rect_body x y w h enc s ts with Oob _ => False | _ => True end.
Proof.
  intros x y w h enc Hx Hy Hw Hh Hn s ts Hs Hf.
  pose proof (rect_body_safe_fixed x y w h enc Hx Hy Hw Hh Hn s ts Hs Hf) as H. destruct (rect_body x y w h enc s ts); auto.
Qed.

Theorem C08_no_oob_ultrazip_fixed : forall rx ry rw rh s ts,
  st_ok s -> fixed s 0 = true -> fixed s 9 = true -> match dec_ultrazip rx ry rw rh s ts with Oob _ => False | _ => True end.
Proof.
  intros rx ry rw rh s ts Hs Hf Hf9. pose proof (safe_dec_ultrazip rx ry rw rh s ts Hs (conj Hf Hf9)) as H.
  destruct (dec_ultrazip rx ry rw rh s ts); auto.
Qed.

Theorem C08_no_oob_tight_fixed : forall rx ry rw rh s ts,
  0 <= rx -> 0 <= ry -> 0 <= rw -> 0 <= rh -> st_ok s ->
  fixed s 1 = true -> fixed s 2 = true -> fixed s 3 = true -> fixed s 10 = true -> rx + rw <= c_w s -> ry + rh <= c_h s ->
  match dec_tight rx ry rw rh s ts with Oob _ => False | _ => True end.
Proof.
  intros rx ry rw rh s ts Hx Hy Hw Hh Hs F1 F2 F3 F10 HW HH.
  pose proof (safe_dec_tight rx ry rw rh Hx Hy Hw Hh s ts Hs (conj F1 (conj F2 (conj F3 (conj F10 (conj HW HH)))))) as H.
  destruct (dec_tight rx ry rw rh s ts); auto.
Qed.

(* ---- THE WHOLE REPAIRED MIRROR (fix bits 0..6 and 8 = library commits dd06ff7, 0870444, 01fc326, 6de7bdd, d9a5962,
        112b5b7, a7a3a60, 281f33a, bit 9 = a41e88e, bit 10 = a24a50e - the baseline [init_state] = HEAD has them all): no server input makes
        HandleRFBServerMessage's mirror leave an object - no exception list.  (Bit 7 = d211e4c only selects the
        CPIXEL width of 16-bpp clients; the statement holds with and without it.) *)
Definition fixes_all (s : cst) : Prop :=
  fixed s 0 = true /\ fixed s 1 = true /\ fixed s 2 = true /\ fixed s 3 = true /\
  fixed s 4 = true /\ fixed s 5 = true /\ fixed s 6 = true /\ fixed s 8 = true /\ fixed s 9 = true /\ fixed s 10 = true.

Theorem C08_no_oob_write : forall s ts c, st_ok s -> fixes_all s -> handle_msg s ts <> Oob c.
Proof.
  intros s ts c Hs Hf E. pose proof (no_oob_repaired s ts Hs Hf) as H. rewrite E in H. exact H.
Qed.

(* a whole run: message after message, as long as the client keeps going *)
Fixpoint no_oob_run (n : nat) (s : cst) (ts : list tok) : Prop :=
  match n with
  | O => True
  | S n' => match handle_msg s ts with
            | Oob _ => False
            | Ok _ s' ts' => no_oob_run n' s' ts'
            | _ => True
            end
  end.

Theorem C08_no_oob_run : forall n s ts, st_ok s -> fixes_all s -> no_oob_run n s ts.
Proof.
  induction n as [|n IH]; intros s ts Hs Hf; cbn [no_oob_run]; [exact I|].
  pose proof (no_oob_repaired s ts Hs Hf) as H. pose proof (progress s ts) as P.
  destruct (handle_msg s ts) as [[] s' ts'| | | |] eqn:E; auto.
  destruct (P s' ts' (proj1 Hs) eq_refl) as [K _].
  apply IH; [eapply st_ok_keeps; eauto|].
  destruct K as (_ & _ & Efix). unfold fixes_all, fixed in *. now rewrite Efix.
Qed.

(* ---- when does the mirror decline to predict?  The [<> Oob] theorems above are satisfied by [Desync] too, so [Desync]
        must not be an escape hatch.  It is not: for EVERY state and token stream, [Desync c rest] pins down a position of
        the script ([rest] is a suffix) where the script's token is of another KIND than what the C client reads there -
        c = 1: ReadFromRFBServer of plain bytes meets a deflate / LZO block token; 2 (3): a deflate (LZO) block is expected
        and the next token is something else; 4: the deflate block token just consumed names another zlib stream of the
        client or its restart flag contradicts the stream's history; 5: Tight JPEG (libjpeg is not mirrored).  Every other
        input - in particular every stream whose tokens have the kinds the client asks for, whatever their CONTENT and
        whatever lengths / counts / coordinates they carry - gets a definite answer Ok / Fail / More / Oob, and it is for
        those that [<> Oob] has content.  Not expressible in the alphabet at all (hence neither Desync nor covered): the
        length FIELDS of compressed blocks (rendered by the harness) and inflate errors beyond the [ok] flag of a block. *)
Theorem C08_desync_characterised : forall s ts c rest,
  handle_msg s ts = Desync c rest -> exists pre, ts = pre ++ rest /\ cause_ok c pre rest.
Proof. exact desync_characterised. Qed.

(* a stream of plain bytes only - all a server can send for the uncompressed encodings and all non-update messages -
   is declined only where the client wants a compressed block or a JPEG image *)
Theorem C08_desync_plain_stream : forall s ts c rest,
  Forall (fun t => is_TB t = true) ts -> handle_msg s ts = Desync c rest -> c = 2 \/ c = 3 \/ c = 5.
Proof. exact desync_plain_stream. Qed.

Theorem C08_no_oob_rect_all : forall x y w h enc s ts c,
  0 <= x -> 0 <= y -> 0 <= w -> 0 <= h -> st_ok s -> fixes_all s -> rect_body x y w h enc s ts <> Oob c.
Proof.
  intros x y w h enc s ts c Hx Hy Hw Hh Hs Hf E.
  pose proof (rect_body_safe_all x y w h enc Hx Hy Hw Hh s ts Hs Hf) as H. rewrite E in H. exact H.
Qed.

Theorem C08_no_oob_zrle_fixed : forall x y w h s ts c,
  0 <= x -> 0 <= y -> 0 <= w -> 0 <= h -> st_ok s ->
  fixed s 5 = true -> fixed s 6 = true -> fixed s 8 = true -> x + w <= c_w s -> y + h <= c_h s ->
  dec_zrle x y w h s ts <> Oob c.
Proof.
  intros x y w h s ts c Hx Hy Hw Hh Hs F5 F6 F8 HW HH E.
  pose proof (safe_dec_zrle x y w h Hx Hy Hw Hh s ts Hs (conj F5 (conj F6 (conj F8 (conj HW HH))))) as H.
  rewrite E in H. exact H.
Qed.

Theorem C08_no_oob_trle_fixed : forall x y w h s ts c,
  0 <= x -> 0 <= y -> st_ok s -> fixed s 4 = true -> x + w <= c_w s -> y + h <= c_h s ->
  dec_trle x y w h s ts <> Oob c.
Proof.
  intros x y w h s ts c Hx Hy Hs F4 HW HH E.
  pose proof (safe_dec_trle x y w h Hx Hy s ts Hs (conj F4 (conj HW HH))) as H. rewrite E in H. exact H.
Qed.

Example C08_no_oob_write_nonvacuous :
  st_ok (init_state f888 255 16 16) /\ fixes_all (init_state f888 255 16 16).
Proof.
  split; [split; [apply init_state_wf; lia|unfold bypp_pos; cbn; lia]|]. repeat split; reflexivity.
Qed.

(* before a24a50e (fix bit 10, finding C08-F31) the Tight gradient filter wrote one pixel past the framebuffer for a
   zero-width rectangle at the right edge; regression witness *)
Theorem C08_tight_gradient_w0_refuted : exists s ts c, st_ok s /\ c_fix s = 1023 /\ handle_msg s ts = Oob c.
Proof.
  exists (state1023 f888 255 8 4), w_tightgrad_w0, 79.
  split; [split; [apply init_state_wf; lia|unfold bypp_pos; cbn; lia]|split; [reflexivity|exact w_tightgrad_w0_oob]].
Qed.

(* before a41e88e (fix bit 9, finding C08-F29) a fresh client crashed on an UltraZip rectangle whose width makes
   ry + rw * 65535 overflow [int]; regression witness *)
Theorem C08_ultrazip_hugew_refuted : exists s ts c, st_ok s /\ c_fix s = 511 /\ handle_msg s ts = Oob c.
Proof.
  exists (state511 f888 255 16 16), w_ultrazip_hugew, 45.
  split; [split; [apply init_state_wf; lia|unfold bypp_pos; cbn; lia]|split; [reflexivity|exact w_ultrazip_hugew_oob]].
Qed.

(* the baseline state of the mirror satisfies the hypotheses *)
Example C08_no_oob_fixed_nonvacuous :
  st_ok (init_state f888 255 16 16) /\ fixes_0_3_9_10 (init_state f888 255 16 16).
Proof.
  split; [split; [apply init_state_wf; lia|unfold bypp_pos; cbn; lia]|]. repeat split; reflexivity.
Qed.

(* ---- refutations for the control flow BEFORE the fix commits (fix mask 0, [old_state]): server streams on which
        that mirror leaves an object; each was reproduced on the real library under ASan
        (corpus/C08/w_*.script, known_findings.d/C08.json, now status fixed) and stays a regression witness *)
Theorem C08_ultrazip_refuted : exists s ts c, st_ok s /\ handle_msg s ts = Oob c.
Proof.
  exists (old_state f888 255 16 16), w_ultrazip, 40.
  split; [split; [apply old_state_wf; lia|unfold bypp_pos; cbn; lia]|exact w_ultrazip_oob].
Qed.
Theorem C08_tight_rows_refuted : exists s ts c, st_ok s /\ handle_msg s ts = Oob c.
Proof.
  exists (old_state f888 255 8 8), w_tight_rows, 77.
  split; [split; [apply old_state_wf; lia|unfold bypp_pos; cbn; lia]|exact w_tight_rows_oob].
Qed.
Theorem C08_tight_wide_gradient_refuted : exists s ts c, st_ok s /\ handle_msg s ts = Oob c.
Proof.
  exists (old_state f888 255 2100 2), w_tight_wide, 78.
  split; [split; [apply old_state_wf; lia|unfold bypp_pos; cbn; lia]|exact w_tight_wide_oob].
Qed.
Theorem C08_tight_nozlib_refuted : exists s ts c, st_ok s /\ handle_msg s ts = Oob c.
Proof.
  exists (old_state f888 255 640 480), w_tight_nozlib, 74.
  split; [split; [apply old_state_wf; lia|unfold bypp_pos; cbn; lia]|exact w_tight_nozlib_oob].
Qed.
Theorem C08_trle_refuted : exists s ts c, st_ok s /\ handle_msg s ts = Oob c.
Proof.
  exists (old_state f101010 255 16 16), w_trle, 50.
  split; [split; [apply old_state_wf; lia|unfold bypp_pos; cbn; lia]|exact w_trle_oob].
Qed.
Theorem C08_zrle_refuted : exists s ts c, st_ok s /\ handle_msg s ts = Oob c.
Proof.
  exists (old_state f101010 255 65 1), w_zrle_neg, 35.
  split; [split; [apply old_state_wf; lia|unfold bypp_pos; cbn; lia]|exact w_zrle_neg_oob].
Qed.
Theorem C08_zrle_palette_refuted : exists s ts c, st_ok s /\ handle_msg s ts = Oob c.
Proof.
  exists (old_state f101010 255 16 16), w_zrle_pal, 44.
  split; [split; [apply old_state_wf; lia|unfold bypp_pos; cbn; lia]|exact w_zrle_pal_oob].
Qed.

(* ---- the flow with the fixes 0..6 only (before 281f33a) still left an object in the 24-bit ZRLE instances: the
        last 3-byte CPIXEL of a completely filled scratch area is read as 4 bytes (reproduced under ASan on a7a3a60,
        corpus/C08/w_zrle_cpixel24.script, finding C08-F27, fixed by 281f33a); regression witness *)
Theorem C08_zrle_cpixel24_refuted : exists s ts c, st_ok s /\ c_fix s = 127 /\ handle_msg s ts = Oob c.
Proof.
  exists (state127 f888 255 65 1), w_zrle_cp24, 36.
  split; [split; [apply init_state_wf; lia|unfold bypp_pos; cbn; lia]|split; [reflexivity|exact w_zrle_cp24_oob]].
Qed.

(* ---- fuel adequacy (audit item 5).  The loops of the mirror are structural on a fuel counter and return normally when it
        runs out; these theorems show that the fuel each caller supplies is sufficient: ANY larger fuel gives the same
        result on every state and token stream, so the mirror's answer is that of the unbounded C loop (for Raw, Hextile
        rows / columns, the UltraZip record walk, and the plain-RLE tile loops of ZRLE and TRLE, where a run paints at
        least one pixel), palette RLE and the tile row / column loops of ZRLE and TRLE.  [rre_loop]'s fuel is the number of
        tokens left + 1 and its exhaustion yields [More], not success; every other recursion is structural on data. *)
Theorem C08_fuel_adequate_raw : forall k x y w h s ts, 0 <= w -> 0 <= f_bpp (c_fmt s) ->
  let bpl := w * f_bpp (c_fmt s) / 8 in
  let lines := if bpl =? 0 then 0 else cRFB_BUFFER_SIZE / bpl in
  dec_raw x y w h s ts = raw_loop (Z.to_nat h + k) x y w h bpl lines (bypp_of s) s ts.
Proof. exact dec_raw_fuel_adequate. Qed.

Theorem C08_fuel_adequate_hextile : forall k x y w h bypp bg fg s ts, 0 <= w -> 0 <= h ->
  hextile_rows (Z.to_nat (h / cHextile_tile + 1) + k) y x y w h bypp bg fg s ts
  = hextile_rows (Z.to_nat (h / cHextile_tile + 1)) y x y w h bypp bg fg s ts /\
  forall cy th, hextile_cols (Z.to_nat (w / cHextile_tile + 1) + k) x cy x w th bypp bg fg s ts
                = hextile_cols (Z.to_nat (w / cHextile_tile + 1)) x cy x w th bypp bg fg s ts.
Proof. exact hextile_fuel_adequate. Qed.

Theorem C08_fuel_adequate_ultrazip : forall k rx cap bypp c s ts,
  ultrazip_walk (Z.to_nat rx + k) rx cap bypp c s ts = ultrazip_walk (Z.to_nat rx) rx cap bypp c s ts.
Proof. exact ultrazip_fuel_adequate. Qed.

Theorem C08_fuel_adequate_zrle_plain : forall k0 cap v c c0 blen w h k s ts, bytes_ok (bc_data c) ->
  zrle_plain (Z.to_nat (w * h) + k0) cap v c c0 blen (w * h) [] k s ts = zrle_plain (Z.to_nat (w * h)) cap v c c0 blen (w * h) [] k s ts.
Proof. exact zrle_plain_fuel_adequate. Qed.

Theorem C08_fuel_adequate_trle_plain : forall k0 cap v w h off s ts,
  trle_plain (Z.to_nat (w * h) + k0) cap v (w * h) [] off s ts = trle_plain (Z.to_nat (w * h)) cap v (w * h) [] off s ts.
Proof. exact trle_plain_fuel_adequate. Qed.

Theorem C08_fuel_adequate_zrle_tiles : forall k cap v c rem x y w h s ts, 0 <= w -> 0 <= h ->
  zrle_rows (Z.to_nat (h / cZRLETileHeight + 1) + k) cap v c rem 0 x y w h s ts
  = zrle_rows (Z.to_nat (h / cZRLETileHeight + 1)) cap v c rem 0 x y w h s ts /\
  forall j th, zrle_cols (Z.to_nat (w / cZRLETileWidth + 1) + k) cap v c rem 0 j x y w th s ts
               = zrle_cols (Z.to_nat (w / cZRLETileWidth + 1)) cap v c rem 0 j x y w th s ts.
Proof. exact zrle_fuel_adequate. Qed.

Theorem C08_fuel_adequate_trle_tiles : forall k cap v x y w h t s ts, 0 <= w -> 0 <= h ->
  trle_rows (Z.to_nat (h / cTRLE_tile + 1) + k) cap v y x y w h t s ts = trle_rows (Z.to_nat (h / cTRLE_tile + 1)) cap v y x y w h t s ts /\
  forall cy th, trle_cols (Z.to_nat (w / cTRLE_tile + 1) + k) cap v x cy x w th t s ts
                = trle_cols (Z.to_nat (w / cTRLE_tile + 1)) cap v x cy x w th t s ts.
Proof. exact trle_fuel_adequate. Qed.

Theorem C08_fuel_adequate_palrle : forall k0 cap c c0 blen w h pal k off s ts, bytes_ok (bc_data c) ->
  zrle_palrle (Z.to_nat (w * h) + k0) cap c c0 blen (w * h) pal [] k s ts = zrle_palrle (Z.to_nat (w * h)) cap c c0 blen (w * h) pal [] k s ts /\
  trle_palrle (Z.to_nat (w * h) + k0) cap (w * h) pal [] off s ts = trle_palrle (Z.to_nat (w * h)) cap (w * h) pal [] off s ts.
Proof. exact palrle_fuel_adequate. Qed.

(* ---- int arithmetic (audit item 4).  The C client indexes the framebuffer with [int] arithmetic, the mirror with Z; they
        agree while width * height * bytes-per-pixel < 2^31 ([size31]).  That bound is an invariant of every message: the
        pixel format never changes and the dimensions change only through [resize], whose MallocFrameBuffer policy (the
        harness': 4 MiB, [harness_max_fb]) refuses larger framebuffers.  All C08 theorems are to be read for [size31] states;
        an application that accepts framebuffers of 2^31 bytes and more is outside the mirror (and the tests). *)
Theorem C08_size_invariant : forall s ts s' ts', handle_msg s ts = Ok tt s' ts' -> size31 s -> size31 s'.
Proof. exact size31_invariant. Qed.
Example C08_size_invariant_nonvacuous : size31 (init_state f888 255 1024 1024) /\ ~ size31 (init_state f888 255 32768 16384).
Proof. split; [reflexivity|]. intros H. vm_compute in H. discriminate. Qed.
