(* C13 - Background (threaded) event loop: no deadlock, no use-after-free, clean shutdown.
   Only property theorems, each closed by [exact] of a lemma of Session/ThreadsProofs.v.

   SCOPE: these are theorems about small-step interleaving MODELS of the library's locking protocol
   (Session/ThreadsModel.v).  "forall sched" = every schedule, of any length, of the FIXED thread population of
   one bounded fragment (stated in each name: one client record, one iterator, three/four threads); it is
   established by exhaustive exploration of the fragment's finite state space inside Coq.  Only the lock-order
   theorem is about any number of clients and threads.  Nothing here is a statement about the C text under the
   real scheduler; that part of C13 is sampled by the stress harness (harness/vdrv_threads.c) and labelled as
   such in the evidence.

   baseline = the protocol of /repo HEAD (600ddcc: fixes 1b1aba3, 97f9e93, 29b4a13, 86ddb5d, 74169c1, 4891477, 633e5d0, 600ddcc applied);
   *_before_fix_refuted = regression witnesses for the protocol before those commits;
   *_refuted without "before_fix" = OPEN findings of HEAD (F11 cursor burn-in; model only: palette lock inversion, cursor change
   does not wake). *)
From Coq Require Import List Bool Arith.
From LV Require Import Session.ThreadsModel Session.ThreadsProofs.
Import ListNotations.

(* --- lock order, MUTEX CYCLES ONLY (a thread blocked for ever on a mutex whose owner has returned, or on a
   condition variable, is not a cycle: see the *_refuted theorems below).  For any number N of clients and any
   set of threads whose acquisitions all come from the table of (held, acquired) pairs of the true-colour code
   paths, no wait-for cycle exists.  The table is hand-written from the source; the correspondence run compares
   it with the pairs the real library is observed to take. *)
Theorem C13_lock_order_acyclic_mutex_cycles_only : forall N a l,
  (forall t, In t (a :: l) -> forall m, want t = Some m -> forall h, In h (held t) -> In (h, m) (lock_table_n N)) ->
  chain (a :: l) -> waits_for (last (a :: l) a) a -> False.
Proof. exact lock_order_acyclic. Qed.

Example C13_lock_order_acyclic_nonvacuous :
  let t1 := mkThr [P_send 3 2] (Some (P_upd 3 2)) in
  let t2 := mkThr [P_upd 3 2] None in
  (forall t, In t [t1; t2] -> forall m, want t = Some m -> forall h, In h (held t) -> In (h, m) (lock_table_n 3)) /\
  chain [t1; t2].
Proof. exact lock_order_nonvacuous. Qed.

(* the general argument behind it: a rank respected by every thread excludes every cycle *)
Theorem C13_rank_excludes_cycles : forall (rank : nat -> nat) a l,
  (forall t, In t (a :: l) -> disciplined rank t) ->
  chain (a :: l) -> waits_for (last (a :: l) a) a -> False.
Proof. exact no_deadlock_cycle. Qed.

(* OPEN (model only, not exercised: the harness screens are true-colour): on a colour-mapped screen the table is
   NOT rank-respecting: FramebufferUpdateRequest handling takes sendMutex (and, on a write error, updateMutex a
   second time) while holding updateMutex, the output thread takes them in the opposite order; rfbNewFramebuffer with
   a changed format re-locks the sendMutex it holds (setTranslateFunction -> rfbSendSetColourMapEntries) *)
Theorem C13_lock_order_palette_refuted :
  In (P_send 3 0, P_upd 3 0) lock_table_palette /\ In (P_upd 3 0, P_send 3 0) lock_table_palette /\
  In (P_upd 3 0, P_upd 3 0) lock_table_palette /\ In (P_send 3 0, P_send 3 0) lock_table_palette.
Proof. exact palette_table_inversion. Qed.

(* --- the teardown under threads, HEAD's protocol, ONE client, in each of three situations of clientOutput (waiting / an
   update pending: it sends / client on hold: it polls), select() in clientInput may fail for good: for every schedule of
   {application: rfbShutdownServer then rfbScreenCleanup (which tears down every client it still finds listed), clientInput,
   clientOutput, another rfbCloseClient caller} rfbClientConnectionGone runs at most once, exactly once when the input thread has
   ended, and exactly once (record unlinked) when rfbScreenCleanup is through *)
Theorem C13_gone_once_threaded_one_client : forall s0 sched, In s0 sh_inits ->
  let s := run sh_st (sh_step true) sched s0 in
  sh_gone s <= 1 /\ (sh_pcI s = SH_IN_DONE -> sh_gone s = 1) /\
  (sh_pcA s = SH_APP_DONE -> sh_gone s = 1 /\ sh_inlist s = false).
Proof. exact gone_once_threaded. Qed.

Example C13_gone_once_threaded_nonvacuous :
  let s := run sh_st (sh_step true) ([2;2;2;2;2;2] ++ concat (repeat [0;1;2;3] 24)) sh_init_pending in
  sh_pcA s = SH_APP_DONE /\ sh_pcI s = SH_IN_DONE /\ sh_gone s = 1 /\ sh_pend s = false.
Proof. exact gone_once_nonvacuous. Qed.

(* what it rests on (not a finding): without the join, rfbScreenCleanup and the client thread both tear the client down *)
Theorem C13_gone_twice_without_join_one_client :
  sh_gone (run sh_st (sh_step_cfg cfg_nojoin) sh_nojoin_witness sh_init) = 2.
Proof. exact gone_twice_without_join. Qed.

(* --- shutdown terminates, HEAD's protocol (1b1aba3: rfbCloseClient sets state = RFB_SHUTDOWN under updateMutex before the
   signal, clientOutput re-tests it after LOCK; 86ddb5d: EINTR is retried and clientInput closes the client itself when it
   leaves its loop otherwise), ONE client, the three situations above: after any schedule the system is finished or some
   thread can move, and a fixed round-robin continuation finishes the shutdown.  Four threads (with a second closer) ... *)
Theorem C13_shutdown_terminates_one_client : forall s0 sched, In s0 sh_inits ->
  let s := run sh_st (sh_step true) sched s0 in
  (sh_final s = true \/ exists t, t < 4 /\ enabled sh_st (sh_step true) t s = true) /\
  sh_final (run sh_st (sh_step true) sh_finishing s) = true.
Proof. intros s0 sched H. split; [apply shutdown_never_stuck_repaired | apply shutdown_can_always_finish_repaired]; exact H. Qed.

(* ... three threads: rfbShutdownServer, clientInput, clientOutput alone (no helper whose moves could satisfy
   the "some thread can move" disjunct) ... *)
Theorem C13_shutdown_terminates_three_threads_one_client : forall s0 sched, In s0 sh_inits ->
  let s := run sh_st (sh_step3 cfg_head) sched s0 in
  (sh_final3 s = true \/ exists t, t < 3 /\ enabled sh_st (sh_step3 cfg_head) t s = true) /\
  sh_final3 (run sh_st (sh_step3 cfg_head) sh3_finishing s) = true.
Proof. exact shutdown_terminates_three_threads. Qed.

(* ... and the client's two threads ALONE: when select() fails for good they finish by themselves with exactly one teardown *)
Theorem C13_select_failure_client_threads_finish_one_client : forall s0 sched, In s0 sh_inits ->
  let s := run sh_st (sh_step12 cfg_head) sched s0 in
  (sh_final12 s = true \/ exists t, t < 3 /\ enabled sh_st (sh_step12 cfg_head) t s = true) /\
  sh_final12 (run sh_st (sh_step12 cfg_head) sh12_finishing s) = true.
Proof. exact select_failure_client_threads_finish. Qed.

(* regression witness, protocol BEFORE 1b1aba3: schedule [sh_witness] reaches an unfinished state in which
   no thread can move (lost wake-up) - finding C13-N1 (fixed) *)
Theorem C13_shutdown_terminates_before_fix_refuted :
  let s := run sh_st (sh_step false) sh_witness sh_init in
  sh_final s = false /\ forall t, enabled sh_st (sh_step false) t s = false.
Proof. exact shutdown_lost_wakeup. Qed.

(* regression witness, protocol BEFORE 86ddb5d - finding C13-N4 (fixed): select() fails in clientInput (EINTR was not retried).
   The loop is left without state = RFB_SHUTDOWN: input blocked in THREAD_JOIN, output in WAIT, no teardown; neither of
   the client's threads can move *)
Theorem C13_input_exit_without_shutdown_before_fix_refuted :
  let s := run sh_st (sh_step_cfg cfg_before_86ddb5d) sh_selfail_witness sh_init in
  sh_shut s = false /\ sh_gone s = 0 /\ sh_pcI s = 4 /\ sh_wait s = true /\
  enabled sh_st (sh_step_cfg cfg_before_86ddb5d) 1 s = false /\ enabled sh_st (sh_step_cfg cfg_before_86ddb5d) 2 s = false.
Proof. exact input_leaves_loop_without_shutdown. Qed.

(* --- no use after free through the client iterator, HEAD's protocol (97f9e93: the iterator takes its reference while
   holding rfbClientListMutex; rfbClientConnectionGone waits for refCount == 0 and unlinks under the same mutex).
   ONE client record, ONE iterator doing ONE Next/use/release (the advance path with its deferred DecrClientRef, a
   second iterator and rfbReleaseClientIterator are not in the fragment): no schedule touches freed memory, and the
   teardown still completes. *)
Theorem C13_no_use_after_free_iter_one_client_one_iterator : forall sched,
  it_uaf (run it_st (it_step true) sched it_init) = false.
Proof. exact iterator_safe_when_ref_taken_under_list_mutex. Qed.

Theorem C13_iter_teardown_completes_one_client_one_iterator : forall sched,
  let z := run it_st (it_step true) it_finishing (run it_st (it_step true) sched it_init) in
  it_freed z = true /\ it_uaf z = false.
Proof. exact iterator_repaired_teardown_completes. Qed.

(* the same for a COMPLETE walk of one iterator over TWO records (Next / use / advance with the deferred
   rfbDecrClientRef(prev) / use / Next = NULL / rfbReleaseClientIterator) while both connections end at arbitrary moments:
   no freed memory touched, nobody stuck, and the round-robin continuation ends with both records freed *)
Theorem C13_no_use_after_free_iter_walk_two_clients_one_iterator : forall sched,
  let s := run iw_st (iw_step true) sched iw_init in
  iw_uaf s = false /\ (iw_final s = true \/ exists t, t < 3 /\ enabled iw_st (iw_step true) t s = true) /\
  (let z := run iw_st (iw_step true) iw_finishing s in iw_final z = true /\ iw_fr0 z = true /\ iw_fr1 z = true /\ iw_uaf z = false).
Proof. exact iterator_walk_two_records_safe. Qed.

Example C13_iter_walk_nonvacuous :
  let s := run iw_st (iw_step true) [0;0;0; 1;1; 0;0;0; 2;2; 0;0;0;0; 1;1;2;2] iw_init in iw_final s = true /\ iw_uaf s = false.
Proof. exact iterator_walk_nonvacuous. Qed.

(* not a finding: what the previous theorem rests on - a teardown that does not wait for the references is unsafe *)
Theorem C13_iter_walk_needs_the_wait :
  iw_uaf (run iw_st (iw_step false) [0;0;0; 1;1;1; 0] iw_init) = true.
Proof. exact iterator_walk_needs_the_wait. Qed.

(* regression witness, protocol BEFORE 97f9e93: finding C13-N2 (fixed) *)
Theorem C13_no_use_after_free_iter_before_fix_refuted : it_uaf (run it_st (it_step false) it_witness it_init) = true.
Proof. exact iterator_use_after_free. Qed.

(* --- threads reclaimed.  Regression witness, protocol BEFORE 600ddcc - finding C13-F13 (fixed), ONE client: the connection ends by
   itself before rfbShutdownServer looks - the thread has exited and nobody ever joins or detaches it *)
Theorem C13_client_thread_reclaimed_before_fix_refuted :
  let s := run rc_st (rc_step false false) rc_leak_witness rc_init in
  rc_final s = true /\ rc_exited s = true /\ rc_reclaimed s = 0.
Proof. exact client_thread_never_reclaimed. Qed.

(* HEAD (600ddcc = notes/fix_C13_6.diff: rfbShutdownServer claims the join in the client record while it holds its
   reference; the client thread reads the claim after it has unlinked the record and detaches itself when unclaimed), ONE client:
   for EVERY schedule - the connection ends at any moment relative to the shutdown - the thread is never joined after it
   detached itself, the freed record is never touched by the application, the thread is reclaimed at most once and exactly
   once when both are through, nobody gets stuck, and the round-robin continuation gets both through *)
Theorem C13_client_thread_reclaimed_exactly_once_one_client : forall sched,
  let s := run rc_st (rc_step true false) sched rc_init in
  rc_bad s = false /\ rc_reclaimed s <= 1 /\ (rc_final s = true -> rc_reclaimed s = 1) /\
  (rc_final s = true \/ exists t, t < 2 /\ enabled rc_st (rc_step true false) t s = true) /\
  (let z := run rc_st (rc_step true false) rc_finishing s in rc_final z = true /\ rc_reclaimed z = 1 /\ rc_bad z = false).
Proof. exact client_thread_reclaimed_exactly_once. Qed.

Example C13_client_thread_reclaimed_nonvacuous :
  (let s := run rc_st (rc_step true false) [0;0;0;0; 1;1;1;1;1; 0] rc_init in rc_final s = true /\ rc_joined s = 1 /\ rc_detached s = false) /\
  (let s := run rc_st (rc_step true false) [1;1;1;1;1; 0] rc_init in rc_final s = true /\ rc_joined s = 0 /\ rc_detached s = true).
Proof. exact client_thread_reclaimed_nonvacuous. Qed.

(* not a finding: what the previous theorem rests on - a thread that reads the claim BEFORE its unlink can be joined after detach *)
Theorem C13_claim_must_be_read_after_the_unlink :
  rc_bad (run rc_st (rc_step true true) rc_early_witness rc_init) = true.
Proof. exact claim_must_be_read_after_the_unlink. Qed.

(* the COUNTER behind the correspondence run's prediction (bookkeeping, true by construction, justified by the two theorems above;
   the fact itself is measured): after n connect/disconnect cycles the protocol before 600ddcc has n never-reclaimed threads and
   rfbShutdownServer does not reclaim them; HEAD's (self-detach) leaves none *)
Theorem C13_threads_reclaimed_count_by_construction : forall n,
  th_zombie (th_run false (th_cycles n)) = n /\ th_zombie (th_run false (th_cycles n ++ [ThShutdown])) = n /\
  th_zombie (th_run true (th_cycles n ++ [ThShutdown])) = 0.
Proof. intros n. split; [apply threads_never_joined | split; [apply shutdown_does_not_reclaim_them | apply threads_reclaimed_when_detached]]. Qed.

(* --- rfbShutdownServer against the listener thread.  Regression witness, order BEFORE 633e5d0 - finding C13-N6 (fixed): the clients
   were closed and joined BEFORE the listener was stopped: a client the listener has linked but not yet given a thread gets a
   pthread_join on a thread that does not exist, and its thread is created after the shutdown has passed it *)
Theorem C13_shutdown_joins_unstarted_thread_before_fix_refuted :
  let s := run ls_st (ls_step false) ls_witness ls_init in ls_badjoin s = true /\ ls_late s = true.
Proof. exact shutdown_joins_unstarted_thread. Qed.

(* HEAD (633e5d0 = notes/fix_C13_7.diff: listener stopped and joined first), ONE incoming connection at any moment: every client
   the loop finds has its thread, no client thread is created after the loop, nobody stuck, everybody finishes *)
Theorem C13_shutdown_joins_only_started_threads_one_connection : forall sched,
  let s := run ls_st (ls_step true) sched ls_init in
  ls_badjoin s = false /\ ls_late s = false /\
  (ls_final s = true \/ exists t, t < 2 /\ enabled ls_st (ls_step true) t s = true) /\
  ls_final (run ls_st (ls_step true) ls_finishing s) = true.
Proof. exact shutdown_joins_only_started_threads. Qed.

Example C13_shutdown_listener_nonvacuous :
  let s := run ls_st (ls_step true) [1; 0; 1; 1; 0; 0] ls_init in ls_final s = true /\ ls_listed s = true /\ ls_thread s = true /\ ls_ok s = true.
Proof. exact shutdown_listener_nonvacuous. Qed.

(* --- rfbCloseClient against the handshake.  Regression witness, code BEFORE 4891477 - finding C13-N7 (fixed): the handshake's
   "cl->state = next" was a plain store that could overwrite the RFB_SHUTDOWN set by rfbCloseClient from another thread: the close
   is lost, the client's thread waits for the next message, rfbShutdownServer waits in pthread_join - nobody can move *)
Theorem C13_close_during_handshake_lost_before_fix_refuted :
  let s := run hs_st (hs_step false) hs_witness hs_init in
  hs_state s = 3 /\ hs_final s = false /\ forall t, enabled hs_st (hs_step false) t s = false.
Proof. exact close_during_handshake_lost. Qed.

(* HEAD (4891477 = notes/fix_C13_8.diff: the handshake stores its next state under updateMutex and only if the state is not
   RFB_SHUTDOWN), ONE client, the close at any moment of the three handshake steps: never stuck, the shutdown completes *)
Theorem C13_close_during_handshake_not_lost_one_client : forall sched,
  let s := run hs_st (hs_step true) sched hs_init in
  (hs_final s = true \/ exists t, t < 2 /\ enabled hs_st (hs_step true) t s = true) /\
  hs_final (run hs_st (hs_step true) hs_finishing s) = true.
Proof. exact close_during_handshake_not_lost. Qed.

(* --- cursor bracket: OPEN, finding C13-F11, two output threads (per-screen save buffer, per-client brackets) *)
Theorem C13_cursor_bracket_atomic_refuted :
  let s := run cur_st (cur_step false) cur_witness cur_init in
  cur_final s = true /\ cu_fb s = true.
Proof. exact cursor_bracket_burns_in. Qed.

Theorem C13_cursor_bracket_atomic_partial : forall sched,
  let s := run cur_st (cur_step true) sched cur_init in
  cur_final s = true -> cu_fb s = false.
Proof. exact cursor_bracket_serial. Qed.

(* --- a request wakes the output thread whenever it has work (needed for "every staying client ends
   up with the final framebuffer").  ONE client, ONE request, ONE last operation.  [rq_good b kd s] = from state s
   the round-robin continuation [rq_rr] ends with the update sent.  Application's last operation = mark (kind 0) or
   copy (kind 1), any schedule of application, input and output thread: *)
Theorem C13_request_wakes_output_one_client : forall kd sched, kd < 2 ->
  rq_good false kd (run rq_st (rq_step false kd) sched rq_init) = true.
Proof. exact request_wakes_output. Qed.

(* cursor moved / replaced before the request arrives (these operations do not signal by themselves) *)
Theorem C13_request_wakes_output_cursor_one_client : forall sched,
  rq_good false 2 (run rq_st (rq_step false 2) sched rq_cur_init) = true.
Proof. exact request_wakes_output_cursor. Qed.

(* the handler's signal must be unconditional: "signal only if modifiedRegion is non-empty" loses the
   update after a copy (what seeded changes C13_A / C13_E do) *)
Theorem C13_request_signal_must_be_unconditional :
  let s := run rq_st (rq_step true 1) rq_witness rq_init in
  rq_req s = true /\ rq_copy s = true /\ rq_sent s = false /\
  forall t, enabled rq_st (rq_step true 1) t s = false.
Proof. exact conditional_signal_loses_update. Qed.

(* OPEN (low severity, model only): a cursor change while a request is outstanding wakes nobody *)
Theorem C13_cursor_change_wakes_output_refuted :
  let s := run rq_st (rq_step false 2) rq_cur_witness rq_init in
  rq_req s = true /\ rq_cur s = true /\ rq_sent s = false /\ forall t, enabled rq_st (rq_step false 2) t s = false.
Proof. exact cursor_change_does_not_wake. Qed.

(* --- rfbShutdownServer joins a client thread, HEAD's order (29b4a13: thread id read and rfbCloseClient called while
   the iterator's reference is held, iterator advanced afterwards), ONE client: the application never touches a freed
   client record, whenever the peer disconnects, and never gets stuck *)
Theorem C13_shutdown_join_safe_one_client : forall sched,
  sj_uaf (run sj_st (sj_step true) sched sj_init) = false.
Proof. exact shutdown_join_safe_repaired. Qed.

Theorem C13_shutdown_join_never_stuck_one_client : forall sched,
  let s := run sj_st (sj_step true) sched sj_init in
  sj_final s = true \/ exists t, t < 2 /\ enabled sj_st (sj_step true) t s = true.
Proof. exact shutdown_join_never_stuck_repaired. Qed.

Example C13_shutdown_join_nonvacuous :
  let s := run sj_st (sj_step true) [0; 0; 0; 1; 1; 0] sj_init in sj_final s = true /\ sj_freed s = true /\ sj_uaf s = false.
Proof. exact shutdown_join_nonvacuous. Qed.

(* regression witness, order BEFORE 29b4a13: the iterator is advanced first, which drops the only reference; the
   notified client thread frees the record; the application then reads currentCl->screen->backgroundLoop and
   currentCl->client_thread - finding C13-N3 (fixed) *)
Theorem C13_shutdown_join_safe_before_fix_refuted :
  let s := run sj_st (sj_step false) sj_witness sj_init in sj_freed s = true /\ sj_uaf s = true.
Proof. exact shutdown_join_reads_freed_record. Qed.

(* --- marks that arrive while an update is being sent survive (ONE pixel, ONE update in flight): the send step does
   not touch modifiedRegion after the region to send was computed *)
Theorem C13_send_keeps_concurrent_marks_one_pixel : forall sched,
  let s := run sk_st (sk_step false) sched sk_init in
  sk_pcA s = 2 -> sk_pcO s = 5 -> sk_client s = true.
Proof. exact send_keeps_concurrent_marks. Qed.

Example C13_send_keeps_concurrent_marks_nonvacuous :
  let s := run sk_st (sk_step false) [1; 1; 0; 0; 1; 1; 1] sk_init in sk_pcA s = 2 /\ sk_pcO s = 5 /\ sk_client s = true.
Proof. exact send_keeps_nonvacuous. Qed.

Theorem C13_subtract_after_send_loses_mark :
  let s := run sk_st (sk_step true) [1; 1; 0; 0; 1; 1; 1] sk_init in
  sk_pcA s = 2 /\ sk_pcO s = 5 /\ sk_client s = false.
Proof. exact subtract_after_send_loses_mark. Qed.

(* --- rfbNewFramebuffer, ONE client record.  HEAD (74169c1 = notes/fix_C13_5.diff: the locking pass keeps a reference on, and
   remembers, every client it locks; exactly those are unlocked after the per-client pass): for EVERY schedule of both modes -
   the client goes (mode 0) or a connection arrives (mode 1) at any moment - no mutex misuse, nobody stuck, and the round-robin
   continuation ends with rfbNewFramebuffer returned and the mutex free *)
Theorem C13_newfb_balanced_one_client : forall m sched, m < 2 ->
  let s := run nf_st (nf_step true m) sched (nf_init m) in
  nf_ok s = true /\ (nf_final s = true \/ exists t, t < 2 /\ enabled nf_st (nf_step true m) t s = true) /\
  (let z := run nf_st (nf_step true m) nf_finishing s in nf_final z = true /\ nf_send z = 0 /\ nf_badunlock z = false).
Proof. exact newfb_fixed_balanced. Qed.

(* regression witnesses, code BEFORE 74169c1 - finding C13-N5 (fixed): sendMutex locked over one iterator pass, unlocked over a
   second one.  (a) the peer of an idle client disconnects in between: the client is closed and unlinked, the second pass
   skips it, rfbNewFramebuffer returns holding its sendMutex, the client's own thread blocks for ever in
   rfbClientConnectionGone (LOCK(cl->sendMutex)): not a cycle, nobody can move *)
Theorem C13_newfb_leaves_sendmutex_locked_before_fix_refuted :
  let s := run nf_st (nf_step false 0) nf_gone_witness (nf_init 0) in
  nf_pcA s = NF_APP_DONE /\ nf_send s = 1 /\ nf_pcB s = 3 /\ nf_freed s = false /\ nf_ok s = false /\
  forall t, enabled nf_st (nf_step false 0) t s = false.
Proof. exact newfb_leaves_sendmutex_locked. Qed.

(* (b) a connection accepted in between gets an UNLOCK of a sendMutex that was never locked *)
Theorem C13_newfb_unlocks_unlocked_mutex_before_fix_refuted :
  nf_badunlock (run nf_st (nf_step false 1) nf_new_witness (nf_init 1)) = true.
Proof. exact newfb_unlocks_unlocked_mutex. Qed.
