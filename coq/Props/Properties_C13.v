(* C13 - Background (threaded) event loop: no deadlock, no use-after-free, clean shutdown.
   Only property theorems, each closed by [exact] of a lemma of Session/ThreadsProofs.v.

   SCOPE: these are theorems about small-step interleaving MODELS of the library's locking protocol
   (Session/ThreadsModel.v), for ALL schedules of the modelled threads.  They are not statements about
   the C text under the real scheduler; that part of C13 is sampled by the stress harness
   (harness/vdrv_threads.c) and labelled as such in the evidence. *)
From Coq Require Import List Bool Arith.
From LV Require Import Session.ThreadsModel Session.ThreadsProofs.
Import ListNotations.

(* --- lock order: any set of threads (any number) whose acquisitions all come from the table of
   (held, acquired) pairs of the true-colour code paths cannot form a wait-for cycle *)
Theorem C13_lock_order_acyclic : forall a l,
  (forall t, In t (a :: l) -> forall m, want t = Some m -> forall h, In h (held t) -> In (h, m) lock_table) ->
  chain (a :: l) -> waits_for (last (a :: l) a) a -> False.
Proof. exact lock_order_acyclic. Qed.

Example C13_lock_order_acyclic_nonvacuous :
  let t1 := mkThr [M_send 0] (Some (M_upd 0)) in
  let t2 := mkThr [M_upd 0] None in
  (forall t, In t [t1; t2] -> forall m, want t = Some m -> forall h, In h (held t) -> In (h, m) lock_table) /\
  chain [t1; t2].
Proof. exact lock_order_nonvacuous. Qed.

(* the general argument behind it: a rank respected by every thread excludes every cycle *)
Theorem C13_rank_excludes_cycles : forall (rank : nat -> nat) a l,
  (forall t, In t (a :: l) -> disciplined rank t) ->
  chain (a :: l) -> waits_for (last (a :: l) a) a -> False.
Proof. exact no_deadlock_cycle. Qed.

(* on a colour-mapped screen the table is NOT rank-respecting: FramebufferUpdateRequest handling takes
   sendMutex (and, on a write error, updateMutex a second time) while holding updateMutex, the output
   thread takes them in the opposite order *)
Theorem C13_lock_order_palette_refuted :
  In (M_send 0, M_upd 0) lock_table_palette /\ In (M_upd 0, M_send 0) lock_table_palette /\
  In (M_upd 0, M_upd 0) lock_table_palette.
Proof. exact palette_table_inversion. Qed.

(* --- the gone callback under threads: for every schedule of {rfbShutdownServer, clientInput,
   clientOutput, another rfbCloseClient caller} rfbClientConnectionGone runs at most once, and exactly
   once when the input thread has ended *)
Theorem C13_gone_once_threaded : forall sched,
  let s := run sh_st (sh_step false) sched sh_init in
  sh_gone s <= 1 /\ (sh_pcI s = SH_IN_DONE -> sh_gone s = 1).
Proof. exact gone_once_threaded. Qed.

(* --- shutdown terminates.  Baseline = the protocol with notes/fix_C13_1.diff (rfbCloseClient sets
   state = RFB_SHUTDOWN under updateMutex before the signal, clientOutput re-tests it after LOCK):
   after any schedule the system is finished or some thread can move, and a fixed round-robin
   continuation finishes the shutdown. *)
Theorem C13_shutdown_terminates : forall sched,
  let s := run sh_st (sh_step true) sched sh_init in
  (sh_final s = true \/ exists t, t < 4 /\ enabled sh_st (sh_step true) t s = true) /\
  sh_final (run sh_st (sh_step true) sh_finishing s) = true.
Proof. intros sched. split; [apply shutdown_never_stuck_repaired | apply shutdown_can_always_finish_repaired]. Qed.

(* the protocol of the library WITHOUT that fix: schedule [sh_witness] reaches an unfinished state in which
   no thread can move (lost wake-up) - finding C13-N1, replayed on the library with a forced schedule *)
Theorem C13_shutdown_terminates_before_fix_refuted :
  let s := run sh_st (sh_step false) sh_witness sh_init in
  sh_final s = false /\ forall t, enabled sh_st (sh_step false) t s = false.
Proof. exact shutdown_lost_wakeup. Qed.

(* --- no use after free through the client iterator.  Baseline = the protocol with notes/fix_C13_2.diff
   (the iterator takes its reference while holding rfbClientListMutex; rfbClientConnectionGone waits for
   refCount == 0 and unlinks under the same mutex): no schedule touches freed memory, and the teardown
   still completes. *)
Theorem C13_no_use_after_free_iter : forall sched,
  it_uaf (run it_st (it_step true) sched it_init) = false.
Proof. exact iterator_safe_when_ref_taken_under_list_mutex. Qed.

Theorem C13_iter_teardown_completes : forall sched,
  let z := run it_st (it_step true) it_finishing (run it_st (it_step true) sched it_init) in
  it_freed z = true /\ it_uaf z = false.
Proof. exact iterator_repaired_teardown_completes. Qed.

(* WITHOUT the fix: finding C13-N2, two-thread schedule [it_witness] *)
Theorem C13_no_use_after_free_iter_before_fix_refuted : it_uaf (run it_st (it_step false) it_witness it_init) = true.
Proof. exact iterator_use_after_free. Qed.

(* --- threads reclaimed: REFUTED - after n connect/disconnect cycles n ended client threads have never
   been joined, and rfbShutdownServer does not join them either (for every n) *)
Theorem C13_threads_reclaimed_refuted : forall n,
  th_zombie (th_run (th_cycles n)) = n /\ th_zombie (th_run (th_cycles n ++ [ThShutdown])) = n.
Proof. intros n. split; [apply threads_never_joined | apply shutdown_does_not_reclaim_them]. Qed.

(* --- cursor bracket: REFUTED for two output threads (per-screen save buffer, per-client brackets) *)
Theorem C13_cursor_bracket_atomic_refuted :
  let s := run cur_st (cur_step false) cur_witness cur_init in
  cur_final s = true /\ cu_fb s = true.
Proof. exact cursor_bracket_burns_in. Qed.

Theorem C13_cursor_bracket_atomic_partial : forall sched,
  let s := run cur_st (cur_step true) sched cur_init in
  cur_final s = true -> cu_fb s = false.
Proof. exact cursor_bracket_serial. Qed.

(* --- a request wakes the output thread whenever it has work (needed for "every staying client ends
   up with the final framebuffer").  [rq_good b kd s] = from state s the round-robin continuation
   [rq_rr] ends with the update sent.  Application's last operation = mark (kind 0) or copy (kind 1),
   any schedule of application, input and output thread: *)
Theorem C13_request_wakes_output : forall kd sched, kd < 2 ->
  rq_good false kd (run rq_st (rq_step false kd) sched rq_init) = true.
Proof. exact request_wakes_output. Qed.

(* cursor moved / replaced before the request arrives (these operations do not signal by themselves) *)
Theorem C13_request_wakes_output_cursor : forall sched,
  rq_good false 2 (run rq_st (rq_step false 2) sched rq_cur_init) = true.
Proof. exact request_wakes_output_cursor. Qed.

(* the handler's signal must be unconditional: "signal only if modifiedRegion is non-empty" loses the
   update after a copy *)
Theorem C13_request_signal_must_be_unconditional :
  let s := run rq_st (rq_step true 1) rq_witness rq_init in
  rq_req s = true /\ rq_copy s = true /\ rq_sent s = false /\
  forall t, enabled rq_st (rq_step true 1) t s = false.
Proof. exact conditional_signal_loses_update. Qed.

(* REFUTED for the faithful protocol: a cursor change while a request is outstanding wakes nobody *)
Theorem C13_cursor_change_wakes_output_refuted :
  let s := run rq_st (rq_step false 2) rq_cur_witness rq_init in
  rq_req s = true /\ rq_cur s = true /\ rq_sent s = false /\ forall t, enabled rq_st (rq_step false 2) t s = false.
Proof. exact cursor_change_does_not_wake. Qed.

(* --- rfbShutdownServer joins a client thread: with the repaired order (thread id read and rfbCloseClient
   called while the iterator's reference is held, iterator advanced afterwards) the application never
   touches a freed client record, whenever the peer disconnects, and never gets stuck *)
Theorem C13_shutdown_join_safe : forall sched,
  sj_uaf (run sj_st (sj_step true) sched sj_init) = false.
Proof. exact shutdown_join_safe_repaired. Qed.

Theorem C13_shutdown_join_never_stuck : forall sched,
  let s := run sj_st (sj_step true) sched sj_init in
  sj_final s = true \/ exists t, t < 2 /\ enabled sj_st (sj_step true) t s = true.
Proof. exact shutdown_join_never_stuck_repaired. Qed.

Example C13_shutdown_join_nonvacuous :
  let s := run sj_st (sj_step true) [0; 0; 0; 1; 1; 0] sj_init in sj_final s = true /\ sj_freed s = true /\ sj_uaf s = false.
Proof. exact shutdown_join_nonvacuous. Qed.

(* REFUTED for the faithful protocol (HEAD, main.c rfbShutdownServer): the iterator is advanced first,
   which drops the only reference; the notified client thread frees the record; the application then
   reads currentCl->screen->backgroundLoop and currentCl->client_thread *)
Theorem C13_shutdown_join_safe_before_fix_refuted :
  let s := run sj_st (sj_step false) sj_witness sj_init in sj_freed s = true /\ sj_uaf s = true.
Proof. exact shutdown_join_reads_freed_record. Qed.

(* --- marks that arrive while an update is being sent survive: the send step does not touch
   modifiedRegion after the region to send was computed *)
Theorem C13_send_keeps_concurrent_marks : forall sched,
  let s := run sk_st (sk_step false) sched sk_init in
  sk_pcA s = 2 -> sk_pcO s = 5 -> sk_client s = true.
Proof. exact send_keeps_concurrent_marks. Qed.

Example C13_send_keeps_concurrent_marks_nonvacuous :
  let s := run sk_st (sk_step false) [1; 1; 0; 0; 1; 1; 1] sk_init in sk_pcA s = 2 /\ sk_pcO s = 5 /\ sk_client s = true.
Proof. exact send_keeps_nonvacuous. Qed.

Theorem C13_subtract_after_send_loses_mark :
  let s := run sk_st (sk_step true) [1; 1; 0; 0; 1; 1; 1] sk_init in
  sk_pcA s = 2 /\ sk_pcO s = 5 /\ sk_client s = false.
Proof. exact subtract_after_send_loses_mark. Qed.
