(* C17 - Server-side scaling delivers consistent geometry and correctly filtered pixels.
   Only property theorems here, each closed by [exact] of a lemma proved in Scale/*.v.
   ScaleQ = the geometry over exact rationals (intended meaning); ScaleF = the same formulas over
   IEEE-754 binary64 (Coq primitive floats; what the C code computes), evaluated by coqc for the
   correspondence run; ScaleDefs = box filter, chain of scaled screens, messages (extracted). *)
From LV Require Import Scale.ScaleQ Scale.ScaleF Scale.ScaleDefs Scale.ScaleProofs Scale.ScaleFProofs
  Scale.ScalePtr Scale.ScalePtrProofs Scale.ScaleCopy Scale.ScaleAudit Scale.ScaleHistory
  Cursor.CursorProofs Gen.Consts_C17.
Local Open Scope Z_scope.

(* ---------------------------------------------------------------- geometry, Q MODEL (exact rationals), all sizes.
   NOT what the C doubles compute in every case (e.g. corr1F 98 2 49 1 = (0,2), corr1Q = (1,1)): the statement about the
   doubles is C17_correction_inside_F_on (inside + covering the exact image, widths <= 60, by computation). *)
(* rfbScaledCorrection, one axis: for every from, to >= 1 and every rectangle starting inside [from]:
   at least one pixel wide and inside [to] ... *)
Theorem C17_correction_inside_Q_model : forall from to x w,
  1 <= from -> 1 <= to -> 0 <= x < from -> 0 <= w ->
  let '(x2, w2) := corr1Q from to x w in
  0 <= x2 /\ 1 <= w2 /\ x2 + w2 <= to.
Proof. exact corr1Q_inside. Qed.

(* ... and it covers the exact image [x*to/from, (x+w)*to/from) of the source rectangle *)
Theorem C17_correction_covers_Q_model : forall from to x w,
  1 <= from -> 1 <= to -> 0 <= x -> 0 <= w -> x + w <= from ->
  let '(x2, w2) := corr1Q from to x w in
  x2 * from <= x * to /\ (x + w) * to <= (x2 + w2) * from.
Proof. exact corr1Q_covers. Qed.

(* every source pixel the box filter reads lies inside the source screen *)
Theorem C17_block_inside : forall W w' x1 w1 i u,
  1 <= w' -> 0 <= W -> 0 <= x1 -> x1 + w1 <= w' -> 0 <= i < w1 ->
  let sx0 := scaleQ w' W x1 in
  let ax := scaleQ w' W 1 in
  0 <= u < ax -> 0 <= sx0 + i * ax + u < W.
Proof. exact block_inside_Q. Qed.

(* pointer: with exact arithmetic the mapped position lies in the source block of the client pixel *)
Theorem C17_pointer_unscale_exact : forall W n x,
  1 <= n -> n <= W -> let w' := W / n in 0 <= x < w' ->
  let ax := scaleQ w' W 1 in
  x * ax <= scaleQ w' W x < x * ax + ax.
Proof. exact pointer_in_block_Q. Qed.

(* ---------------------------------------------------------------- geometry, IEEE doubles *)
(* bounded: all widths up to NS = 240, all factors, all x, both directions: the double expression of
   ScaleX/ScaleY (multiply, then divide - /repo commit c7c2b1b) is defined and exact *)
Theorem C17_F_agrees_Q_on : forall W n,
  1 <= W <= NS -> 1 <= n <= W ->
  let w' := W / n in
  (forall x, 0 <= x < W -> scaleF W w' x = Some (scaleQ W w' x)) /\
  (forall x, 0 <= x < w' -> scaleF w' W x = Some (scaleQ w' W x)).
Proof. exact scaleF_is_Q. Qed.

(* all 16-bit sizes, over the standard model of binary64 (hypotheses of the Section, see ScaleProofs):
   a = x*to < 2^32, b = from < 2^16, q = n/d the correctly rounded quotient: (int) q = floor(a/b) *)
Theorem C17_scaleX_exact_conditional : forall a b n d : Z,
  0 <= a < 2 ^ 32 -> 1 <= b < 2 ^ 16 -> 0 < d ->
  (forall k, 0 <= k -> k * b <= a -> k * d <= n) ->
  n * b * 2 ^ 53 <= a * d * (2 ^ 53 + 1) ->
  n / d = a / b.
Proof. exact trunc_rounded_quotient. Qed.

(* C17_pointer_unscale_on over the doubles (same bound): the mapped pointer position lies in the source
   block of the client pixel.  (F17: refuted for the formula before c7c2b1b, see
   ScaleFProofs.pointer_old_formula_refuted: 29 -> 57, block [58,60).) *)
Theorem C17_pointer_unscale_on : forall W n x,
  1 <= W <= NS -> 1 <= n <= W -> let w' := W / n in 0 <= x < w' ->
  exists v, scaleF w' W x = Some v /\ x * scaleQ w' W 1 <= v < x * scaleQ w' W 1 + scaleQ w' W 1.
Proof. exact pointer_in_block_F. Qed.

Theorem C17_pointer_old_formula_refuted :
  exists W n x v, 1 <= n /\ n <= W /\ 0 <= x < W / n /\ scaleF_old (W / n) W x = Some v /\
                  ~ (x * scaleQ (W / n) W 1 <= v).
Proof. exact pointer_old_formula_refuted. Qed.

(* the pointer event that reaches the application, at once (button change, or deferPtrUpdateTime = 0)
   or remembered for motion coalescing and delivered later by rfbUpdateClient: exactly one of the two
   happens and the event is (buttons, floor(x*W/w'), floor(y*H/h')) - the origin of the source block the
   filter averages for that client pixel; x with the width ratio, y with the height ratio *)
Theorem C17_pointer_event_block_origin_on : forall ps k c b W H n x y,
  1 <= W <= NS -> 1 <= H <= NS -> 1 <= n <= W -> n <= H ->
  let w' := W / n in let h' := H / n in
  0 <= x < w' -> 0 <= y < h' ->
  nth_error (pcls ps) k = Some c -> owner_ok ps k = true ->
  let '(ps1, e1) := ptr_msg ps k b (scaleF w' W x) (scaleF h' H y) in
  let e := (b, Some (scaleQ w' W x), Some (scaleQ h' H y)) in
  (e1 = Some e /\ snd (ptr_flush ps1 k) = None) \/ (e1 = None /\ snd (ptr_flush ps1 k) = Some e).
Proof. exact pointer_event_block_origin. Qed.

(* any mapped coordinates: delivered now or remembered, never both; the flush delivers what the LAST
   message left (an immediate delivery drops an older remembered position) and delivers it once *)
Theorem C17_pointer_now_or_later : forall ps k c b mx my,
  nth_error (pcls ps) k = Some c -> owner_ok ps k = true ->
  let '(ps1, e1) := ptr_msg ps k b mx my in
  (negb (b =? pbuttons c) || (pdefer ps =? 0) = true /\
     e1 = Some (b, mx, my) /\ snd (ptr_flush ps1 k) = None) \/
  (negb (b =? pbuttons c) || (pdefer ps =? 0) = false /\ e1 = None /\
     snd (ptr_flush ps1 k) = match remember mx my with Some (x, y) => Some (b, Some x, y) | None => None end).
Proof. exact ptr_msg_cases. Qed.

Theorem C17_pointer_flush_once : forall ps k, snd (ptr_flush (fst (ptr_flush ps k)) k) = None.
Proof. exact ptr_flush_once. Qed.

(* while one client holds a button the others' pointer events change nothing *)
Theorem C17_pointer_not_owner : forall ps k j b mx my,
  powner ps = Some j -> j <> k -> ptr_msg ps k b mx my = (ps, None).
Proof. exact ptr_msg_not_owner. Qed.

(* bounded: all widths up to NC = 60, all factors, all rectangles: the corrected rectangle computed in
   doubles is non-empty, inside the target and covers the exact image *)
Theorem C17_correction_inside_F_on : forall W n,
  1 <= W <= NC -> 1 <= n <= W ->
  let w' := W / n in
  (forall x w, 0 <= x -> 1 <= w -> x + w <= W ->
     exists a b, corr1F W w' x w = Some (a, b) /\ 0 <= a /\ 1 <= b /\ a + b <= w' /\
                 a * W <= x * w' /\ (x + w) * w' <= (a + b) * W) /\
  (forall x, 0 <= x < w' ->
     exists a b, corr1F w' W x 1 = Some (a, b) /\ 0 <= a /\ 1 <= b /\ a + b <= W /\
                 a * w' <= x * W /\ (x + 1) * W <= (a + b) * w').
Proof. exact corr1F_inside. Qed.

(* ---------------------------------------------------------------- pixels *)
(* rfbScaledScreenUpdateRect for ANY geometry: every pixel of the destination rectangle is the
   per-channel floor average of its areaX x areaY source block (the copied pixel for colour maps), the
   rest of the scaled screen is unchanged, and (true colour) every source pixel read exists *)
Theorem C17_filter_average : forall tc fmt g src dst dst',
  0 <= gw1 g -> 0 <= gh1 g ->
  update_rect tc fmt g src dst = Some dst' ->
  same_shape dst dst' /\
  (forall X Y, fb_get dst' X Y =
    match fb_get dst X Y with
    | None => None
    | Some p =>
      Some (if in_box (gx1 g) (gy1 g) (gw1 g) (gh1 g) X Y
            then if tc then avg_px fmt src g (X - gx1 g) (Y - gy1 g)
                 else px_or0 src (idx_or0 (gcxs g) (X - gx1 g)) (idx_or0 (gcys g) (Y - gy1 g))
            else p)
    end) /\
  (tc = true -> forall i j, 0 <= i < gw1 g -> 0 <= j < gh1 g ->
     exists sx sy, zidx (gsxs g) i = Some sx /\ zidx (gsys g) j = Some sy /\
       forall w u, 0 <= w < gax g -> 0 <= u < gay g -> fb_get src (sx + w) (sy + u) <> None).
Proof. exact update_rect_spec. Qed.

(* C17_converges_step (the tree since /repo commit d58ea84: the block of destination pixel X starts at
   ScaleX(X) whatever rectangle is refreshed): if the scaled screen is the box filter of the
   framebuffer, the framebuffer is modified inside a rectangle, and the refresh uses a geometry that is
   inside the scaled screen and covers the exact image of that rectangle (C17_correction_inside_Q_model /
   C17_correction_covers_Q_model), then the scaled screen is again the box filter of the framebuffer -
   for every history of modifications, every size, every factor (dividing or not) *)
Theorem C17_converges_step : forall fmt g src src' dst dst' W H w' h' x y w h,
  1 <= w' -> 0 <= W -> 1 <= h' -> 0 <= H ->
  geom_ok g W H w' h' x y w h ->
  Conv fmt src W H w' h' dst ->
  (forall s t, ~ (x <= s < x + w /\ y <= t < y + h) -> fb_get src' s t = fb_get src s t) ->
  update_rect true fmt g src' dst = Some dst' ->
  Conv fmt src' W H w' h' dst'.
Proof. exact converges_step. Qed.

(* C17_scaled_copy_cursor_free_step: the soft cursor is painted into the framebuffer and refreshed in every
   scaled copy (rfbShowCursor), then restored and refreshed again (rfbHideCursor, whatever client the
   update was for): each scaled copy is again the box filter of the cursor-free framebuffer *)
Theorem C17_scaled_copy_cursor_free_step : forall fmt g src painted dst d1 d2 W H w' h' x y w h,
  1 <= w' -> 0 <= W -> 1 <= h' -> 0 <= H ->
  geom_ok g W H w' h' x y w h ->
  Conv fmt src W H w' h' dst ->
  (forall s t, ~ (x <= s < x + w /\ y <= t < y + h) -> fb_get painted s t = fb_get src s t) ->
  update_rect true fmt g painted dst = Some d1 ->
  update_rect true fmt g src d1 = Some d2 ->
  Conv fmt src W H w' h' d2.
Proof. exact scaled_copy_cursor_free. Qed.

(* record of F17b - the block grid before d58ea84 (block of offset i at ScaleX(x1) + i*areaX): the same
   framebuffer gives two different scaled images (3x11 screen, factor 3, row 9 modified) *)
Theorem C17_old_grid_history_dependent :
  exists fmt src src' gfull gpart A B0 B,
    (forall s t, ~ (0 <= s < 3 /\ 9 <= t < 10) -> fb_get src' s t = fb_get src s t) /\
    update_rect true fmt gfull src' (blank_fb 1 3) = Some A /\
    update_rect true fmt gfull src (blank_fb 1 3) = Some B0 /\
    update_rect true fmt gpart src' B0 = Some B /\ A <> B.
Proof. exact old_grid_history_dependent. Qed.

(* ---------------------------------------------------------------- shared scaled views *)
(* RefInv: for every size, the reference counts of the screens of that size add up to the number of
   connected clients using it, and every connected client's screen is in the chain.  Kept by join,
   change of factor (accepted or refused, with or without the zero-width refusal, any geometry)
   and leave. *)
Theorem C17_refcounts_join : forall st, RefInv st -> RefInv (client_new st).
Proof. exact refinv_client_new. Qed.

Theorem C17_refcounts_leave : forall st k, RefInv st -> RefInv (client_gone st k).
Proof. exact refinv_client_gone. Qed.

Theorem C17_refcounts_change : forall zf tc fmt g st k cl w h st',
  RefInv st -> nth_error (clients st) k = Some cl -> calive cl = true ->
  scaling_setup zf tc fmt g st k w h = Some st' ->
  RefInv st' /\
  exists cl', nth_error (clients st') k = Some cl' /\ calive cl' = true /\
    ((ckw cl' = w /\ ckh cl' = h) \/
     (cl' = cl /\ find_scaled w h st = None /\ (h = 0 \/ (zf = true /\ w = 0)))).
Proof. exact refinv_scaling_setup. Qed.

(* ---------------------------------------------------------------- what the client is told *)
Theorem C17_size_told_message : forall palm W H n w h,
  0 < n -> 0 <= W < 65536 -> 0 <= H < 65536 ->
  scaled_size W H n = Some (w, h) ->
  w = W / n /\ h = H / n /\
  let m := resize_msg palm W H w h in
  if palm
  then length m = Z.to_nat sz_palm_resize_fb /\ nth 0 m 0 = msg_palm_resize_fb /\
       get16 m 2 = W /\ get16 m 4 = H /\ get16 m 6 = w /\ get16 m 8 = h
  else length m = Z.to_nat sz_resize_fb /\ nth 0 m 0 = msg_resize_fb /\ get16 m 2 = w /\ get16 m 4 = h.
Proof. exact size_told. Qed.

(* ... stated on the client's state AFTER rfbScalingSetup (tree: zero_fix = true), as rfbSendNewScaleSize
   builds it: told (W/n, H/n) and on a screen of that size, or - zero dimension - refused and told the size
   it had.  (cl->PalmVNC itself is set by the message handler, outside scaling_setup: the sticky flag is
   exercised by the correspondence run only.) *)
Theorem C17_size_told_after_setup : forall tc fmt g st k cl W H n w h st',
  RefInv st -> nth_error (clients st) k = Some cl -> calive cl = true ->
  0 < n -> 0 <= W < 65536 -> 0 <= H < 65536 -> 0 <= ckw cl < 65536 -> 0 <= ckh cl < 65536 ->
  scaled_size W H n = Some (w, h) ->
  scaling_setup true tc fmt g st k w h = Some st' ->
  exists cl', nth_error (clients st') k = Some cl' /\ calive cl' = true /\
    ((ckw cl' = W / n /\ ckh cl' = H / n) \/ (cl' = cl /\ (W / n = 0 \/ H / n = 0))) /\
    let m := resize_msg (cpalm cl') W H (ckw cl') (ckh cl') in
    if cpalm cl'
    then length m = Z.to_nat sz_palm_resize_fb /\ nth 0 m 0 = msg_palm_resize_fb /\
         get16 m 2 = W /\ get16 m 4 = H /\ get16 m 6 = ckw cl' /\ get16 m 8 = ckh cl'
    else length m = Z.to_nat sz_resize_fb /\ nth 0 m 0 = msg_resize_fb /\
         get16 m 2 = ckw cl' /\ get16 m 4 = ckh cl'.
Proof. exact size_told_after_setup. Qed.

(* factor 1 is never refused and puts the client back on the unscaled screen, counts consistent.
   NOT proved: that the pixels of the scaled screens it left are untouched (tested only). *)
Theorem C17_factor_one_back_on_main : forall zf tc fmt g st k cl st',
  RefInv st -> nth_error (clients st) k = Some cl -> calive cl = true ->
  scaled_size (ssw (mainscr st)) (ssh (mainscr st)) 1 = Some (ssw (mainscr st), ssh (mainscr st)) /\
  (scaling_setup zf tc fmt g st k (ssw (mainscr st)) (ssh (mainscr st)) = Some st' ->
   RefInv st' /\ exists cl', nth_error (clients st') k = Some cl' /\ calive cl' = true /\
                             ckw cl' = ssw (mainscr st) /\ ckh cl' = ssh (mainscr st)).
Proof. exact factor_one_back_on_main. Qed.

(* block size areaX = ScaleX(1) over the doubles = floor(W/w'), all widths <= NS, all factors, including
   scaled dimension 1 (outside the range of C17_F_agrees_Q_on) *)
Theorem C17_area_F_is_Q_on : forall W n, 1 <= W <= NS -> 1 <= n <= W ->
  scaleF (W / n) W 1 = Some (scaleQ (W / n) W 1).
Proof. exact area_F_is_Q. Qed.

Theorem C17_factor_one_size : forall W H, scaled_size W H 1 = Some (W, H).
Proof. exact factor_one. Qed.

(* ---------------------------------------------------------------- every reachable state (history level) *)
(* HInv = reference counts are the numbers of users (RefInv) /\ no two screens have the same size /\ every
   scaled screen of the chain has positive dimensions, all its pixels, and - if it has users - is the box
   filter of the framebuffer.  True-colour screens, the tree (zero_fix, repaired grid, refresh after a copy).
   It holds initially and is kept by a client joining, leaving, rfbScalingSetup (any size >= 0: new screen,
   shared screen, stale unused screen, refusal), and by rfbMarkRectAsModified / rfbDoCopyRect after ANY change
   of the pixels inside the rectangle. *)
Theorem C17_inv_init : forall fmt W H f, 1 <= W -> 1 <= H -> HInv fmt (mkst (mkss W H 0 f) [] []).
Proof. exact hinv_init. Qed.

Theorem C17_inv_join : forall fmt st, HInv fmt st -> HInv fmt (client_new st).
Proof. exact hinv_client_new. Qed.

Theorem C17_inv_leave : forall fmt st k, HInv fmt st -> HInv fmt (client_gone st k).
Proof. exact hinv_client_gone. Qed.

Theorem C17_inv_scaling_setup : forall fmt g st k cl w h st',
  HInv fmt st -> nth_error (clients st) k = Some cl -> calive cl = true -> 0 <= w -> 0 <= h ->
  geom_ok g (Wm st) (Hm st) w h 0 0 (Wm st) (Hm st) ->
  scaling_setup true true fmt g st k w h = Some st' -> HInv fmt st'.
Proof. exact hinv_scaling_setup. Qed.

Theorem C17_inv_modify : forall fmt st src' x y w h geoms st',
  HInv fmt st ->
  only_in_rect (ssfb (mainscr st)) src' x y w h ->
  Forall2 (fun s g => 0 < ssref s -> geom_ok g (Wm st) (Hm st) (ssw s) (ssh s) x y w h) (chain st) geoms ->
  mark_modified true fmt geoms (set_main_fb st src') = Some st' ->
  HInv fmt st' /\ ssfb (mainscr st') = src'.
Proof. exact hinv_modify. Qed.

(* the copy op: the pixels rfbDoCopyRect produces differ from the old ones only inside the destination, so
   C17_inv_modify applies to it (rfbScheduleCopyRegion refreshes the destination since /repo b141ef8) *)
Theorem C17_copy_only_in_rect : forall f f' x1 y1 x2 y2 dx dy pix,
  0 <= fw f -> 0 <= fh f -> copy_pixels f x1 y1 x2 y2 dx dy = Some pix ->
  (forall s t, fb_get f' s t = if (0 <=? s) && (s <? fw f) && (0 <=? t) && (t <? fh f)
                               then zidx pix (t * fw f + s) else fb_get f s t) ->
  only_in_rect f f' x1 y1 (x2 - x1) (y2 - y1).
Proof. exact copy_only_in_rect. Qed.

(* C17_converges: in EVERY state reachable from an empty screen by these operations (ScaleHistory.step /
   reachable), every scaled screen that has users is, pixel by pixel, the box filter of the framebuffer as it
   is now; counts = users; sizes unique.  Premises on the way: the geometries handed to the refreshes satisfy
   geom_ok (what rfbScaledCorrection/ScaleX must deliver: C17_correction_*_Q_model, C17_F_agrees_Q_on). *)
Theorem C17_converges : forall fmt st, reachable fmt st ->
  RefInv st /\ NoDup (sizes st) /\
  forall s, In s (chain st) -> 0 < ssref s ->
    forall X Y, 0 <= X < ssw s -> 0 <= Y < ssh s ->
      fb_get (ssfb s) X Y = Some (ideal_px fmt (ssfb (mainscr st)) (Wm st) (Hm st) (ssw s) (ssh s) X Y).
Proof. exact converges_reachable. Qed.

(* ---------------------------------------------------------------- F17c: CopyRect and scaled clients *)
(* REFUTED for the tree: rfbDoCopyRect moves pixels in the framebuffer without refreshing the scaled copies
   (witness: the scaled screen kept, dst, differs from what a refresh of the copied area gives, dst').
   With notes/fix_C17_3.diff the destination is refreshed like any modified rectangle and C17_converges_step
   applies (the new contents differ from the old only inside the destination). *)
Theorem C17_copy_leaves_scaled_stale_refuted :
  exists fmt src pix' src' g dst dst',
    update_rect true fmt g src (blank_fb 1 1) = Some dst /\
    copy_pixels src 0 0 2 1 0 (-1) = Some pix' /\ src' = mkfb 2 2 [[255; 255]; [255; 255]] /\ pix' = [255; 255; 255; 255] /\
    update_rect true fmt g src' dst = Some dst' /\ dst' <> dst.
Proof. exact copy_leaves_scaled_stale. Qed.

(* REFUTED for the tree: the displacement of a CopyRect sent to a scaled client - dy is mapped with the
   width ratio, negative values are truncated towards zero *)
Theorem C17_copyrect_delta_refuted :
  scaleF 100 33 70 = Some 23 /\ scaleF 77 25 70 = Some 22 /\
  scaleF 10 3 (-5) = Some (-1) /\ scaleQ 10 3 (-5) = -2.
Proof. exact copyrect_delta_refuted. Qed.

(* ---------------------------------------------------------------- F2: zero dimension *)
(* the tree (since 8e7b6f1, zero_fix = true): a size with a zero dimension is refused, nothing changes;
   hence no screen of the chain is ever 0 wide and the Zlib/Ultra rectangle count is defined *)
Theorem C17_zero_dim : forall tc fmt g st k cl w h,
  nth_error (clients st) k = Some cl -> find_scaled w h st = None -> w = 0 \/ h = 0 ->
  scaling_setup true tc fmt g st k w h = Some st.
Proof. exact zero_dim_fixed. Qed.

Theorem C17_rect_count_defined : forall mx w h, 0 < mx -> 1 <= w -> exists n, split_rect_count mx w h = Some n.
Proof. exact split_rect_count_defined. Qed.

(* record of F2 - before 8e7b6f1 (zero_fix = false): factor 4 on a 3x8 screen was accepted, the client
   was told 0x2 and the rectangle count divided by zero *)
Theorem C17_zero_dim_old_refuted :
  exists W H n w h st st',
    1 <= n <= 255 /\ scaled_size W H n = Some (w, h) /\ w = 0 /\ 1 <= h /\
    scaling_setup false true (mkfmt 4 255 255 255 0 8 16) (mkgeom 0 0 0 0 0 0 [] [] [] []) (client_new st) 0 w h = Some st' /\
    (exists cl, nth_error (clients st') 0 = Some cl /\ ckw cl = 0 /\ ckh cl = h) /\
    split_rect_count zlib_max_rect_size w h = None /\ split_rect_count ultra_max_rect_size w h = None.
Proof. exact zero_dim_refuted. Qed.

(* ---------------------------------------------------------------- NOT PROVED - tested by the correspondence
   run and the Python oracle only (audit notes/audit_B.md, C17 items 1, 5, 7-10):
   - history level: PROVED since the final round (C17_converges over ScaleHistory.reachable, C17_inv_init .. C17_inv_modify), for
     true-colour screens and with geom_ok as the premise on every geometry; colour-mapped screens (tc = false)
     have the single-step statements only.  Sizes unique: part of HInv (NoDup (sizes st)).
   - no lemma links the double geometry upd_geomF / correctionF to geom_ok beyond C17_F_agrees_Q_on,
     C17_area_F_is_Q_on (W <= 240) and C17_correction_inside_F_on (W <= 60); C17_converges_step has no example
     instantiated from a real upd_geomF geometry.  Outside these ranges: correspondence sweep only.
   - C17_scaleX_exact_conditional: its premises about round-to-nearest (RN_mono_int, RN_rel_up) are NOT
     discharged for PrimFloat division; it documents why the swept statements can be expected to extend.
   - C17_filter_average, colour-mapped screens (tc = false): the value is stated through totalised reads; "the read
     exists" is proved for tc = true only.
   - real update path (rectangles inside the scaled size, request correction with upscale, 3 bytes per pixel,
     NewFBSize/ExtDesktopSize clients, CopyRect: F17c): Python oracle on session cases only. *)
