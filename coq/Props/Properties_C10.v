(* C10 - Pixel-format translation follows the RFB colour-scaling rule for all formats.
   Only property theorems here, each closed by [exact] of a lemma proved in Pixel/TranslateProofs*.v.
   All statements are about the functions the correspondence run executes (extracted:
   set_translate, translate_fn, reads_fn, table_bytes) -- Pixel/Translate.v.
   Host byte order: little endian (stated in the model: loads/stores are little-endian values).

   Domain predicates (Pixel/Translate.v): [server_ok]/[client_ok] = bpp in {8,16,24,32}/{8,16,32},
   max = 2^k-1 (k = 1..16), shift + k <= bpp, components pairwise disjoint; [client_ok24] = the same
   for bpp 24; [be sf = false] = the server format's byte order is the host's (finding F10c, open).

   Baseline = the repaired library (fix commits 7bd61ce, 7c8a2b7, c561012, 3f4ae4e in /repo): the
   source switches regenerated into Gen/Consts_C10.v (3-byte load of 24-bpp pixels, uint32_t rescaling,
   3-byte table entries indexed correctly) are re-checked by computation inside the proofs
   (TranslateProofs3.v: load24_bytes_now, scale_unsigned_now, rgb24_fixed_now).  A regression of the
   source flips a switch, these lemmas stop computing and the theorems are reported as no longer
   shown; the former refutation witnesses (F10, F10b, F10d) are kept in corpus/C10 and, as regression
   lemmas conditional on the old switch values, in TranslateProofs2.v / TranslateProofs3.v. *)
From LV Require Import Gen.Consts_C10 Pixel.Translate Pixel.TranslateProofs Pixel.TranslateProofs2 Pixel.TranslateProofs3 Pixel.TranslateProofs4.
From Coq Require Import ZArith List.
Import ListNotations.
Local Open Scope Z_scope.

(* C10_rule (full statement, as in DESIGN.md): for every supported pair and every source pixel each
   output component equals (c*outMax + inMax/2)/inMax, sits at the client's shift in the client's
   byte order, all other bits are 0 -- for both table strategies.
   The faithful model violates it for [be sf = true] only, and it fixes a little-endian host: the
   provable part is PARTIAL w.r.t. "every supported pair" and named so (suffix _host_order_server: the
   server format's byte order is the host's, i.e. little endian); the excluded part is
   C10_rule_foreign_server_order_refuted (F10c).  The same suffix marks the 24-bpp-client and the
   colour-map rule.  Nothing is claimed for a big-endian host.                                    *)
Theorem C10_rule_host_order_server : forall econ sf cf cf' st msg cm stride w h input out,
  set_translate econ sf cf = SetupOk cf' st msg ->
  server_ok sf -> client_ok cf' -> be sf = false -> bytes_ok input ->
  st <> SNone ->
  translate_fn st sf cf' cm stride w h input = XOk out ->
  forall r x, 0 <= r < h -> 0 <= x < w ->
    slice out ((r * w + x) * (bpp cf' / 8)) (bpp cf' / 8) =
    client_bytes cf' (rule_pixel sf cf' (src_pixel sf input (r * row_step sf stride + x * (bpp sf / 8)))).
Proof. exact rule_via_setup_now. Qed.

(* the same for each strategy taken directly (no detour through the selection) *)
Theorem C10_rule_both_strategies_host_order_server : forall st sf cf cm stride w h input out,
  (st = SSingleTC \/ st = SRGB) -> server_ok sf -> client_ok cf -> be sf = false ->
  bytes_ok input ->
  translate_fn st sf cf cm stride w h input = XOk out ->
  forall r x, 0 <= r < h -> 0 <= x < w ->
    slice out ((r * w + x) * (bpp cf / 8)) (bpp cf / 8) =
    client_bytes cf (rule_pixel sf cf (src_pixel sf input (r * row_step sf stride + x * (bpp sf / 8)))).
Proof. exact translate_rule_now. Qed.

(* what [rule_pixel] is: decoded with the client's shifts and maxima each component is the rounded
   rescaling of the source component, it is <= the client's max, the pixel fits the client's bpp
   (rule_pixel is by definition the sum of the three shifted components: no other bit set) *)
Theorem C10_rule_components : forall sf cf p, server_ok sf -> client_ok cf ->
  comp (rule_pixel sf cf p) (rs cf) (rmax cf) = scale_spec (comp p (rs sf) (rmax sf)) (rmax sf) (rmax cf) /\
  comp (rule_pixel sf cf p) (gs cf) (gmax cf) = scale_spec (comp p (gs sf) (gmax sf)) (gmax sf) (gmax cf) /\
  comp (rule_pixel sf cf p) (bs cf) (bmax cf) = scale_spec (comp p (bs sf) (bmax sf)) (bmax sf) (bmax cf) /\
  0 <= rule_pixel sf cf p < 2 ^ bpp cf /\
  0 <= scale_spec (comp p (rs sf) (rmax sf)) (rmax sf) (rmax cf) <= rmax cf /\
  0 <= scale_spec (comp p (gs sf) (gmax sf)) (gmax sf) (gmax cf) <= gmax cf /\
  0 <= scale_spec (comp p (bs sf) (bmax sf)) (bmax sf) (bmax cf) <= bmax cf.
Proof. exact rule_pixel_components. Qed.

Example C10_rule_nonvacuous :
  server_ok (f_rgb888 false) /\ client_ok (f_rgb565 true) /\ no_ovf (f_rgb888 false) (f_rgb565 true) /\
  be (f_rgb888 false) = false /\ bytes_ok [0; 128; 255; 7; 9; 9; 9; 9; 1; 2; 3; 4] /\
  set_translate false (f_rgb888 false) (f_rgb565 true) = SetupOk (f_rgb565 true) SRGB [] /\
  translate_fn SRGB (f_rgb888 false) (f_rgb565 true) empty_cmap 8 1 2 [0; 128; 255; 7; 9; 9; 9; 9; 1; 2; 3; 4]
    = XOk [252; 0; 0; 0].
Proof. exact rule_nonvacuous. Qed.

Example C10_rule_single_nonvacuous :
  server_ok (f_rgb565 false) /\ client_ok (f_rgb888 true) /\ no_ovf (f_rgb565 false) (f_rgb888 true) /\
  set_translate false (f_rgb565 false) (f_rgb888 true) = SetupOk (f_rgb888 true) SSingleTC [] /\
  set_translate true (f_rgb565 false) (f_rgb888 true) = SetupOk (f_rgb888 true) SRGB [] /\
  translate_fn SSingleTC (f_rgb565 false) (f_rgb888 true) empty_cmap 2 1 1 [0; 248] = XOk [0; 255; 0; 0].
Proof. exact single_nonvacuous. Qed.

(* C10_rule_24: 24-bpp clients (accepted by the library when LIBVNCSERVER_ALLOW24BPP; [client_ok24] =
   bpp 24, same component conditions): the 3 output bytes of every pixel are the rule pixel in the
   client's byte order, for the single-table and for the three-table functions. *)
Theorem C10_rule_24_host_order_server : forall econ sf cf cf' st msg cm stride w h input out,
  set_translate econ sf cf = SetupOk cf' st msg ->
  server_ok sf -> client_ok24 cf' -> be sf = false -> bytes_ok input ->
  st <> SNone ->
  translate_fn st sf cf' cm stride w h input = XOk out ->
  Z.of_nat (length out) = w * h * 3 /\
  forall r x, 0 <= r < h -> 0 <= x < w ->
    slice out ((r * w + x) * 3) 3 =
    client_bytes cf' (rule_pixel sf cf' (src_pixel sf input (r * row_step sf stride + x * (bpp sf / 8)))).
Proof. exact rule_24_via_setup_now. Qed.

Theorem C10_rule_24_both_strategies_host_order_server : forall st sf cf cm stride w h input out,
  (st = SSingleTC \/ st = SRGB) ->
  server_ok sf -> client_ok24 cf -> be sf = false -> bytes_ok input ->
  translate_fn st sf cf cm stride w h input = XOk out ->
  Z.of_nat (length out) = w * h * 3 /\
  forall r x, 0 <= r < h -> 0 <= x < w ->
    slice out ((r * w + x) * 3) 3 =
    client_bytes cf (rule_pixel sf cf (src_pixel sf input (r * row_step sf stride + x * (bpp sf / 8)))).
Proof. exact translate_rule_24_now. Qed.

Example C10_rule_24_nonvacuous :
  server_ok (f_rgb565 false) /\ client_ok24 f_rgb24 /\ no_ovf (f_rgb565 false) f_rgb24 /\
  set_translate false (f_rgb565 false) f_rgb24 = SetupOk f_rgb24 SSingleTC [] /\
  translate_fn SSingleTC (f_rgb565 false) f_rgb24 empty_cmap 2 2 1 [0; 248; 31; 0] = XOk [0; 0; 255; 255; 0; 0].
Proof. exact rule_24_nonvacuous. Qed.

(* refuted part (finding F10c, open): server format in the non-host byte order *)
Theorem C10_rule_foreign_server_order_refuted :
  exists sf cf input out,
    server_ok sf /\ client_ok cf /\ no_ovf sf cf /\ be sf = true /\ bytes_ok input /\
    translate_fn SSingleTC sf cf empty_cmap 2 1 1 input = XOk out /\
    slice out 0 (bpp cf / 8) <> client_bytes cf (rule_pixel sf cf (be_val (slice input 0 (bpp sf / 8)))).
Proof. exact rule_foreign_server_order_refuted. Qed.

(* C10_strategies_agree: the single-table and the three-table function compute the same result on
   every input, for every server format (no well-formedness needed), every 8/16/32-bpp client format
   with shifts below 32 -- including faults and undefined cases.  This is a statement about the MODEL;
   it transfers to the C code only where the model mirrors it: for server shifts >= 32 the C expression
   (pixel >> shift) is undefined behaviour (x86 masks the count) while the model's Z.shiftr yields 0, and
   the generator never produces such server formats for the comparison. *)
Theorem C10_strategies_agree : forall sf cf cm stride w h input,
  (bpp cf = 8 \/ bpp cf = 16 \/ bpp cf = 32) ->
  0 <= rs cf < 32 -> 0 <= gs cf < 32 -> 0 <= bs cf < 32 ->
  translate_fn SRGB sf cf cm stride w h input = translate_fn SSingleTC sf cf cm stride w h input.
Proof. exact strategies_agree. Qed.

(* rfbEconomicTranslate only switches the strategy of 16-bpp servers *)
Theorem C10_strategy_switch : forall sf cf cf1 cf2 st1 st2 m1 m2,
  server_ok sf -> bpp sf = 16 ->
  set_translate false sf cf = SetupOk cf1 st1 m1 -> set_translate true sf cf = SetupOk cf2 st2 m2 ->
  cf1 = cf2 /\ m1 = m2 /\ ((st1 = SNone /\ st2 = SNone) \/ (st1 = SSingleTC /\ st2 = SRGB)).
Proof. exact strategy_by_switch. Qed.

(* C10_identity: PF_EQ formats => the verbatim-copy function is selected and every output row is
   the corresponding input row *)
Theorem C10_identity : forall econ sf cf cf' st msg cm stride w h input out,
  set_translate econ sf cf = SetupOk cf' st msg -> pf_eq cf' sf = true ->
  translate_fn st sf cf' cm stride w h input = XOk out ->
  st = SNone /\
  Z.of_nat (length out) = h * (w * (bpp cf' / 8)) /\
  forall r, 0 <= r < h ->
    slice out (r * (w * (bpp cf' / 8))) (w * (bpp cf' / 8)) = slice input (r * stride) (w * (bpp cf' / 8)).
Proof. exact identity_via_setup. Qed.

Theorem C10_identity_choice : forall econ sf cf cf' st msg,
  set_translate econ sf cf = SetupOk cf' st msg ->
  (st = SNone <-> pf_eq cf' sf = true).
Proof. exact setup_none_iff. Qed.

Example C10_identity_nonvacuous :
  set_translate false (f_rgb565 false) (f_rgb565 false) = SetupOk (f_rgb565 false) SNone [] /\
  translate_fn SNone (f_rgb565 false) (f_rgb565 false) empty_cmap 5 2 2 [1; 2; 3; 4; 5; 6; 7; 8; 9] = XOk [1; 2; 3; 4; 6; 7; 8; 9].
Proof. exact identity_nonvacuous. Qed.

(* C10_colourmap_rule: colour-mapped 8/16-bpp server: pixel value p is looked up in the map
   (black beyond its end) and each component is (c * (outMax+1)) >> 8|16 at the client's shift,
   client byte order, other bits 0 *)
Theorem C10_colourmap_rule_host_order_server : forall econ sf cf cf' st msg cm stride w h input out,
  set_translate econ sf cf = SetupOk cf' st msg ->
  tc sf = false -> (bpp sf = 8 \/ bpp sf = 16) -> client_ok cf' -> be sf = false -> cmap_ok cm ->
  bytes_ok input ->
  translate_fn st sf cf' cm stride w h input = XOk out ->
  st = SSingleCM /\
  forall r x, 0 <= r < h -> 0 <= x < w ->
    exists rgb,
      cm_rgb cm (src_pixel sf input (r * row_step sf stride + x * (bpp sf / 8))) = Some rgb /\
      slice out ((r * w + x) * (bpp cf' / 8)) (bpp cf' / 8) = client_bytes cf' (cm_pixel cf' cm rgb).
Proof. exact cm_rule_via_setup. Qed.

Theorem C10_colourmap_components : forall cf cm r g b, client_ok cf ->
  0 <= r < 2 ^ cm_shift cm -> 0 <= g < 2 ^ cm_shift cm -> 0 <= b < 2 ^ cm_shift cm ->
  comp (cm_pixel cf cm (r, g, b)) (rs cf) (rmax cf) = (r * (rmax cf + 1)) / 2 ^ cm_shift cm /\
  comp (cm_pixel cf cm (r, g, b)) (gs cf) (gmax cf) = (g * (gmax cf + 1)) / 2 ^ cm_shift cm /\
  comp (cm_pixel cf cm (r, g, b)) (bs cf) (bmax cf) = (b * (bmax cf + 1)) / 2 ^ cm_shift cm /\
  0 <= cm_pixel cf cm (r, g, b) < 2 ^ bpp cf.
Proof. exact cm_pixel_components. Qed.

Example C10_colourmap_nonvacuous :
  cmap_ok cm_demo /\
  set_translate false f_cm8 (f_rgb888 true) = SetupOk (f_rgb888 true) SSingleCM [] /\
  translate_fn SSingleCM f_cm8 (f_rgb888 true) cm_demo 3 3 1 [0; 1; 2] = XOk [0; 255; 0; 128; 0; 0; 0; 0; 0; 0; 0; 0].
Proof. exact cm_nonvacuous. Qed.

(* C10_bgr233_map: a colour-map (non-true-colour) 8-bpp client gets the SetColourMapEntries message
   whose entry i is the colour pixel value i denotes under BGR233Format (regenerated from
   translate.c), components scaled c*65535/max, 16-bit big endian; and is then served as BGR233 *)
Theorem C10_bgr233_map :
  firstn (Z.to_nat c10_sz_scme) bgr233_msg = [c10_msg_scme; 0; 0; 0; 1; 0] /\
  Z.of_nat (length bgr233_msg) = c10_sz_scme + 256 * 6 /\
  forall i, 0 <= i < 256 -> slice bgr233_msg (c10_sz_scme + 6 * i) 6 = bgr233_entry_spec i.
Proof. exact bgr233_map_rule. Qed.

Theorem C10_bgr233_selected : forall econ sf cf cf' st msg,
  set_translate econ sf cf = SetupOk cf' st msg ->
  ((tc cf = true /\ cf' = cf /\ msg = []) \/ (tc cf = false /\ bpp cf = 8 /\ cf' = bgr233 /\ msg = bgr233_msg)) /\
  (st = SNone \/ (tc sf = true /\ st = SSingleTC /\ bpp sf <= 16) \/ (tc sf = false /\ st = SSingleCM /\ bpp sf <= 16) \/
   (st = SRGB /\ 16 <= bpp sf)).
Proof. exact setup_cases. Qed.

Theorem C10_bgr233_supported : client_ok bgr233.
Proof. exact bgr233_is_client_ok. Qed.

Example C10_bgr233_nonvacuous :
  set_translate false (f_rgb565 false) (mkfmt 8 8 false false 0 0 0 0 0 0) = SetupOk bgr233 SSingleTC bgr233_msg.
Proof. exact cmclient_nonvacuous. Qed.

(* C10_area_exact (full statement): output length = w*h*bpp_out/8 and the bytes read are exactly the
   w x h input area. *)
Theorem C10_area_out_length : forall st sf cf cm stride w h input out,
  (bpp sf = 8 \/ bpp sf = 16 \/ bpp sf = 24 \/ bpp sf = 32) -> 0 <= bpp cf -> bpp cf <> 24 -> bytes_ok input ->
  translate_fn st sf cf cm stride w h input = XOk out ->
  Z.of_nat (length out) = w * h * (bpp cf / 8).
Proof. exact translate_out_length. Qed.

(* C10_area_exact: for every server pixel size the loads are exactly the pixel cells of the w x h area
   (offset r*stride + x*size, length size); stride pixel-aligned for 8/16/32-bpp servers (the C code
   divides it by the pixel size), arbitrary for 24 bpp. *)
Theorem C10_area_exact : forall st sf cf stride w h o l,
  st <> SNone -> (bpp sf = 8 \/ bpp sf = 16 \/ bpp sf = 24 \/ bpp sf = 32) ->
  (bpp sf <> 24 -> stride mod (bpp sf / 8) = 0) ->
  (In (o, l) (reads_fn st sf cf stride w h) <->
   exists r x, 0 <= r < h /\ 0 <= x < w /\ o = r * stride + x * (bpp sf / 8) /\ l = bpp sf / 8).
Proof. exact reads_area_exact_now. Qed.

(* and an input holding exactly the area is enough, 24-bpp servers included *)
Theorem C10_area_exact_sufficient : forall st sf cf cm stride w h input,
  (st = SSingleTC \/ st = SRGB) -> (bpp sf = 8 \/ bpp sf = 16 \/ bpp sf = 24 \/ bpp sf = 32) ->
  (bpp cf = 8 \/ bpp cf = 16 \/ bpp cf = 32) -> zero_max sf = false ->
  0 <= stride -> (bpp sf <> 24 -> stride mod (bpp sf / 8) = 0) -> 0 <= w -> 0 <= h ->
  (0 < w -> 0 < h -> (h - 1) * stride + w * (bpp sf / 8) <= Z.of_nat (length input)) ->
  exists out, translate_fn st sf cf cm stride w h input = XOk out.
Proof. exact translate_area_sufficient_now. Qed.

(* ... where [reads_fn] is tied to the executable function in both directions: a successful run
   made every listed load inside the buffer, a fault is a listed load crossing the buffer end *)
Theorem C10_area_reads_inside : forall st sf cf cm stride w h input out,
  st <> SNone -> (bpp sf = 8 \/ bpp sf = 16 \/ bpp sf = 24 \/ bpp sf = 32) -> 0 <= bpp cf -> bpp cf <> 24 -> bytes_ok input ->
  translate_fn st sf cf cm stride w h input = XOk out ->
  forall o l, In (o, l) (reads_fn st sf cf stride w h) -> 0 <= o /\ o + l <= Z.of_nat (length input).
Proof. exact translate_ok_reads_inside. Qed.

Theorem C10_area_fault_is_read : forall st sf cf cm stride w h input k,
  st <> SNone -> (bpp sf = 8 \/ bpp sf = 16 \/ bpp sf = 24 \/ bpp sf = 32) -> bpp cf <> 24 ->
  translate_fn st sf cf cm stride w h input = XFault k ->
  exists o l, In (o, l) (reads_fn st sf cf stride w h) /\ Z.of_nat (length input) < o + l /\
              k = Z.max o (Z.of_nat (length input)).
Proof. exact translate_fault_is_read. Qed.

(* the former witnesses of F10 (24-bpp area of exactly 3 bytes), F10b (16-bit to 16-bit component) and
   F10d (white pixel to a 24-bpp client through three tables) now translate according to the rule *)
Example C10_former_witnesses_repaired :
  translate_fn SRGB f_rgb24 (f_rgb565 false) empty_cmap 3 1 1 [1; 2; 3] = XOk [0; 0] /\
  translate_fn SRGB f_r16a f_r16b empty_cmap 4 1 1 [128; 76; 236; 227] = XOk [236; 227; 128; 76] /\
  translate_fn SRGB (f_rgb888 false) f_rgb24 empty_cmap 4 1 1 [255; 255; 255; 0] = XOk [255; 255; 255].
Proof. exact former_witnesses_repaired. Qed.

Example C10_area_nonvacuous :
  translate_fn SRGB f_rgb24 (f_rgb565 false) empty_cmap 3 1 1 [1; 2; 3; 0] = XOk [0; 0] /\
  reads_fn SRGB f_rgb24 (f_rgb565 false) 3 1 1 = [(0, load24_bytes)] /\
  reads_fn SRGB (f_rgb888 false) (f_rgb565 false) 8 2 2 = [(0, 4); (4, 4); (8, 4); (12, 4)].
Proof. exact area_nonvacuous. Qed.

(* rfbSetClientColourMap for a true-colour client.  DEFINITIONAL: this only unfolds [recolour]; that the C
   function rebuilds the table from the screen's current map exactly when the server is colour-mapped
   and the client ready, and then replaces cl->modifiedRegion by the whole screen
   ([recolour_marks_screen]), is established by the correspondence run (op recmap: table checksum, mod=,
   later pixels), not by proof.  The colour-map rule is stated for any map, hence for the new one. *)
Theorem C10_recolour_unfolding : forall sf ready tcm scm,
  (tc sf = false -> ready = true -> recolour sf ready tcm scm = scm) /\
  (tc sf = true \/ ready = false -> recolour sf ready tcm scm = tcm).
Proof. exact recolour_spec. Qed.

(* rfbNewFramebuffer with a connected client.  Mostly DEFINITIONAL (unfolds [new_framebuffer]; content: the
   memcmp [fmt_eqb] decides record equality); the tie to main.c is the correspondence run (op newfb).
   The new server format is the one rfbInitServerFormat builds;
   either it is identical to the old one (field by field, flags included) and nothing needs to change, or
   rfbSetTranslateFunction is re-run for the client against the new format -- in particular when only the
   trueColour flag differs (colour-mapped 8-bit server replaced by a true-colour one).  The formats it
   establishes are in the supported domain and in host byte order, so C10_rule applies afterwards. *)
Theorem C10_newfb_unfolding : forall econ sf bytespp bps cfe,
  fst (new_framebuffer econ sf bytespp bps cfe) = init_server_format bytespp bps /\
  ((snd (new_framebuffer econ sf bytespp bps cfe) = None /\ init_server_format bytespp bps = sf) \/
   (snd (new_framebuffer econ sf bytespp bps cfe) = Some (set_translate econ (init_server_format bytespp bps) cfe) /\
    init_server_format bytespp bps <> sf)).
Proof. exact new_framebuffer_spec. Qed.

Theorem C10_newfb_format_supported : forall bytespp bps,
  (bytespp = 1 \/ bytespp = 2 \/ bytespp = 3 \/ bytespp = 4) -> 1 <= bps <= 16 ->
  (bytespp <> 1 -> 3 * bps <= 8 * bytespp) ->
  server_ok (init_server_format bytespp bps) /\ be (init_server_format bytespp bps) = false.
Proof. exact init_server_format_ok. Qed.

Example C10_newfb_nonvacuous :
  snd (new_framebuffer false (mkfmt 8 8 false false 7 7 3 0 3 6) 1 8 (f_rgb888 false)) =
    Some (SetupOk (f_rgb888 false) SSingleTC []) /\
  snd (new_framebuffer false (init_server_format 4 8) 4 8 (f_rgb565 false)) = None.
Proof. exact new_framebuffer_nonvacuous. Qed.

(* ---- audit follow-up ------------------------------------------------------------------------- *)
(* the single-table functions are never selected for 24- or 32-bpp servers: in particular the 4-byte
   store of rfbTranslateWithSingleTable24to24 (tabletrans24template.c) is dead code.  Out-of-area WRITES
   are otherwise inexpressible in this model (the output is a returned list; only its length is proved,
   C10_area_out_length): that clause of the property is correspondence-only (canary + guard region). *)
Theorem C10_single_table_not_for_24 : forall econ sf cf cf' st msg,
  set_translate econ sf cf = SetupOk cf' st msg -> 16 < bpp sf -> st = SNone \/ st = SRGB.
Proof. exact single_table_not_for_24. Qed.

(* table bounds: every index used is below the number of malloc'ed entries, for any source value *)
Theorem C10_rgb_index_in_table : forall v s m, 0 <= m -> 0 <= comp v s m < m + 1.
Proof. exact rgb_index_in_table. Qed.

Theorem C10_single_index_in_table : forall l, bytes_ok l -> 0 <= le_val l < 2 ^ (8 * Z.of_nat (length l)).
Proof. exact single_index_in_table. Qed.

Theorem C10_table_size : forall sf cf cm,
  (bpp cf = 8 \/ bpp cf = 16 \/ bpp cf = 32) -> 0 <= bpp sf -> 0 <= rmax sf -> 0 <= gmax sf -> 0 <= bmax sf ->
  Z.of_nat (length (table_bytes SSingleTC sf cf cm)) = 2 ^ bpp sf * (bpp cf / 8) /\
  Z.of_nat (length (table_bytes SRGB sf cf cm)) = (rmax sf + gmax sf + bmax sf + 3) * (bpp cf / 8).
Proof. exact table_bytes_size. Qed.

(* the verbatim function: its read set [reads_fn SNone] is tied to translate_fn in both directions *)
Theorem C10_area_none_reads_inside : forall sf cf cm stride w h input out,
  0 <= bpp cf ->
  translate_fn SNone sf cf cm stride w h input = XOk out ->
  forall o l, In (o, l) (reads_fn SNone sf cf stride w h) -> 0 < l -> 0 <= o /\ o + l <= Z.of_nat (length input).
Proof. exact none_reads_inside. Qed.

Theorem C10_area_none_fault_is_read : forall sf cf cm stride w h input k,
  translate_fn SNone sf cf cm stride w h input = XFault k ->
  exists o l, In (o, l) (reads_fn SNone sf cf stride w h) /\ Z.of_nat (length input) < o + l /\
              k = Z.max o (Z.of_nat (length input)).
Proof. exact none_fault_is_read. Qed.

(* "rounding to nearest": the C formula (c*outMax + inMax/2)/inMax is within half a step of the exact
   quotient c*outMax/inMax *)
Theorem C10_scale_nearest : forall c i o, 1 <= i -> 0 <= c -> 0 <= o ->
  2 * Z.abs (scale_spec c i o * i - c * o) <= i.
Proof. exact scale_spec_nearest. Qed.

(* PF_EQ and the swap decisions compare the STORED bigEndian bytes with == ; every writer stores the
   normalised byte (TRUE = 255 / FALSE = 0), so that comparison is the comparison of the booleans of
   the model whatever non-zero byte a client sends.  That the writers do normalise is established by
   the correspondence run only (op setupmsg with bytes 1, 2, 128, 255; seeds C10_D, C10_F). *)
Theorem C10_stored_flags : forall a b,
  (stored_flag (wire_flag a) =? stored_flag (wire_flag b)) = Bool.eqb (wire_flag a) (wire_flag b).
Proof. exact stored_flags_compare. Qed.

(* translator tie of the byte-swap macros: the model's swaps reproduce the values obtained by
   compiling Swap16 / Swap32 of rfb.h on probes with pairwise distinct bytes *)
Theorem C10_swap_macros_tied : swap16 258 = c10_swap16_probe /\ swap32 16909060 = c10_swap32_probe.
Proof. exact (conj LV.Pixel.TranslateBits.swap16_probe LV.Pixel.TranslateBits.swap32_probe). Qed.
