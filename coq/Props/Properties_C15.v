(* C15 - Cursor handling never damages the framebuffer and shows the right cursor.
   Only property theorems here, each closed by [exact] of a lemma proved in Cursor/*.v.
   All functions named here (show, hide, send_update, pump, set_cursor, set_encodings, ptr_event, fur,
   fill, shape_msg, make_mask_for_xcursor, make_rich_from_x) are the mirror functions that are
   extracted and executed by the correspondence run.  The boolean parameters select between the code
   in the tree (true) and the code before a repair (false, kept as the record of the defect):
     fixed    - clip of rfbShowCursor/rfbHideCursor    (F15,  /repo commit 1a3b6d2)
     v_empty  - cursor without pixels in rfbSendCursorShape (F15b, /repo commit 0775c26)
     v_switch - SetEncodings that withdraws cursor-shape support (F15c, /repo commit 2b32386)
     v_cache  - (use_shared) built-in cursor shared by all screens (F15d, /repo commit 8f58d2d)
   The correspondence run executes the model with all four = true. *)
From LV Require Import Cursor.CursorDefs Cursor.CursorProofs Cursor.CursorSession Cursor.CursorSessionProofs
  Cursor.CursorMaskProofs Cursor.CursorShapeProofs Cursor.CursorColour Cursor.CursorAudit Cursor.CursorXFromRich Cursor.CursorSurvivors Cursor.CursorReqClip Gen.Consts_C15.
Local Open Scope Z_scope.

(* ---------------------------------------------------------------- rfbShowCursor / rfbHideCursor *)
(* hide (show fb) = fb: every framebuffer, cursor shape (mask or alpha, X or rich source), size,
   hot-spot and pointer position (on-screen, partly or wholly off-screen), both clip variants;
   neither call runs into an out-of-range access *)
Theorem C15_hide_show_id : forall fixed fmt f c px py ub,
  wf_fb f -> wf_cursor c ->
  exists f1 buf c', show fixed fmt f c px py ub = Some (f1, buf, c') /\
                    hide fixed f1 c' px py buf = Some f.
Proof. exact hide_show_id. Qed.

(* the picture that is encoded = cursor laid over the framebuffer, every pixel (the tree, since 1a3b6d2) *)
Theorem C15_show_is_overlay : forall fmt f c px py ub f1 buf c' r,
  wf_fb f -> show true fmt f c px py ub = Some (f1, buf, c') -> crich c' = Some r ->
  forall x y, fb_get f1 x y = overlay_get fmt c' r px py f x y.
Proof. exact show_is_overlay_fixed. Qed.

(* what a cell of that overlay IS, stated without the mirror function, for cursors without alpha channel:
   mask bit set => the cursor's pixel, else the pixel underneath ([cursor_cell] is defined through
   show_val).  With an alpha channel the cell is the mirror of rfbShowCursor's blend loop ([blend]):
   NOT proved against an independent per-channel formula - compared with the Python oracle's own formula
   in the correspondence run only. *)
Theorem C15_overlay_cell_mask_spec : forall fmt c r u v p,
  calpha c = None -> 0 <= u < cw c -> 0 <= v < ch c ->
  length (cmask c) = Z.to_nat (w8 c * ch c) -> length r = Z.to_nat (cw c * ch c) ->
  cursor_cell fmt c r u v p = cell_mask_spec c r u v p.
Proof. exact cursor_cell_mask_spec. Qed.

(* record of F15 - the clip before 1a3b6d2 (fixed = false): overlay only left of the last column and
   above the last row, which were never painted *)
Theorem C15_show_is_overlay_old_clip_partial : forall fmt f c px py ub f1 buf c' r,
  show false fmt f c px py ub = Some (f1, buf, c') -> crich c' = Some r ->
  forall x y, x < fw f - 1 -> y < fh f - 1 ->
  fb_get f1 x y = overlay_get fmt c' r px py f x y.
Proof. exact show_is_overlay_partial. Qed.

Theorem C15_last_column_old_clip_refuted :
  exists fmt f c px py ub f1 buf c' r x y,
    wf_fb f /\ wf_cursor c /\ show false fmt f c px py ub = Some (f1, buf, c') /\ crich c' = Some r /\
    fb_get f1 x y <> overlay_get fmt c' r px py f x y.
Proof. exact last_column_refuted. Qed.

Theorem C15_last_column_old_clip_untouched : forall fmt f c px py ub f1 buf c',
  wf_fb f -> wf_cursor c ->
  show false fmt f c px py ub = Some (f1, buf, c') ->
  forall x y, x = fw f - 1 \/ y = fh f - 1 -> fb_get f1 x y = fb_get f x y.
Proof. exact show_last_column_untouched. Qed.

(* ---------------------------------------------------------------- the bracket in rfbSendFramebufferUpdate *)
(* after every update - delivered, suppressed or failed in the middle (failnext) - the
   application's framebuffer is what it was *)
Theorem C15_update_restores_fb : forall fixed v_empty fmt s cl s' cl' o,
  wf_fb (sfb s) -> wf_ocursor (scur s) ->
  send_update fixed v_empty fmt s cl = Some (s', cl', o) -> sfb s' = sfb s.
Proof. exact send_update_restores. Qed.

Theorem C15_update_soft_total : forall fixed v_empty fmt s cl,
  wf_fb (sfb s) -> wf_ocursor (scur s) -> shape cl = false ->
  exists r, send_update fixed v_empty fmt s cl = Some r.
Proof. exact send_update_soft_total. Qed.

(* ---------------------------------------------------------------- the picture follows the pointer *)
(* Inv: outside its modifiedRegion a client's picture is the framebuffer with the cursor laid over it
   (painted_px: up to column/row lim) at the position the client knows; for cursor-shape clients
   the bare framebuffer.  Every operation of a session keeps it: *)
Theorem C15_redraw_covers : forall fixed v_empty fmt s cl s' cl' o,
  wf_fb (sfb s) -> wf_ocursor (scur s) -> failnext cl = false ->
  Inv fixed fmt s cl -> send_update fixed v_empty fmt s cl = Some (s', cl', o) ->
  Inv fixed fmt s' cl'.
Proof. exact inv_send_update. Qed.

Theorem C15_redraw_covers_all_clients_no_write_failure : forall fixed v_empty fmt cls s s' res,
  wf_fb (sfb s) -> wf_ocursor (scur s) ->
  Forall (fun cl => failnext cl = false) cls ->
  Forall (Inv fixed fmt s) cls ->
  pump fixed v_empty fmt s cls = Some (s', res) ->
  sfb s' = sfb s /\ wf_ocursor (scur s') /\ ocursor_equiv fmt (scur s) (scur s') /\
  Forall (Inv fixed fmt s') (map fst res).
Proof. exact inv_pump. Qed.

(* ... and when writes FAIL (any client, any number of them): the client whose write fails is closed; every
   client that is still open after the round has its invariant.  AInv s cl = (alive cl = true -> Inv s cl). *)
Theorem C15_redraw_covers_all_clients : forall fixed v_empty fmt cls s s' res,
  wf_fb (sfb s) -> wf_ocursor (scur s) ->
  Forall (AInv fixed fmt s) cls ->
  pump fixed v_empty fmt s cls = Some (s', res) ->
  sfb s' = sfb s /\ wf_ocursor (scur s') /\ ocursor_equiv fmt (scur s) (scur s') /\
  Forall (AInv fixed fmt s') (map fst res).
Proof. exact inv_pump_alive. Qed.

Theorem C15_update_any_outcome : forall fixed v_empty fmt s cl s' cl' o,
  wf_fb (sfb s) -> wf_ocursor (scur s) ->
  Inv fixed fmt s cl -> send_update fixed v_empty fmt s cl = Some (s', cl', o) ->
  AInv fixed fmt s' cl'.
Proof. exact inv_send_update_alive. Qed.

(* the application replaces the cursor from its displayHook at the head of rfbSendFramebufferUpdate
   (rfbSetCursor during an update, possibly one whose write fails): the framebuffer is restored, and
   when the writes succeed every client keeps its invariant, over a whole round of the event loop *)
Theorem C15_update_with_hook_restores_fb : forall fixed v_empty fmt hook s cls k s' cls' o fired,
  wf_fb (sfb s) -> wf_ocursor (scur s) ->
  (forall hk nc, hook = Some (hk, nc) -> wf_ocursor nc) ->
  update_one fixed v_empty fmt hook s cls k = Some (s', cls', o, fired) -> sfb s' = sfb s.
Proof. exact update_one_restores. Qed.

Theorem C15_redraw_covers_with_hook_no_write_failure : forall k fixed v_empty fmt hook s cls outs s' cls' outs' fired,
  wf_fb (sfb s) -> wf_ocursor (scur s) ->
  (forall hk nc, hook = Some (hk, nc) -> wf_ocursor nc) ->
  Forall (fun cl => failnext cl = false) cls ->
  Forall (Inv fixed fmt s) cls ->
  pump_rounds k fixed v_empty fmt hook s cls outs = Some (s', cls', outs', fired) ->
  sfb s' = sfb s /\ wf_ocursor (scur s') /\ Forall (Inv fixed fmt s') cls'.
Proof. exact inv_pump_rounds. Qed.

(* the same rounds when writes may fail: survivors keep their invariant *)
Theorem C15_redraw_covers_with_hook : forall fuel fixed v_empty fmt hook s cls outs s' cls' outs' fired,
  wf_fb (sfb s) -> wf_ocursor (scur s) ->
  (forall hk nc, hook = Some (hk, nc) -> wf_ocursor nc) ->
  Forall (AInv fixed fmt s) cls ->
  pump_rounds fuel fixed v_empty fmt hook s cls outs = Some (s', cls', outs', fired) ->
  sfb s' = sfb s /\ wf_ocursor (scur s') /\ Forall (AInv fixed fmt s') cls'.
Proof. exact ainv_pump_rounds. Qed.


Theorem C15_picture_converges_if_sent : forall fixed v_empty fmt s cl s' cl' o,
  wf_fb (sfb s) -> wf_ocursor (scur s) -> failnext cl = false ->
  Inv fixed fmt s cl -> send_update fixed v_empty fmt s cl = Some (s', cl', o) ->
  (forall x y, 0 <= x < fw (sfb s) -> 0 <= y < fh (sfb s) -> req cl x y = true) ->
  o_sent o = true ->
  (shape cl = false -> clx cl' = sx s' /\ cly cl' = sy s') /\
  forall x y, fb_get (pic cl') x y = option_map (px_of fixed fmt s' cl' x y) (fb_get (sfb s') x y).
Proof. exact picture_converges. Qed.

Theorem C15_inv_new_client : forall fixed fmt s, wf_fb (sfb s) -> Inv fixed fmt s (new_client s).
Proof. exact inv_new_client. Qed.

Theorem C15_inv_request : forall fixed fmt s cl incr x y w h,
  Inv fixed fmt s cl -> Inv fixed fmt s (fur cl incr x y w h).
Proof. exact inv_fur. Qed.

Theorem C15_inv_pointer_event : forall fixed fmt s cls k x y,
  Forall (Inv fixed fmt s) cls ->
  Forall (Inv fixed fmt (fst (ptr_event s cls k x y))) (snd (ptr_event s cls k x y)).
Proof. exact inv_ptr_event. Qed.

Theorem C15_inv_modification : forall fixed fmt s cls x1 y1 x2 y2 v,
  Forall (Inv fixed fmt s) cls ->
  Forall (Inv fixed fmt (fst (fill s cls x1 y1 x2 y2 v))) (snd (fill s cls x1 y1 x2 y2 v)).
Proof. exact inv_fill. Qed.

Theorem C15_inv_cursor_replacement : forall fixed fmt s cls nc,
  wf_fb (sfb s) -> Forall (Inv fixed fmt s) cls ->
  Forall (Inv fixed fmt (fst (set_cursor s cls nc))) (snd (set_cursor s cls nc)).
Proof. exact inv_set_cursor. Qed.

(* SetEncodings (the tree, since 2b32386) *)
Theorem C15_inv_set_encodings : forall fixed fmt s encs cl,
  wf_fb (sfb s) -> Inv fixed fmt s cl -> Inv fixed fmt s (set_encodings true s encs cl).
Proof. exact inv_set_encodings_tree. Qed.

(* record of F15c - before 2b32386 (v_switch = false) only when the client does not go from
   cursor-shape updates back to a painted cursor *)
Theorem C15_inv_set_encodings_old_partial : forall fixed fmt v_switch s encs cl,
  wf_fb (sfb s) -> Inv fixed fmt s cl ->
  v_switch = true \/ shape cl = false \/ shape (set_encodings v_switch s encs cl) = true ->
  Inv fixed fmt s (set_encodings v_switch s encs cl).
Proof. exact inv_set_encodings. Qed.

Theorem C15_set_encodings_old_switch_refuted :
  exists fixed fmt s cl encs,
    wf_fb (sfb s) /\ wf_ocursor (scur s) /\ Inv fixed fmt s cl /\
    ~ Inv fixed fmt s (set_encodings false s encs cl).
Proof. exact set_encodings_switch_refuted. Qed.

(* ---------------------------------------------------------------- pointer position updates *)
Theorem C15_pos_updates : forall s cls k x y i cl,
  (x, y) <> (sx s, sy s) -> nth_error cls i = Some cl ->
  let s' := fst (ptr_event s cls k x y) in
  sx s' = x /\ sy s' = y /\
  exists cl', nth_error (snd (ptr_event s cls k x y)) i = Some cl' /\ posupd cl' = posupd cl /\
    (posupd cl = true -> moved cl' = negb (Z.of_nat i =? k)).
Proof. exact ptr_event_flags. Qed.

Theorem C15_pos_message : forall fixed v_empty fmt s cl s' cl' o,
  send_update fixed v_empty fmt s cl = Some (s', cl', o) -> failnext cl = false ->
  (posupd cl && moved cl = true -> o_sent o = true /\ o_pos o = Some (sx s, sy s) /\ moved cl' = false) /\
  (posupd cl && moved cl = false -> o_pos o = None /\ moved cl' = moved cl).
Proof. exact send_update_pos. Qed.

(* ---------------------------------------------------------------- cursor conversions and shape message *)
(* rfbMakeMaskForXCursor: mask = source dilated by one pixel (bitmap bytes below 256) *)
Theorem C15_mask_for_xcursor : forall width height src m,
  0 <= width -> 0 <= height ->
  Forall (fun v => 0 <= v < 256) src ->
  make_mask_for_xcursor width height src = Some m ->
  let w := (width + 7) / 8 in
  forall x y, 0 <= x < 8 * w -> 0 <= y < height ->
    pixel w height m x y =
    (pixel w height src (x - 1) y || pixel w height src (x - 1) (y - 1) || pixel w height src (x - 1) (y + 1)) ||
    (pixel w height src x y || pixel w height src x (y - 1) || pixel w height src x (y + 1)) ||
    (pixel w height src (x + 1) y || pixel w height src (x + 1) (y - 1) || pixel w height src (x + 1) (y + 1)).
Proof. exact mask_is_dilation. Qed.

(* rfbMakeRichCursorFromXCursor, size and SELECTION only: cw*ch pixels, pixel (i,j) is the foreground word
   where the source bitmap has a 1, the background word elsewhere.  The two words are the mirror of the C
   expression (rgb_word); what colour they are is the next theorems. *)
Theorem C15_rich_from_x_selection_mirrored : forall fmt c r, 0 <= cw c -> 0 <= ch c ->
  make_rich_from_x fmt c = Some r ->
  Z.of_nat (length r) = ch c * cw c /\
  forall i j, 0 <= i < cw c -> 0 <= j < ch c ->
    exists byte, zidx (opt_list (csource c)) (j * w8 c + i / 8) = Some byte /\
      zidx r (j * cw c + i) =
      Some (if bit_of byte i then pixmod fmt (rgb_word fmt (cfore c)) else pixmod fmt (rgb_word fmt (cback c))).
Proof. exact rich_from_x_spec. Qed.

(* colour of an X-style cursor, independent statement (CursorColour.v): a 16-bit component comp means
   the channel value max*comp/65535 - (p >> shift) & max of the pixel.  Every true-colour format with
   separate channels inside a pixel of at most 4 bytes, every cursor. *)
Theorem C15_rich_from_x_colour : forall fmt kr kg kb c r,
  fmt_ok fmt kr kg kb -> bpp fmt <= 4 -> kr <= 16 -> kg <= 16 -> kb <= 16 -> 0 <= cw c -> 0 <= ch c ->
  (let '(r, g, b) := cfore c in 0 <= r <= 65535 /\ 0 <= g <= 65535 /\ 0 <= b <= 65535) ->
  (let '(r, g, b) := cback c in 0 <= r <= 65535 /\ 0 <= g <= 65535 /\ 0 <= b <= 65535) ->
  make_rich_from_x fmt c = Some r -> rich_from_x_ok fmt c r.
Proof. exact rich_from_x_colour. Qed.

(* record of F15e: before the fix the component was shifted unscaled.  32 bpp 8/8/8, foreground
   (32768,0,0) = half red gave the pixel 0x8000: red channel 0, green channel 128. *)
Theorem C15_rich_from_x_colour_old_refuted :
  pixmod fmt32 (rgb_word_unscaled fmt32 (cfore col_cur)) = 32768 /\
  red_of fmt32 32768 = 0 /\ green_of fmt32 32768 = 128 /\ chan 255 32768 = 127 /\
  ~ colour_ok fmt32 (cfore col_cur) (pixmod fmt32 (rgb_word_unscaled fmt32 (cfore col_cur))).
Proof. exact rich_from_x_colour_old_refuted. Qed.

(* ... and the word that is right for every true-colour format with separate channels inside the pixel
   (what the library computes since the fix of F15e) *)
Theorem C15_rgb_word_scaled_ok : forall fmt kr kg kb c3,
  fmt_ok fmt kr kg kb ->
  (let '(r, g, b) := c3 in 0 <= r <= 65535 /\ 0 <= g <= 65535 /\ 0 <= b <= 65535) ->
  colour_ok fmt c3 (pixmod fmt (rgb_word_scaled fmt c3)).
Proof. exact rgb_word_scaled_ok. Qed.

(* C15_x_from_rich - rfbMakeXCursorFromRichCursor, stated without the mirror's loops (CursorXFromRich.v): size,
   hot-spot, mask, pixels, alpha, background unchanged; the foreground becomes white exactly when the colours are
   interpolated (all six components 0 and 1, 2 or 4 bytes per pixel); source bit (i,j) - row-major, (cw+7)/8
   bytes per row, most significant bit first - is  luminance(pixel) >= 128  when interpolating (mean of the three
   channels (p >> shift) & max scaled to 0..255) and  pixel <> background pixel  otherwise (background pixel =
   channels max*comp/65535, colour_ok); padding bits are 0.  Every true-colour format with separate channels of
   at least one bit inside a pixel of at most 4 bytes.  This is the function whose result C15_shape_message's
   rich -> XCursor payload is stated on.  (trueColour = FALSE: C takes the second rule; not modelled.) *)
Theorem C15_x_from_rich : forall fmt kr kg kb c c',
  fmt_ok fmt kr kg kb -> 1 <= kr -> 1 <= kg -> 1 <= kb -> bpp fmt <= 4 ->
  (let '(r, g, b) := cback c in 0 <= r /\ 0 <= g /\ 0 <= b) ->
  0 <= cw c -> 0 <= ch c -> make_x_from_rich fmt c = Some c' ->
  cw c' = cw c /\ ch c' = ch c /\ cxhot c' = cxhot c /\ cyhot c' = cyhot c /\ cmask c' = cmask c /\
  crich c' = crich c /\ calpha c' = calpha c /\ cback c' = cback c /\
  cfore c' = (if interp_of fmt c then (65535, 65535, 65535) else cfore c) /\
  exists src, csource c' = Some src /\ length src = Z.to_nat (w8 c * ch c) /\
    forall i j, 0 <= i < 8 * w8 c -> 0 <= j < ch c ->
      if i <? cw c
      then exists p, zidx (opt_list (crich c)) (j * cw c + i) = Some p /\ src_bit c src i j = x_bit_rule fmt c p
      else src_bit c src i j = false.
Proof. exact x_from_rich_spec. Qed.

(* rfbSendCursorShape: a cursor with pixels is announced with its exact hot-spot and size, followed
   by exactly the payload RFB prescribes: colours + bitmap + mask (XCursor) or pixels + mask *)
Theorem C15_shape_message : forall v_empty rich fmt c oc' bytes,
  0 <= cxhot c < 65536 -> 0 <= cyhot c < 65536 -> cw c < 65536 -> ch c < 65536 -> 0 <= bpp fmt ->
  visible c ->
  shape_msg v_empty rich fmt (Some c) = Some (oc', bytes) ->
  exists c', oc' = Some c' /\ cw c' = cw c /\ ch c' = ch c /\ cmask c' = cmask c /\
    (rich = true -> crich c <> None -> crich c' = crich c) /\
    (rich = false -> csource c <> None -> csource c' = csource c /\ cfore c' = cfore c /\ cback c' = cback c) /\
    get16 bytes 0 = cxhot c /\ get16 bytes 2 = cyhot c /\ get16 bytes 4 = cw c /\ get16 bytes 6 = ch c /\
    firstn 12 bytes = rect_header (cxhot c) (cyhot c) (cw c) (ch c) (if rich then enc_richcursor else enc_xcursor) /\
    Z.of_nat (length bytes) = 12 + rfb_cursor_payload_len rich (bpp fmt) (cw c) (ch c) /\
    skipn 12 bytes =
      (if rich
       then flat_map (le_bytes (Z.to_nat (bpp fmt))) (firstn (Z.to_nat (cw c * ch c)) (opt_list (crich c')))
       else (let '(fr, fg, fb_) := cfore c' in let '(br, bg, bb) := cback c' in
             [byte (fr / 256); byte (fg / 256); byte (fb_ / 256); byte (br / 256); byte (bg / 256); byte (bb / 256)])
            ++ firstn (Z.to_nat (w8 c * ch c)) (opt_list (csource c')))
      ++ firstn (Z.to_nat (w8 c * ch c)) (cmask c).
Proof. exact shape_message_visible. Qed.

Theorem C15_shape_message_no_cursor : forall v_empty rich fmt,
  shape_msg v_empty rich fmt None = Some (None, rect_header 0 0 0 0 (if rich then enc_richcursor else enc_xcursor)).
Proof. exact shape_message_none. Qed.

(* a cursor of width or height 0: 12 bytes, no payload (the tree, since 0775c26) *)
Theorem C15_shape_message_empty : forall rich fmt c oc' bytes,
  cw c = 0 \/ ch c = 0 ->
  shape_msg true rich fmt (Some c) = Some (oc', bytes) ->
  bytes = rect_header 0 0 0 0 (if rich then enc_richcursor else enc_xcursor) /\
  Z.of_nat (length bytes) = 12 + rfb_cursor_payload_len rich (bpp fmt) (cw c) (ch c).
Proof. exact shape_message_empty_fixed. Qed.

(* record of F15b - before 0775c26 (v_empty = false): six stray bytes *)
Theorem C15_shape_message_empty_old_refuted :
  exists fmt c oc' bytes,
    cw c = 0 /\ shape_msg false false fmt (Some c) = Some (oc', bytes) /\
    Z.of_nat (length bytes) <> 12 + rfb_cursor_payload_len false (bpp fmt) (cw c) (ch c).
Proof. exact shape_message_empty_refuted. Qed.

(* ---------------------------------------------------------------- one cursor object, several screens *)
(* C15_rich_cache_matches_format (the tree since 8f58d2d: every screen has its own copy of the
   built-in cursor): the rich form a screen works with was derived for that screen's format *)
Theorem C15_rich_cache_matches_format : forall tag fmt c c' r,
  tag <> None ->
  ensure_rich fmt (use_shared true tag fmt c) = Some (c', r) ->
  make_rich_from_x fmt c = Some r.
Proof. exact rich_cache_matches_format. Qed.

(* record of F15d - before 8f58d2d: the built-in cursor (static, shared by all screens of the process) kept the rich
   form derived for the first screen; a screen with larger pixels reads beyond that buffer *)
Theorem C15_rich_cache_old_refuted :
  exists c1 r1, ensure_rich fmt8 default_cursor = Some (c1, r1) /\
    show true fmt32 (mkfb 12 9 (repeat (repeat 0 12) 9)) (use_shared false (Some (bpp fmt8)) fmt32 c1) 5 4 [] = None /\
    exists res, show true fmt32 (mkfb 12 9 (repeat (repeat 0 12) 9)) (use_shared true (Some (bpp fmt8)) fmt32 c1) 5 4 [] = Some res.
Proof. exact rich_cache_old_refuted. Qed.

(* ---------------------------------------------------------------- the cached rich form and the server format *)
(* CacheOK fmt c: the rich form the library derived from an X-style cursor is what
   rfbMakeRichCursorFromXCursor gives for the CURRENT serverFormat.  Kept by deriving it
   (rfbShowCursor / rfbSendCursorShape), by rfbNewFramebuffer (any change of serverFormat - pixel size,
   maxima or shifts - drops it) and by handing the built-in cursor to another screen. *)
Theorem C15_rich_cache_valid_derive : forall fmt c c' r,
  CacheOK fmt c -> ensure_rich fmt c = Some (c', r) -> CacheOK fmt c'.
Proof. exact cache_ok_ensure_rich. Qed.

Theorem C15_rich_cache_valid_new_framebuffer : forall fold fnew c c',
  CacheOK fold c -> newfb_cursor fold fnew (Some c) = Some c' -> CacheOK fnew c'.
Proof. exact cache_ok_newfb. Qed.

Theorem C15_rich_cache_valid_other_screen : forall tag fmt c, tag <> None -> CacheOK fmt (use_shared true tag fmt c).
Proof. exact cache_ok_use_shared. Qed.

Theorem C15_inv_new_framebuffer_same_size : forall fixed fold fnew s cls f,
  wf_fb f -> same_shape f (sfb s) ->
  Forall (Inv fixed fold s) cls ->
  Forall (Inv fixed fnew (fst (new_framebuffer fold fnew s cls f))) (snd (new_framebuffer fold fnew s cls f)).
Proof. exact inv_new_framebuffer. Qed.

(* ---------------------------------------------------------------- update region clipped to the request
   (repair of C03's F22, notes/fix_C03_8.diff; variant `reqclip` of the correspondence run, chosen from the
   source text).  send_update_r / pump_r / pump_rounds_r = the flow with the repair:
       region sent = (modified /\ requested \/ cursor redraw) /\ requested, the remainder stays modified.
   Every statement about the framebuffer and the client invariant carries over unchanged; CONVERGENCE now needs
   the client to request the cursor area - every full-screen or covering request does (premise Rq below);
   until then the area stays in modifiedRegion and the invariant says nothing false about it. *)
Theorem C15_update_restores_fb_req_clip : forall fixed v_empty fmt s cl s' cl' o,
  wf_fb (sfb s) -> wf_ocursor (scur s) ->
  send_update_r fixed v_empty fmt s cl = Some (s', cl', o) -> sfb s' = sfb s.
Proof. exact send_update_r_restores. Qed.

Theorem C15_redraw_covers_req_clip : forall fixed v_empty fmt s cl s' cl' o,
  wf_fb (sfb s) -> wf_ocursor (scur s) -> failnext cl = false ->
  Inv fixed fmt s cl -> send_update_r fixed v_empty fmt s cl = Some (s', cl', o) ->
  Inv fixed fmt s' cl'.
Proof. exact inv_send_update_r. Qed.

Theorem C15_update_any_outcome_req_clip : forall fixed v_empty fmt s cl s' cl' o,
  wf_fb (sfb s) -> wf_ocursor (scur s) ->
  Inv fixed fmt s cl -> send_update_r fixed v_empty fmt s cl = Some (s', cl', o) ->
  AInv fixed fmt s' cl'.
Proof. exact inv_send_update_r_alive. Qed.

(* what stays modified after a sent update: the old remainder and the part of the cursor redraw outside the request *)
Theorem C15_modified_after_update_req_clip : forall fixed v_empty fmt s cl s' cl' o,
  send_update_r fixed v_empty fmt s cl = Some (s', cl', o) -> o_sent o = true ->
  forall x y, modif cl' x y = rgn_sub (modif cl) (rgn_and (modif cl) (req cl)) x y || su_rest s cl x y.
Proof. exact send_update_r_modif. Qed.

Theorem C15_redraw_covers_all_clients_req_clip : forall fixed v_empty fmt cls s s' res,
  wf_fb (sfb s) -> wf_ocursor (scur s) ->
  Forall (AInv fixed fmt s) cls ->
  pump_r fixed v_empty fmt s cls = Some (s', res) ->
  sfb s' = sfb s /\ wf_ocursor (scur s') /\ ocursor_equiv fmt (scur s) (scur s') /\
  Forall (AInv fixed fmt s') (map fst res).
Proof. exact inv_pump_r_alive. Qed.

Theorem C15_redraw_covers_with_hook_req_clip : forall fuel fixed v_empty fmt hook s cls outs s' cls' outs' fired,
  wf_fb (sfb s) -> wf_ocursor (scur s) ->
  (forall hk nc, hook = Some (hk, nc) -> wf_ocursor nc) ->
  Forall (AInv fixed fmt s) cls ->
  pump_rounds_r fuel fixed v_empty fmt hook s cls outs = Some (s', cls', outs', fired) ->
  sfb s' = sfb s /\ wf_ocursor (scur s') /\ Forall (AInv fixed fmt s') cls'.
Proof. exact ainv_pump_rounds_r. Qed.

(* Rq: the request covers the whole screen, hence the cursor area *)
Theorem C15_picture_converges_if_sent_req_clip : forall fixed v_empty fmt s cl s' cl' o,
  wf_fb (sfb s) -> wf_ocursor (scur s) -> failnext cl = false ->
  Inv fixed fmt s cl -> send_update_r fixed v_empty fmt s cl = Some (s', cl', o) ->
  (forall x y, 0 <= x < fw (sfb s) -> 0 <= y < fh (sfb s) -> req cl x y = true) ->
  o_sent o = true ->
  (shape cl = false -> clx cl' = sx s' /\ cly cl' = sy s') /\
  forall x y, fb_get (pic cl') x y = option_map (px_of fixed fmt s' cl' x y) (fb_get (sfb s') x y).
Proof. exact picture_converges_r. Qed.

(* ---------------------------------------------------------------- NOT PROVED - tested by the correspondence
   run and the Python oracle only (audit notes/audit_B.md, C15 items 3-11):
   - bytes, row stride, padding: the model framebuffer is a list of rows of pixel values; bytes-per-pixel and
     paddedWidthInBytes arithmetic of cursor.c is exercised by the harness (op `stride`: rows further apart than
     width*bpp, padding bytes must stay untouched), not modelled.  bufSize = cw*ch*bpp is an `int` product in C
     and the malloc results of rfbShowCursor/rfbMake*Cursor* are unchecked: statements hold for cw*ch*bpp < 2^31.
   - rounds with failing writes: PROVED since the final round (C15_redraw_covers_all_clients,
     C15_redraw_covers_with_hook, C15_update_any_outcome: every client still open keeps Inv); the variants named
     _no_write_failure conclude Inv for all clients under the premise that no write fails.
   - C15_rich_cache_valid_*: CacheOK is preserved by the operations named there; it is not a premise of a picture
     theorem and not proved preserved by shape_msg (rfbSendCursorShape derives the rich form for the CLIENT's
     translation) - the consumer is C15_rich_cache_matches_format for the built-in cursor only.
   - rfbMakeXCursorFromRichCursor: PROVED since the final round (C15_x_from_rich) for true-colour formats;
     its trueColour = FALSE branch and redMax = 0 (division by zero in C) are outside the model.
   - C15_pos_message: on the abstract pair (x, y); the wire bytes and the 16-bit truncation of rfbSendCursorPos
     are compared by the correspondence run.  The 1x1 transparent cursor sent when there is no cursor
     (C15_shape_message_no_cursor) is stated; the rule for a rich cursor without source bitmap is not.
   - C15_inv_new_framebuffer_same_size: same size and pixel size only; a resize (and cl->cursorX, which
     rfbNewFramebuffer does not clamp) has no theorem.
   - C15_picture_converges_if_sent: assumes the update was sent (o_sent = true); "a pointer move forces a
     non-empty update" is not proved.
   - CopyRect cursor logic of rfbScheduleCopyRegion, slices, colour-mapped and big-endian server formats, rich
     pixels for a client format different from the server format: no theorem (the latter two: not generated). *)
