(* C03 - Server output is a well-formed RFB stream within negotiated capabilities.
   Only property theorems here, each closed by [exact] of a lemma proved in Wire/*Proofs.v.
   All statements are about the functions that the correspondence run executes (extracted from
   Wire/CountsModel.v, Wire/CapsModel.v, Wire/UpdateModel.v, Wire/S2CModel.v), over the
   constants regenerated from /repo (Gen/Consts_C03.v) and the re-translated
   rfbNumCodedRectsTight (Gen/Funs_C03.v). *)
From Coq Require Import List ZArith Bool.
From LV Require Import Gen.Consts_C03 Gen.Funs_C03 Region.RegionDefs
     Wire.CountsModel Wire.CountsProofs Wire.CapsModel Wire.UpdateModel Wire.CapsProofs
     Wire.S2CModel Wire.S2CProofs Region.RegionProofs Wire.InsideProofs Wire.ModelProofs Wire.S2CSound Scale.ScaleQ Wire.RunProofs Wire.ClipModel.
Import ListNotations.
Local Open Scope Z_scope.

(* ---- announced per-rectangle count = number of rectangle headers emitted, all w,h >= 1 ---- *)

(* CoRRE: ceil(w/mw)*ceil(h/mh) headers for every correMaxWidth/Height >= 1; the pieces lie
   inside the rectangle and their areas add up to it *)
Theorem C03_count_corre : forall mw mh x y w h, 1 <= mw -> 1 <= mh -> 1 <= w -> 1 <= h ->
  exists l, emit_corre (corre_fuel w h) mw mh x y w h = Some l /\
            count_corre mw mh w h = Some (Z.of_nat (length l)) /\
            Forall (inside x y w h) l /\ sum_area l = w * h.
Proof. exact count_corre_emitted. Qed.

Example C03_count_corre_nonvacuous :
  emit_corre (corre_fuel 100 50) 48 48 3 4 100 50 =
    Some [(3, 4, 48, 48); (51, 4, 48, 48); (99, 4, 4, 48); (3, 52, 48, 2); (51, 52, 48, 2); (99, 52, 4, 2)] /\
  count_corre 48 48 100 50 = Some 6.
Proof. split; reflexivity. Qed.

Theorem C03_count_zlib : forall x y w h, 1 <= w -> 1 <= h ->
  exists l, emit_zlib x y w h = Some l /\ count_zlib w h = Some (Z.of_nat (length l)) /\
            Forall (inside x y w h) l /\ sum_area l = w * h.
Proof. exact (count_split_rows_emitted ZLIB_MAX_RECT_SIZE). Qed.

Example C03_count_zlib_nonvacuous :
  emit_zlib 0 0 1000 70 = Some [(0, 0, 1000, 32); (0, 32, 1000, 32); (0, 64, 1000, 6)] /\ count_zlib 1000 70 = Some 3.
Proof. split; reflexivity. Qed.

Theorem C03_count_ultra : forall x y w h, 1 <= w -> 1 <= h ->
  exists l, emit_ultra x y w h = Some l /\ count_ultra w h = Some (Z.of_nat (length l)) /\
            Forall (inside x y w h) l /\ sum_area l = w * h.
Proof. exact (count_split_rows_emitted ULTRA_MAX_RECT_SIZE). Qed.

Example C03_count_ultra_nonvacuous :
  emit_ultra 5 5 20000 3 = Some [(5, 5, 20000, 2); (5, 7, 20000, 1)] /\ count_ultra 20000 3 = Some 2.
Proof. split; reflexivity. Qed.

(* the hand-mirrored ZLIB_MAX_SIZE / ULTRA_MAX_SIZE macros agree with the real macros at the
   sample points regenerated from rfb.h *)
Theorem C03_zlib_macro_tie :
  max_size ZLIB_MAX_RECT_SIZE 1 = zlib_max_size_at_1 /\
  max_size ZLIB_MAX_RECT_SIZE 16384 = zlib_max_size_at_16384 /\
  max_size ZLIB_MAX_RECT_SIZE 16385 = zlib_max_size_at_16385 /\
  max_size ZLIB_MAX_RECT_SIZE 50000 = zlib_max_size_at_50000.
Proof. exact zlib_macro_samples. Qed.

Theorem C03_ultra_macro_tie :
  max_size ULTRA_MAX_RECT_SIZE 1 = ultra_max_size_at_1 /\
  max_size ULTRA_MAX_RECT_SIZE 16384 = ultra_max_size_at_16384 /\
  max_size ULTRA_MAX_RECT_SIZE 16385 = ultra_max_size_at_16385 /\
  max_size ULTRA_MAX_RECT_SIZE 50000 = ultra_max_size_at_50000.
Proof. exact ultra_macro_samples. Qed.

(* Tight, data-independent path (SendRectSimple): the translated rfbNumCodedRectsTight equals the
   number of sub-rectangle headers of the nested loops *)
Theorem C03_count_tight_simple : forall lastrect x y w h, 1 <= w -> 1 <= h ->
  tight_uses_simple lastrect w h = true ->
  exists l, emit_tight_simple x y w h = Some l /\
            count_tight lastrect x y w h = Z.of_nat (length l) /\
            Forall (inside x y w h) l /\ sum_area l = w * h.
Proof. exact count_tight_simple_emitted. Qed.

Example C03_count_tight_simple_nonvacuous :
  tight_uses_simple false 5000 40 = true /\
  emit_tight_simple 0 0 5000 40 =
    Some [(0, 0, 2048, 32); (2048, 0, 2048, 32); (4096, 0, 904, 32); (0, 32, 2048, 8); (2048, 32, 2048, 8); (4096, 32, 904, 8)] /\
  count_tight false 0 0 5000 40 = 6.
Proof. repeat split; reflexivity. Qed.

(* Tight with LastRect: the count is "unknown" (0) exactly when the data-dependent split is used,
   and that path is only reachable if the client enabled LastRect *)
Theorem C03_count_tight_unknown : forall lastrect x y w h, 1 <= w -> 1 <= h ->
  (count_tight lastrect x y w h = 0 <-> tight_uses_simple lastrect w h = false) /\
  (tight_uses_simple lastrect w h = false -> lastrect = true).
Proof.
  intros lastrect x y w h Hw Hh. split;
    [exact (count_tight_zero_iff lastrect x y w h Hw Hh) | exact (tight_unknown_needs_lastrect lastrect w h)].
Qed.

Example C03_count_tight_unknown_nonvacuous :
  count_tight true 0 0 64 64 = 0 /\ count_tight true 0 0 63 65 = 1 /\ count_tight false 0 0 64 64 = 1.
Proof. repeat split; reflexivity. Qed.

(* every encoding (generic = one header per region rectangle; Raw needs w,h >= 1).  For a [pref] that is not
   one of the ten pixel encodings (nor -1) the model emits one header where the C switch has no case and
   emits nothing: such a value is unreachable (C03_caps_state: pref_ok), the statement is meant for
   pref_ok values.  The emission of
   one non-degenerate region rectangle has as many headers as rfbSendFramebufferUpdate counts for
   it, never traps, and stays inside the rectangle *)
Theorem C03_count_generic : forall pref lastrect cmw cmh r, 1 <= cmw -> 1 <= cmh -> nondeg r ->
  match emit_rect pref lastrect cmw cmh r with
  | EmKnown l => rect_count pref lastrect cmw cmh r = Some (Z.of_nat (length l)) /\
                 (1 <= length l)%nat /\ Forall (inside_r r) l /\ sum_area l = area r
  | EmData r' => r' = r /\ lastrect = true /\ (classify pref = EcTight \/ classify pref = EcTightPng) /\
                 rect_count pref lastrect cmw cmh r = Some 0
  | EmTrap => False
  end.
Proof. exact emit_rect_count. Qed.

Example C03_count_generic_nonvacuous :
  emit_rect enc_Hextile false 48 48 (1, 2, 300, 200) = EmKnown [(1, 2, 300, 200)] /\
  emit_rect enc_Raw false 48 48 (1, 2, 300, 200) = EmKnown [(1, 2, 300, 200)] /\
  emit_rect enc_Tight true 48 48 (0, 0, 64, 64) = EmData (0, 0, 64, 64).
Proof. repeat split; reflexivity. Qed.

(* ---- the whole update, count stage BEFORE dccedf3 (function [announce]) ----
   Full statement (FALSE for that code, see the _refuted theorems):
     forall inputs, announce ... = Some (n, region', lm) ->
       n = ncopy + (number of headers emitted for region') + npseudo  /\  (lm = true -> lastrect = true).
   Provable part: all region rectangles non-degenerate and fewer than 65535 rectangles. *)
Theorem C03_update_count_partial :
  forall pref lastrect cmw cmh maxrects region ncopy npseudo n region' lm k,
  1 <= cmw -> 1 <= cmh -> Forall nondeg region -> 0 <= ncopy -> 0 <= npseudo ->
  announce pref lastrect cmw cmh maxrects region ncopy npseudo = Some (n, region', lm) ->
  emitted_len (emit_region pref lastrect cmw cmh region) = Some k ->
  k <> 65535 ->
  exists k', emitted_len (emit_region pref lastrect cmw cmh region') = Some k' /\
             (ncopy + k' + npseudo < 65536 -> n = ncopy + k' + npseudo) /\ lm = false /\
             1 <= k' + b2z (k =? 0) /\ k' <= k.
Proof. exact update_count. Qed.

Example C03_update_count_nonvacuous :
  announce enc_CoRRE false 48 48 50 [(0, 0, 100, 50); (0, 50, 10, 10)] 2 1 =
    Some (10, [(0, 0, 100, 50); (0, 50, 10, 10)], false) /\
  emitted_len (emit_region enc_CoRRE false 48 48 [(0, 0, 100, 50); (0, 50, 10, 10)]) = Some 7.
Proof. split; reflexivity. Qed.

(* BASELINE = the count stage of /repo since b5537e4 ([announce_fixed true]: dccedf3 = explicit lastRectMode flag +
   bounding box of the update region when the total would reach 0xFFFF; b5537e4 = when that is not enough because
   the COPY rectangles alone reach the field size, they are merged into the update region and sent as pixels).
   The announced count is the number of rectangle headers that follow; LastRect termination only for a Tight
   client that enabled LastRect.  No hypothesis on the number of region rectangles, none on the number of
   copy rectangles, the empty region (pseudo-rectangle-only and copy-only updates) is covered.
   Remaining hypothesis, hence the name: the splitting of ONE rectangle -- the bounding box of everything --
   by the preferred encoding, plus the six possible pseudo-rectangles, fits the 16-bit field (false only for
   CoRRE on screens of more than about 150 million pixels).  Arithmetic is over Z: the C code computes in
   32-bit int, the theorems are about geometries with w*h < 2^31 (every framebuffer up to 32767 x 32767). *)
Theorem C03_update_count_partial_bbox : forall pref lastrect cmw cmh maxrects region copyl npseudo n region' lm keep,
  1 <= cmw -> 1 <= cmh -> Forall nondeg region -> Forall nondeg copyl -> 0 <= npseudo <= 6 ->
  (forall n2 lrm2, count_stage pref lastrect cmw cmh (bbox_region (bbox_region region ++ copyl)) = Some (n2, lrm2) ->
                   lrm2 = false -> n2 + 6 < 65535) ->
  announce_fixed true pref lastrect cmw cmh maxrects region copyl npseudo = Some (n, region', lm, keep) ->
  (lm = true -> n = 65535 /\ lastrect = true /\ is_tight_class pref = true) /\
  (lm = false -> exists k, emitted_len (emit_region pref lastrect cmw cmh region') = Some k /\
                           n = (if keep then Z.of_nat (length copyl) else 0) + k + npseudo /\ n < 65535).
Proof. exact update_count_fixed. Qed.

Example C03_update_count_partial_bbox_nonvacuous :
  (exists r', announce_fixed true enc_Raw false 48 48 0 (repeat (0, 0, 1, 1) (Z.to_nat 300)) (repeat (5, 5, 1, 1) (Z.to_nat 100)) 0
              = Some (400, r', false, true)) /\
  announce_fixed true enc_Tight true 48 48 50 [(0, 0, 64, 64)] [] 0 = Some (65535, [(0, 0, 64, 64)], true, true) /\
  announce_fixed true enc_CoRRE false 48 48 50 [(0, 0, 100, 50); (0, 50, 10, 10)] [(1, 1, 2, 2); (3, 3, 1, 1)] 1
    = Some (10, [(0, 0, 100, 50); (0, 50, 10, 10)], false, true) /\
  announce_fixed true enc_Raw false 48 48 50 [] [] 3 = Some (3, [], false, true).
Proof. exact announce_fixed_examples. Qed.

(* F24 (finding of the audit, reproduced on /repo ec71507, repaired by b5537e4; regression witness
   corpus/C03/F24_copy_count_wrap.script): the first repair alone ([announce_fixed false] = /repo between dccedf3
   and b5537e4) still wraps when the COPY rectangles reach the field size:
   65535 copy rectangles announce the LastRect sentinel without LastRect, 65536 announce 0; with the second
   stage the same input announces 1 and sends 1 *)
Theorem C03_count_wrap_copy_refuted :
  announce_fixed false enc_Raw false 48 48 50 [] (repeat (0, 0, 1, 1) (Z.to_nat 65535)) 0 = Some (65535, [], false, true) /\
  announce_fixed false enc_Raw false 48 48 50 [] (repeat (0, 0, 1, 1) (Z.to_nat 65536)) 0 = Some (0, [], false, true) /\
  (exists r k, announce_fixed true enc_Raw false 48 48 50 [] (repeat (0, 0, 1, 1) (Z.to_nat 65536)) 0 = Some (1, [r], false, false) /\
               emitted_len (emit_region enc_Raw false 48 48 [r]) = Some k /\ k = 1).
Proof. exact count_wrap_copy_witness. Qed.

(* C03_update_count_model: what the correspondence run executes.  For an unscaled client whose regions are well
   formed and whose requestedRegion lies inside the screen ([snap_ok]), with both repairs in the source, an
   update predicted by [model_update] announces exactly the number of headers it contains -- pseudo-rectangles,
   copy rectangles and the rectangles of the splitting loops together -- and that number is below 65535;
   non-degeneracy is DERIVED (C11 set semantics), not assumed. *)
Theorem C03_update_count_model_unscaled : forall g c sn c' n hs ovf,
  g_wrap_coalesce g = true -> g_wrap_copy g = true -> snap_ok sn ->
  (let c0 := bpp24_prelude g c sn in let sc := decide_sends g c0 (sn_ledval sn) in
   bbox_fits g (snd sc) sn (plan_regions (snd sc) (fst sc) sn)) ->
  model_update g c sn = (c', USent n hs false ovf) ->
  phdr_count hs = Some n /\ n < 65535.
Proof. exact model_update_count. Qed.

(* totality: under the same conditions the model (and the count stage) never traps *)
Theorem C03_model_update_total_unscaled : forall g c sn,
  g_wrap_coalesce g = true -> snap_ok sn -> forall why, snd (model_update g c sn) <> UTrap why.
Proof. exact model_update_total. Qed.

Theorem C03_count_stage_total : forall ts pref lastrect cmw cmh maxrects region copyl npseudo,
  1 <= cmw -> 1 <= cmh -> Forall nondeg region -> Forall nondeg copyl ->
  announce_fixed ts pref lastrect cmw cmh maxrects region copyl npseudo <> None.
Proof. exact announce_fixed_total. Qed.

(* LastRect-terminated updates: only for a Tight client that enabled LastRect -- or by the
   collision of an exact count of 65535 with the sentinel (F5) *)
Theorem C03_lastrect_mode_partial :
  forall pref lastrect cmw cmh maxrects region ncopy npseudo n region',
  1 <= cmw -> 1 <= cmh -> Forall nondeg region ->
  announce pref lastrect cmw cmh maxrects region ncopy npseudo = Some (n, region', true) ->
  n = 65535 /\ region' = region /\
  ((lastrect = true /\ (classify pref = EcTight \/ classify pref = EcTightPng)) \/
   emitted_len (emit_region pref lastrect cmw cmh region) = Some 65535).
Proof. exact lastrect_mode. Qed.

Example C03_lastrect_mode_nonvacuous :
  announce enc_Tight true 48 48 50 [(0, 0, 64, 64)] 0 0 = Some (65535, [(0, 0, 64, 64)], true).
Proof. reflexivity. Qed.

(* every emitted rectangle lies inside the region rectangle it was cut from (all encodings) *)
Theorem C03_rects_inside_region : forall pref lastrect cmw cmh region, 1 <= cmw -> 1 <= cmh ->
  Forall nondeg region ->
  Forall2 (fun r e => match e with
                      | EmKnown l => Forall (inside_r r) l /\ sum_area l = area r
                      | EmData r' => r' = r
                      | EmTrap => False end)
          region (emit_region pref lastrect cmw cmh region).
Proof. exact emit_region_inside. Qed.

(* ---- C03_rects_inside (unscaled client): with the set semantics of the region mirror (C11) ----
   requestedRegion, built from any history of 16-bit requests, is well formed and inside the screen; *)
Theorem C03_requested_inside_unscaled_fixedsize : forall W H qs, Forall r16q qs ->
  WF (fold_left (add_request W H) qs rgn_empty) /\ within W H (fold_left (add_request W H) qs rgn_empty).
Proof. exact requested_within. Qed.

(* then, for well-formed client regions, every rectangle of the region stage of
   rfbSendFramebufferUpdate (incl. the cursor area added for clients without cursor-shape updates)
   is non-degenerate and inside the screen, and so are the copy rectangles AND their sources.
   Scope (suffix): unscaled client, screen size constant between the requests and the update -- after
   rfbNewFramebuffer requestedRegion may lie outside the new screen, and a client without NewFBSize is not
   told the new size (F22); *)
Theorem C03_rects_inside_unscaled_fixedsize : forall c1 s sn,
  1 <= sn_fbw sn -> 1 <= sn_fbh sn ->
  WF (sn_mod sn) -> WF (sn_req sn) -> WF (sn_copy sn) -> within (sn_fbw sn) (sn_fbh sn) (sn_req sn) ->
  Forall (rect_in_screen (sn_fbw sn) (sn_fbh sn)) (pl_region (plan_regions c1 s sn)) /\
  Forall (copy_in_screen (sn_fbw sn) (sn_fbh sn) (sn_dx sn) (sn_dy sn)) (pl_copy (plan_regions c1 s sn)).
Proof. exact plan_inside. Qed.

(* and every header the splitting loops emit for it (after the optional bounding-box coalescing) lies
   inside the screen, for every encoding.  (What is NOT implied: that the screen size is the size
   last announced to a client without NewFBSize -- finding F22.) *)
Theorem C03_rects_inside_emitted_unscaled_fixedsize :
  forall g pref lastrect cmw cmh maxrects region copyl npseudo n region' lm keep W H,
  1 <= cmw -> 1 <= cmh -> Forall (rect_in_screen W H) region -> Forall (rect_in_screen W H) copyl ->
  announce_sel g pref lastrect cmw cmh maxrects region copyl npseudo = Some (n, region', lm, keep) ->
  Forall (rect_in_screen W H) region' /\
  Forall (fun e => match e with
                   | EmKnown l => Forall (rect_in_screen W H) l
                   | EmData r => rect_in_screen W H r
                   | EmTrap => False end)
         (emit_region pref lastrect cmw cmh region').
Proof. exact emitted_inside_screen_sel. Qed.

Example C03_rects_inside_nonvacuous :
  let req := fold_left (add_request 20 10) [(3, 3, 0, 4); (15, 5, 100, 100); (0, 0, 4, 4)] rgn_empty in
  rgn_iter false false req = [(0, 0, 4, 4); (15, 5, 20, 10)] /\ Forall r16q [(3, 3, 0, 4); (15, 5, 100, 100); (0, 0, 4, 4)] /\
  snap_ok (mkSnap (rgn_create_rect 0 0 20 10) req rgn_empty 0 0 0 0 0 0 None 0 20 10 50 48 48 1 32 0 0).
Proof. exact rects_inside_example. Qed.

(* ---- C03_rects_inside_scaled: SCALED clients.  rfbSendFramebufferUpdate maps every region rectangle with
   rfbScaledCorrection (exact geometry Scale/ScaleQ.v: [correctionQ]; that the double arithmetic of scale.c agrees
   with it is C17's tie) before counting and encoding it.  Every rectangle then emitted -- after the count stage
   the model runs, bounding-box coalescing included -- lies inside the scaled screen (tw x th), i.e. the size told
   to that client by ResizeFrameBuffer / NewFBSize (C17 size_told).  The containment of the mapped rectangle is
   C17's lemma corr1Q_inside (Scale/ScaleProofs.v), used, not re-proved.  (Scaled clients get no CopyRect since
   b141ef8, hence the empty copy list.) *)
Theorem C03_rects_inside_scaled : forall g c1 s sn tw th pref lastrect cmw cmh maxrects npseudo n region' lm keep,
  1 <= sn_fbw sn -> 1 <= sn_fbh sn -> 1 <= tw -> 1 <= th -> 1 <= cmw -> 1 <= cmh ->
  WF (sn_mod sn) -> WF (sn_req sn) -> WF (sn_copy sn) -> within (sn_fbw sn) (sn_fbh sn) (sn_req sn) ->
  announce_sel g pref lastrect cmw cmh maxrects
               (map (scale_rect (sn_fbw sn) (sn_fbh sn) tw th) (pl_region (plan_regions c1 s sn))) [] npseudo
    = Some (n, region', lm, keep) ->
  Forall (rect_in_screen tw th) region' /\
  Forall (fun e => match e with
                   | EmKnown l => Forall (rect_in_screen tw th) l
                   | EmData r => rect_in_screen tw th r
                   | EmTrap => False end)
         (emit_region pref lastrect cmw cmh region').
Proof. exact rects_inside_scaled. Qed.

Example C03_rects_inside_scaled_nonvacuous :
  scale_rect 100 50 33 16 (98, 48, 2, 2) = (32, 15, 1, 1) /\ scale_rect 100 50 33 16 (0, 0, 100, 50) = (0, 0, 33, 16) /\
  scale_rect 100 50 33 16 (10, 10, 1, 1) = (3, 3, 1, 1).
Proof. repeat split; reflexivity. Qed.

(* ---- C03_resize_run: the resize clause at RUN level.  State: screen size, size last told to the client,
   capability state.  Events: the application resizes (rfbNewFramebuffer: pending flag for a client with
   NewFBSize), an update runs (with modifiedRegion / copyRegion inside the current screen -- what
   rfbNewFramebuffer establishes; requestedRegion may still hold rectangles of the OLD geometry).
   For a client that enabled NewFBSize or ExtDesktopSize, along EVERY run: an update is either exactly one
   rectangle, the size message carrying the CURRENT screen size (after which that is the size told), or all its
   pixel and copy rectangles lie inside the size last told; the invariant "the client knows the screen size or
   the size message is pending" is preserved. *)
Theorem C03_resize_run : forall g evs st, rinv st -> run_ok g st evs.
Proof. exact run_resize_inside. Qed.

Example C03_resize_run_nonvacuous :
  rinv ex_run_state /\ ev_ok ex_run_state (EvResize 24 12) /\
  ev_ok (rstep (mkCfg false false false false true true true true) ex_run_state (EvResize 24 12)) (EvUpdate ex_run_snap) /\
  snd (model_update (mkCfg false false false false true true true true)
         (r_caps (rstep (mkCfg false false false false true true true true) ex_run_state (EvResize 24 12))) ex_run_snap)
  = USent 1 [PH (0, 0, 24, 12, enc_NewFBSize)] false false.
Proof. exact ex_run. Qed.

(* ---- C03_rects_inside_requested (F22, repaired by 0013b67; [plan_regions] / [model_update] are the flow WITH the
   repair, the library's; [plan_regions_old] the flow before it).  Every pixel rectangle and every copy destination
   of an update lies inside the region the client REQUESTED (any box W' x H' containing the requests) -- no
   hypothesis on modifiedRegion / copyRegion / the screen size, hence across rfbNewFramebuffer and also for clients
   that cannot be told the new size (no NewFBSize / ExtDesktopSize). *)
Theorem C03_rects_inside_requested : forall c1 s sn W' H',
  1 <= sn_fbw sn -> 1 <= sn_fbh sn ->
  WF (sn_mod sn) -> WF (sn_req sn) -> WF (sn_copy sn) ->
  within W' H' (sn_req sn) ->
  Forall (rect_in_screen W' H') (pl_region (plan_regions c1 s sn)) /\
  Forall (fun rc => let '(x1, y1, x2, y2) := rc in 0 <= x1 /\ x1 < x2 /\ x2 <= W' /\ 0 <= y1 /\ y1 < y2 /\ y2 <= H')
         (pl_copy (plan_regions c1 s sn)).
Proof. exact plan_inside_requested. Qed.

Example C03_rects_inside_requested_nonvacuous :
  within 80 70 (sn_req (f22_snap 83)) /\
  pl_region (plan_regions caps_init (mkSends false false false false false false) (f22_snap 83)) = [(10, 6, 2, 2)] /\
  pl_region (plan_regions caps_init (mkSends false false false false false false) (f22_snap 40)) = [(10, 6, 2, 2); (40, 6, 2, 2)].
Proof. exact f22_after_fix. Qed.

(* before 0013b67 the statement failed: the client asked for 80x70 (the size it knows), the screen had grown to
   84x70, the cursor moved to x = 83 -- the cursor rectangle 83,6,1,2 was planned (F22; the witness
   corpus/C03/F22_resize_without_newfbsize.script is replayed on the implementation on every run) *)
Theorem C03_rects_inside_requested_before_fix_refuted :
  within 80 70 (sn_req (f22_snap 83)) /\
  ~ Forall (rect_in_screen 80 70)
           (pl_region (plan_regions_old caps_init (mkSends false false false false false false) (f22_snap 83))).
Proof. exact f22_before_fix. Qed.

(* ---- F26: the count statement WITHOUT the hypothesis [snap_ok] is false, and the library itself produces the
   counterexample: rfbScheduleCopyRegion ORs the rectangle of a cursor of height 0 into modifiedRegion; that region
   is "not empty" without containing a pixel (cf. C11_degenerate_refuted).  On the observed snapshot the update flow
   announces 8 rectangles and emits 4 (two of height 0).  Witness corpus/C03/F26_zero_height_cursor_copy.script
   is replayed on the implementation on every run; proposed repair notes/fix_C03_9.diff. *)
Theorem C03_update_count_degenerate_region_refuted :
  rgn_is_empty (sn_mod f26_snap) = false /\
  (forall x y, rgn_mem (sn_mod f26_snap) x y = false) /\
  exists hs, snd (model_update f26_cfg f26_caps f26_snap) = USent 8 hs false false /\
             phdr_count hs = Some 4 /\
             hs = [PH (1, 0, 6, 2, enc_CopyRect); PH (4, 2, 3, 0, enc_CopyRect); PH (1, 2, 2, 0, enc_CopyRect); PH (1, 2, 6, 2, enc_CopyRect)].
Proof. exact f26_witness. Qed.

(* ---- refutations: the faithful model violates the full statement; each witness is replayed on
   the real library by props/C03.py (findings F4, F4b, F5, F6) ---- *)

(* F4 (root cause repaired in /repo by d5a464d, see C03_request_never_degenerate below): a
   zero-width region rectangle is counted, Raw sends nothing.  rfbSendFramebufferUpdate itself still
   behaves like this for a degenerate region, hence the non-degeneracy hypothesis of the _partial
   theorems; what changed is that a client request can no longer create such a region *)
Theorem C03_zero_dim_refuted :
  exists region n, announce enc_Raw false 48 48 50 region 0 0 = Some (n, region, false) /\
                   emitted_len (emit_region enc_Raw false 48 48 region) = Some 0 /\ n = 1.
Proof. exists [(5, 5, 0, 3)], 1. destruct zero_dim_witness as [A B]. repeat split; assumption. Qed.

(* F4b: with Zlib / Ultra preferred the count computation divides by zero for the same request *)
Theorem C03_zero_width_trap_refuted :
  exists region, announce enc_Zlib false 48 48 50 region 0 0 = None /\
                 announce enc_Ultra false 48 48 50 region 0 0 = None.
Proof. exists [(5, 5, 0, 3)]. exact zero_width_trap_witness. Qed.

(* F5: the 16-bit count wraps (65536 rectangles announce 0) ... *)
Theorem C03_count_wrap_refuted :
  exists region r', announce enc_Raw false 48 48 0 region 0 0 = Some (0, r', false) /\
                    emitted_len (emit_region enc_Raw false 48 48 region) = Some 65536.
Proof.
  exists (repeat (0, 0, 1, 1) (Z.to_nat 65536)). destruct count_wrap_witness as [[r' A] B].
  exists r'. split; assumption.
Qed.

(* ... and exactly 65535 rectangles switch to LastRect mode although the client never enabled it *)
Theorem C03_count_sentinel_refuted :
  exists region r', announce enc_Raw false 48 48 0 region 0 0 = Some (65535, r', true) /\
                    emitted_len (emit_region enc_Raw false 48 48 region) = Some 65535.
Proof.
  exists (repeat (0, 0, 1, 1) (Z.to_nat 65535)). destruct count_sentinel_witness as [[r' A] B].
  exists r'. split; assumption.
Qed.

(* F6 (repaired in /repo by e68aae9): rfbSendCopyRegion now flushes before the next 16 bytes would
   not fit; C03_copyregion_fits holds for EVERY number of copy rectangles and every starting fill
   level: the highest offset written to and the final cl->ublen stay within updateBuf.
   (Before the repair 2048 rectangles wrote past the buffer: witness corpus/C03/F6_copyregion_overflow.script.) *)
Theorem C03_copyregion_fits : forall n u, 0 <= u <= UPDATE_BUF_SIZE ->
  0 <= copy_peak n u <= UPDATE_BUF_SIZE /\ 0 <= copy_ublen n u <= UPDATE_BUF_SIZE.
Proof. exact copy_peak_inside. Qed.

Example C03_copyregion_fits_nonvacuous :
  copy_peak (Z.to_nat 2080) sz_FramebufferUpdateMsg = 32756 /\ copy_ublen (Z.to_nat 2080) sz_FramebufferUpdateMsg = 528.
Proof. exact copy_peak_example. Qed.

(* ---- C03_caps: the SetEncodings state machine ----
   [reach g latest c]: c is the capability state after ANY history of client messages, application
   events and updates (every transition the correspondence run executes), [latest] the list of the
   latest SetEncodings message. *)

(* capability flags are on only if the latest SetEncodings named the pseudo-encoding; the
   preferred encoding is Raw or a pixel encoding named in SOME SetEncodings so far (sticky) *)
Theorem C03_caps_state : forall g latest c, reach g latest c -> pref_ok c /\ flags_ok latest c.
Proof. exact reach_ok. Qed.

Example C03_caps_state_nonvacuous :
  let g := mkCfg false true true true false false false false in
  let c1 := fst (set_encodings g caps_init [enc_Tight; enc_LastRect; enc_RichCursor; enc_PointerPos]) in
  let c2 := fst (set_encodings g c1 [enc_NewFBSize; 12345]) in
  reach g [enc_NewFBSize; 12345] c2 /\
  c_pref c1 = enc_Tight /\ c_lastrect c1 = true /\ c_cursorpos c1 = true /\
  c_pref c2 = enc_Tight /\ c_lastrect c2 = false /\ c_cursorpos c2 = false /\ c_newfbsize c2 = true.
Proof. cbv zeta. split; [apply R_setenc with (latest := [enc_Tight; enc_LastRect; enc_RichCursor; enc_PointerPos]); apply R_setenc with (latest := []); apply R_init|]. repeat split; reflexivity. Qed.

(* every rectangle header of every update the model server emits uses: Raw, a pixel encoding
   named in some SetEncodings so far, CopyRect (only if the client's copyRegion is not empty),
   the LastRect marker (only in LastRect mode), or a pseudo-encoding named in the LATEST SetEncodings.
   PARTIAL: CopyRect and LastRect are not yet tied to the client's lists here -- see C03_caps below *)
Theorem C03_caps_partial : forall g latest c sn c' n hs lm ovf,
  reach g latest c ->
  model_update g c sn = (c', USent n hs lm ovf) ->
  Forall (phdr_justified latest (c_named c) (negb (rgn_is_empty (sn_copy sn))) lm) hs.
Proof. exact caps_update. Qed.

(* C03_caps, strict: CopyRect and the LastRect marker too only if named in the LATEST SetEncodings.
   Hypotheses: both count repairs in the source, [snap_ok], and the bookkeeping invariant "copyRegion is empty
   whenever useCopyRect is off" -- which rfbScheduleCopyRegion maintains (C02) and, since 690d81d (repair of F25:
   a pending copy used to survive the withdrawal of CopyRect), also the SetEncodings case; props/C03.py checks
   the invariant on every snapshot of the real server.
   Reading of "advertised" for PIXEL encodings: named in SOME SetEncodings so far -- the server keeps the
   previous preferred encoding when a later list names no pixel encoding ("Sticking with ...", rfbserver.c) *)
Theorem C03_caps : forall g latest c sn c' n hs lm ovf,
  reach g latest c -> g_wrap_coalesce g = true -> g_wrap_copy g = true -> snap_ok sn ->
  (let c0 := bpp24_prelude g c sn in let sc := decide_sends g c0 (sn_ledval sn) in
   bbox_fits g (snd sc) sn (plan_regions (snd sc) (fst sc) sn)) ->
  (c_copyrect c = false -> rgn_is_empty (sn_copy sn) = true) ->
  model_update g c sn = (c', USent n hs lm ovf) ->
  Forall (phdr_strict latest (c_named c)) hs.
Proof. exact caps_update_strict. Qed.

(* the cursor-position capability is never granted without cursor-shape updates *)
Theorem C03_caps_cursorpos : forall g c l,
  c_cursorpos (fst (set_encodings g c l)) = true -> c_cursorshape (fst (set_encodings g c l)) = true.
Proof. exact set_encodings_cursorpos_needs_shape. Qed.

Example C03_caps_cursorpos_nonvacuous :
  c_cursorpos (fst (set_encodings (mkCfg false false false false false false false false) caps_init [enc_PointerPos])) = false /\
  c_cursorpos (fst (set_encodings (mkCfg false false false false false false false false) caps_init [enc_PointerPos; enc_XCursor])) = true.
Proof. split; reflexivity. Qed.

(* F21 (repaired in /repo by 2d15d75): SetEncodings now resets enableExtendedClipboard with the other
   flags (g_reset_extclip = true; props/C03.py reads this from the source text on every run), and the
   extended-clipboard capability follows the LATEST SetEncodings like every other one: *)
Theorem C03_caps_extclip : forall g c l, g_reset_extclip g = true ->
  c_extclip (fst (set_encodings g c l)) = true -> In enc_ExtendedClipboard l.
Proof. exact set_encodings_extclip. Qed.

Example C03_caps_extclip_nonvacuous :
  let g := mkCfg false false true false true false false false in
  c_extclip (fst (set_encodings g caps_init [enc_ExtendedClipboard])) = true /\
  c_extclip (fst (set_encodings g (fst (set_encodings g caps_init [enc_ExtendedClipboard])) [enc_Raw])) = false.
Proof. split; reflexivity. Qed.

(* ... whereas the code before the repair (g_reset_extclip = false) kept it on: *)
Theorem C03_caps_extclip_refuted :
  exists g c l, c_extclip (fst (set_encodings g c l)) = true /\ ~ In enc_ExtendedClipboard l.
Proof.
  exists (mkCfg false false true false false false false false),
         (fst (set_encodings (mkCfg false false true false false false false false) caps_init [enc_ExtendedClipboard])), [enc_Raw].
  split; [reflexivity|]. intros [H|[]]. discriminate.
Qed.

(* after commit d5a464d ("ignore framebuffer update requests of zero width or height"): the
   rectangle that a FramebufferUpdateRequest adds to requestedRegion / modifiedRegion is never
   degenerate and lies inside the framebuffer, for every 16-bit x, y, w, h (uint16 wrap-around of
   rectSwapIfLEAndClip included).  This discharges, for client requests, the non-degeneracy
   hypothesis of C03_update_count_partial (F4, F4b). *)
Theorem C03_request_never_degenerate_unscaled : forall fbw fbh x y w h x' y' w' h',
  0 <= x < 65536 -> 0 <= y < 65536 -> 0 <= w < 65536 -> 0 <= h < 65536 ->
  clip_request fbw fbh x y w h = Some (x', y', w', h') ->
  x' = x /\ y' = y /\ 1 <= w' <= w /\ 1 <= h' <= h /\ x' + w' <= fbw /\ y' + h' <= fbh.
Proof. exact clip_request_nondegenerate. Qed.

Example C03_request_never_degenerate_unscaled_nonvacuous :
  clip_request 20 10 3 3 0 4 = None /\ clip_request 20 10 3 3 4 0 = None /\
  clip_request 20 10 20 3 5 4 = None /\ clip_request 20 10 30000 3 5 5 = None /\
  clip_request 20 10 19 9 100 100 = Some (19, 9, 1, 1) /\ clip_request 20 10 0 0 20 10 = Some (0, 0, 20, 10).
Proof. exact clip_request_examples. Qed.

(* ---- C03_parse_print: the strict parser inverts the printer ----
   [hf] is the fuel of the Hextile tile walk: any number above the length of the stream being parsed
   (parse_stream passes S (length stream)); the theorems hold for every such number *)
Theorem C03_parse_print_rect : forall hf s r k s' rest, wf_rect s r k s' ->
  (length (print_rect r ++ rest) < hf)%nat ->
  parse_rect hf s (print_rect r ++ rest) = POk (fst r, k, s') rest.
Proof. exact parse_rect_print. Qed.

Theorem C03_parse_print : forall hf s rs s' pad rest, wf_rects s rs s' -> Z.of_nat (length rs) < 65535 ->
  (length (print_fbu pad rs ++ rest) < hf)%nat ->
  parse_msg hf s (print_fbu pad rs ++ rest) = POk (MFbu (Z.of_nat (length rs)) (map fst rs) false, s') rest.
Proof. exact parse_print_fbu. Qed.

Theorem C03_parse_print_lastrect : forall hf s rs s' pad rest, wf_rects s rs s' ->
  pseudo_enabled s enc_LastRect = true ->
  (length (print_fbu_last pad rs ++ rest) < hf)%nat ->
  parse_msg hf s (print_fbu_last pad rs ++ rest) = POk (MFbu 65535 (map fst rs) true, s') rest.
Proof. exact parse_print_fbu_last. Qed.

Theorem C03_parse_print_stream : forall s rs1 s1 rs2 s2 pad1 pad2,
  wf_rects s rs1 s1 -> wf_rects s1 rs2 s2 -> Z.of_nat (length rs1) < 65535 -> Z.of_nat (length rs2) < 65535 ->
  parse_stream s (print_fbu pad1 rs1 ++ print_fbu pad2 rs2) =
  ([MFbu (Z.of_nat (length rs1)) (map fst rs1) false; MFbu (Z.of_nat (length rs2)) (map fst rs2) false], s2, SeClean).
Proof. exact parse_stream_two. Qed.

Example C03_parse_print_nonvacuous :
  wf_rects ex_state ex_rects ex_state /\
  parse_stream ex_state (print_fbu 0 ex_rects) =
    ([MFbu 3 [(3, 4, 0, 0, enc_PointerPos); (1, 1, 2, 2, enc_CopyRect); (0, 0, 2, 1, enc_Raw)] false], ex_state, SeClean).
Proof. exact (conj ex_rects_wf ex_rects_parse). Qed.

(* Hextile (any tile list that follows the 16x16 grid walk: raw tiles, background / foreground,
   plain and coloured subrectangles) and Tight / TightPng (fill, JPEG, PNG, the four basic-compression
   streams with copy / palette / gradient filter, verbatim data below 12 bytes, compact lengths, the
   TurboVNC NoZlib form) are constructors W_hextile / W_tight of [wf_rect], so C03_parse_print_rect and
   C03_parse_print cover ALL encodings.  The compact length (1..3 bytes, 7+7+8 bits): *)
Theorem C03_compact_length : forall n rest, 0 <= n < 4194304 -> compact_len (pcompact n ++ rest) = POk n rest.
Proof. exact compact_print. Qed.

Example C03_compact_length_nonvacuous :
  pcompact 127 = [127] /\ pcompact 128 = [128; 1] /\ pcompact 16383 = [255; 127] /\ pcompact 16384 = [128; 128; 1] /\
  pcompact 4194303 = [255; 255; 255].
Proof. exact compact_examples. Qed.

Example C03_parse_print_hextile_tight_nonvacuous :
  wf_rects ex2_state ex2_rects ex2_state /\
  parse_stream ex2_state (print_fbu 0 ex2_rects) = ([MFbu 5 (map fst ex2_rects) false], ex2_state, SeClean).
Proof. exact (conj ex2_rects_wf ex2_rects_parse). Qed.

(* the other server-to-client message types: Bell, ServerCutText (plain and extended), SetColourMapEntries,
   ResizeFrameBuffer, xvp *)
Theorem C03_parse_print_other : forall hf s rest,
  parse_msg hf s (print_bell ++ rest) = POk (MBell, s) rest /\
  (forall d, Z.of_nat (length d) < 2147483648 ->
     parse_msg hf s (print_cuttext d ++ rest) = POk (MCutText (Z.of_nat (length d)) false, s) rest) /\
  (forall d, mem enc_ExtendedClipboard (p_latest s) = true -> 4 <= Z.of_nat (length d) <= 2147483648 ->
     parse_msg hf s (print_cuttext_ext d ++ rest) = POk (MCutText (Z.of_nat (length d)) true, s) rest) /\
  (forall first entries, p_truecolour s = false -> r16 first -> r16 (Z.of_nat (length entries)) ->
     Forall (fun e => len_is e 6) entries ->
     parse_msg hf s (print_cmap first entries ++ rest) = POk (MCMap first (Z.of_nat (length entries)), s) rest) /\
  (forall w h, p_scale_requested s = true -> r16 w -> r16 h ->
     parse_msg hf s (print_resize w h ++ rest) = POk (MResize w h, pst_set_fb s w h) rest) /\
  (forall v c, mem enc_Xvp (p_named s) = true ->
     parse_msg hf s (print_xvp v c ++ rest) = POk (MXvp v c, s) rest).
Proof. exact parse_print_other. Qed.

(* ---- C03_parse_sound: SOUNDNESS of the strict parser (the direction that makes "the extracted parser
   accepted every byte the real server wrote" meaningful).  Whatever [parse_msg] accepts as a FramebufferUpdate:
   the announced count is the number of rectangles, or 65535 with LastRect termination only if the latest
   SetEncodings named LastRect; every pixel rectangle uses Raw or an encoding named in some SetEncodings, a
   pixel size that encoding can carry, and lies inside the framebuffer size announced at that point of the
   stream (NewFBSize / ExtDesktopSize rectangles update it); every pseudo-rectangle is named in the latest
   SetEncodings; colour maps only for a client without true colour, extended cut text, resize and xvp only
   after the client enabled / requested them. *)
Theorem C03_parse_sound : forall hf s l m s' rest, parse_msg hf s l = POk (m, s') rest ->
  match m with
  | MFbu n rs lm =>
      rects_sound s rs /\
      (if lm then n = 65535 /\ pseudo_enabled s enc_LastRect = true else length rs = Z.to_nat n /\ n <> 65535)
  | MCMap _ _ => p_truecolour s = false
  | MCutText _ true => mem enc_ExtendedClipboard (p_latest s) = true
  | MResize _ _ | MPalmResize _ _ => p_scale_requested s = true
  | MXvp _ _ => mem enc_Xvp (p_named s) = true
  | _ => True
  end.
Proof. exact parse_msg_sound. Qed.

(* the handshake check is strict: accepted bytes have exactly the length of the expected shape and agree with
   every literal byte of it (only the 16 challenge bytes and the reason text are free) *)
Theorem C03_handshake_strict : forall sc h l, check_handshake sc h l = true ->
  length l = length (fst (handshake_shape sc h)) /\
  Forall2 (fun o b => match o with Some v => b = v | None => True end) (fst (handshake_shape sc h)) l.
Proof. exact handshake_strict. Qed.

(* ---- C03_serverinit: width, height, pixel format and the name truncated to 127 bytes ---- *)
Theorem C03_serverinit : forall sc rest,
  r16 (sc_w sc) -> r16 (sc_h sc) -> r16 (sc_rmax sc) -> r16 (sc_gmax sc) -> r16 (sc_bmax sc) ->
  parse_server_init (server_init_bytes sc ++ rest) =
  POk (sc_w sc, sc_h sc,
       [sc_bpp sc; sc_depth sc; sc_be sc; sc_tc sc] ++ p16 (sc_rmax sc) ++ p16 (sc_gmax sc) ++ p16 (sc_bmax sc) ++
       [sc_rs sc; sc_gs sc; sc_bs sc; 0; 0; 0],
       firstn_z 127 (sc_name sc)) rest /\
  (length (firstn_z 127 (sc_name sc)) <= 127)%nat.
Proof. exact server_init_roundtrip. Qed.

(* ---- C03_handshake_shapes: 3.3 / 3.7 / 3.8 / 3.889 ---- *)
Theorem C03_handshake_shapes : forall sc choice ok rl, sc_password sc = false ->
  let ver := version_bytes protoMajor protoMinor in
  let init := server_init_bytes sc in
  check_handshake sc (mkHs 3 choice ok rl) (ver ++ p32 secTypeNone ++ init) = true /\
  check_handshake sc (mkHs 7 secTypeNone ok rl) (ver ++ [1; secTypeNone] ++ init) = true /\
  check_handshake sc (mkHs 8 secTypeNone ok rl) (ver ++ [1; secTypeNone] ++ p32 vncAuthOK ++ init) = true /\
  check_handshake sc (mkHs 889 secTypeNone ok rl) (ver ++ [1; secTypeNone] ++ init) = true.
Proof. exact handshake_shapes_none. Qed.

Theorem C03_handshake_shapes_vncauth : forall sc minor chal reason, sc_password sc = true -> 7 <= minor ->
  length chal = Z.to_nat CHALLENGESIZE ->
  let ver := version_bytes protoMajor protoMinor in
  let init := server_init_bytes sc in
  check_handshake sc (mkHs minor secTypeVncAuth true 0)
                  (ver ++ [1; secTypeVncAuth] ++ chal ++ p32 vncAuthOK ++ init) = true /\
  (7 < minor -> check_handshake sc (mkHs minor secTypeVncAuth false (Z.of_nat (length reason)))
                  (ver ++ [1; secTypeVncAuth] ++ chal ++ p32 vncAuthFailed ++ p32 (Z.of_nat (length reason)) ++ reason) = true) /\
  (minor = 7 -> check_handshake sc (mkHs minor secTypeVncAuth false 0)
                  (ver ++ [1; secTypeVncAuth] ++ chal ++ p32 vncAuthFailed) = true).
Proof. exact handshake_shapes_vncauth. Qed.

Theorem C03_handshake_shapes_33_vncauth : forall sc chal choice, sc_password sc = true ->
  length chal = Z.to_nat CHALLENGESIZE ->
  let ver := version_bytes protoMajor protoMinor in
  check_handshake sc (mkHs 3 choice true 0) (ver ++ p32 secTypeVncAuth ++ chal ++ p32 vncAuthOK ++ server_init_bytes sc) = true /\
  check_handshake sc (mkHs 3 choice false 0) (ver ++ p32 secTypeVncAuth ++ chal ++ p32 vncAuthFailed) = true.
Proof. exact handshake_shapes_33_vncauth. Qed.

Example C03_handshake_shapes_nonvacuous :
  version_bytes protoMajor protoMinor = [82; 70; 66; 32; 48; 48; 51; 46; 48; 48; 56; 10] /\
  check_handshake (mkScreen 4 3 32 24 0 1 255 255 255 16 8 0 [97; 98] false) (mkHs 8 1 true 0)
    ([82; 70; 66; 32; 48; 48; 51; 46; 48; 48; 56; 10] ++ [1; 1] ++ [0; 0; 0; 0] ++
     [0; 4; 0; 3; 32; 24; 0; 1; 0; 255; 0; 255; 0; 255; 16; 8; 0; 0; 0; 0; 0; 0; 0; 2; 97; 98]) = true /\
  check_handshake (mkScreen 4 3 32 24 0 1 255 255 255 16 8 0 [97; 98] false) (mkHs 8 1 true 0)
    ([82; 70; 66; 32; 48; 48; 51; 46; 48; 48; 56; 10] ++ [1; 1] ++
     [0; 4; 0; 3; 32; 24; 0; 1; 0; 255; 0; 255; 0; 255; 16; 8; 0; 0; 0; 0; 0; 0; 0; 2; 97; 98]) = false.
Proof. repeat split; reflexivity. Qed.
