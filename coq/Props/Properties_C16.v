(* C16 - Replacing the framebuffer is safe and every client resynchronises.
   Only property theorems here, each closed by [exact] of a lemma proved in Update/NewFB.v (and
   Update/UpdateProofs.v), about the model that the correspondence run executes
   (Update/UpdateDefs.v: newfb_state, newfb_client, setdesktop_one, send_client). *)
From LV Require Import Region.RegionDefs Region.RegionProofs Gen.Consts_C16 Update.UpdateDefs Update.UpdateFacts
     Update.UpdateProofs0 Update.UpdateProofs Update.UpdateThms Update.NewFB Update.Slices Update.Trans Update.Life Update.StateLevel Update.Audit02.
Local Open Scope Z_scope.

(* after rfbNewFramebuffer the invariant of C02 holds again, with everything marked modified,
   no pending copy, and the size message scheduled for every client that supports it *)
Theorem C16_inv_reestablished : forall st w h bpp seed,
  Inv st -> 0 < w -> 0 < h -> fmt_ok bpp = true ->
  Inv (newfb_state st w h bpp seed) /\
  Forall (fun c => cM c = rgn_create_rect 0 0 w h /\ cC c = rgn_empty /\
                   (cUseNewFB c = true -> cNewFBPending c = true) /\
                   (cUseNewFB c = false -> cPW c = w /\ cPH c = h))
         (sClients (newfb_state st w h bpp seed)).
Proof. exact (fun st w h bpp seed HI Hw Hh Hb => conj (newfb_inv st w h bpp seed HI Hw Hh Hb) (newfb_regions st w h bpp seed)). Qed.

(* the whole operation sequence semantics, any history before and after: Inv is preserved by
   NewFB and SetDesktopSize like by every other operation (C02_inv_preserved_partial covers them) *)
Theorem C16_inv_preserved_step : forall st o st' out,
  Inv st -> op_ok st o -> step st o = Some (st', out) -> Inv st'.
Proof. exact step_inv. Qed.

(* PARTIAL: the model holds ONE framebuffer (the state has no old buffer), so "the library never again
   touches the old buffer" cannot be stated, let alone violated, inside the model.  What is proved is only
   that the model's single framebuffer is the new content right after the switch (every modelled reader
   goes through [fbf st]); the clause itself is established by test only: the harness frees the old buffer
   the moment rfbNewFramebuffer returns and ASan watches every later access of the real library. *)
Theorem C16_no_old_buffer_use_partial : forall st w h bpp seed x y,
  0 <= x < w -> 0 <= y < h ->
  fbf (newfb_state st w h bpp seed) x y = draw_value (fmt_bpp bpp) seed x y /\
  sFBid (newfb_state st w h bpp seed) = sFBid st + 1.
Proof. exact newfb_content. Qed.

(* the first update after the switch, for a client with NewFBSize / ExtendedDesktopSize, is exactly
   one size pseudo-rectangle with the new size (extended form: stored reason and status); then the
   picture has the new size and the whole new screen is still marked modified *)
Theorem C16_size_first : forall st w h bpp seed c,
  cUseNewFB c = true -> cScaled c = None ->
  let st' := newfb_state st w h bpp seed in
  let c1 := newfb_client w h c in
  exists c2,
    send_client st' c1 =
      Some (c2, Some (1, [if cUseExt c then WExt (cReqChange c mod 65536) (cLastErr c mod 65536) w h else WNewFB w h])) /\
    (negb (rgn_is_empty (cR c1)) = true -> xDefer (sExt st) = 0 -> tick_client st' c1 = send_client st' c1) /\
    cNewFBPending c2 = false /\ cPW c2 = w /\ cPH c2 = h /\
    cM c2 = rgn_create_rect 0 0 w h /\ cC c2 = rgn_empty /\ cR c2 = cR c /\
    (cUseExt c = true -> cReqChange c2 = 0 /\ cLastErr c2 = 0).
Proof. exact size_first. Qed.

(* ... and the following update delivers every requested pixel of the new screen as pixel data
   (instance of C02: everything in M /\ R is covered by a pixel rectangle) *)
Theorem C16_full_contents_follow_noslice : forall st c c' n rects,
  Inv st -> In c (sClients st) -> sSliceH st <= 0 ->
  cUseNewFB c && cNewFBPending c = false ->
  cM c = rgn_create_rect 0 0 (sW st) (sH st) ->
  send_client st c = Some (c', Some (n, rects)) ->
  forall x y, inS (sW st) (sH st) x y -> rgn_mem (cR c) x y = true ->
    existsb (wraw_has x y) rects = true /\ existsb (wcopy_has x y) rects = false.
Proof. exact full_contents_follow. Qed.

(* later rectangles stay inside the new size although R was not reset: under the invariant
   rfbSendFramebufferUpdate never yields the explicit out-of-range error and every pixel / copy
   rectangle (and CopyRect source) it emits lies inside the current framebuffer *)
Theorem C16_send_never_out_of_range : forall st c,
  Inv st -> In c (sClients st) -> scaled_guard c = false -> exists r, send_client st c = Some r.
Proof. exact send_total. Qed.

Theorem C16_rects_inside_new_size : forall st c c' n rects,
  Inv st -> In c (sClients st) -> send_client st c = Some (c', Some (n, rects)) ->
  Forall (wrect_inside (sW st) (sH st)) rects.
Proof. exact send_rects_inside. Qed.

(* the clients' pixel translation follows a change of the server format (another depth, or the same depth
   with other bits per sample).  The model keeps, per client, the server format its translation was selected
   for ([tFrom (cBpp c)] = cl->translateFn + table); what reaches the client goes through THAT translation
   ([fb_for]).  rfbNewFramebuffer re-selects it when the format code changes: for a client whose translation
   was up to date, what reaches it after the switch is the new content translated from the NEW format *)
Theorem C16_translate_follows_depth : forall st w h bpp seed c x y,
  0 <= x < w -> 0 <= y < h -> tFrom (cBpp c) = sBpp st ->
  fb_for (newfb_state st w h bpp seed) (newfb_client w h (reselect (sBpp st) bpp c)) x y =
  translate bpp (tTo (cBpp c)) (draw_value (fmt_bpp bpp) seed x y).
Proof. exact newfb_translate. Qed.

(* ... and this holds for every client of the state: "every client's translation is the one for the current
   server format" is re-established by rfbNewFramebuffer and kept by every other operation (SetPixelFormat
   selects for the current server format).  Dropping the re-selection (or deciding "format unchanged" from the
   depth alone) falsifies these. *)
Theorem C16_translation_reselected : forall st w h bpp seed,
  TransOK st -> TransOK (newfb_state st w h bpp seed).
Proof. exact newfb_transok. Qed.

Theorem C16_translation_current : forall st o st' out,
  Inv st -> TransOK st -> step st o = Some (st', out) -> TransOK st'.
Proof. exact step_transok. Qed.

Theorem C16_translation_current_run : forall ops st st',
  Inv st -> run_ok st ops -> TransOK st -> run st ops = Some st' -> TransOK st'.
Proof. exact run_transok. Qed.

(* delivered-pixel form (for clients into whose pixels no cursor is painted: NoSoftCursor, see C02): a client
   with nothing pending holds, at every pixel, the framebuffer pixel translated
   from the CURRENT server format to its own format *)
Theorem C16_converged_in_current_format : forall st c,
  Inv st -> TransOK st -> In c (sClients st) -> NoSoftCursor st c -> pending st c = false ->
  forall x y, inS (sW st) (sH st) x y ->
    pic_get (cPic c) x y = translate (sBpp st) (tTo (cBpp c)) (fbf st x y).
Proof. exact idle_converged_current_nocursor. Qed.

(* non-vacuity: 16 bpp with 4 bits per sample (code 2 + 8*4) and with 5 bits (code 2) are different formats of
   the same depth, and the translation between them is not the identity *)
Example C16_same_depth_other_bits_nonvacuous :
  fmt_ok 34 = true /\ fmt_bpp 34 = fmt_bpp 2 /\ translate 34 2 (15 + 16 * 8) = 31 + 32 * 17 /\
  fmt_ok 84 = true /\ fmt_bpp 84 = fmt_bpp 4 /\ translate 84 4 (1023 + 1024 * 512) = 255 + 256 * 128.
Proof. vm_compute. repeat split. Qed.

(* SetDesktopSize: no size change unless the application performs it *)
Theorem C16_setdesktopsize_no_resize : forall st c w h ns hookres st' out,
  step st (OpSetDesktopSize c w h ns hookres) = Some (st', out) ->
  sW st' = sW st /\ sH st' = sH st /\ sBpp st' = sBpp st /\ sFB st' = sFB st /\ out = [].
Proof. exact setdesktop_state_size. Qed.

(* the requester gets reason "this client" and the status the application returned; a refusal is
   answered at once, success is deferred until the application really resizes *)
Theorem C16_setdesktopsize_reply : forall hookres c,
  let c1 := setdesktop_one true hookres c in
  cReqChange c1 = c16_reason_client /\ cLastErr c1 = hookres /\
  (hookres <> 0 -> cNewFBPending c1 = true) /\
  (hookres = 0 -> cNewFBPending c1 = cNewFBPending c) /\
  cM c1 = cM c /\ cC c1 = cC c /\ cR c1 = cR c /\ cPW c1 = cPW c /\ cPH c1 = cPH c.
Proof. exact setdesktop_reply. Qed.

Theorem C16_setdesktopsize_others : forall hookres c,
  let c1 := setdesktop_one false hookres c in
  (hookres = 0 -> sds_keeps_own_answer && (cReqChange c =? c16_reason_client) = false ->
   cReqChange c1 = c16_reason_other) /\ (hookres <> 0 -> c1 = c) /\
  cNewFBPending c1 = cNewFBPending c /\ cLastErr c1 = cLastErr c.
Proof. exact setdesktop_other. Qed.

(* the update that IMMEDIATELY follows a refusal carries it (per-step fact; other clients' requests in
   between leave the record alone: C16_own_request_answered below) *)
Theorem C16_setdesktopsize_refusal_next_send : forall st hookres c,
  hookres <> 0 -> cUseExt c = true -> cUseNewFB c = true -> cScaled c = None ->
  exists c2, send_client st (setdesktop_one true hookres c) =
             Some (c2, Some (1, [WExt c16_reason_client (hookres mod 65536) (sW st) (sH st)])) /\
             cNewFBPending c2 = false /\ cReqChange c2 = 0 /\ cLastErr c2 = 0.
Proof. exact setdesktop_refusal_sent. Qed.

(* F31 (fixed by fix_C16_4): the reason / status / pending flag of a client whose own answer has not been sent
   yet survive every SetDesktopSize of any other client, accepted or refused - together with
   C16_setdesktopsize_refusal_next_send (which holds for the unchanged record) the client's next size
   message is the answer to its own request *)
Theorem C16_own_request_answered : forall st n m w h ns hookres st' out c,
  n <> m -> nth_error (sClients st) n = Some c -> cReqChange c = c16_reason_client ->
  step st (OpSetDesktopSize m w h ns hookres) = Some (st', out) ->
  nth_error (sClients st') n = Some c.
Proof. exact (fun st n m w h ns hookres st' out c => own_request_survives st n m w h ns hookres st' out c eq_refl). Qed.

(* the former witness of F31: refused (status 3), then the other client is accepted: told "this client", 3 *)
Theorem C16_own_request_answered_witness :
  exists st st', run (init_state 12 8 4) f31_ops = Some st /\ Inv st /\
    step st (OpTick 0) = Some (st', [(0%nat, (1, [WExt c16_reason_client 3 12 8]))]).
Proof. exact refusal_answered_witness. Qed.

(* scaled screens (only their size bookkeeping is in the model): since fix_C16_2 rfbNewFramebuffer rebuilds
   the scaledScreenNext chain for the new framebuffer; the former F12 witness now tells the client 12x8 *)
Theorem C16_scaled_follows_newfb_witness :
  exists st c c', run (init_state 12 8 4) f12_ops = Some st /\ Inv st /\
    nth_error (sClients st) 0 = Some c /\ sW st = 24 /\ sH st = 16 /\
    cScaled c = Some (12, 8) /\ xChain (sExt st) = [(12, 8)] /\
    send_client st c = Some (c', Some (1, [WNewFB 12 8])) /\
    (12, 8) = (Z.quot (sW st) 2, Z.quot (sH st) 2).
Proof. exact scaled_follows_newfb. Qed.

(* closed but not yet reaped clients (rfbCloseClient: sock = -1, record still in the client list): since
   fix_C16_3 rfbNewFramebuffer also re-points them, reaping never touches a freed scaled screen; the
   former witness (corpus/C16/f12c_closed_scaled_newfb_reap.script) passes *)
Theorem C16_reap_after_newfb_ok_witness :
  exists st st', run (init_state 12 8 4) f12c_ops = Some st /\ Inv st /\ step st OpReap = Some (st', []) /\ Inv st'.
Proof. exact reap_ok_after_newfb. Qed.

Theorem C16_newfb_leaves_no_dangling : forall w h oW oH chain c,
  cDangling (snd (rescale_client w h oW oH chain c)) = false.
Proof. exact rescale_client_not_dangling. Qed.

Theorem C16_reap_partial : forall st,
  existsb cDangling (sClients st) = false -> exists st', step st OpReap = Some (st', []).
Proof. exact reap_partial. Qed.

(* ... and that premise holds in every reachable state: "no client is closed AND points at a freed scaled
   screen" is kept by every operation (rfbNewFramebuffer re-points closed clients, nothing else writes the
   life flag except close / reap), so reaping is TOTAL after any history - any operations, any number of
   clients, scaled or not, closed at any time *)
Theorem C16_no_dangling_step : forall st o st' out,
  NoDangling st -> step st o = Some (st', out) -> NoDangling st'.
Proof. exact step_nodangling. Qed.

Theorem C16_reap_total : forall W H bpp ops st,
  run (init_state W H bpp) ops = Some st -> exists st', step st OpReap = Some (st', []).
Proof. exact reap_total_reachable. Qed.

(* scaled clients, universally (not only the witnesses above).
   (a) a client with a pending size message - scaled or not - gets exactly that message with the size of ITS
       screen and nothing else, whatever else is pending *)
Theorem C16_size_message_first_any_client : forall st c,
  cUseNewFB c = true -> cNewFBPending c = true ->
  exists c',
    send_client st c =
      Some (c', Some (1, [if cUseExt c
                          then WExt (cReqChange c mod 65536) (cLastErr c mod 65536)
                                    (fst (announced_size st c)) (snd (announced_size st c))
                          else WNewFB (fst (announced_size st c)) (snd (announced_size st c))])) /\
    cNewFBPending c' = false /\ cScaled c' = cScaled c /\
    cM c' = cM c /\ cC c' = cC c /\ cR c' = cR c.
Proof. exact size_shortcircuit. Qed.

(* (b) what rfbNewFramebuffer does to ANY client's scaled screen, for any old / new size and any chain: the
       chain only grows; a connected client that is still scaled afterwards has a screen of the NEW
       framebuffer: size (w/f, h/f) for a factor f > 1 that reproduces its old scaled size from the old
       framebuffer, both dimensions positive, the screen is in the chain and the size message is pending *)
Theorem C16_rescale_client : forall w h oW oH chain c,
  let r := rescale_client w h oW oH chain c in
  incl chain (fst r) /\
  (cLive c = true -> cLive (snd r) = true /\
     forall s, cScaled (snd r) = Some s ->
       In s (fst r) /\ 0 < fst s /\ 0 < snd s /\ cNewFBPending (snd r) = true /\
       exists f sw sh, cScaled c = Some (sw, sh) /\ 1 < f /\ s = (Z.quot w f, Z.quot h f) /\
                       Z.quot oW f = sw /\ Z.quot oH f = sh).
Proof. exact rescale_client_spec. Qed.

(* (c) ... for the whole client list: every connected scaled client's screen is in the final chain *)
Theorem C16_rescale_clients : forall w h oW oH l chain,
  let r := rescale_clients w h oW oH l chain in
  incl chain (fst r) /\
  Forall (fun c' => cLive c' = true -> forall s, cScaled c' = Some s ->
                    In s (fst r) /\ 0 < fst s /\ 0 < snd s /\ cNewFBPending c' = true)
         (snd r) /\
  length (snd r) = length l.
Proof. exact rescale_clients_spec. Qed.

(* state-level versions of C16_size_first / C16_setdesktopsize_reply / _others: tied to [newfb_state] and to
   [step (OpSetDesktopSize ..)] instead of an arbitrary record *)
Theorem C16_size_first_state : forall st w h bpp seed c,
  In c (sClients st) -> cUseNewFB c = true -> cScaled c = None -> cClosed c = false ->
  exists c1 c2,
    In c1 (sClients (newfb_state st w h bpp seed)) /\
    send_client (newfb_state st w h bpp seed) c1 =
      Some (c2, Some (1, [if cUseExt c then WExt (cReqChange c mod 65536) (cLastErr c mod 65536) w h
                          else WNewFB w h])) /\
    cNewFBPending c2 = false /\ cPW c2 = w /\ cPH c2 = h /\
    cM c2 = rgn_create_rect 0 0 w h /\ cC c2 = rgn_empty /\ cR c2 = cR c.
Proof. exact size_first_state. Qed.

Theorem C16_setdesktopsize_step : forall st n w h ns hr st' out m c,
  ns <> 0 -> step st (OpSetDesktopSize n w h ns hr) = Some (st', out) ->
  nth_error (sClients st) m = Some c ->
  nth_error (sClients st') m = Some (setdesktop_one (Nat.eqb m n) hr c) /\
  sW st' = sW st /\ sH st' = sH st /\ sBpp st' = sBpp st /\ sFB st' = sFB st /\ out = [].
Proof. exact setdesktop_step. Qed.

Theorem C16_close_only_flag : forall st c st' out,
  step st (OpClose c) = Some (st', out) ->
  out = [] /\ sW st' = sW st /\ sH st' = sH st /\ sFB st' = sFB st /\ sExt st' = sExt st /\
  length (sClients st') = length (sClients st).
Proof. exact close_only_flag. Qed.

(* ---------------------------------------------------------------- non-vacuity *)
Definition nv16_ops : list op :=
  [OpSetCursor None; OpAddClient; OpAddClient; OpAddClient;
   OpSetEncodings 0 true true true false; OpSetEncodings 1 false true false true; OpSetEncodings 2 false false false false;
   OpRequest 0 false 0 0 12 8; OpTick 0; OpRequest 1 false 0 0 12 8; OpTick 1; OpTick 1;
   OpDoCopyRect 4 2 8 5 2 1; OpRequest 0 true 0 0 12 8; OpRequest 2 true 6 4 6 4;
   OpNewFB 6 4 2 7; OpTick 0; OpTick 2; OpRequest 0 true 0 0 6 4; OpTick 0;
   OpSetDesktopSize 1 20 10 1 1; OpRequest 1 true 0 0 6 4; OpTick 1;
   OpSetDesktopSize 1 20 10 2 0; OpClose 2; OpNewFB 20 10 4 9; OpReap; OpRequest 1 true 0 0 20 10; OpTick 1;
   OpRequest 1 false 0 0 20 10; OpTick 1].

Ltac run_ok_tac :=
  repeat (split; [first [exact I | solve [cbn; repeat split; lia] | solve [repeat constructor; cbn; lia]
                        | solve [split; [repeat constructor; cbn; lia | vm_compute; reflexivity]]] |
                  let st' := fresh "st" in let out := fresh "out" in let Hs := fresh "Hs" in
                  intros st' out Hs; vm_compute in Hs; inversion Hs; subst; clear Hs]).

(* a history with three clients (NewFBSize, ExtendedDesktopSize, neither), a pending copy and stale
   requests across a shrink with depth change, a refused and an accepted SetDesktopSize, a grow *)
Example C16_history_nonvacuous :
  run_ok (init_state 12 8 4) nv16_ops /\ exists st', run (init_state 12 8 4) nv16_ops = Some st'.
Proof.
  split.
  - unfold nv16_ops. run_ok_tac. exact I.
  - vm_compute. eexists. reflexivity.
Qed.
