(* C18 - Clipboard text is transferred intact in both directions.
   Only property theorems here, each closed by [exact] of a lemma proved in
   Session/ClipboardProofs.v (and Session/InputProofs4.v for the classic client-to-server text).
   The statements are about the functions that are extracted and run against libvncserver and
   LibVNCClient (Session/ClipboardDefs.v, Session/InputDefs.v).  zlib is the Section oracle
   [zinflate]/[zcompress]/[zsync]; its round-trip behaviour appears as explicit hypotheses. *)
From Coq Require Import ZArith List Bool.
From LV Require Import Gen.Consts_C06 Gen.Consts_C18 Wire.C2SInput Session.InputDefs
  Session.InputProofs Session.InputProofs3 Session.InputProofs4
  Session.ClipboardDefs Session.ClipboardProofs.
Import ListNotations.
Local Open Scope Z_scope.

(* ---- classic Latin-1 text ------------------------------------------------------------- *)
(* client -> server: what SendClientCutText writes reaches setXCutText with the same bytes and
   length, for every text of 0..2^20 bytes (any byte values), however the stream is cut *)
Theorem C18_classic_c2s : forall zinflate fs cfg o c b text r,
  c_state c = SNormal -> c_viewonly c = false ->
  Z.of_nat (length text) <= c06_cut_text_limit ->
  st_bytes (c_in c) = lvc_send_cut text ++ r ->
  let a := handle_client (ext_cut_real zinflate fs) cfg o c b in
  a_events a = [EvCut (c_id c) text] /\ c_closed (a_client a) = c_closed c /\
  st_bytes (c_in (a_client a)) = r /\ a_owner a = o.
Proof. intros zinflate fs. exact (cut_limit_accept (ext_cut_real zinflate fs)). Qed.

(* server -> client: rfbSendServerCutText queues exactly the text for every open connection ... *)
Theorem C18_classic_s2c_sent : forall text s c,
  In c (s_clients s) -> c_closed c = false ->
  In (set_clip c (add_out (c_clip c) (OClassic text))) (s_clients (publish_classic text s)).
Proof. exact publish_classic_out. Qed.

(* ... and LibVNCClient hands the wire form of that message to GotXCutText unchanged *)
Theorem C18_classic_s2c_received : forall zinflate zcompress xl l t,
  Z.of_nat (length t) <= c18_lvc_cut_limit ->
  lvc_recv zinflate xl l (enc_out zcompress (OClassic t)) = (l, [GotCut t], true).
Proof. exact lvc_recv_classic. Qed.

Example C18_classic_nonvacuous :
  lvc_recv (fun _ => ([], ZErr)) false (mkLvc 0 false) (enc_out (fun x => x) (OClassic [0; 255; 0; 65]))
  = (mkLvc 0 false, [GotCut [0; 255; 0; 65]], true).
Proof. vm_compute. reflexivity. Qed.

(* ---- extended clipboard, client -> server ----------------------------------------------
   SendClientCutTextUTF8 (Notify, then Provide with text++NUL in a sync-flushed stream): the
   server calls setXCutTextUTF8 exactly once with text ++ [0] (length len+1: the wire format
   is NUL-terminated) - if the COMPRESSED message still fits the 1 MiB ClientCutText limit *)
Theorem C18_ext_c2s : forall zinflate zsync fs cfg o c b1 b2 l text bytes r,
  c_state c = SNormal -> c_closed c = false -> c_viewonly c = false -> k_ext (c_clip c) = true ->
  let content := be32 (Z.of_nat (length text) + 1) ++ text ++ [0] in
  zinflate (zsync content) = (content, ZMore) ->
  Z.of_nat (length text) + 1 <= c18_ext_size_limit ->
  4 + Z.of_nat (length (zsync content)) <= c06_cut_text_limit ->
  lvc_send_utf8 zsync l text = Some bytes ->
  st_bytes (c_in c) = bytes ++ r ->
  let a1 := handle_client (ext_cut_real zinflate fs) cfg o c b1 in
  let a2 := handle_client (ext_cut_real zinflate fs) cfg (a_owner a1) (a_client a1) b2 in
  a_events a1 = [] /\ a_events a2 = [EvCutUTF8 (c_id c) (text ++ [0]) 0] /\
  c_closed (a_client a2) = false /\ st_bytes (c_in (a_client a2)) = r /\ c_clip (a_client a2) = c_clip c.
Proof. exact ext_c2s. Qed.

(* the same for any peer: a Provide|Text message whose stream (open or finished) inflates to
   size ++ data delivers exactly data *)
Theorem C18_ext_provide_delivered : forall zinflate fs k z data t,
  zinflate z = (be32 (Z.of_nat (length data)) ++ data, t) -> t = ZMore \/ t = ZEnd ->
  0 < Z.of_nat (length data) <= c18_ext_size_limit ->
  ext_cut_real zinflate fs false k (be32 (c18_Provide + c18_Text) ++ z) = (k, [U8 data 0], false).
Proof. exact ext_provide_text. Qed.

(* ---- extended clipboard, server -> client ---------------------------------------------- *)
Theorem C18_ext_s2c_sent : forall fl text fb c,
  c_closed c = false -> k_ext (c_clip c) = true ->
  has (k_usercap (c_clip c)) c18_Provide = true -> Z.of_nat (length text) <= k_maxunsol (c_clip c) ->
  let c' := pub_utf8_client fl text fb c in
  k_out (c_clip c') = k_out (c_clip c) ++ [OProvide (be32 (Z.of_nat (length text) + 1) ++ text ++ [0])] /\
  k_data (c_clip c') = Some (text ++ [0]) /\ k_locked (c_clip c') = k_locked (c_clip c).
Proof. exact pub_utf8_ext. Qed.

Theorem C18_ext_s2c_received : forall zinflate zcompress xl l data,
  l_utf8 l = true ->
  zinflate (zcompress (be32 (Z.of_nat (length data)) ++ data)) = (be32 (Z.of_nat (length data)) ++ data, ZEnd) ->
  0 < Z.of_nat (length data) <= c18_lvc_ext_size_limit ->
  4 + Z.of_nat (length (zcompress (be32 (Z.of_nat (length data)) ++ data))) <= c18_lvc_cut_limit ->
  lvc_recv zinflate xl l (enc_out zcompress (OProvide (be32 (Z.of_nat (length data)) ++ data)))
  = (l, [GotCutUTF8 data 0], true).
Proof. exact lvc_recv_provide. Qed.

Example C18_ext_nonvacuous :
  (* a toy "zlib" (identity coding) satisfies the oracle hypotheses: the theorems are not empty *)
  let zi (z : list Z) := (z, ZEnd) in
  let data := [104; 105; 0] in
  lvc_recv zi false (mkLvc 1 true) (enc_out (fun x => x) (OProvide (be32 3 ++ data))) = (mkLvc 1 true, [GotCutUTF8 data 0], true) /\
  ext_cut_real zi true false clip0 (be32 (c18_Provide + c18_Text) ++ be32 3 ++ data) = (clip0, [U8 data 0], false).
Proof. vm_compute. split; reflexivity. Qed.

(* ---- capability exchange ------------------------------------------------------------- *)
Theorem C18_caps_exchange_server : forall cfg encs k,
  g_utf8cb cfg = true -> In c06_rfbEncodingExtendedClipboard encs ->
  k_ext (apply_encodings cfg k encs) = true /\ In OCaps (k_out (apply_encodings cfg k encs)).
Proof. exact apply_encodings_ext. Qed.

Theorem C18_caps_exchange_no_callback : forall cfg encs k,
  g_utf8cb cfg = false -> apply_encodings cfg k encs = k.
Proof. exact apply_encodings_off. Qed.

Theorem C18_caps_exchange_client : forall zinflate zcompress xl l, l_utf8 l = true ->
  exists l', lvc_recv zinflate xl l (enc_out zcompress OCaps) = (l', [], true) /\ l_caps l' <> 0 /\ l_utf8 l' = true.
Proof. exact lvc_recv_caps. Qed.

Theorem C18_caps_from_client : forall zinflate fs vo k flags p m,
  be32_at p 0 = Some flags -> has flags c18_Caps = true -> has flags c18_Text = true ->
  popcount16 flags <> 0 -> Z.of_nat (length p) = 4 + popcount16 flags * 4 -> be32_at p 4 = Some m ->
  ext_cut_real zinflate fs vo k p = (set_maxunsol (set_caps k flags) m, [], false).
Proof. exact ext_caps_text. Qed.

Theorem C18_caps_without_text_disables : forall zinflate fs vo k flags p,
  be32_at p 0 = Some flags -> has flags c18_Caps = true -> has flags c18_Text = false ->
  Z.of_nat (length p) = 4 + popcount16 flags * 4 ->
  k_ext (fst (fst (ext_cut_real zinflate fs vo k p))) = false /\ snd (ext_cut_real zinflate fs vo k p) = false.
Proof. exact ext_caps_no_text. Qed.

(* a later SetEncodings WITHOUT the pseudo-encoding switches the extension off again (2d15d75),
   silently; with it the extension is (re-)enabled and the capabilities are sent again *)
Theorem C18_caps_withdrawn : forall ext_cut cfg o c encs,
  fix_extreset cfg = true -> ~ In c06_rfbEncodingExtendedClipboard encs ->
  let a := apply_normal ext_cut cfg o c (MSetEncodings encs) in
  k_ext (c_clip (a_client a)) = false /\ k_out (c_clip (a_client a)) = k_out (c_clip c) /\
  a_events a = [] /\ c_closed (a_client a) = c_closed c.
Proof. exact setenc_resets. Qed.

Theorem C18_caps_renewed : forall ext_cut cfg o c encs,
  g_utf8cb cfg = true -> In c06_rfbEncodingExtendedClipboard encs ->
  let a := apply_normal ext_cut cfg o c (MSetEncodings encs) in
  k_ext (c_clip (a_client a)) = true /\ In OCaps (k_out (c_clip (a_client a))).
Proof. exact setenc_enables. Qed.

(* regression witness: the former code (variant bit 4) kept the capability *)
Theorem C18_caps_withdrawn_legacy_witness : forall ext_cut cfg o c encs,
  fix_extreset cfg = false -> ~ In c06_rfbEncodingExtendedClipboard encs ->
  let a := apply_normal ext_cut cfg o c (MSetEncodings encs) in
  k_ext (c_clip (a_client a)) = k_ext (c_clip c).
Proof. exact setenc_legacy_keeps. Qed.

(* ---- request / provide, peek / notify -------------------------------------------------- *)
Theorem C18_request_provide : forall zinflate fs vo k d,
  k_data k = Some d -> d <> [] -> has (k_usercap k) c18_Provide = true ->
  ext_cut_real zinflate fs vo k (be32 (c18_Request + c18_Text)) =
  (add_out k (OProvide (be32 (Z.of_nat (length d)) ++ d)), [], false).
Proof. exact ext_request. Qed.

Theorem C18_peek_notify : forall zinflate fs vo k d,
  k_data k = Some d -> d <> [] -> has (k_usercap k) c18_Notify = true ->
  ext_cut_real zinflate fs vo k (be32 (c18_Peek + c18_Text)) = (add_out k ONotify, [], false).
Proof. exact ext_peek. Qed.

Theorem C18_request_before_publish : forall zinflate fs vo k, k_data k = None ->
  ext_cut_real zinflate fs vo k (be32 (c18_Request + c18_Text)) = (k, [], false) /\
  ext_cut_real zinflate fs vo k (be32 (c18_Peek + c18_Text)) = (k, [], false).
Proof. exact ext_request_nothing. Qed.

(* ---- Latin-1 fallback ---------------------------------------------------------------- *)
Theorem C18_fallback_latin1 : forall fl text f c,
  c_closed c = false -> k_ext (c_clip c) = false ->
  let c' := pub_utf8_client fl text (Some f) c in
  k_out (c_clip c') = k_out (c_clip c) ++ [OClassic f] /\ k_locked (c_clip c') = k_locked (c_clip c).
Proof. exact pub_utf8_fallback. Qed.

(* no fallback text: a client without the extension gets nothing and NOTHING else happens to it
   (the code as it is: the send mutex is released, 3fe86ea) *)
Theorem C18_fallback_null : forall text c,
  k_ext (c_clip c) = false -> pub_utf8_client true text None c = c.
Proof. exact pub_utf8_null_fallback_fixed. Qed.

Example C18_fallback_null_nonvacuous :
  let cfg := mkCfg 100 80 false 0 false false false 0 true 0 in
  fix_lock cfg = true /\
  publish_utf8 [65] None (mkSrv cfg [new_client cfg 3 false] None 0) = mkSrv cfg [new_client cfg 3 false] None 0.
Proof. vm_compute. split; reflexivity. Qed.

(* regression witness: the former code (variant bit 2) left the send mutex of such a client locked *)
Theorem C18_fallback_null_legacy_witness : forall text c,
  c_closed c = false -> k_ext (c_clip c) = false ->
  let c' := pub_utf8_client false text None c in
  k_locked (c_clip c') = true /\ k_out (c_clip c') = k_out (c_clip c).
Proof. exact pub_utf8_null_fallback_locks. Qed.

(* ---- limits, malformed messages ---------------------------------------------------------- *)
Theorem C18_limits_short_payload : forall zinflate fs vo k p,
  (length p < 4)%nat -> ext_cut_real zinflate fs vo k p = (k, [], true).
Proof. exact ext_short_payload. Qed.

Theorem C18_limits_size_field : forall zinflate fs k z size rest t,
  zinflate z = (be32 size ++ rest, t) -> rest <> [] ->
  c18_ext_size_limit < size < two32 ->
  ext_cut_real zinflate fs false k (be32 (c18_Provide + c18_Text) ++ z) = (k, [], true).
Proof. exact ext_provide_too_big. Qed.

Theorem C18_limits_corrupt_zlib : forall zinflate fs k z,
  zinflate z = ([], ZErr) ->
  ext_cut_real zinflate fs false k (be32 (c18_Provide + c18_Text) ++ z) = (k, [], true).
Proof. exact ext_provide_corrupt. Qed.

Theorem C18_limits_negative_length : forall (xl : bool) i len0 r,
  two31 <= len0 < two32 -> c06_cut_text_limit + (if xl then c06_ext_slack else 0) < neg32 len0 ->
  st_bytes i = cut_hdr len0 ++ r ->
  parse_normal true xl i = RFail PTooBig.
Proof. exact parse_cut_ext_too_big. Qed.

Example C18_limits_negative_length_nonvacuous :
  parse_normal true false (mkInp (cut_hdr two31 ++ [1; 2; 3]) false []) = RFail PTooBig /\
  parse_normal true false (mkInp (cut_hdr (neg32 (c06_cut_text_limit + 1))) false [Frag [9]]) = RFail PTooBig.
Proof. vm_compute. split; reflexivity. Qed.

(* a size field larger than what the stream holds is refused like every other malformed stream:
   the sender is closed, nothing is delivered (the code as it is, 260e10a) *)
Theorem C18_limits_short_stream : forall zinflate fs k z size data t, fs = true ->
  zinflate z = (be32 size ++ data, t) -> t = ZEnd \/ t = ZMore -> data <> [] ->
  Z.of_nat (length data) < size <= c18_ext_size_limit ->
  ext_cut_real zinflate fs false k (be32 (c18_Provide + c18_Text) ++ z) = (k, [], true).
Proof. exact ext_provide_short_stream_fixed. Qed.

Example C18_limits_short_stream_nonvacuous :
  ext_cut_real (fun z => (z, ZEnd)) true false clip0 (be32 (c18_Provide + c18_Text) ++ be32 100 ++ [1; 2; 3])
  = (clip0, [], true).
Proof. vm_compute. reflexivity. Qed.

(* regression witness: the former code (variant bit 3) handed the application [data] followed by
   size-|data| bytes of never-written heap memory *)
Theorem C18_limits_short_stream_legacy_witness : forall zinflate fs k z size data t, fs = false ->
  zinflate z = (be32 size ++ data, t) -> t = ZEnd \/ t = ZMore -> data <> [] ->
  Z.of_nat (length data) < size <= c18_ext_size_limit ->
  ext_cut_real zinflate fs false k (be32 (c18_Provide + c18_Text) ++ z)
  = (k, [U8 data (size - Z.of_nat (length data))], false).
Proof. exact ext_provide_short_stream. Qed.

(* ---- view-only ---------------------------------------------------------------------- *)
Theorem C18_viewonly_no_delivery_ext : forall zinflate fs k p,
  snd (fst (ext_cut_real zinflate fs true k p)) = [].
Proof. exact ext_gated_real. Qed.

(* hence C06's gating theorem holds for the real handler: every callback (setXCutText and
   setXCutTextUTF8 included) comes from an open, RFB_NORMAL, non-view-only connection *)
Theorem C18_viewonly_no_delivery : forall zinflate fs s id e,
  In e (snd (handle (ext_cut_real zinflate fs) s id)) ->
  exists c, find_client (s_clients s) id = Some c /\ c_closed c = false /\
            c_state c = SNormal /\ c_viewonly c = false /\ ev_client e = id /\
            (is_ptr e = true -> ptr_allowed (s_owner s) id = true).
Proof. intros zinflate fs. exact (handle_gate (ext_cut_real zinflate fs) (ext_gated_real zinflate fs)). Qed.

(* constants the model starts from are those of rfbNewClient *)
Theorem C18_initial_state : clip0 = mkClip false c18_default_usercap c18_default_maxunsol None [] false.
Proof. exact clip0_defaults. Qed.

(* ---- proposed repair notes/fix_C18_3.diff (variant bit 5, not in the library yet) -------
   with 1 KiB of slack an extended message of up to 2^20 + 1024 bytes is read whole instead of
   closing the connection: a 1 MiB text that zlib cannot shrink then reaches the record-level
   checks (size <= 2^20) and the application like any other text *)
Theorem C18_ext_limit_proposed : forall i payload r,
  0 < Z.of_nat (length payload) <= c06_cut_text_limit + c06_ext_slack ->
  st_bytes i = cut_hdr (neg32 (Z.of_nat (length payload))) ++ payload ++ r ->
  exists j, parse_normal true true i = ROk (MCutExt payload) j /\ st_bytes j = r /\ st_eof j = st_eof i.
Proof. exact parse_cut_ext_slack. Qed.

(* ---- the client's write loop (libvncclient WriteToRFBServer) ---------------------------
   For every schedule of the kernel's answers to the successive write() calls - short writes of
   any size, EAGAIN any number of times (each followed by a select() that reports the socket
   writable) - the bytes handed to the kernel, in order, are exactly the buffers of the Send*
   call, and the call reports success.  (What SendClientCutText / SendClientCutTextUTF8 put on
   the wire therefore is what C18_classic_c2s / C18_ext_c2s assume, whatever the socket does.) *)
Theorem C18_client_write_complete : forall parts sched acc,
  Forall (fun k => 0 <= k) sched ->
  exists rest, lvc_write_all sched parts acc = (acc ++ concat parts, rest, true).
Proof. exact lvc_write_all_complete. Qed.

Theorem C18_client_write_cut_text : forall text,
  concat (lvc_send_cut_parts text) = lvc_send_cut text.
Proof. exact send_cut_parts_concat. Qed.

Theorem C18_client_write_utf8 : forall zsync l text,
  option_map (@concat Z) (lvc_send_utf8_parts zsync l text) = lvc_send_utf8 zsync l text.
Proof. exact send_utf8_parts_concat. Qed.

(* after an error other than EAGAIN the call fails and a prefix of the buffer is on the wire *)
Theorem C18_client_write_prefix : forall sched buf acc,
  exists pre suf, fst (fst (lvc_write sched buf acc)) = acc ++ pre /\ buf = pre ++ suf.
Proof. exact lvc_write_prefix. Qed.

Example C18_client_write_complete_nonvacuous :
  lvc_write_all [1; 0; 0; 3; 0; 1000] (lvc_send_cut_parts [104; 105]) []
  = (lvc_send_cut [104; 105], [], true).
Proof. vm_compute. reflexivity. Qed.
