(* C18 - Clipboard text is transferred intact in both directions.
   Only property theorems here, each closed by [exact] of a lemma proved in
   Session/ClipboardProofs.v (and Session/InputProofs4.v for the classic client-to-server text).
   The statements are about the functions that are extracted and run against libvncserver and
   LibVNCClient (Session/ClipboardDefs.v, Session/InputDefs.v).  zlib is the Section oracle
   [zinflate]/[zcompress]/[zsync]; its round-trip behaviour appears as explicit hypotheses. *)
From Coq Require Import ZArith List Bool.
From LV Require Import Gen.Consts_C06 Gen.Consts_C18 Wire.C2SInput Session.InputDefs
  Session.InputProofs Session.InputProofs3 Session.InputProofs4
  Session.ClipboardDefs Session.ClipboardProofs Session.ClipboardProofs2.
Import ListNotations.
Local Open Scope Z_scope.

(* ---- classic Latin-1 text ------------------------------------------------------------- *)
(* client -> server: what SendClientCutText writes reaches setXCutText with the same bytes and
   length, for every text of 0..2^20 bytes (any byte values), however the stream is cut *)
Theorem C18_classic_c2s : forall zinflate fs cfg o c b text r,
  c_state c = SNormal -> c_viewonly c = false ->
  Z.of_nat (length text) <= c06_cut_text_limit ->
  st_bytes (c_in c) = lvc_send_cut text ++ r ->
  let a := handle_client (ext_cut_real zinflate fs) cfg o c b in
  a_events a = [EvCut (c_id c) text] /\ c_closed (a_client a) = c_closed c /\
  st_bytes (c_in (a_client a)) = r /\ a_owner a = o.
Proof. intros zinflate fs. exact (cut_limit_accept (ext_cut_real zinflate fs)). Qed.

(* server -> client: rfbSendServerCutText queues exactly the text for every open connection ... *)
Theorem C18_classic_s2c_sent : forall text s c,
  In c (s_clients s) -> c_closed c = false ->
  In (set_clip c (add_out (c_clip c) (OClassic text))) (s_clients (publish_classic text s)).
Proof. exact publish_classic_out. Qed.

(* ... and LibVNCClient hands the wire form of that message to GotXCutText unchanged *)
(* [_whole_message]: LibVNCClient's ReadFromRFBServer buffering and the server's partial rfbWriteExact
   are not modelled - [lvc_recv] is given one complete message *)
Theorem C18_classic_s2c_received_whole_message : forall zinflate zcompress xl l t,
  Z.of_nat (length t) <= c18_lvc_cut_limit ->
  lvc_recv zinflate xl l (enc_out zcompress (OClassic t)) = (l, [GotCut t], true).
Proof. exact lvc_recv_classic. Qed.

Example C18_classic_nonvacuous :
  lvc_recv (fun _ => ([], ZErr)) false (mkLvc 0 false) (enc_out (fun x => x) (OClassic [0; 255; 0; 65]))
  = (mkLvc 0 false, [GotCut [0; 255; 0; 65]], true).
Proof. vm_compute. reflexivity. Qed.

(* ---- extended clipboard, client -> server ----------------------------------------------
   SendClientCutTextUTF8 (Notify, then Provide with text++NUL in a sync-flushed stream): the
   server calls setXCutTextUTF8 exactly once with text ++ [0] (length len+1: the wire format
   is NUL-terminated) - if the COMPRESSED message still fits the 1 MiB ClientCutText limit *)
Theorem C18_ext_c2s : forall zinflate zsync fs cfg o c b1 b2 l text bytes r,
  c_state c = SNormal -> c_closed c = false -> c_viewonly c = false -> k_ext (c_clip c) = true ->
  let content := be32 (Z.of_nat (length text) + 1) ++ text ++ [0] in
  zinflate (zsync content) = (content, ZMore) ->
  Z.of_nat (length text) + 1 <= c18_ext_size_limit ->
  4 + Z.of_nat (length (zsync content)) <= c06_cut_text_limit ->
  lvc_send_utf8 zsync l text = Some bytes ->
  st_bytes (c_in c) = bytes ++ r ->
  let a1 := handle_client (ext_cut_real zinflate fs) cfg o c b1 in
  let a2 := handle_client (ext_cut_real zinflate fs) cfg (a_owner a1) (a_client a1) b2 in
  a_events a1 = [] /\ a_events a2 = [EvCutUTF8 (c_id c) (text ++ [0]) 0] /\
  c_closed (a_client a2) = false /\ st_bytes (c_in (a_client a2)) = r /\ c_clip (a_client a2) = c_clip c.
Proof. exact ext_c2s. Qed.

(* the same for any peer - restricted to flags EXACTLY Provide|Text and a stream (open or finished)
   that inflates to exactly ONE record size ++ data: it delivers exactly data.  (Several formats in
   one Provide are exercised by the correspondence run only.) *)
Theorem C18_ext_provide_delivered_single_record : forall zinflate fs k z data t,
  zinflate z = (be32 (Z.of_nat (length data)) ++ data, t) -> t = ZMore \/ t = ZEnd ->
  0 < Z.of_nat (length data) <= c18_ext_size_limit ->
  ext_cut_real zinflate fs false k (be32 (c18_Provide + c18_Text) ++ z) = (k, [U8 data 0], false).
Proof. exact ext_provide_text. Qed.

(* The record carries |text|+1 bytes (the NUL is counted) and both receivers compare THAT with their
   record limit.  The code as it is (d41003f): record limit = text limit + 1 = 2^20 + 1 (regenerated from
   the source each run; [C18_ext_limit_value] pins it, so a library that falls back to the former
   `size > (1 << 20)` fails this obligation), hence EVERY text of 0..2^20 bytes passes the record check
   in both directions ([C18_ext_c2s_full_range], [C18_ext_s2c_received_full_range_whole_message]). *)
Theorem C18_ext_limit_value :
  c18_ext_size_limit = c06_cut_text_limit + 1 /\ c18_lvc_ext_size_limit = c18_lvc_cut_limit + 1 /\
  c06_cut_text_limit = 2 ^ 20 /\ c18_lvc_cut_limit = 2 ^ 20.
Proof. exact ext_limit_value. Qed.

Theorem C18_ext_c2s_full_range : forall zinflate zsync fs cfg o c b1 b2 l text bytes r,
  c_state c = SNormal -> c_closed c = false -> c_viewonly c = false -> k_ext (c_clip c) = true ->
  let content := be32 (Z.of_nat (length text) + 1) ++ text ++ [0] in
  zinflate (zsync content) = (content, ZMore) ->
  Z.of_nat (length text) <= 2 ^ 20 ->
  4 + Z.of_nat (length (zsync content)) <= c06_cut_text_limit ->
  lvc_send_utf8 zsync l text = Some bytes ->
  st_bytes (c_in c) = bytes ++ r ->
  let a1 := handle_client (ext_cut_real zinflate fs) cfg o c b1 in
  let a2 := handle_client (ext_cut_real zinflate fs) cfg (a_owner a1) (a_client a1) b2 in
  a_events a1 = [] /\ a_events a2 = [EvCutUTF8 (c_id c) (text ++ [0]) 0] /\
  c_closed (a_client a2) = false /\ st_bytes (c_in (a_client a2)) = r /\ c_clip (a_client a2) = c_clip c.
Proof. exact ext_c2s_full. Qed.

Theorem C18_ext_s2c_received_full_range_whole_message : forall zinflate zcompress xl l text,
  l_utf8 l = true -> Z.of_nat (length text) <= 2 ^ 20 ->
  let content := be32 (Z.of_nat (length text) + 1) ++ text ++ [0] in
  zinflate (zcompress content) = (content, ZEnd) ->
  4 + Z.of_nat (length (zcompress content)) <= c18_lvc_cut_limit ->
  lvc_recv zinflate xl l (enc_out zcompress (OProvide content)) = (l, [GotCutUTF8 (text ++ [0]) 0], true).
Proof. exact lvc_recv_provide_text. Qed.

(* Regression witnesses of the former limit (finding C18-ext-exact-1MiB-text, fixed by d41003f): for
   WHATEVER record limit the source has, a text as long as that limit is refused by both receivers and
   only its sender is closed.  With the former constant 2^20 this hit legitimate 2^20-byte texts; with
   the constant as it is now it says that a text of 2^20 + 1 bytes - one more than any sender may
   offer - is refused. *)
Theorem C18_ext_exact_limit_closes : forall zinflate fs vo k z text t,
  Z.of_nat (length text) = c18_ext_size_limit ->
  zinflate z = (be32 (Z.of_nat (length text) + 1) ++ text ++ [0], t) ->
  ext_cut_real zinflate fs vo k (be32 (c18_Provide + c18_Text) ++ z) = (k, [], true).
Proof. exact ext_exact_limit_closes. Qed.

Theorem C18_ext_exact_limit_only_sender : forall zinflate fs s id c z r text t,
  ext_msg_pending s id c (be32 (c18_Provide + c18_Text) ++ z) r ->
  Z.of_nat (length text) = c18_ext_size_limit ->
  zinflate z = (be32 (Z.of_nat (length text) + 1) ++ text ++ [0], t) ->
  closes_only_sender (ext_cut_real zinflate fs) s id c (c_clip c).
Proof. exact only_sender_exact_limit. Qed.

Theorem C18_lvc_ext_exact_limit_gives_up : forall zinflate l z text t,
  Z.of_nat (length text) = c18_lvc_ext_size_limit ->
  zinflate z = (be32 (Z.of_nat (length text) + 1) ++ text ++ [0], t) ->
  lvc_ext zinflate l (be32 (c18_Provide + c18_Text) ++ z) = (l, [], false).
Proof. exact lvc_ext_exact_limit. Qed.

(* ---- extended clipboard, server -> client ---------------------------------------------- *)
Theorem C18_ext_s2c_sent : forall fl text fb c,
  c_closed c = false -> k_ext (c_clip c) = true ->
  has (k_usercap (c_clip c)) c18_Provide = true -> Z.of_nat (length text) <= k_maxunsol (c_clip c) ->
  let c' := pub_utf8_client fl text fb c in
  k_out (c_clip c') = k_out (c_clip c) ++ [OProvide (be32 (Z.of_nat (length text) + 1) ++ text ++ [0])] /\
  k_data (c_clip c') = Some (text ++ [0]) /\ k_locked (c_clip c') = k_locked (c_clip c).
Proof. exact pub_utf8_ext. Qed.

(* the text does not fit the peer's unsolicited-size limit (or the peer takes no Provide): it is
   remembered and announced with a Notify ... *)
Theorem C18_ext_s2c_notify : forall fl text fb c,
  c_closed c = false -> k_ext (c_clip c) = true ->
  has (k_usercap (c_clip c)) c18_Provide = false \/ k_maxunsol (c_clip c) < Z.of_nat (length text) ->
  has (k_usercap (c_clip c)) c18_Notify = true ->
  let c' := pub_utf8_client fl text fb c in
  k_out (c_clip c') = k_out (c_clip c) ++ [ONotify] /\ k_data (c_clip c') = Some (text ++ [0]) /\
  k_locked (c_clip c') = k_locked (c_clip c) /\ k_usercap (c_clip c') = k_usercap (c_clip c) /\
  k_ext (c_clip c') = true.
Proof. exact pub_utf8_notify. Qed.

(* ... and the peer's Request is then answered with exactly that text, NUL-terminated, in one
   Provide (the chain publish -> Notify -> Request -> Provide, starting from ANY client record) *)
Theorem C18_notify_request_provide : forall zinflate fs fl vo text fb c,
  c_closed c = false -> k_ext (c_clip c) = true ->
  has (k_usercap (c_clip c)) c18_Provide = true -> has (k_usercap (c_clip c)) c18_Notify = true ->
  k_maxunsol (c_clip c) < Z.of_nat (length text) ->
  let c' := pub_utf8_client fl text fb c in
  k_out (c_clip c') = k_out (c_clip c) ++ [ONotify] /\
  ext_cut_real zinflate fs vo (c_clip c') (be32 (c18_Request + c18_Text)) =
    (add_out (c_clip c') (OProvide (be32 (Z.of_nat (length text) + 1) ++ text ++ [0])), [], false).
Proof. exact notify_request_provide. Qed.

(* LibVNCClient itself ignores a Notify (it never sends a Request): a text announced by Notify only
   does not reach GotXCutTextUTF8 *)
Theorem C18_lvc_notify_ignored_whole_message : forall zinflate zcompress xl l, l_utf8 l = true ->
  lvc_recv zinflate xl l (enc_out zcompress ONotify) = (l, [], true).
Proof. exact lvc_recv_notify_ignored. Qed.

Theorem C18_ext_s2c_received_whole_message : forall zinflate zcompress xl l data,
  l_utf8 l = true ->
  zinflate (zcompress (be32 (Z.of_nat (length data)) ++ data)) = (be32 (Z.of_nat (length data)) ++ data, ZEnd) ->
  0 < Z.of_nat (length data) <= c18_lvc_ext_size_limit ->
  4 + Z.of_nat (length (zcompress (be32 (Z.of_nat (length data)) ++ data))) <= c18_lvc_cut_limit ->
  lvc_recv zinflate xl l (enc_out zcompress (OProvide (be32 (Z.of_nat (length data)) ++ data)))
  = (l, [GotCutUTF8 data 0], true).
Proof. exact lvc_recv_provide. Qed.

Example C18_ext_nonvacuous :
  (* a toy "zlib" (identity coding) satisfies the oracle hypotheses: the theorems are not empty *)
  let zi (z : list Z) := (z, ZEnd) in
  let data := [104; 105; 0] in
  lvc_recv zi false (mkLvc 1 true) (enc_out (fun x => x) (OProvide (be32 3 ++ data))) = (mkLvc 1 true, [GotCutUTF8 data 0], true) /\
  ext_cut_real zi true false clip0 (be32 (c18_Provide + c18_Text) ++ be32 3 ++ data) = (clip0, [U8 data 0], false).
Proof. vm_compute. split; reflexivity. Qed.

(* ---- capability exchange ------------------------------------------------------------- *)
Theorem C18_caps_exchange_server : forall cfg encs k,
  g_utf8cb cfg = true -> In c06_rfbEncodingExtendedClipboard encs ->
  k_ext (apply_encodings cfg k encs) = true /\ In OCaps (k_out (apply_encodings cfg k encs)).
Proof. exact apply_encodings_ext. Qed.

Theorem C18_caps_exchange_no_callback : forall cfg encs k,
  g_utf8cb cfg = false -> apply_encodings cfg k encs = k.
Proof. exact apply_encodings_off. Qed.

Theorem C18_caps_exchange_client_whole_message : forall zinflate zcompress xl l, l_utf8 l = true ->
  exists l', lvc_recv zinflate xl l (enc_out zcompress OCaps) = (l', [], true) /\ l_caps l' <> 0 /\ l_utf8 l' = true.
Proof. exact lvc_recv_caps. Qed.

Theorem C18_caps_from_client : forall zinflate fs vo k flags p m,
  be32_at p 0 = Some flags -> has flags c18_Caps = true -> has flags c18_Text = true ->
  popcount16 flags <> 0 -> Z.of_nat (length p) = 4 + popcount16 flags * 4 -> be32_at p 4 = Some m ->
  ext_cut_real zinflate fs vo k p = (set_maxunsol (set_caps k flags) m, [], false).
Proof. exact ext_caps_text. Qed.

Theorem C18_caps_without_text_disables : forall zinflate fs vo k flags p,
  be32_at p 0 = Some flags -> has flags c18_Caps = true -> has flags c18_Text = false ->
  Z.of_nat (length p) = 4 + popcount16 flags * 4 ->
  k_ext (fst (fst (ext_cut_real zinflate fs vo k p))) = false /\ snd (ext_cut_real zinflate fs vo k p) = false.
Proof. exact ext_caps_no_text. Qed.

(* a later SetEncodings WITHOUT the pseudo-encoding switches the extension off again (2d15d75),
   silently; with it the extension is (re-)enabled and the capabilities are sent again *)
Theorem C18_caps_withdrawn : forall ext_cut cfg o c encs,
  fix_extreset cfg = true -> ~ In c06_rfbEncodingExtendedClipboard encs ->
  let a := apply_normal ext_cut cfg o c (MSetEncodings encs) in
  k_ext (c_clip (a_client a)) = false /\ k_out (c_clip (a_client a)) = k_out (c_clip c) /\
  a_events a = [] /\ c_closed (a_client a) = c_closed c.
Proof. exact setenc_resets. Qed.

Theorem C18_caps_renewed : forall ext_cut cfg o c encs,
  g_utf8cb cfg = true -> In c06_rfbEncodingExtendedClipboard encs ->
  let a := apply_normal ext_cut cfg o c (MSetEncodings encs) in
  k_ext (c_clip (a_client a)) = true /\ In OCaps (k_out (c_clip (a_client a))).
Proof. exact setenc_enables. Qed.

(* regression witness: the former code (variant bit 4) kept the capability *)
Theorem C18_caps_withdrawn_legacy_witness : forall ext_cut cfg o c encs,
  fix_extreset cfg = false -> ~ In c06_rfbEncodingExtendedClipboard encs ->
  let a := apply_normal ext_cut cfg o c (MSetEncodings encs) in
  k_ext (c_clip (a_client a)) = k_ext (c_clip c).
Proof. exact setenc_legacy_keeps. Qed.

(* ---- request / provide, peek / notify -------------------------------------------------- *)
Theorem C18_request_provide : forall zinflate fs vo k d,
  k_data k = Some d -> d <> [] -> has (k_usercap k) c18_Provide = true ->
  ext_cut_real zinflate fs vo k (be32 (c18_Request + c18_Text)) =
  (add_out k (OProvide (be32 (Z.of_nat (length d)) ++ d)), [], false).
Proof. exact ext_request. Qed.

Theorem C18_peek_notify : forall zinflate fs vo k d,
  k_data k = Some d -> d <> [] -> has (k_usercap k) c18_Notify = true ->
  ext_cut_real zinflate fs vo k (be32 (c18_Peek + c18_Text)) = (add_out k ONotify, [], false).
Proof. exact ext_peek. Qed.

Theorem C18_request_before_publish : forall zinflate fs vo k, k_data k = None ->
  ext_cut_real zinflate fs vo k (be32 (c18_Request + c18_Text)) = (k, [], false) /\
  ext_cut_real zinflate fs vo k (be32 (c18_Peek + c18_Text)) = (k, [], false).
Proof. exact ext_request_nothing. Qed.

(* ---- Latin-1 fallback ---------------------------------------------------------------- *)
Theorem C18_fallback_latin1 : forall fl text f c,
  c_closed c = false -> k_ext (c_clip c) = false ->
  let c' := pub_utf8_client fl text (Some f) c in
  k_out (c_clip c') = k_out (c_clip c) ++ [OClassic f] /\ k_locked (c_clip c') = k_locked (c_clip c).
Proof. exact pub_utf8_fallback. Qed.

(* no fallback text: a client without the extension gets nothing and NOTHING else happens to it
   (the code as it is: the send mutex is released, 3fe86ea) *)
Theorem C18_fallback_null : forall text c,
  k_ext (c_clip c) = false -> pub_utf8_client true text None c = c.
Proof. exact pub_utf8_null_fallback_fixed. Qed.

Example C18_fallback_null_nonvacuous :
  let cfg := mkCfg 100 80 false 0 false false false 0 true 0 in
  fix_lock cfg = true /\
  publish_utf8 [65] None (mkSrv cfg [new_client cfg 3 false] None 0) = mkSrv cfg [new_client cfg 3 false] None 0.
Proof. vm_compute. split; reflexivity. Qed.

(* regression witness: the former code (variant bit 2) left the send mutex of such a client locked *)
Theorem C18_fallback_null_legacy_witness : forall text c,
  c_closed c = false -> k_ext (c_clip c) = false ->
  let c' := pub_utf8_client false text None c in
  k_locked (c_clip c') = true /\ k_out (c_clip c') = k_out (c_clip c).
Proof. exact pub_utf8_null_fallback_locks. Qed.

(* ---- every connected client, mixed populations ------------------------------------------------
   rfbSendServerCutTextUTF8 over the whole client list: EVERY connection - whatever the mix of
   closed / extension+Provide / extension+Notify / extension with neither / classic clients - is
   queued exactly what its class says ([pub_expect]) and nothing else about it changes (the code as
   it is: fix_lock); the list keeps its ids and order *)
Theorem C18_publish_utf8_every_client : forall text fb s id c,
  fix_lock (s_cfg s) = true ->
  find_client (s_clients s) id = Some c ->
  exists c', find_client (s_clients (publish_utf8 text fb s)) id = Some c' /\
    k_out (c_clip c') = k_out (c_clip c) ++ pub_expect text fb c /\
    k_data (c_clip c') = (if negb (c_closed c) && k_ext (c_clip c) then Some (text ++ [0]) else k_data (c_clip c)) /\
    k_locked (c_clip c') = k_locked (c_clip c) /\ k_ext (c_clip c') = k_ext (c_clip c) /\
    set_clip c' (c_clip c) = c.
Proof. exact publish_utf8_all. Qed.

Theorem C18_publish_utf8_shape : forall text fb s,
  map c_id (s_clients (publish_utf8 text fb s)) = map c_id (s_clients s) /\
  s_owner (publish_utf8 text fb s) = s_owner s /\ s_cfg (publish_utf8 text fb s) = s_cfg s.
Proof. exact publish_utf8_shape. Qed.

Theorem C18_publish_classic_every_client : forall text s id c,
  find_client (s_clients s) id = Some c ->
  find_client (s_clients (publish_classic text s)) id =
    Some (if c_closed c then c else set_clip c (add_out (c_clip c) (OClassic text))).
Proof. exact publish_classic_all. Qed.

Example C18_publish_mixed_nonvacuous :
  let cfg := mkCfg 100 80 false 0 false false false 0 true 0 in
  let mk id closed k := mkClient id SNormal closed 8 false None inp_empty ptr0 100 80 k false in
  let kx cap mu := mkClip true cap mu None [] false in
  let s := mkSrv cfg [mk 1 false clip0; mk 2 false (kx (c18_Provide + c18_Notify + c18_Text) 10);
                      mk 3 false (kx (c18_Provide + c18_Notify + c18_Text) 1); mk 4 true clip0] None 0 in
  map (fun c => k_out (c_clip c)) (s_clients (publish_utf8 [104; 105] (Some [63]) s))
  = [[OClassic [63]]; [OProvide (be32 3 ++ [104; 105; 0])]; [ONotify]; []].
Proof. vm_compute. reflexivity. Qed.

(* ---- limits, malformed messages ---------------------------------------------------------- *)
Theorem C18_limits_short_payload : forall zinflate fs vo k p,
  (length p < 4)%nat -> ext_cut_real zinflate fs vo k p = (k, [], true).
Proof. exact ext_short_payload. Qed.

Theorem C18_limits_size_field : forall zinflate fs k z size rest t,
  zinflate z = (be32 size ++ rest, t) -> rest <> [] ->
  c18_ext_size_limit < size < two32 ->
  ext_cut_real zinflate fs false k (be32 (c18_Provide + c18_Text) ++ z) = (k, [], true).
Proof. exact ext_provide_too_big. Qed.

(* a stream that breaks (or simply finishes) before the 4-byte size field is complete ... *)
Theorem C18_limits_corrupt_zlib_early : forall zinflate fs vo k z c t,
  zinflate z = (c, t) -> (length c < 4)%nat -> t <> ZMore ->
  ext_cut_real zinflate fs vo k (be32 (c18_Provide + c18_Text) ++ z) = (k, [], true).
Proof. exact ext_provide_corrupt_short. Qed.

(* ... or after the size field, before the promised bytes are complete: nothing is delivered, not
   even the bytes that did inflate *)
Theorem C18_limits_corrupt_zlib_late : forall zinflate fs vo k z size data,
  zinflate z = (be32 size ++ data, ZErr) -> 0 <= size < two32 -> Z.of_nat (length data) <= size ->
  ext_cut_real zinflate fs vo k (be32 (c18_Provide + c18_Text) ++ z) = (k, [], true).
Proof. exact ext_provide_corrupt_late. Qed.

(* a Caps message whose length is not 4 + 4 * (number of format bits) (rfbserver.c:2966) *)
Theorem C18_limits_caps_length : forall zinflate fs vo k flags p,
  be32_at p 0 = Some flags -> has flags c18_Caps = true -> popcount16 flags <> 0 ->
  Z.of_nat (length p) <> 4 + popcount16 flags * 4 ->
  ext_cut_real zinflate fs vo k p = (set_caps k flags, [], true).
Proof. exact ext_caps_bad_length. Qed.

Theorem C18_limits_negative_length : forall (xl : bool) i len0 r,
  two31 <= len0 < two32 -> c06_cut_text_limit + (if xl then c06_ext_slack else 0) < neg32 len0 ->
  st_bytes i = cut_hdr len0 ++ r ->
  parse_normal true xl i = RFail PTooBig.
Proof. exact parse_cut_ext_too_big. Qed.

Example C18_limits_negative_length_nonvacuous :
  parse_normal true false (mkInp (cut_hdr two31 ++ [1; 2; 3]) false []) = RFail PTooBig /\
  parse_normal true false (mkInp (cut_hdr (neg32 (c06_cut_text_limit + 1))) false [Frag [9]]) = RFail PTooBig.
Proof. vm_compute. split; reflexivity. Qed.

(* a size field larger than what the stream holds is refused like every other malformed stream:
   the sender is closed, nothing is delivered (the code as it is, 260e10a) *)
Theorem C18_limits_short_stream : forall zinflate fs k z size data t, fs = true ->
  zinflate z = (be32 size ++ data, t) -> t = ZEnd \/ t = ZMore -> data <> [] ->
  Z.of_nat (length data) < size <= c18_ext_size_limit ->
  ext_cut_real zinflate fs false k (be32 (c18_Provide + c18_Text) ++ z) = (k, [], true).
Proof. exact ext_provide_short_stream_fixed. Qed.

Example C18_limits_short_stream_nonvacuous :
  ext_cut_real (fun z => (z, ZEnd)) true false clip0 (be32 (c18_Provide + c18_Text) ++ be32 100 ++ [1; 2; 3])
  = (clip0, [], true).
Proof. vm_compute. reflexivity. Qed.

(* regression witness: the former code (variant bit 3) handed the application [data] followed by
   size-|data| bytes of never-written heap memory *)
Theorem C18_limits_short_stream_legacy_witness : forall zinflate fs k z size data t, fs = false ->
  zinflate z = (be32 size ++ data, t) -> t = ZEnd \/ t = ZMore -> data <> [] ->
  Z.of_nat (length data) < size <= c18_ext_size_limit ->
  ext_cut_real zinflate fs false k (be32 (c18_Provide + c18_Text) ++ z)
  = (k, [U8 data (size - Z.of_nat (length data))], false).
Proof. exact ext_provide_short_stream. Qed.

(* ---- "closes only the offending connection" -------------------------------------------------
   each rejection above, seen from one rfbProcessClientMessage of the whole server
   ([closes_only_sender], Session/ClipboardProofs2.v): no callback, pointer owner unchanged, the
   sender's record closed, and the FULL record of every other connection - clipboard state, queued
   output, pending input, closed flag - equal to what it was *)
Theorem C18_limits_short_payload_only_sender : forall zinflate fs s id c p r,
  ext_msg_pending s id c p r -> (length p < 4)%nat ->
  closes_only_sender (ext_cut_real zinflate fs) s id c (c_clip c).
Proof. exact only_sender_short_payload. Qed.

Theorem C18_limits_size_field_only_sender : forall zinflate fs s id c z r size rest t,
  ext_msg_pending s id c (be32 (c18_Provide + c18_Text) ++ z) r ->
  zinflate z = (be32 size ++ rest, t) -> rest <> [] -> c18_ext_size_limit < size < two32 ->
  closes_only_sender (ext_cut_real zinflate fs) s id c (c_clip c).
Proof. exact only_sender_size_field. Qed.

Theorem C18_limits_corrupt_zlib_early_only_sender : forall zinflate fs s id c z r cc t,
  ext_msg_pending s id c (be32 (c18_Provide + c18_Text) ++ z) r ->
  zinflate z = (cc, t) -> (length cc < 4)%nat -> t <> ZMore ->
  closes_only_sender (ext_cut_real zinflate fs) s id c (c_clip c).
Proof. exact only_sender_corrupt_short. Qed.

Theorem C18_limits_corrupt_zlib_late_only_sender : forall zinflate fs s id c z r size data,
  ext_msg_pending s id c (be32 (c18_Provide + c18_Text) ++ z) r ->
  zinflate z = (be32 size ++ data, ZErr) -> 0 <= size < two32 -> Z.of_nat (length data) <= size ->
  closes_only_sender (ext_cut_real zinflate fs) s id c (c_clip c).
Proof. exact only_sender_corrupt_late. Qed.

Theorem C18_limits_short_stream_only_sender : forall zinflate fs s id c z r size data t, fs = true ->
  ext_msg_pending s id c (be32 (c18_Provide + c18_Text) ++ z) r ->
  zinflate z = (be32 size ++ data, t) -> t = ZEnd \/ t = ZMore -> data <> [] ->
  Z.of_nat (length data) < size <= c18_ext_size_limit ->
  closes_only_sender (ext_cut_real zinflate fs) s id c (c_clip c).
Proof. exact only_sender_short_stream. Qed.

Theorem C18_limits_caps_length_only_sender : forall zinflate fs s id c p r flags,
  ext_msg_pending s id c p r ->
  be32_at p 0 = Some flags -> has flags c18_Caps = true -> popcount16 flags <> 0 ->
  Z.of_nat (length p) <> 4 + popcount16 flags * 4 ->
  closes_only_sender (ext_cut_real zinflate fs) s id c (set_caps (c_clip c) flags).
Proof. exact only_sender_caps_length. Qed.

Theorem C18_limits_negative_length_only_sender : forall zinflate fs s id c len0 r,
  find_client (s_clients s) id = Some c -> c_closed c = false -> c_state c = SNormal ->
  k_ext (c_clip c) = true ->
  two31 <= len0 < two32 ->
  c06_cut_text_limit + (if fix_extlimit (s_cfg s) then c06_ext_slack else 0) < neg32 len0 ->
  st_bytes (c_in c) = cut_hdr len0 ++ r ->
  closes_only_sender (ext_cut_real zinflate fs) s id c (c_clip c).
Proof. exact only_sender_negative_length. Qed.

Example C18_only_sender_nonvacuous :
  (* two connections with the extension on; 7 sends a Provide whose size field (100) exceeds what the
     stream holds: 7 is closed, 3 is untouched *)
  let cfg := mkCfg 100 80 false 0 false false false 0 true 0 in
  let mk id bytes := mkClient id SNormal false 8 false None (mkInp bytes false []) ptr0 100 80
                       (mkClip true c18_default_usercap c18_default_maxunsol None [] false) false in
  let p := be32 (c18_Provide + c18_Text) ++ be32 100 ++ [1; 2; 3] in
  let c7 := mk 7 (cut_hdr (neg32 11) ++ p) in
  let s := mkSrv cfg [mk 3 [9]; c7] None 0 in
  ext_msg_pending s 7 c7 p [] /\
  handle (ext_cut_real (fun z => (z, ZEnd)) true) s 7
  = (mkSrv cfg [mk 3 [9]; set_closed (mk 7 []) true] None 0, []).
Proof. vm_compute. repeat split; try reflexivity; discriminate. Qed.

(* ---- LibVNCClient's own rejections: HandleRFBServerMessage returns FALSE, nothing reaches the
   application (rfbclient.c:2598, 1930, 1979, 2001, 1973/1995) ---------------------------------- *)
Theorem C18_lvc_ext_whole_message : forall zinflate xl l p,
  l_utf8 l = true -> 0 < Z.of_nat (length p) <= c18_lvc_cut_limit ->
  lvc_recv zinflate xl l (sct_ext_msg p) = lvc_ext zinflate l p.
Proof. exact lvc_recv_ext_msg. Qed.

Theorem C18_lvc_limits_too_long : forall zinflate (xl : bool) l m len0,
  be32_at m 4 = Some len0 ->
  (if two31 <=? len0
   then c18_lvc_cut_limit + (if xl then c06_ext_slack else 0) < neg32 len0
   else c18_lvc_cut_limit < len0) ->
  lvc_recv zinflate xl l m = (l, [], false).
Proof. exact lvc_recv_too_long. Qed.

Theorem C18_lvc_limits_short_payload : forall zinflate l p,
  (length p < 4)%nat -> lvc_ext zinflate l p = (l, [], false).
Proof. exact lvc_ext_short_payload. Qed.

Theorem C18_lvc_limits_size_field : forall zinflate l z size rest t,
  zinflate z = (be32 size ++ rest, t) -> rest <> [] -> c18_lvc_ext_size_limit < size < two32 ->
  lvc_ext zinflate l (be32 (c18_Provide + c18_Text) ++ z) = (l, [], false).
Proof. exact lvc_ext_too_big. Qed.

Theorem C18_lvc_limits_short_stream : forall zinflate l z size data t,
  zinflate z = (be32 size ++ data, t) -> t = ZEnd \/ t = ZMore -> data <> [] ->
  Z.of_nat (length data) < size <= c18_lvc_ext_size_limit ->
  lvc_ext zinflate l (be32 (c18_Provide + c18_Text) ++ z) = (l, [], false).
Proof. exact lvc_ext_short_stream. Qed.

Theorem C18_lvc_limits_corrupt_zlib_early : forall zinflate l z c t,
  zinflate z = (c, t) -> (length c < 4)%nat -> t <> ZMore ->
  lvc_ext zinflate l (be32 (c18_Provide + c18_Text) ++ z) = (l, [], false).
Proof. exact lvc_ext_corrupt_short. Qed.

Theorem C18_lvc_limits_corrupt_zlib_late : forall zinflate l z size data,
  zinflate z = (be32 size ++ data, ZErr) -> 0 <= size < two32 -> Z.of_nat (length data) <= size ->
  lvc_ext zinflate l (be32 (c18_Provide + c18_Text) ++ z) = (l, [], false).
Proof. exact lvc_ext_corrupt_late. Qed.

Example C18_lvc_limits_nonvacuous :
  let zi (z : list Z) := (z, ZEnd) in
  lvc_recv zi false (mkLvc 1 true) (sct_ext_msg (be32 (c18_Provide + c18_Text) ++ be32 100 ++ [1; 2; 3]))
  = (mkLvc 1 true, [], false).
Proof. vm_compute. reflexivity. Qed.

(* ---- the zlib premises ------------------------------------------------------------------
   [zinflate]/[zcompress]/[zsync] are quantified in every theorem.  What ONE inflate() call reports
   is the plain definition [ztake]; the four rules it encodes are stated here as propositions, [ztake]
   obeys them, and they determine it on every call that asks for at least one byte - so each theorem
   above holds for ANY per-call behaviour obeying the four rules (they are what the correspondence
   run checks against the real zlib on valid, truncated and corrupted streams). *)
Theorem C18_zlib_rules_obeyed : zrule_space ztake /\ zrule_end ztake /\ zrule_err ztake /\ zrule_more ztake.
Proof. exact ztake_obeys. Qed.

Theorem C18_zlib_rules_characterise : forall zt,
  zrule_space zt -> zrule_end zt -> zrule_err zt -> zrule_more zt ->
  forall c t inlen pos n, (0 < n)%nat -> zt c t inlen pos n = ztake c t inlen pos n.
Proof. exact ztake_characterised. Qed.

Example C18_zlib_open_stream_nonvacuous :
  (* the ZMore path (a sync-flushed stream, what LibVNCClient sends) with a toy identity coding *)
  let zi (z : list Z) := (z, ZMore) in
  ext_cut_real zi true false clip0 (be32 (c18_Provide + c18_Text) ++ be32 3 ++ [104; 105; 0]) = (clip0, [U8 [104; 105; 0] 0], false) /\
  ztake (be32 3 ++ [104; 105; 0]) ZMore 7 4 3 = ([104; 105; 0], ZS_OK) /\
  ztake (be32 3 ++ [104; 105; 0]) ZMore 7 7 4 = ([], ZS_BUF).
Proof. vm_compute. repeat split; reflexivity. Qed.

(* ---- view-only ---------------------------------------------------------------------- *)
Theorem C18_viewonly_no_delivery_ext : forall zinflate fs k p,
  snd (fst (ext_cut_real zinflate fs true k p)) = [].
Proof. exact ext_gated_real. Qed.

(* hence C06's gating theorem holds for the real handler: every callback (setXCutText and
   setXCutTextUTF8 included) comes from an open, RFB_NORMAL, non-view-only connection *)
Theorem C18_viewonly_no_delivery : forall zinflate fs s id e,
  In e (snd (handle (ext_cut_real zinflate fs) s id)) ->
  exists c, find_client (s_clients s) id = Some c /\ c_closed c = false /\
            c_state c = SNormal /\ c_viewonly c = false /\ ev_client e = id /\
            (is_ptr e = true -> ptr_allowed (s_owner s) id = true).
Proof. intros zinflate fs. exact (handle_gate (ext_cut_real zinflate fs) (ext_gated_real zinflate fs)). Qed.

(* constants the model starts from are those of rfbNewClient *)
Theorem C18_initial_state : clip0 = mkClip false c18_default_usercap c18_default_maxunsol None [] false.
Proof. exact clip0_defaults. Qed.

(* ---- proposed repair notes/fix_C18_3.diff (variant bit 5, not in the library yet) -------
   with 1 KiB of slack an extended message of up to 2^20 + 1024 bytes is read whole instead of
   closing the connection: a 1 MiB text that zlib cannot shrink then reaches the record-level
   checks (size <= 2^20) and the application like any other text *)
Theorem C18_ext_limit_proposed : forall i payload r,
  0 < Z.of_nat (length payload) <= c06_cut_text_limit + c06_ext_slack ->
  st_bytes i = cut_hdr (neg32 (Z.of_nat (length payload))) ++ payload ++ r ->
  exists j, parse_normal true true i = ROk (MCutExt payload) j /\ st_bytes j = r /\ st_eof j = st_eof i.
Proof. exact parse_cut_ext_slack. Qed.

(* ---- the client's write loop (libvncclient WriteToRFBServer) ---------------------------
   For every schedule of the kernel's answers to the successive write() calls - short writes of
   any size, EAGAIN any number of times (each followed by a select() that reports the socket
   writable) - the bytes handed to the kernel, in order, are exactly the buffers of the Send*
   call, and the call reports success.  (What SendClientCutText / SendClientCutTextUTF8 put on
   the wire therefore is what C18_classic_c2s / C18_ext_c2s assume, whatever the socket does.) *)
Theorem C18_client_write_complete : forall parts sched acc,
  Forall (fun k => 0 <= k) sched ->
  exists rest, lvc_write_all sched parts acc = (acc ++ concat parts, rest, true).
Proof. exact lvc_write_all_complete. Qed.

Theorem C18_client_write_cut_text : forall text,
  concat (lvc_send_cut_parts text) = lvc_send_cut text.
Proof. exact send_cut_parts_concat. Qed.

Theorem C18_client_write_utf8 : forall zsync l text,
  option_map (@concat Z) (lvc_send_utf8_parts zsync l text) = lvc_send_utf8 zsync l text.
Proof. exact send_utf8_parts_concat. Qed.

(* after an error other than EAGAIN the call fails and a prefix of the buffer is on the wire *)
Theorem C18_client_write_prefix : forall sched buf acc,
  exists pre suf, fst (fst (lvc_write sched buf acc)) = acc ++ pre /\ buf = pre ++ suf.
Proof. exact lvc_write_prefix. Qed.

Example C18_client_write_complete_nonvacuous :
  lvc_write_all [1; 0; 0; 3; 0; 1000] (lvc_send_cut_parts [104; 105]) []
  = (lvc_send_cut [104; 105], [], true).
Proof. vm_compute. reflexivity. Qed.
