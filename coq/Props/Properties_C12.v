(* C12 - Every connection is torn down exactly once and releases all it acquired.
   Only property theorems here, each closed by [exact] of a lemma proved in Session/LifecycleProofs.v.
   All statements are about [run cfg ops] = the fold of [step] (the function the correspondence run
   executes, extracted to OCaml) over an ARBITRARY operation list: any number of connections
   (handed over with rfbNewClient or accepted through the listening socket), any interleaving of
   accepts (with the application's accept/hold/refuse decision), peer bytes (well-formed, truncated or
   garbage), peer closes, injected I/O faults (EOF / reset / would-block until timeout at any read,
   recv or write call index), application calls (rfbCloseClient also from inside callbacks,
   rfbStartOnHoldClient, rfbRefuseOnHoldClient, rfbSendBell, ...), SetScale / PalmVNCSetScaleFactor
   requests, rfbProcessEvents, rfbShutdownServer, rfbScreenCleanup; any configuration (screen size,
   authentication, sharing flags, xvp hook, file-transfer permission).

   The model mirrors /repo AFTER the fix commits b4cfd8a, 4d56b95, 8cd7191, 3fe86ea (the defects they
   repair were found by this check: known_findings.d/C12.json, status "fixed"); the statements that
   were refuted for the earlier code are now theorems.

   SCOPE OF EVERY THEOREM BELOW (what [run] covers and what it does not):
   * the modelled fragment only: as soon as a run leaves it the model sets the flag [s_unmod] and from
     then on does NOT follow the C code (any SetEncodings naming an encoding other than Raw / CopyRect /
     Zlib / the xvp pseudo-encoding, any SetPixelFormat / SetDesktopSize / TextChat body, a partial
     update request, a file name other than the two scripted ones, a WebSocket or TLS first byte).  The
     statements remain true of the model after that point but say nothing about libvncserver there;
     the correspondence run skips such cases (counted in the evidence).
   * fixed configuration of the screen: application-driven loop (backgroundLoop = FALSE),
     deferUpdateTime = deferPtrUpdateTime = 0 (the deferred ptrAddEvent call site of rfbUpdateClient is
     not modelled), handleEventsEagerly = FALSE, rfbShutdownServer(screen, TRUE) only, no extensions
     (no extension newClient / close hooks), no file-transfer quota denial, true-colour server format.
   * routes into rfbNewClient: direct calls, the listening socket, the inetd descriptor ([OInetd]) and the
     rfbSetNonBlocking failure exits (decisions [DNonblock], [DNonblockLate]) ARE in the model.  The httpd
     proxy hand-over and WebSocket upgrades are NOT: they are TESTED by the specification oracle only
     (props/C12.py, transport sessions).  Reverse connections and UDP clients are not exercised at all.
   * application calls are made on clients the application still owns: an operation naming a freed or
     absent connection is a no-op in the model (C would dereference a dangling pointer).
   * "no teardown re-locks a mutex it holds" is NOT a theorem: after the fixes the model never sets a
     lock flag, so the statement would be vacuous; the clause is TESTED (the harness reports a second
     lock of a held mutex as HUNG on every correspondence / sweep case).
   * memory: the ledger [p_res] holds the resources of the modelled encoders only (see
     [gone_release_sites]); everything else a connection allocates is covered by LeakSanitizer only. *)
From Coq Require Import ZArith List Bool.
From LV Require Import Gen.Consts_C12 Session.LifecycleModel Session.LifecycleProofs.
Import ListNotations.

(* --- exactly once, as an invariant of every reachable state:
   newClientHook at most once; a freed record had exactly one close() of its descriptor and as many
   clientGoneHook calls as newClientHook calls (one, or none for a connection the application never
   saw); a record not yet freed had no clientGoneHook call and at most one close(). *)
Theorem C12_gone_once_invariant : forall cfg ops k c, get (run cfg ops) k = Some c ->
  (l_new (c_life c) <= 1)%nat /\
  (l_freed (c_life c) = true ->
     l_open (c_life c) = false /\ l_close (c_life c) = 1%nat /\ l_gone (c_life c) = l_new (c_life c)) /\
  (l_freed (c_life c) = false ->
     l_gone (c_life c) = 0%nat /\ l_close (c_life c) = (if l_open (c_life c) then 0%nat else 1%nat)).
Proof. exact exactly_once_invariant. Qed.

(* --- "by the time the server is idle": after any history, one more rfbProcessEvents leaves every
   connection either still open or completely torn down *)
Theorem C12_gone_once_idle : forall cfg ops,
  let s := run cfg (ops ++ [OPe]) in
  s_cleaned s = false ->
  forall k c, get s k = Some c ->
    l_open (c_life c) = true \/
    (l_freed (c_life c) = true /\ l_close (c_life c) = 1%nat /\ l_gone (c_life c) = l_new (c_life c)).
Proof. exact reaped_when_idle. Qed.

Example C12_gone_once_idle_nonvacuous :
  let s := run cfg0 ([OAccept DAccept [] true; OAccept DAccept [] true; OPeerClose 0] ++ [OPe]) in
  s_cleaned s = false /\
  exists c, get s 0%nat = Some c /\ l_freed (c_life c) = true /\ l_gone (c_life c) = 1%nat.
Proof. exact idle_nonvacuous. Qed.

(* --- "... or shut down": after any history rfbShutdownServer tears every connection ever accepted
   down exactly once (also the ones closed but not yet reaped) and leaves the client list empty of them *)
Theorem C12_gone_once : forall cfg ops,
  let s := run cfg (ops ++ [OShutdown]) in
  s_cleaned s = false ->
  forall k c, get s k = Some c ->
    l_freed (c_life c) = true /\ l_close (c_life c) = 1%nat /\ l_gone (c_life c) = l_new (c_life c)
    /\ (l_new (c_life c) <= 1)%nat /\ ~ In k (s_order s).
Proof. exact torn_down_after_shutdown. Qed.

Example C12_gone_once_nonvacuous :
  let s := run cfg0 ([OAccept DAccept [] true; OAccept DHold [] true; OAppClose 0] ++ [OShutdown]) in
  s_cleaned s = false /\ length (s_conns s) = 2%nat /\
  exists c, get s 0%nat = Some c /\ l_freed (c_life c) = true /\ l_gone (c_life c) = 1%nat.
Proof. exact shutdown_nonvacuous. Qed.

Theorem C12_gone_once_cleanup : forall cfg ops,
  s_cleaned (run cfg ops) = false ->
  forall k c, get (run cfg (ops ++ [OCleanup])) k = Some c ->
    l_freed (c_life c) = true /\ l_close (c_life c) = 1%nat /\ l_gone (c_life c) = l_new (c_life c).
Proof. exact torn_down_after_cleanup. Qed.

(* --- released (ledger of the modelled resources): every kind of resource of [res] has its release
   statement in rfbClientConnectionGone ([gone_release_sites], statement by statement), so no teardown
   leaves anything in the leak list and a freed record holds nothing.  This is bookkeeping inside the
   model (it breaks when a resource kind is added to [res] without a release site); the actual memory
   release of the implementation is tested with LeakSanitizer. *)
Theorem C12_every_resource_has_a_release_site : forall r, gone_releases r = true.
Proof. exact every_resource_has_a_release_site. Qed.

Theorem C12_released : forall cfg ops k c, get (run cfg ops) k = Some c ->
  c_leak c = [] /\ (l_freed (c_life c) = true -> p_res (c_proto c) = []).
Proof. exact released_after_gone. Qed.

(* scaled-screen references, one step (the reachable-state invariant is C12_refcounts_match_users below):
   rfbClientConnectionGone gives back exactly the reference the client holds -
   on the scaled screen it had switched to, or on the unscaled one - and touches no other count;
   rfbCloseClient touches none *)
Theorem C12_scaled_reference_released : forall k s c, s_hung s = false -> live s k = Some c ->
  p_outlock (c_proto c) || p_sendlock (c_proto c) = false ->
  let s' := connection_gone k s in
  if p_scaled (c_proto c)
  then s_ref s' = s_ref s /\ s_scaled s' = adj_scaled (p_sw (c_proto c)) (p_sh (c_proto c)) (-1) (s_scaled s)
  else s_ref s' = (s_ref s - 1)%Z /\ s_scaled s' = s_scaled s.
Proof. exact gone_releases_own_reference. Qed.

Example C12_scaled_reference_released_nonvacuous :
  let pre := [OAccept DAccept [] true] ++ hs 0 ++ [OAccept DAccept [] true] ++ hs 1 ++ [OAccept DAccept [] true] ++ hs 2
             ++ [OIn 0 (setscale 2); OPe; OIn 1 (15 :: tl (setscale 2))%Z; OPe] in
  s_scaled (run cfg0 pre) = [(4, 4, 2)]%Z /\ s_ref (run cfg0 pre) = 1%Z /\
  s_scaled (run cfg0 (pre ++ [OPeerClose 0; OPe])) = [(4, 4, 1)]%Z /\ s_ref (run cfg0 (pre ++ [OPeerClose 0; OPe])) = 1%Z /\
  s_scaled (run cfg0 (pre ++ [OShutdown])) = [(4, 4, 0)]%Z /\ s_ref (run cfg0 (pre ++ [OShutdown])) = 0%Z.
Proof. exact scaled_nonvacuous. Qed.

(* reachable-state invariant of the scaled-screen chain: in EVERY state [run] reaches, the reference count of
   the unscaled screen equals the number of live records that use it ([cnt uses_un]: not freed, not scaled),
   the count of every chain entry equals the number of live records scaled to exactly that size
   ([cnt (uses_sc w h)]), no two entries have the same size, and the size of every live scaled client has an
   entry.  After rfbShutdownServer (resp. rfbScreenCleanup) every count is 0. *)
Theorem C12_refcounts_match_users : forall cfg ops,
  let s := run cfg ops in
  s_ref s = cnt uses_un (s_conns s) /\
  (forall w h r, In (w, h, r) (s_scaled s) -> r = cnt (uses_sc w h) (s_conns s)) /\
  NoDup (keys (s_scaled s)) /\
  (forall k c, live s k = Some c -> p_scaled (c_proto c) = true ->
     has_scaled (p_sw (c_proto c)) (p_sh (c_proto c)) (s_scaled s) = true).
Proof. exact refcounts_match_users_stmt. Qed.

Theorem C12_refcounts_zero_after_shutdown : forall cfg ops,
  let s := run cfg (ops ++ [OShutdown]) in
  s_cleaned s = false ->
  s_ref s = 0%Z /\ forall w h r, In (w, h, r) (s_scaled s) -> r = 0%Z.
Proof. exact counts_zero_after_shutdown. Qed.

Theorem C12_refcounts_zero_after_cleanup : forall cfg ops,
  s_cleaned (run cfg ops) = false ->
  let s := run cfg (ops ++ [OCleanup]) in
  s_ref s = 0%Z /\ forall w h r, In (w, h, r) (s_scaled s) -> r = 0%Z.
Proof. exact counts_zero_after_cleanup. Qed.

Theorem C12_close_keeps_references : forall k s,
  s_ref (close_client k s) = s_ref s /\ s_scaled (close_client k s) = s_scaled s
  /\ s_ptr (close_client k s) = s_ptr s /\ s_order (close_client k s) = s_order s /\ s_cfg (close_client k s) = s_cfg s.
Proof. exact close_keeps_references. Qed.

(* --- unreachable: the client list contains exactly the records that are not freed, and client
   iteration (which additionally skips closed sockets) only yields open, live records *)
Theorem C12_unreachable : forall cfg ops k,
  In k (s_order (run cfg ops)) <-> exists c, get (run cfg ops) k = Some c /\ l_freed (c_life c) = false.
Proof. exact listed_iff_not_freed. Qed.

Theorem C12_iteration_open_only : forall s k, is_open s k = true ->
  exists c, get s k = Some c /\ l_freed (c_life c) = false /\ l_open (c_life c) = true.
Proof. exact iteration_yields_open_only. Qed.

(* the iterator as a function ([iter_clients] = the client list filtered by "socket open"): in every
   reachable state it yields exactly the records that are live and open, and a record that has been
   freed never appears again, whatever happens afterwards *)
Theorem C12_iteration_exact : forall cfg ops k,
  In k (iter_clients (run cfg ops)) <->
  exists c, get (run cfg ops) k = Some c /\ l_freed (c_life c) = false /\ l_open (c_life c) = true.
Proof. exact iteration_exact. Qed.

Theorem C12_freed_never_iterated_again : forall cfg ops ops' k c,
  get (run cfg ops) k = Some c -> l_freed (c_life c) = true ->
  ~ In k (iter_clients (run cfg (ops ++ ops'))).
Proof. exact freed_never_iterated_again. Qed.

(* --- descriptor set: in every reachable state the descriptor of every open client is in allFds and
   not above maxFd - closing, tearing down or accepting other connections (FD_CLR, the maxFd loop of
   rfbCloseClient, rfbShutdownSockets) never drops it.  (Record-level frame: C12_others_untouched*.
   The byte stream other clients receive is compared by the oracle only: witness connection.) *)
Theorem C12_open_clients_stay_in_fd_set : forall cfg ops k c,
  get (run cfg ops) k = Some c -> l_freed (c_life c) = false -> l_open (c_life c) = true ->
  In (c_fd c) (s_allfds (run cfg ops)) /\ (c_fd c <= s_maxfd (run cfg ops))%Z.
Proof. exact open_clients_stay_in_fd_set. Qed.

(* --- others untouched: tearing down connection k, handling one of its messages (SetScale included),
   sending it an update or reaping it leaves the record - protocol state, resources, counters, input
   queue, write count, scaled size - of every other connection unchanged.  The documented exception
   is the ClientInit of a non-shared client (C14), which is not covered by [process_normal]. *)
Theorem C12_others_untouched : forall k j s, j <> k ->
  get (close_client k s) j = get s j /\ get (connection_gone k s) j = get s j.
Proof. exact teardown_frame. Qed.

Theorem C12_others_untouched_messages : forall k j cur s, j <> k ->
  get (process_normal k cur s) j = get s j /\ get (update_client k s) j = get s j /\ get (reap_one s k) j = get s j.
Proof. exact message_frame. Qed.

(* step-level frame: an operation directed at connection k (peer bytes, peer close, rfbCloseClient,
   rfbStartOnHoldClient, rfbRefuseOnHoldClient, rfbSendXvp) leaves the FULL record of every other
   connection unchanged and keeps every other open client in allFds, not above maxFd; the same for the
   handshake functions of k that never touch other clients (ProtocolVersion, security-type offer, VNC
   challenge, authentication response) and for rfbSendXvp / an update of k.  Exceptions, as documented:
   ClientInit of a non-shared client and the security-type/auth-none path leading to it (C14) may close others;
   rfbProcessEvents, bell and cut text address all clients. *)
Theorem C12_step_others_untouched : forall o k j s, directed o = Some k -> j <> k -> get (step s o) j = get s j.
Proof. exact step_frame. Qed.

Theorem C12_step_others_stay_in_fd_set : forall cfg ops o k j c, directed o = Some k -> j <> k ->
  get (run cfg ops) j = Some c -> l_freed (c_life c) = false -> l_open (c_life c) = true ->
  get (run cfg (ops ++ [o])) j = Some c /\
  In (c_fd c) (s_allfds (run cfg (ops ++ [o]))) /\ (c_fd c <= s_maxfd (run cfg (ops ++ [o])))%Z.
Proof. exact step_fd_frame. Qed.

Theorem C12_handshake_others_untouched : forall k j m s, j <> k ->
  get (process_version k s) j = get s j /\ get (auth_new_client k m s) j = get s j /\
  get (send_challenge k s) j = get s j /\ get (process_auth k m s) j = get s j /\
  get (send_xvp k s) j = get s j /\ get (send_update k s) j = get s j.
Proof. exact handshake_frame. Qed.

(* --- rfbSetNonBlocking fails on a new descriptor (rfbNewConnectionFromSock, sockets.c:117, or
   rfbNewTCPOrUDPClient, rfbserver.c:370 after commit e7275e4; model outcome [dead_conn], decision
   [DNonblock] of the accept operations): after any history the connection ends with exactly one close, no
   hook call, an empty resource ledger and an empty leak list; reference counts, chain, client list,
   descriptor set, maxFd, the I/O call counter and every existing record are unchanged.  (Through
   C12_refcounts_match_users, C12_gone_once, ... the general theorems cover runs containing such failures too.) *)
Theorem C12_nonblock_failure_releases_everything : forall cfg ops pre po,
  let s0 := run cfg ops in
  let s := run cfg (ops ++ [OAccept DNonblock pre po]) in
  s_cleaned s0 = false -> (if s_listening s0 then [] else s_pending s0) = [] ->   (* no inetd descriptor still waiting *)
  (exists c, get s (length (s_conns s0)) = Some c /\ l_freed (c_life c) = true /\ l_close (c_life c) = 1%nat /\
             l_new (c_life c) = 0%nat /\ l_gone (c_life c) = 0%nat /\ p_res (c_proto c) = [] /\ c_leak c = []) /\
  s_ref s = s_ref s0 /\ s_scaled s = s_scaled s0 /\ s_order s = s_order s0 /\
  s_allfds s = s_allfds s0 /\ s_maxfd s = s_maxfd s0 /\ s_ioc s = s_ioc s0 /\
  (forall j c, get s0 j = Some c -> get s j = Some c).
Proof. exact nonblock_failure_outcome. Qed.

Example C12_nonblock_failure_listen_nonvacuous :
  let s := run cfg0 [OAccept DAccept [] true; OLAccept DNonblock [] true; OPe; OShutdown] in
  length (s_conns s) = 2%nat /\ s_ref s = 0%Z /\
  exists c, get s 1%nat = Some c /\ l_freed (c_life c) = true /\ l_close (c_life c) = 1%nat /\ l_new (c_life c) = 0%nat.
Proof. exact nonblock_listen_nonvacuous. Qed.

(* --- the inetd route (operation [OInetd]: rfbInitSockets with screen->inetdSock, hand-over by the first
   rfbCheckFds before its select(), rfbShutdownSockets after commit 284406e).  Every theorem above quantifies
   over ALL operation lists, hence covers runs that start with [OInetd]: in particular C12_gone_once says the
   inetd connection ends with exactly one close.  Explicit witnesses: peer close then shutdown; shutdown with
   the client open; shutdown BEFORE the hand-over (rfbShutdownSockets closes the descriptor, once, no hook);
   rfbSetNonBlocking failing at the hand-over. *)
Theorem C12_inetd_descriptor_closed_once :
  (let s := run cfg0 ([OInetd DAccept ver38 true; OPe; OPeerClose 0; OPe; OShutdown]) in
   s_ref s = 0%Z /\ exists c, get s 0%nat = Some c /\ l_freed (c_life c) = true /\ l_close (c_life c) = 1%nat /\
                              l_gone (c_life c) = 1%nat /\ c_leak c = []) /\
  (let s := run cfg0 ([OInetd DAccept ver38 true; OPe; OShutdown]) in
   s_ref s = 0%Z /\ exists c, get s 0%nat = Some c /\ l_freed (c_life c) = true /\ l_close (c_life c) = 1%nat /\
                              l_gone (c_life c) = 1%nat) /\
  (let s := run cfg0 ([OInetd DAccept ver38 true; OShutdown; OPe]) in
   s_ref s = 0%Z /\ length (s_conns s) = 1%nat /\
   exists c, get s 0%nat = Some c /\ l_freed (c_life c) = true /\ l_close (c_life c) = 1%nat /\ l_new (c_life c) = 0%nat) /\
  (let s := run cfg0 ([OInetd DNonblock ver38 true; OPe; OShutdown]) in
   s_ref s = 0%Z /\ exists c, get s 0%nat = Some c /\ l_freed (c_life c) = true /\ l_close (c_life c) = 1%nat /\ l_new (c_life c) = 0%nat).
Proof. exact inetd_witnesses. Qed.

(* --- regression anchors: the witnesses of the four repaired defects, and a refusal on the
   listening-socket path, end with exactly one close and one gone hook *)
Theorem C12_former_witnesses :
  (exists c, get (run cfg_ft ([OAccept DAccept [] true] ++ hs 0 ++ [OIn 0 ft_request; OPeerClose 0; OPe; OCutText8; OPe])) 0%nat = Some c
             /\ l_freed (c_life c) = true /\ l_gone (c_life c) = 1%nat /\ c_leak c = []) /\
  (exists c, get (run cfg0 ([OAccept DAccept [] true; OAppClose 0] ++ [OCleanup])) 0%nat = Some c
             /\ l_freed (c_life c) = true /\ l_gone (c_life c) = 1%nat).
Proof. exact former_witnesses. Qed.

Theorem C12_listen_refuse_closed_once :
  exists c, get (run cfg0 [OLAccept DRefuse [] true; OPe]) 0%nat = Some c /\
            l_freed (c_life c) = true /\ l_close (c_life c) = 1%nat /\ l_gone (c_life c) = 1%nat.
Proof. exact listen_refuse_nonvacuous. Qed.
