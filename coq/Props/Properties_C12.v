(* C12 - Every connection is torn down exactly once and releases all it acquired.
   Only property theorems here, each closed by [exact] of a lemma proved in Session/LifecycleProofs.v.
   All statements are about [run cfg ops] = the fold of [step] (the function the correspondence run
   executes, extracted to OCaml) over an ARBITRARY operation list: any number of connections,
   any interleaving of accepts (with the application's accept/hold/refuse decision), peer bytes
   (well-formed, truncated or garbage), peer closes, injected I/O faults (EOF / reset / would-block
   until timeout at any read, recv or write call index), application calls (rfbCloseClient also from
   inside callbacks, rfbStartOnHoldClient, rfbRefuseOnHoldClient, rfbSendBell, ...), rfbProcessEvents,
   rfbShutdownServer, rfbScreenCleanup; any configuration (screen size, authentication, sharing flags,
   xvp hook, file-transfer permission). *)
From Coq Require Import ZArith List Bool.
From LV Require Import Gen.Consts_C12 Session.LifecycleModel Session.LifecycleProofs.
Import ListNotations.

(* --- exactly once, as an invariant of every reachable state:
   newClientHook at most once; a freed record had exactly one close() of its descriptor and as many
   clientGoneHook calls as newClientHook calls (one, or none for a connection the application never
   saw); a record not yet freed had no clientGoneHook call and at most one close(). *)
Theorem C12_gone_once_invariant : forall cfg ops k c, get (run cfg ops) k = Some c ->
  (l_new (c_life c) <= 1)%nat /\
  (l_freed (c_life c) = true ->
     l_open (c_life c) = false /\ l_close (c_life c) = 1%nat /\ l_gone (c_life c) = l_new (c_life c)) /\
  (l_freed (c_life c) = false ->
     l_gone (c_life c) = 0%nat /\ l_close (c_life c) = (if l_open (c_life c) then 0%nat else 1%nat)).
Proof. exact exactly_once_invariant. Qed.

(* --- "by the time the server is idle": after any history, one more rfbProcessEvents that returns
   leaves every connection either still open or completely torn down (exactly one close, gone hook
   count = new hook count). *)
Theorem C12_gone_once_idle : forall cfg ops,
  let s := run cfg (ops ++ [OPe]) in
  s_hung s = false -> s_cleaned s = false ->
  forall k c, get s k = Some c ->
    l_open (c_life c) = true \/
    (l_freed (c_life c) = true /\ l_close (c_life c) = 1%nat /\ l_gone (c_life c) = l_new (c_life c)).
Proof. exact reaped_when_idle. Qed.

Example C12_gone_once_idle_nonvacuous :
  let s := run cfg0 ([OAccept DAccept [] true; OAccept DAccept [] true; OPeerClose 0] ++ [OPe]) in
  s_hung s = false /\ s_cleaned s = false /\
  exists c, get s 0%nat = Some c /\ l_freed (c_life c) = true /\ l_gone (c_life c) = 1%nat.
Proof. exact idle_nonvacuous. Qed.

(* --- "... or shut down".  Full statement (REFUTED by the faithful model, see below):
     forall cfg ops, let s := run cfg (ops ++ [OShutdown]) in s_hung s = false -> s_cleaned s = false ->
     forall k c, get s k = Some c -> l_freed (c_life c) = true /\ l_close (c_life c) = 1 /\ l_gone (c_life c) = l_new (c_life c).
   Provable part: when the shutdown is preceded by one turn of the event loop (which reaps the
   clients whose socket is already closed), every connection ever accepted is torn down exactly
   once and unreachable. *)
Theorem C12_gone_once_partial : forall cfg ops,
  let s := run cfg (ops ++ [OPe; OShutdown]) in
  s_hung s = false -> s_cleaned s = false ->
  forall k c, get s k = Some c ->
    l_freed (c_life c) = true /\ l_close (c_life c) = 1%nat /\ l_gone (c_life c) = l_new (c_life c)
    /\ (l_new (c_life c) <= 1)%nat /\ ~ In k (s_order s).
Proof. exact torn_down_after_shutdown. Qed.

Example C12_gone_once_partial_nonvacuous :
  let s := run cfg0 ([OAccept DAccept [] true; OAccept DHold [] true; OAppClose 0] ++ [OPe; OShutdown]) in
  s_hung s = false /\ s_cleaned s = false /\ length (s_conns s) = 2%nat.
Proof. exact shutdown_nonvacuous. Qed.

(* the iterator used by rfbShutdownServer / rfbScreenCleanup skips clients whose socket is already
   -1: after rfbCloseClient + rfbShutdownServer + rfbScreenCleanup the application's clientGoneHook
   has not run and the record is still allocated (replayed on the library: corpus/C12) *)
Theorem C12_gone_once_refuted :
  exists ops k c, let s := run cfg0 (ops ++ [OShutdown; OCleanup]) in
    s_hung s = false /\ get s k = Some c /\ l_new (c_life c) = 1%nat /\ l_gone (c_life c) = 0%nat /\
    l_freed (c_life c) = false.
Proof. exact shutdown_skips_closed_client. Qed.

(* with notes/fix_C12_3.diff (switch g_fix_iter) the full statement holds: no preceding event-loop turn needed *)
Theorem C12_gone_once_fixed : forall cfg ops, g_fix_iter cfg = true ->
  let s := run cfg (ops ++ [OShutdown]) in
  s_hung s = false -> s_cleaned s = false ->
  forall k c, get s k = Some c ->
    l_freed (c_life c) = true /\ l_close (c_life c) = 1%nat /\ l_gone (c_life c) = l_new (c_life c).
Proof. exact torn_down_after_shutdown_fixed. Qed.

Example C12_gone_once_fixed_nonvacuous :
  let s := run cfg_fixed ([OAccept DAccept [] true; OAccept DHold [] true; OAppClose 0] ++ [OShutdown]) in
  s_hung s = false /\ s_cleaned s = false /\
  exists c, get s 0%nat = Some c /\ l_freed (c_life c) = true /\ l_gone (c_life c) = 1%nat.
Proof. exact shutdown_fixed_nonvacuous. Qed.

(* --- teardown completes.  Full statement (REFUTED): forall cfg ops, s_hung (run cfg ops) = false.
   Witness without any injected fault, callback decision or application call: a file-transfer
   request followed by a disconnect leaves outputMutex locked (rfbWriteExact returns early when
   sock == -1) and rfbClientConnectionGone locks it again. *)
Theorem C12_no_deadlock_refuted :
  exists ops, s_hung (run cfg_ft ops) = true /\
              Forall (fun o => match o with OFault _ _ | OAppXvp _ | OCutText8 => False | _ => True end) ops.
Proof. exact teardown_can_deadlock. Qed.

(* with notes/fix_C12_1.diff and fix_C12_4.diff (switches g_fix_wlock, g_fix_cut8) the full statement holds:
   no operation sequence whatsoever makes a teardown block, and the idle statement needs no hypothesis
   about termination any more *)
Theorem C12_no_deadlock_fixed : forall cfg ops, g_fix_wlock cfg = true -> g_fix_cut8 cfg = true ->
  s_hung (run cfg ops) = false.
Proof. exact no_deadlock_with_fixes. Qed.

Example C12_no_deadlock_fixed_nonvacuous :
  let s := run cfg_fixed ([OAccept DAccept [] true] ++ hs 0 ++ [OIn 0 ft_request; OPeerClose 0; OPe; OCutText8; OPe]) in
  s_hung s = false /\ exists c, get s 0%nat = Some c /\ l_freed (c_life c) = true /\ l_gone (c_life c) = 1%nat.
Proof. exact no_deadlock_fixed_nonvacuous. Qed.

Theorem C12_gone_once_idle_fixed : forall cfg ops, g_fix_wlock cfg = true -> g_fix_cut8 cfg = true ->
  let s := run cfg (ops ++ [OPe]) in
  s_cleaned s = false ->
  forall k c, get s k = Some c ->
    l_open (c_life c) = true \/
    (l_freed (c_life c) = true /\ l_close (c_life c) = 1%nat /\ l_gone (c_life c) = l_new (c_life c)).
Proof. exact reaped_when_idle_fixed. Qed.

(* --- released: a torn-down connection holds nothing any more; the only resource that
   rfbClientConnectionGone does not release is the file-transfer descriptor, and without the
   file-transfer permission nothing at all is left *)
Theorem C12_released_partial : forall cfg ops k c, get (run cfg ops) k = Some c -> l_freed (c_life c) = true ->
  p_res (c_proto c) = [] /\ (forall r, In r (c_leak c) -> r = RFileFd) /\
  (g_ft cfg = false \/ g_fix_ftfd cfg = true -> c_leak c = []).
Proof. exact released_after_gone. Qed.

Theorem C12_filetransfer_fd_refuted :
  exists ops k c, let s := run cfg_ft ops in
    s_hung s = false /\ get s k = Some c /\ l_freed (c_life c) = true /\ c_leak c = [RFileFd].
Proof. exact filetransfer_fd_leaks. Qed.

(* --- unreachable: the client list contains exactly the records that are not freed, and client
   iteration (which additionally skips closed sockets) only yields open, live records *)
Theorem C12_unreachable : forall cfg ops k,
  In k (s_order (run cfg ops)) <-> exists c, get (run cfg ops) k = Some c /\ l_freed (c_life c) = false.
Proof. exact listed_iff_not_freed. Qed.

Theorem C12_iteration_open_only : forall s k, is_open s k = true ->
  exists c, get s k = Some c /\ l_freed (c_life c) = false /\ l_open (c_life c) = true.
Proof. exact iteration_yields_open_only. Qed.

(* --- others untouched: tearing down connection k (rfbCloseClient, rfbClientConnectionGone), handling
   one of its messages, sending it an update or reaping it leaves the record - protocol state,
   resources, counters, input queue and output count - of every other connection unchanged; the
   shared screen fields a teardown may change are allFds/maxFd, the scaled reference count,
   pointerClient, the client list and the event log (everything else is listed as unchanged).
   The documented exception is the ClientInit of a non-shared client (C14), which is not covered
   by [process_normal]. *)
Theorem C12_others_untouched : forall k j s, j <> k ->
  get (close_client k s) j = get s j /\ get (connection_gone k s) j = get s j.
Proof. exact teardown_frame. Qed.

Theorem C12_others_untouched_messages : forall k j cur s, j <> k ->
  get (process_normal k cur s) j = get s j /\ get (update_client k s) j = get s j /\ get (reap_one s k) j = get s j.
Proof. exact message_frame. Qed.

Theorem C12_teardown_shared_fields : forall k s,
  s_cfg (connection_gone k s) = s_cfg s /\ s_faults (connection_gone k s) = s_faults s /\
  s_ioc (connection_gone k s) = s_ioc s /\ s_bad (connection_gone k s) = s_bad s /\
  s_cfg (close_client k s) = s_cfg s /\ s_ref (close_client k s) = s_ref s /\ s_ptr (close_client k s) = s_ptr s /\
  s_order (close_client k s) = s_order s.
Proof. exact teardown_shared_fields. Qed.
