(* C14 - Shared / non-shared session policy is enforced.
   Only property theorems here, each closed by [exact] of a lemma proved in Session/SharingProofs.v.
   Model: Session/Sharing.v (mirror of the decision at the end of rfbProcessClientInitMessage).
   Configuration mirrored: the pthread build (LIBVNCSERVER_HAVE_LIBPTHREAD) with backgroundLoop = FALSE,
   i.e. the application-driven rfbProcessEvents loop: there the client iterator skips clients whose
   sock < 0 (rfbserver.c rfbClientIteratorNext) and rfbCloseClient sets sock = -1 at once.  In a build
   without thread support a closed but not yet reaped RFB_NORMAL client would still be counted by the
   dontDisconnect loop; with backgroundLoop = TRUE two ClientInits can race (C13).  Neither is covered. *)
From Coq Require Import List Bool Arith ZArith.
From LV Require Import Session.Sharing Session.SharingProofs.
Import ListNotations.

(* a client asking for exclusive access (or a never-shared screen) without dontDisconnect:
   the newcomer stays, every other fully connected client is closed, nobody else is touched *)
Theorem C14_exclusive_disconnects : forall fl l i c shared,
  ready l i c -> exclusive fl (k_rev c) shared = true -> f_dontdisc fl = false ->
  let l' := client_init fl l i shared in
  nth_error l' i = Some (joined c) /\
  (forall j d, j <> i -> nth_error l j = Some d ->
               nth_error l' j = Some (if live_normal d then close d else d)).
Proof. exact exclusive_disconnects. Qed.

(* with dontDisconnect: the newcomer is refused iff another fully connected client exists; the
   others always stay *)
Theorem C14_dontdisconnect_refuses : forall fl l i c shared,
  ready l i c -> exclusive fl (k_rev c) shared = true -> f_dontdisc fl = true ->
  let l' := client_init fl l i shared in
  (forall j, j <> i -> nth_error l' j = nth_error l j) /\
  (others_exist l i -> nth_error l' i = Some (close (joined c))) /\
  (~ others_exist l i -> nth_error l' i = Some (joined c)).
Proof. exact dontdisconnect_refuses. Qed.

(* shared access (or an always-shared screen) never causes any disconnect *)
Theorem C14_shared_never_disconnects : forall fl l i c shared,
  ready l i c -> exclusive fl (k_rev c) shared = false ->
  let l' := client_init fl l i shared in
  nth_error l' i = Some (joined c) /\ (forall j, j <> i -> nth_error l' j = nth_error l j).
Proof. exact shared_never_disconnects. Qed.

(* a never-shared screen never serves two fully connected inbound clients at once: every history.
   The flags [fl] are FIXED for the whole run (a screen whose neverShared is switched on later is not
   covered), and the theorem speaks about the states after each complete op, i.e. after each complete
   pump of the event loop (the proof, handle_one_count, establishes the bound after every single event too). *)
Theorem C14_nevershared_at_most_one : forall fl ops, f_never fl = true ->
  count_inbound_normal (run fl [] ops) <= 1.
Proof. exact nevershared_at_most_one. Qed.

(* clients that are still mid-handshake are neither closed nor counted *)
Theorem C14_midhandshake_untouched : forall fl l i shared j d,
  j <> i -> nth_error l j = Some d -> is_normal d = false ->
  nth_error (client_init fl l i shared) j = Some d.
Proof. exact midhandshake_untouched. Qed.

Theorem C14_midhandshake_not_counted : forall l i, others_exist l i ->
  exists j d, j <> i /\ nth_error l j = Some d /\ k_open d = true /\ k_phase d = PNormal.
Proof. exact midhandshake_not_counted. Qed.

(* a reverse connection finishing its initialisation is exempt: it stays and nobody is closed *)
Theorem C14_reverse_exempt : forall fl l i c shared,
  ready l i c -> k_rev c = true ->
  let l' := client_init fl l i shared in
  nth_error l' i = Some (joined c) /\ (forall j, j <> i -> nth_error l' j = nth_error l j).
Proof. exact reverse_exempt. Qed.

(* ---- builds without thread support (closed, not yet reaped RFB_NORMAL clients are still counted by
   the dontDisconnect loop; [stale] marks them; not executed by the correspondence run): the decision
   is the one of the threaded build or, with dontDisconnect only, one extra refusal of the newcomer
   with nobody else touched; a never-shared screen still never gets a second inbound client *)
Theorem C14_nothread_at_most_extra_refusal : forall stale fl l i shared,
  client_init_nt stale fl l i shared = client_init fl l i shared \/
  (f_dontdisc fl = true /\
   client_init_nt stale fl l i shared = update (update l i (fun c => set_phase c PNormal)) i close).
Proof. exact nothread_at_most_extra_refusal. Qed.

Theorem C14_nothread_nevershared : forall stale fl l i shared, f_never fl = true ->
  count_inbound_normal l <= 1 -> count_inbound_normal (client_init_nt stale fl l i shared) <= 1.
Proof. exact nothread_nevershared. Qed.
