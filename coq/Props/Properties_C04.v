(* C04 - No client input can corrupt memory, crash, exhaust or wedge the server.
   Only property theorems here, each closed by [exact] of a lemma proved in Wire/C2SProofs.v.
   The model (Wire/C2S.v) is the one the correspondence run executes (extracted to OCaml); the sizes,
   limits and message numbers it uses are regenerated from /repo on every run (Gen/Consts_C04.v).
   Oracles o_corr_f (the doubles of rfbScaledCorrection), o_scale (ScaleX/Y), o_inflate (zlib) and
   o_pw (password check) are universally quantified: the theorems hold whatever they return. *)
From LV Require Import Wire.C2S Wire.C2SProofs Wire.C2SSeg.
Local Open Scope Z_scope.

(* ---- rectSwapIfLEAndClip -------------------------------------------------------------------- *)
(* Whatever four ints the correction produced - in particular for all 16-bit requests - and whatever
   the screen size, an accepted rectangle lies inside the screen (uint16 wrap-around is explicit in
   [clip]). *)
Theorem C04_clip : forall W H x1 y1 w1 h1 x y w h,
  clip W H x1 y1 w1 h1 = Some (x, y, w, h) ->
  0 <= x < 65536 /\ 0 <= y < 65536 /\ 0 <= w < 65536 /\ 0 <= h < 65536 /\ x + w <= W /\ y + h <= H.
Proof. exact clip_inside. Qed.
Example C04_clip_nonvacuous : clip 100 50 90 40 65535 65535 = Some (90, 40, 10, 10).
Proof. reflexivity. Qed.

(* without wrap-around it is the intersection with the screen; origins beyond the edge are rejected *)
Theorem C04_clip_spec : forall W H x y w h,
  0 <= W < 65536 -> 0 <= H < 65536 ->
  0 <= x < 65536 -> 0 <= y < 65536 -> 0 <= w < 65536 -> 0 <= h < 65536 ->
  clip W H x y w h = if (x >? W) || (y >? H) then None
                     else Some (x, y, Z.min w (W - x), Z.min h (H - y)).
Proof. exact clip_spec. Qed.

(* ---- allocations ------------------------------------------------------------------------------ *)
(* Every allocation one rfbProcessClientMessage call makes on behalf of the message - in any protocol
   state, for any byte stream, segmentation and timing - is at most [alloc_bound c]: the larger of the message
   limits the source has (regenerated constants: cut-text limit, extended-clipboard record limit, INT_MAX for a
   permitted file transfer), the screens array and a frame buffer of the configured screen ... *)
Theorem C04_alloc_bound : forall o_corr_f o_scale o_inflate o_pw c s r v r' eff n,
  cfg_ok c -> reader_bytes_ok r ->
  process_message o_corr_f o_scale o_inflate o_pw c s r = (v, r', eff) ->
  In (Alloc n) eff ->
  n <= alloc_bound c.
Proof. exact alloc_bound_final. Qed.
(* ... and that is a FIXED bound: 1 MiB of text for the classic message and for every inflated record (+ 1 for
   its NUL), 1 MiB + 1 KiB for the compressed message of the extended format (2 GiB when the application permits
   file transfer), or a frame buffer.  A limit raised in the source breaks this proof. *)
Theorem C04_alloc_bound_fixed : forall c, cfg_ok c ->
  alloc_bound c <= (if cf_ft c then 2147483648 else 1049600) + fb_bytes c /\
  c04_cut_text_limit <= 2 ^ 20 /\ c04_ext_clip_limit <= 2 ^ 20 + 1 /\ c04_ext_cut_msg_limit <= 2 ^ 20 + 1024.
Proof. exact alloc_bound_fixed. Qed.
Example C04_alloc_bound_nonvacuous :
  let c := cfg_w 4 8 false false in
  cfg_ok c /\
  exists eff, snd (process_message corr_q scale_q inflate_none pw_none c (set_state (init_state c) c04_st_Normal)
                     (mkReader [6; 0; 0; 0; 0; 0; 0; 3; 97; 98; 99] [] false false false false)) = eff /\
              In (Alloc 3) eff.
Proof. split; [apply cfg_ok_w48|]. eexists. split; [vm_compute; reflexivity|]. cbn. tauto. Qed.

(* file transfer not permitted: the message allocates nothing *)
Theorem C04_alloc_ft_denied : forall c s r v r' eff,
  cf_ft c = false -> reader_bytes_ok r ->
  run c (h_FileTransfer c s) r = (v, r', eff) -> Forall not_alloc eff.
Proof. exact ft_denied_no_alloc. Qed.

(* ---- message parsing: no division, every buffer index in range --------------------------------- *)
Theorem C04_index_safe : forall o_corr_f o_scale o_inflate o_pw c s r v r' eff e,
  cfg_ok c -> reader_bytes_ok r ->
  process_message o_corr_f o_scale o_inflate o_pw c s r = (v, r', eff) ->
  In e eff -> is_div0 e = false /\ is_bad_index e = false.
Proof. exact parse_safe_msg. Qed.
Example C04_index_safe_nonvacuous :
  let c := cfg_w 4 8 false false in
  In (Index 20 19) (snd (process_message corr_q scale_q inflate_none pw_none c (set_state (init_state c) c04_st_Normal)
      (mkReader [0; 0; 0; 0; 32; 24; 0; 1; 0; 255; 0; 255; 0; 255; 16; 8; 0; 0; 0; 0] [] false false false false))).
Proof. vm_compute. tauto. Qed.

(* ---- division by zero / access outside the rectangle in the update ------------------------------ *)
(* DESIGN.md C04_no_div_zero: every Div a b of every update of every session has b <> 0, and every
   Index is in range.  It holds for the code as repaired by commits 8e7b6f1 (a scale factor that makes
   the width 0 is refused) and d5a464d (empty update requests are ignored); [source_is_repaired] ties the
   flags to the source this run was regenerated from.  It was refuted for the code before those commits:
   see the ..._refuted theorems below, kept as regression witnesses. *)
(* bookkeeping, not a property theorem: the regenerated markers of the three repaired texts exist (their
   values carry no content - generation fails when the text is gone) *)
Lemma C04_source_is_repaired :
  c04_src_scale_rejects_width0 = 0 /\ c04_src_peek_short_count = 0 /\ c04_src_fur_ignores_empty = 0.
Proof. exact source_is_repaired. Qed.

(* every rectangle requested since the last update, whatever the number of requests, in every state a
   session of the repaired code can reach (run_conn with any stream and any fuel, hence after every prefix of
   the stream): none of the per-rectangle computations of rfbSendFramebufferUpdate divides by zero or reads
   outside the rectangle buffer.  Encodings: Raw, RRE, CoRRE, Hextile, Zlib, Ultra, ZRLE, ZYWRLE; for Tight the
   count function is rfbNumCodedRectsTight (C03's translated function), not covered here. *)
Theorem C04_no_div_zero : forall o_corr_f o_scale o_inflate o_pw c fuel r obs s' r' ok v r'' eff,
  cfg_ok c -> fpu_ok o_corr_f -> repaired c -> reader_bytes_ok r ->
  run_conn o_corr_f o_scale o_inflate o_pw c fuel (init_state c) r = (obs, Some s', r', ok) ->
  update_all o_corr_f c s' r' = (v, r'', eff) ->
  Forall q_safe eff.
Proof. exact no_div_zero_sessions_all. Qed.

(* the same for ANY non-empty rectangle inside the screen - whichever rectangles the region code makes of the
   requests - in any state satisfying the invariant *)
Theorem C04_no_div_zero_any_rect : forall o_corr_f c,
  cf_w c <= 65535 -> cf_h c <= 65535 -> fpu_ok o_corr_f ->
  forall s q r v r' eff,
  inv c s -> rect_in (cf_w c) (cf_h c) q -> reader_bytes_ok r ->
  run c (rect_prog o_corr_f c s q (fun _ => Ret tt)) r = (v, r', eff) -> Forall q_safe eff.
Proof. exact any_rect_safe. Qed.

(* the one-rectangle update the correspondence run compares (announced count included) *)
Theorem C04_no_div_zero_single_rect : forall o_corr_f o_scale o_inflate o_pw c fuel r obs s' r' ok v r'' eff,
  cfg_ok c -> cf_w c <= 65535 -> cf_h c <= 65535 -> fpu_ok o_corr_f -> repaired c ->
  reader_bytes_ok r ->
  run_conn o_corr_f o_scale o_inflate o_pw c fuel (init_state c) r = (obs, Some s', r', ok) ->
  update o_corr_f c s' r' = (v, r'', eff) ->
  Forall q_safe eff.
Proof. exact no_div_zero_sessions. Qed.
Example C04_no_div_zero_nonvacuous :
  repaired (cfg_fixed 4 8) /\ session (cfg_fixed 4 8) f2_stream = Some [Div 32768 4; Div 7 8192; Write 4].
Proof. split; [repeat split|vm_compute; reflexivity]. Qed.

(* (partial) as long as the scaled screen is not degenerate - the invariant [inv] - an update
   divides by nothing that is zero and reads inside the rectangle *)
Theorem C04_no_div_zero_partial : forall o_corr_f c,
  cf_w c <= 65535 -> cf_h c <= 65535 -> fpu_ok o_corr_f ->
  forall s r v r' eff,
  inv c s -> reader_bytes_ok r ->
  update o_corr_f c s r = (v, r', eff) -> Forall q_safe eff.
Proof. exact update_safe. Qed.

(* (repaired variant: notes/fix_C04_1.diff and notes/fix_C04_3.diff, flags cf_fix_scale and cf_fix_fur)
   the invariant holds initially and is kept by every message, hence along every session *)
Theorem C04_scaled_inv_fixed : forall o_corr_f o_scale o_inflate o_pw c fuel r obs s' r' ok,
  cfg_ok c -> cf_fix_scale c = true -> cf_fix_fur c = true -> reader_bytes_ok r ->
  run_conn o_corr_f o_scale o_inflate o_pw c fuel (init_state c) r = (obs, Some s', r', ok) ->
  inv c s' /\ reader_bytes_ok r'.
Proof. exact scaled_inv_fixed. Qed.
Example C04_no_div_zero_partial_nonvacuous :
  (* the exact-arithmetic correction satisfies the FPU hypothesis; the initial state satisfies the invariant *)
  fpu_ok corr_q /\ inv (cfg_w 4 8 false false) (init_state (cfg_w 4 8 false false)).
Proof. split; [exact fpu_ok_corr_q|apply inv_init; apply cfg_ok_w48]. Qed.
Example C04_no_div_zero_fixed_nonvacuous :
  session (cfg_w 4 8 true false) f2_stream = Some [Div 32768 4; Div 7 8192; Write 4].
Proof. exact f2_fixed. Qed.

Example C04_no_div_zero_fixed_nonvacuous2 : session (cfg_fixed 4 8) f22_stream = Some [].
Proof. exact f22_fixed. Qed.

(* the code before d5a464d (F22): SetEncodings [Zlib] and a FramebufferUpdateRequest of zero width
   strictly inside the screen - no scaling involved *)
Theorem C04_no_div_zero_refuted_fur :
  exists c evs eff, cfg_ok c /\ cf_fix_fur c = false /\ evs_wf evs /\ evs_bytes_ok evs /\
                    session c evs = Some eff /\ exists a, In (Div a 0) eff.
Proof. exact no_div_zero_refuted_fur. Qed.

(* the code before 8e7b6f1 (F2): SetScale with width < factor <= height, then an update in Zlib
   (division by zero) or RRE (read outside the empty rectangle buffer) *)
Theorem C04_no_div_zero_refuted :
  exists c evs eff, cfg_ok c /\ cf_fix_scale c = false /\ evs_wf evs /\ evs_bytes_ok evs /\
                    session c evs = Some eff /\ exists a, In (Div a 0) eff.
Proof. exact no_div_zero_refuted. Qed.
Theorem C04_index_safe_update_refuted :
  exists c evs eff, cfg_ok c /\ cf_fix_scale c = false /\ evs_wf evs /\
                    session c evs = Some eff /\ In (Index 0 0) eff.
Proof. exact index_safe_update_refuted. Qed.

(* ---- waiting --------------------------------------------------------------------------------- *)
(* Each blocking wait inside one rfbProcessClientMessage call lasts at most the configured client-wait
   time (a write: one 5 s slice); against a peer that keeps reading their number is at most the number
   of bytes of the message consumed plus one, which bounds the total. *)
Theorem C04_wait_bound : forall o_corr_f o_scale o_inflate o_pw c s r v r' eff,
  cfg_ok c -> evs_wf (r_evs r) -> reader_bytes_ok r ->
  process_message o_corr_f o_scale o_inflate o_pw c s r = (v, r', eff) ->
  let B := Z.max (timeout_of c) c04_write_slice_ms in
  Forall (wait_le B) eff /\
  (quiet r -> (count_wait eff + rbytes r' <= rbytes r + 1)%nat /\
              sum_wait eff <= Z.of_nat (count_wait eff) * B).
Proof. exact wait_bound_msg. Qed.

(* The literal statement "rfbProcessEvents returns within the client-wait time" is REFUTED (F8): a
   peer dripping one byte every 19999 ms holds one call for 139993 ms, and the message is accepted *)
Theorem C04_total_wait_refuted :
  exists c s r, cfg_ok c /\ evs_wf (r_evs r) /\ reader_bytes_ok r /\ quiet r /\
    let '(v, _, eff) := process_message corr_q scale_q inflate_none pw_none c s r in
    v = Some s /\ sum_wait eff > 6 * timeout_of c.
Proof. exact total_wait_refuted. Qed.

(* second refutation, write side (F8b): a 3.8 client that stopped reading and fails VNC authentication costs
   two full write time-outs in one call (result word, then reason string) *)
Theorem C04_total_wait_refuted_stalled_auth :
  exists c s r, cfg_ok c /\ reader_bytes_ok r /\ r_stalled r = true /\
    let '(_, _, eff) := process_message corr_q scale_q inflate_none pw_none c s r in
    sum_wait eff = 2 * timeout_of c /\
    Forall (wait_le (Z.max (timeout_of c) c04_write_slice_ms)) eff.
Proof. exact total_wait_refuted_stalled_auth. Qed.

(* ---- segmentation ------------------------------------------------------------------------------ *)
(* What the server does with a connection depends only on the byte stream (and on whether it ends with an
   orderly shutdown), not on how it is cut into TCP segments nor on the pauses between them, as long as the
   silence accumulated since the last segment stays below the client-wait time ([rbenign]).
   Per connection: the event loop makes the same sequence of rfbProcessClientMessage calls, each with the same
   message type, resulting state and effects other than waits (callbacks, allocations, replies, closing). *)
Theorem C04_segmentation_conn : forall o_corr_f o_scale o_inflate o_pw c s r1 r2,
  rbenign (timeout_of c) r1 -> rbenign (timeout_of c) r2 -> view r1 = view r2 ->
  map obs_nw (fst (fst (fst (run_conn o_corr_f o_scale o_inflate o_pw c (conn_fuel r1) s r1)))) =
  map obs_nw (fst (fst (fst (run_conn o_corr_f o_scale o_inflate o_pw c (conn_fuel r2) s r2)))) /\
  snd (fst (fst (run_conn o_corr_f o_scale o_inflate o_pw c (conn_fuel r1) s r1))) =
  snd (fst (fst (run_conn o_corr_f o_scale o_inflate o_pw c (conn_fuel r2) s r2))).
Proof. exact segmentation_conn. Qed.

(* per call *)
Theorem C04_segmentation : forall o_corr_f o_scale o_inflate o_pw c s r1 r2,
  rbenign (timeout_of c) r1 -> rbenign (timeout_of c) r2 -> view r1 = view r2 ->
  fst (fst (process_message o_corr_f o_scale o_inflate o_pw c s r1)) =
  fst (fst (process_message o_corr_f o_scale o_inflate o_pw c s r2)) /\
  nowaits (snd (process_message o_corr_f o_scale o_inflate o_pw c s r1)) =
  nowaits (snd (process_message o_corr_f o_scale o_inflate o_pw c s r2)).
Proof. exact segmentation_msg. Qed.
Example C04_segmentation_nonvacuous :
  let r1 := mkReader [] [EData [4; 1; 0; 0]; EPause 19999; EData [0; 0; 0; 65]; EEof] false false false false in
  let r2 := mkReader [4] [EData [1]; EPause 5; EPause 7; EData [0; 0; 0; 0; 0]; EData [65]; EEof] false false false false in
  rbenign 20000 r1 /\ rbenign 20000 r2 /\ view r1 = view r2.
Proof. exact segmentation_nonvacuous. Qed.

(* ---- connection set-up: the 4-byte peek of webSocketsCheck -------------------------------------- *)
(* the code as repaired by commit efc6f84: connection set-up always terminates and each of its waits
   is within the 100 ms connect wait (the version write: one 5 s slice) *)
Theorem C04_connect_terminates : forall c r, repaired c -> fst (fst (connect c r)) <> CWedge.
Proof. exact connect_terminates. Qed.
Theorem C04_connect_wait_bound : forall c r st r' eff,
  cfg_ok c -> repaired c -> evs_wf (r_evs r) -> connect c r = (st, r', eff) ->
  Forall (wait_le (Z.max c04_ws_connect_wait c04_write_slice_ms)) eff.
Proof. exact connect_wait_bound. Qed.
Example C04_connect_terminates_nonvacuous :
  fst (fst (connect (cfg_fixed 4 8) (mkReader [] [EData [82]; EEof] false false false false))) = COk.
Proof. vm_compute. reflexivity. Qed.

(* REFUTED for the code before efc6f84 (F21): a peer that sends 1-3 bytes and then nothing (or goes
   away) made rfbPeekExactTimeout spin for ever - rfbNewClient never returned *)
Theorem C04_peek_wedge_refuted :
  exists c r, cf_fix_peek c = false /\ evs_wf (r_evs r) /\ fst (fst (connect c r)) = CWedge.
Proof. exact peek_wedge_refuted. Qed.
(* (the flag alone) *)
Theorem C04_peek_no_wedge_fixed : forall c r, cf_fix_peek c = true -> fst (fst (connect c r)) <> CWedge.
Proof. exact connect_fixed_no_wedge. Qed.
Example C04_peek_no_wedge_fixed_nonvacuous :
  fst (fst (connect (cfg_w 4 8 false true) (mkReader [] [EData [82]; EEof] false false false false))) = COk.
Proof. vm_compute. reflexivity. Qed.

(* ---- the event loop of the model never runs out of fuel --------------------------------------- *)
Theorem C04_fuel_suffices : forall o_corr_f o_scale o_inflate o_pw c s r,
  snd (run_conn o_corr_f o_scale o_inflate o_pw c (conn_fuel r) s r) = true.
Proof. exact conn_fuel_suffices. Qed.
