(* C11 - Region algebra behaves as set algebra on pixels.
   Only property theorems here, each closed by [exact] of a lemma proved elsewhere. *)
From LV Require Import Region.RegionDefs Gen.Funs_C11 Region.RegionProofs0.
Local Open Scope Z_scope.

(* clipping: the function re-translated from rfbregion.c computes rectangle intersection *)
Theorem C11_clip_sem : forall x y w h cx cy cw ch px py,
  let '(b, x', y', w', h') := sraClipRect x y w h cx cy cw ch in
  rect_mem (x', y', x' + w', y' + h') px py =
  rect_mem (x, y, x + w, y + h) px py && rect_mem (cx, cy, cx + cw, cy + ch) px py.
Proof. exact clip_rect_mem. Qed.

Theorem C11_clip_nonempty : forall x y w h cx cy cw ch,
  let '(b, x', y', w', h') := sraClipRect x y w h cx cy cw ch in
  x' = Z.max x cx /\ y' = Z.max y cy /\
  x' + w' = Z.min (x + w) (cx + cw) /\ y' + h' = Z.min (y + h) (cy + ch) /\
  (b = true <-> (0 < w' /\ 0 < h')).
Proof. exact clip_rect_sem. Qed.

Theorem C11_clip2_sem : forall x y x2 y2 cx cy cx2 cy2,
  Z.max x cx < Z.min x2 cx2 -> Z.max y cy < Z.min y2 cy2 ->
  sraClipRect2 x y x2 y2 cx cy cx2 cy2 =
  (true, Z.max x cx, Z.max y cy, Z.min x2 cx2, Z.min y2 cy2).
Proof. exact clip_rect2_sem. Qed.

Theorem C11_clip2_inside : forall x y x2 y2 cx cy cx2 cy2,
  cx < cx2 -> cy < cy2 ->
  let '(b, x', y', x2', y2') := sraClipRect2 x y x2 y2 cx cy cx2 cy2 in
  cx <= x' < cx2 /\ cy <= y' < cy2 /\ cx < x2' <= cx2 /\ cy < y2' <= cy2 /\
  (b = true <-> (x' < x2' /\ y' < y2')).
Proof. exact clip_rect2_inside. Qed.

Theorem C11_create_rect_sem : forall x1 y1 x2 y2 x y,
  rgn_mem (rgn_create_rect x1 y1 x2 y2) x y = rect_mem (x1, y1, x2, y2) x y.
Proof. exact create_rect_mem. Qed.

Theorem C11_offset_sem : forall r dx dy x y,
  rgn_mem (rgn_offset r dx dy) x y = rgn_mem r (x - dx) (y - dy).
Proof. exact offset_mem. Qed.

Theorem C11_count_iter : forall revX revY r,
  rgn_count r = Z.of_nat (length (rgn_iter revX revY r)).
Proof. exact count_iter. Qed.
