(* C11 - Region algebra behaves as set algebra on pixels.
   Only property theorems here, each closed by [exact] of a lemma proved elsewhere. *)
From LV Require Import Region.RegionDefs Gen.Funs_C11 Region.RegionProofs0 Region.RegionProofs Region.RegionIter
     Region.RegionBBox Region.RegionIterMachine Region.RegionPop.
Local Open Scope Z_scope.

(* Scope of every theorem below: coordinates are mathematical integers (Z).  The C code computes in
   [int]; x+w in sraClipRect, the additions of sraRgnOffset and nothing else can overflow, and signed
   overflow is undefined in C, so the theorems speak about the C functions for the inputs on which
   those sums stay inside [int] (the correspondence check only generates such inputs).

   clipping: the function re-translated from rfbregion.c computes rectangle intersection *)
Theorem C11_clip_sem : forall x y w h cx cy cw ch px py,
  let '(b, x', y', w', h') := sraClipRect x y w h cx cy cw ch in
  rect_mem (x', y', x' + w', y' + h') px py =
  rect_mem (x, y, x + w, y + h) px py && rect_mem (cx, cy, cx + cw, cy + ch) px py.
Proof. exact clip_rect_mem. Qed.

Theorem C11_clip_nonempty : forall x y w h cx cy cw ch,
  let '(b, x', y', w', h') := sraClipRect x y w h cx cy cw ch in
  x' = Z.max x cx /\ y' = Z.max y cy /\
  x' + w' = Z.min (x + w) (cx + cw) /\ y' + h' = Z.min (y + h) (cy + ch) /\
  (b = true <-> (0 < w' /\ 0 < h')).
Proof. exact clip_rect_sem. Qed.

Theorem C11_clip2_sem : forall x y x2 y2 cx cy cx2 cy2,
  Z.max x cx < Z.min x2 cx2 -> Z.max y cy < Z.min y2 cy2 ->
  sraClipRect2 x y x2 y2 cx cy cx2 cy2 =
  (true, Z.max x cx, Z.max y cy, Z.min x2 cx2, Z.min y2 cy2).
Proof. exact clip_rect2_sem. Qed.

Theorem C11_clip2_inside : forall x y x2 y2 cx cy cx2 cy2,
  cx < cx2 -> cy < cy2 ->
  let '(b, x', y', x2', y2') := sraClipRect2 x y x2 y2 cx cy cx2 cy2 in
  cx <= x' < cx2 /\ cy <= y' < cy2 /\ cx < x2' <= cx2 /\ cy < y2' <= cy2 /\
  (b = true <-> (x' < x2' /\ y' < y2')).
Proof. exact clip_rect2_inside. Qed.

Theorem C11_create_rect_sem : forall x1 y1 x2 y2 x y,
  rgn_mem (rgn_create_rect x1 y1 x2 y2) x y = rect_mem (x1, y1, x2, y2) x y.
Proof. exact create_rect_mem. Qed.

Theorem C11_offset_sem : forall r dx dy x y,
  rgn_mem (rgn_offset r dx dy) x y = rgn_mem r (x - dx) (y - dy).
Proof. exact offset_mem. Qed.

Theorem C11_count_iter : forall revX revY r,
  rgn_count r = Z.of_nat (length (rgn_iter revX revY r)).
Proof. exact count_iter. Qed.

(* ---- the set algebra: for all well-formed regions, unbounded coordinates ---- *)
Theorem C11_or_sem : forall a b, WF a -> WF b ->
  forall x y, rgn_mem (rgn_or a b) x y = rgn_mem a x y || rgn_mem b x y.
Proof. exact rgn_or_mem. Qed.

Theorem C11_and_sem : forall a b, WF a -> WF b ->
  forall x y, rgn_mem (fst (rgn_and a b)) x y = rgn_mem a x y && rgn_mem b x y.
Proof. exact rgn_and_mem. Qed.

Theorem C11_sub_sem : forall a b, WF a -> WF b ->
  forall x y, rgn_mem (fst (rgn_sub a b)) x y = rgn_mem a x y && negb (rgn_mem b x y).
Proof. exact rgn_sub_mem. Qed.

Theorem C11_ops_wf : forall a b, WF a -> WF b ->
  WF (rgn_or a b) /\ WF (fst (rgn_and a b)) /\ WF (fst (rgn_sub a b)).
Proof.
  exact (fun a b Ha Hb => conj (rgn_or_wf a b Ha Hb) (conj (rgn_and_wf a b Ha Hb) (rgn_sub_wf a b Ha Hb))).
Qed.

(* the booleans returned by intersect / subtract: TRUE exactly when the two regions share a pixel /
   when a pixel of the first lies outside the second *)
Theorem C11_and_nonempty_iff : forall a b, WF a -> WF b ->
  (snd (rgn_and a b) = true <-> exists x y, rgn_mem a x y = true /\ rgn_mem b x y = true).
Proof. exact and_nonempty_iff. Qed.

Theorem C11_sub_nonempty_iff : forall a b, WF a -> WF b ->
  (snd (rgn_sub a b) = true <-> exists x y, rgn_mem a x y = true /\ rgn_mem b x y = false).
Proof. exact sub_nonempty_iff. Qed.

(* (the structural form of the same fact: the boolean is "result list not empty") *)
Theorem C11_bool_results : forall a b, WF a -> WF b ->
  snd (rgn_and a b) = negb (rgn_is_empty (fst (rgn_and a b))) /\
  snd (rgn_sub a b) = negb (rgn_is_empty (fst (rgn_sub a b))).
Proof. exact (fun a b Ha Hb => conj (rgn_and_bool a b Ha Hb) (rgn_sub_bool a b Ha Hb)). Qed.

Theorem C11_empty_sem : forall r, WF r ->
  (rgn_is_empty r = true <-> forall x y, rgn_mem r x y = false).
Proof. exact is_empty_sem. Qed.

Theorem C11_create_offset_wf : forall x1 y1 x2 y2 r dx dy,
  (x1 < x2 -> y1 < y2 -> WF (rgn_create_rect x1 y1 x2 y2)) /\ (WF r -> WF (rgn_offset r dx dy)).
Proof. exact (fun x1 y1 x2 y2 r dx dy => conj (create_rect_wf x1 y1 x2 y2) (offset_wf r dx dy)). Qed.

(* iteration.  [iter_next] mirrors one call of sraRgnIteratorNext (the two-level cursor machine of the
   C code as a zipper: bands still to come / current band with the spans still to come; entering a band
   from the requested end; popping when its spans are used up); [rgn_iter] is the specification of the
   whole rectangle sequence.  C11_iterator_machine: for every region whose bands are non-empty (every
   well-formed one) repeated calls yield exactly the specified sequence and then end.  The extracted
   driver runs the machine, so the correspondence check compares the machine with the C iterator. *)
Theorem C11_iterator_machine : forall revX revY r, WF r ->
  rgn_iter_machine revX revY r = Some (rgn_iter revX revY r).
Proof. exact iter_machine_wf. Qed.

Example C11_iterator_machine_nonvacuous :
  rgn_iter_machine true false (rgn_or (rgn_create_rect 0 0 10 4) (rgn_create_rect 2 4 3 9)) =
  Some [(0, 0, 10, 4); (2, 4, 3, 9)] /\
  rgn_iter_machine false true (rgn_or (rgn_create_rect 0 0 4 4) (rgn_create_rect 6 0 9 4)) =
  Some [(0, 0, 4, 4); (6, 0, 9, 4)] /\
  rgn_iter_machine true true (rgn_or (rgn_create_rect 0 0 4 4) (rgn_create_rect 6 0 9 4)) =
  Some [(6, 0, 9, 4); (0, 0, 4, 4)].
Proof. repeat split; reflexivity. Qed.

(* what the specified sequence guarantees.
   Iteration in any of the four directions: every pixel of the region lies in exactly one
   of the iterated rectangles and every other pixel in none (pairwise disjoint, union = region);
   every rectangle is non-empty *)
Theorem C11_iter_partition : forall revX revY r x y, WF r ->
  length (filter (fun rc => rect_mem rc x y) (rgn_iter revX revY r)) =
  if rgn_mem r x y then 1%nat else 0%nat.
Proof. exact iter_partition. Qed.

Theorem C11_iter_nonempty : forall revX revY r, WF r ->
  Forall (fun '(x1, y1, x2, y2) => x1 < x2 /\ y1 < y2) (rgn_iter revX revY r).
Proof. exact iter_nonempty. Qed.

(* order: any rectangle iterated earlier is either in the same band and entirely before the
   later one in x (in the requested x direction), or entirely before it in y (in the requested
   y direction) *)
Theorem C11_iter_monotone : forall rx ry r, WF r ->
  allpairs (rect_before rx ry) (rgn_iter rx ry r).
Proof. exact iter_monotone. Qed.

(* sraRgnPopRect, all four flag values (bit 0 = bottom to top, bit 1 = right to left): the region
   splits into the popped rectangle and a well-formed rest, nothing lost, nothing added.
   C11_poprect_sem is the instance the library uses (flags 0, rfbserver.c). *)
Theorem C11_poprect_sem_all : forall r right2left bottom2top, WF r ->
  match rgn_pop_rect r right2left bottom2top with
  | None => r = []
  | Some (rc, r') =>
      WF r' /\
      (let '(x1, y1, x2, y2) := rc in x1 < x2 /\ y1 < y2) /\
      forall x y, rgn_mem r x y = rect_mem rc x y || rgn_mem r' x y
  end.
Proof. exact pop_rect_sem_all. Qed.

Theorem C11_poprect_sem : forall r, WF r ->
  match rgn_pop_rect r false false with
  | None => r = []
  | Some (rc, r') =>
      WF r' /\
      (let '(x1, y1, x2, y2) := rc in x1 < x2 /\ y1 < y2) /\
      forall x y, rgn_mem r x y = rect_mem rc x y || rgn_mem r' x y
  end.
Proof. exact pop_rect_sem. Qed.

(* sraRgnBBox is exact: the result encloses every pixel (C11_bbox_encloses) and, for a non-empty
   region with int coordinates, is one rectangle each of whose four sides is touched by a pixel of
   the region (C11_bbox_exact) - i.e. the smallest enclosing rectangle; the box of the empty region
   is empty.  The range hypothesis is needed: the fold starts from +-INT_MAX like the C code. *)
Theorem C11_bbox_encloses : forall r x y, WF r ->
  WF (rgn_bbox r) /\ (rgn_mem r x y = true -> rgn_mem (rgn_bbox r) x y = true).
Proof. exact (fun r x y W => conj (bbox_wf r W) (bbox_sup r x y W)). Qed.

Theorem C11_bbox_exact : forall r, WF r -> r <> [] ->
  (forall x y, rgn_mem r x y = true -> int_coord x /\ int_coord y) ->
  exists x1 y1 x2 y2, rgn_bbox r = rgn_create_rect x1 y1 x2 y2 /\ x1 < x2 /\ y1 < y2 /\
    (exists y, rgn_mem r x1 y = true) /\ (exists y, rgn_mem r (x2 - 1) y = true) /\
    (exists x, rgn_mem r x y1 = true) /\ (exists x, rgn_mem r x (y2 - 1) = true).
Proof. exact bbox_exact. Qed.

Theorem C11_bbox_empty : rgn_bbox [] = [].
Proof. exact bbox_empty. Qed.

Example C11_bbox_exact_nonvacuous :
  let r := rgn_or (rgn_create_rect 0 0 10 4) (rgn_create_rect 0 4 3 9) in
  rgn_bbox r = rgn_create_rect 0 0 10 9 /\ rgn_mem r 9 0 = true /\ rgn_mem r 0 8 = true.
Proof. repeat split; reflexivity. Qed.

(* non-vacuity: a concrete non-trivial well-formed region (an L shape) *)
Example C11_nonvacuous :
  WF (rgn_or (rgn_create_rect 0 0 10 4) (rgn_create_rect 0 4 3 9)) /\
  rgn_count (rgn_or (rgn_create_rect 0 0 10 4) (rgn_create_rect 0 4 3 9)) = 2.
Proof.
  split; [apply rgn_or_wf; apply create_rect_wf; lia|reflexivity].
Qed.

(* the code merges only around the cursor: equal pixel sets may have different span structures
   (so no theorem speaks about structural equality) *)
Example C11_noncanonical_example :
  rgn_or (rgn_create_rect 0 0 5 1) (rgn_create_rect 5 0 10 1) = [(0, 1, [(0, 5, tt); (5, 10, tt)])] /\
  rgn_or (rgn_create_rect 0 0 10 1) (rgn_create_rect 0 0 10 1) = [(0, 1, [(0, 10, tt)])].
Proof. split; reflexivity. Qed.

(* sraRgnCreateRect does not reject degenerate rectangles: the result is "not empty" although it
   covers no pixel (callers must not pass them; see C03) *)
Theorem C11_degenerate_refuted :
  exists x1 y1 x2 y2, rgn_is_empty (rgn_create_rect x1 y1 x2 y2) = false /\
                      forall x y, rgn_mem (rgn_create_rect x1 y1 x2 y2) x y = false.
Proof.
  exists 3, 0, 3, 5. split; [reflexivity|]. intros x y. rewrite create_rect_mem. unfold rect_mem. lia.
Qed.
