(* C01 - Lossless encodings reproduce the server framebuffer pixel-exactly.
   Only property theorems here, each closed by [exact] of a lemma proved elsewhere.
   Encoders = executable mirrors of the C code (coq/Enc), extracted and run against the real
   library; decoders = RFB specification only (coq/Dec/Spec*.v).  Pixels are the rectangle
   already translated to the client's format (translation itself is C10). *)
From Coq Require Import ZArith List Bool.
From LV Require Import Enc.EncBase Enc.Subrect Enc.SubrectProofs Enc.Raw Enc.RRE Enc.Hextile Enc.Zlib Enc.ZRLE
     Enc.Update Enc.RawRREProofs Enc.HextileProofs Enc.SplitProofs Enc.StreamProofs
     Enc.ZRLEProofs1 Enc.ZRLEProofs4 Enc.ZRLEFormatProofs Enc.UpdateProofs Enc.Tight Enc.TightProofs Enc.TightSplit Enc.TightSplitProofs Enc.TightSessionProofs Enc.TightUniform Enc.TightSessionFull Enc.TightSplitTotal Enc.BytesProofs Enc.TotalProofs Enc.ZRLETotal Enc.TightTotal Enc.SendAll Enc.ZRLESendProofs Enc.Session Enc.SessionProofs Enc.TightWire Enc.TightWireProofs Enc.Connection Enc.RawSplit
     Dec.SpecPaint Dec.SpecRaw Dec.SpecRRE Dec.SpecHextile Dec.SpecZRLE Dec.SpecTight Dec.SpecUpdate Gen.Consts_C01.
Import ListNotations.

(* ---- the shared sub-rectangle encoder of rre.c / corre.c / hextile.c ---- *)
Theorem C01_subrect_roundtrip : forall w h g bg len0 per limit subs,
  wf_grid w h g -> subrect_encode w h g bg len0 per limit = Ok subs ->
  paint_all w h (mk_grid w h bg) (map to_prect subs) = Some g /\
  Forall (sub_good w h g bg) subs /\
  length subs <= length (filter (nonbg g bg) (positions w h)).
Proof. exact subrect_encode_roundtrip. Qed.

Theorem C01_subrect_total : forall w h g bg len0 per limit,
  wf_grid w h g -> subrect_encode w h g bg len0 per limit <> Err.
Proof. exact subrect_encode_no_err. Qed.

Example C01_subrect_nonvacuous :
  subrect_encode 3 2 [[1; 2; 2]; [1; 2; 3]]%Z 1%Z 1%Z 3%Z 100%Z = Ok [mkSub 2 1 0 1 2; mkSub 2 2 0 1 1; mkSub 3 2 1 1 1]%Z.
Proof. vm_compute. reflexivity. Qed.

(* ---- Raw ---- *)
Theorem C01_raw : forall bufsize bypp header w h g chunks,
  wf_grid w h g -> grid_pix_ok bypp g -> raw_send bufsize bypp header g = Ok chunks ->
  exists payload, concat chunks = header ++ payload /\ dec_raw bypp w h payload = Some g.
Proof. exact raw_roundtrip. Qed.

(* splitting the output at update-buffer flushes does not change the byte stream, and the loop
   delivers every line whenever one line fits the buffer *)
Theorem C01_flush_transparent : forall fuel bufsize bpl nlines cur lines chunks,
  raw_loop fuel bufsize bpl nlines cur lines = Ok chunks -> concat chunks = cur ++ concat lines.
Proof. exact raw_loop_concat. Qed.

Theorem C01_raw_delivered : forall bufsize bypp header g w h,
  wf_grid w h g -> 1 <= w -> 1 <= h -> 1 <= bypp -> bypp * w <= bufsize ->
  exists chunks, raw_send bufsize bypp header g = Ok chunks.
Proof. exact raw_send_ok. Qed.

(* regression witness of finding F4 (fixed by a3e0ace): BEFORE the fix the whole-line loop gave up on a line
   longer than the update buffer (w * bytesPerPixel > UPDATE_BUF_SIZE): "send buffer too small", client
   closed after the rectangle had been announced.  The repaired flow is C01_send_rect_repaired below. *)
Theorem C01_raw_line_exceeds_buffer_before_fix_refuted : forall bufsize bypp header g w h,
  wf_grid w h g -> 1 <= h -> bufsize < bypp * w -> raw_send bufsize bypp header g = Fallback.
Proof. exact raw_send_too_wide. Qed.

Example C01_raw_nonvacuous :
  raw_send 16 1 [9; 9]%Z [[1; 2; 3; 4; 5; 6; 7]; [8; 9; 10; 11; 12; 13; 14]; [15; 16; 17; 18; 19; 20; 21]]%Z =
  Ok [[9; 9; 1; 2; 3; 4; 5; 6; 7; 8; 9; 10; 11; 12; 13; 14]; [15; 16; 17; 18; 19; 20; 21]]%Z.
Proof. vm_compute. reflexivity. Qed.

(* ---- RRE, CoRRE ---- *)
Theorem C01_rre : forall bypp w h g payload,
  wf_grid w h g -> grid_pix_ok bypp g -> (Z.of_nat w < 65536)%Z -> (Z.of_nat h < 65536)%Z ->
  rre_payload 2 bypp w h g = Ok payload -> dec_rre bypp w h payload = Some g.
Proof. intros. apply (rre_roundtrip 2); auto. Qed.

Theorem C01_corre : forall bypp w h g payload,
  wf_grid w h g -> grid_pix_ok bypp g -> (Z.of_nat w < 256)%Z -> (Z.of_nat h < 256)%Z ->
  rre_payload 1 bypp w h g = Ok payload -> dec_corre bypp w h payload = Some g.
Proof. intros. apply (rre_roundtrip 1); auto. Qed.

Example C01_rre_nonvacuous :
  rre_payload 2 1 6 4 [[5; 5; 7; 7; 5; 5]; [5; 5; 7; 7; 5; 5]; [5; 5; 5; 5; 5; 5]; [5; 5; 5; 5; 5; 9]]%Z =
  Ok [0; 0; 0; 2; 5; 7; 0; 2; 0; 0; 0; 2; 0; 2; 9; 0; 5; 0; 3; 0; 1; 0; 1]%Z.
Proof. vm_compute. reflexivity. Qed.

(* ---- Hextile, including bg/fg carry-over between tiles and the raw fall-back ---- *)
Theorem C01_hextile : forall bypp w h g payload canvas0,
  wf_grid w h g -> grid_pix_ok bypp g -> wf_grid w h canvas0 ->
  hextile_payload bypp w h g = Ok payload -> dec_hextile_on canvas0 bypp w h payload = Some g.
Proof. exact hextile_roundtrip. Qed.

Theorem C01_hextile_total : forall bypp w h g,
  wf_grid w h g -> exists payload, hextile_payload bypp w h g = Ok payload.
Proof. exact hextile_total. Qed.

(* ---- ZRLE tiles: solid, raw, packed palette, plain RLE, palette RLE ---- *)
(* full statement: for every template instance.  The instance BPP = 15 (b15 = true) violates it
   (C01_zrle_bpp15_refuted); the theorem is stated for the other instances *)
Theorem C01_zrle_tile_partial : forall bypp cmode tw th t bytes rest,
  1 <= tw -> 1 <= th -> wf_grid tw th t -> Forall (Forall (cpix_ok bypp cmode)) t ->
  zrle_tile bypp cmode false tw th t = Some bytes ->
  dec_zrle_tile bypp cmode tw th (bytes ++ rest) = Some (t, rest).
Proof. exact zrle_tile_roundtrip. Qed.

Theorem C01_zrle_partial : forall bypp cmode w h g payload canvas0,
  wf_grid w h g -> Forall (Forall (cpix_ok bypp cmode)) g -> wf_grid w h canvas0 ->
  zrle_payload bypp cmode false w h g = Some payload -> dec_zrle_on canvas0 bypp cmode w h payload = Some g.
Proof. exact zrle_roundtrip. Qed.

Theorem C01_zrle_bpp15_refuted :
  exists t bytes, wf_grid 1 2 t /\ Forall (Forall (cpix_ok 2 0)) t /\
    zrle_tile 2 0 true 1 2 t = Some bytes /\ dec_zrle_tile 2 0 1 2 bytes = None.
Proof. exact zrle_bpp15_refuted. Qed.

Theorem C01_zrle_cmode_overflow_refuted :
  zrle_cmode 32 0 255 255 255 24 16 8 = 1 /\ spec_cmode 32 24 0 1 255 255 255 24 16 8 = 2 /\
  exists p, pix_ok 4 p /\ take_cpixel 4 2 (cpixel_bytes 4 1 p) <> Some (p, []).
Proof. exact zrle_cmode_overflow_refuted. Qed.

Theorem C01_zrle_cmode_depth_refuted :
  zrle_cmode 32 1 7 15 31 17 20 24 = 1 /\ spec_cmode 32 29 1 1 7 15 31 17 20 24 = 0.
Proof. exact zrle_cmode_depth_refuted. Qed.

(* strongest form: repaired encoder (fixes of F1, F2: b15 = false, unsigned arithmetic), every
   well-formed 32-bpp true-colour format; the ONLY condition that is not well-formedness is the one
   of finding F3, depth <= 24.  (8/16 bpp: CPIXEL = PIXEL, C01_zrle_partial with cmode 0.) *)
Theorem C01_zrle_cmode_repaired_is_spec : forall bpp depth be tc rmax gmax bmax rs gs bs,
  fmt_wf bpp rmax gmax bmax rs gs bs -> tc <> 0%Z -> (depth <= 24)%Z ->
  zrle_cmode_gen false bpp be rmax gmax bmax rs gs bs = spec_cmode bpp depth be tc rmax gmax bmax rs gs bs.
Proof. exact zrle_cmode_repaired_is_spec. Qed.

Theorem C01_zrle_repaired : forall depth be tc rmax gmax bmax rs gs bs w h (vals : list (list Z)) payload canvas0,
  fmt_wf 32 rmax gmax bmax rs gs bs -> tc <> 0%Z -> (depth <= 24)%Z ->
  wf_grid w h vals ->
  Forall (Forall (fun v => (0 <= v)%Z /\ Z.land v (maxpix rmax gmax bmax rs gs bs) = v)) vals ->
  wf_grid w h canvas0 ->
  let g := map (map (grid_of_value 32 be)) vals in
  zrle_payload 4 (zrle_cmode_gen false 32 be rmax gmax bmax rs gs bs) false w h g = Some payload ->
  dec_zrle_on canvas0 4 (spec_cmode 32 depth be tc rmax gmax bmax rs gs bs) w h payload = Some g.
Proof. exact zrle_repaired_roundtrip. Qed.

Example C01_zrle_nonvacuous :
  zrle_tile 1 0 false 4 2 [[5; 5; 5; 5]; [5; 7; 7; 5]]%Z = Some [2; 5; 7; 0; 96]%Z.
Proof. vm_compute. reflexivity. Qed.

(* ---- Tight without JPEG: fill, mono (1 bit/pixel), indexed palette, full colour ---- *)
(* full statement: for every compression configuration.  Configuration 0 (compress level 0)
   violates it (C01_tight_level0_refuted, finding F5); stated for tightConf[1], which every other
   level maps to when JPEG is off.  tpix_rt: the TPIXEL form is faithful on the pixel. *)
Theorem C01_tight_basic_partial : forall p w h g payload,
  1 <= w -> 1 <= h -> wf_grid w h g -> Forall (Forall (tpix_rt p)) g -> conf_ok (tp_conf p) ->
  tight_subrect p w h g = Some (TPayload payload) -> dec_tight (tp_fmt p) w h payload = Some g.
Proof. exact tight_subrect_roundtrip. Qed.

(* the hypothesis on the configuration, as a finite conjunction over the regenerated tightConf
   table: rows 1, 2 and 3 qualify (row 0 is finding F5), and the level clamping of
   SendRectEncodingTight always lands on one of them unless level 0 is asked without JPEG *)
Theorem C01_tight_conf_rows : conf_ok 1 /\ conf_ok 2 /\ conf_ok 3.
Proof. exact conf_ok_rows. Qed.

Theorem C01_tight_conf_reached : forall jpeg level, (0 <= level)%Z -> (jpeg = true \/ (1 <= level)%Z) ->
  conf_ok (tight_conf_index jpeg level).
Proof. exact tight_conf_index_ok. Qed.

Theorem C01_tight_rect_partial : forall W H scr p x y w h rects,
  wf_grid W H scr -> Forall (Forall (tpix_rt p)) scr -> conf_ok (tp_conf p) ->
  x + w <= W -> y + h <= H -> 1 <= w -> 1 <= h ->
  send_tight p x y w h scr = Ok rects ->
  Forall (tight_rect_ok p scr) rects /\
  exists pieces, partitions w h pieces /\
    map (fun r => (w_x r, w_y r, w_w r, w_h r)) rects = map (fun '(a, b, c, d) => (x + a, y + b, c, d)) pieces.
Proof. exact send_tight_ok. Qed.

(* the hypothesis tpix_rt holds for every pixel when TPIXEL = the pixel's bytes, and for the
   8-8-8 layouts of 32-bit little-endian formats when TPIXEL = 3 bytes R,G,B *)
Theorem C01_tight_tpixel_plain : forall p pix,
  tp_pack24 p = false -> pix_ok (tp_bypp p) pix -> tpix_rt p pix.
Proof. exact tpix_rt_plain. Qed.

(* every byte-aligned 8-8-8 format: the three bytes anywhere in the 32 bits (shifts 0/8/16/24), any order, either endianness *)
Theorem C01_tight_tpixel_888 : forall p r g b, tp_pack24 p = true ->
  (tp_rs p = 0 \/ tp_rs p = 8 \/ tp_rs p = 16 \/ tp_rs p = 24)%Z -> (tp_gs p = 0 \/ tp_gs p = 8 \/ tp_gs p = 16 \/ tp_gs p = 24)%Z ->
  (tp_bs p = 0 \/ tp_bs p = 8 \/ tp_bs p = 16 \/ tp_bs p = 24)%Z ->
  tp_rs p <> tp_gs p -> tp_rs p <> tp_bs p -> tp_gs p <> tp_bs p ->
  (0 <= r < 256)%Z -> (0 <= g < 256)%Z -> (0 <= b < 256)%Z ->
  tpix_rt p (grid_pixel_of_value (tp_be p) 4 (r * 2 ^ tp_rs p + g * 2 ^ tp_gs p + b * 2 ^ tp_bs p)%Z).
Proof. exact tpix_rt_888. Qed.

(* the decoder's TPIXEL flag is the SPECIFICATION's (spec_tpixel3): the parameters the server derives
   from the client format agree with it whenever the format has 32 bits per pixel and is true colour
   (or the repaired test, strict = true, is used) *)
Theorem C01_tight_fmt_is_spec : forall strict swapfix sbypp bypp bpp depth be tc rmax gmax bmax rs gs bs level quality,
  strict = true \/ (bpp = 32%Z /\ tc <> 0%Z) ->
  tp_fmt (tight_params_of strict swapfix sbypp bypp bpp depth be tc rmax gmax bmax rs gs bs level quality) =
  spec_tight_fmt bypp bpp depth be tc rmax gmax bmax rs gs bs.
Proof. exact tp_fmt_is_spec. Qed.

(* the unchanged test without the bpp / true-colour conditions (finding F7) *)
Theorem C01_tight_pack24_narrow_refuted :
  exists g payload,
    tight_subrect (tight_params_of false false 1 1 8 24 0 1 255 255 255 0 0 0 1 (-1)) 1 1 g = Some (TPayload payload) /\
    dec_tight (spec_tight_fmt 1 8 24 0 1 255 255 255 0 0 0) 1 1 payload = None.
Proof. exact tight_pack24_narrow_refuted. Qed.

(* the repaired Pack24 (tp_swap = true: Swap32 when the byte orders differ, then the plain shifts - what /repo
   HEAD has since 1f04fe7): EVERY placement of three 8-bit components at least 8 bits apart in the low 32 bits
   is TPIXEL-faithful, aligned or not, either byte order *)
Theorem C01_tight_tpixel_repaired : forall p r g b, tp_pack24 p = true -> tp_swap p = true ->
  spaced (tp_rs p) (tp_gs p) (tp_bs p) \/ spaced (tp_rs p) (tp_bs p) (tp_gs p) \/ spaced (tp_gs p) (tp_rs p) (tp_bs p) \/
  spaced (tp_gs p) (tp_bs p) (tp_rs p) \/ spaced (tp_bs p) (tp_rs p) (tp_gs p) \/ spaced (tp_bs p) (tp_gs p) (tp_rs p) ->
  (0 <= r < 256)%Z -> (0 <= g < 256)%Z -> (0 <= b < 256)%Z ->
  tpix_rt p (grid_pixel_of_value (tp_be p) 4 (r * 2 ^ tp_rs p + g * 2 ^ tp_gs p + b * 2 ^ tp_bs p)%Z).
Proof. exact tpix_rt_repaired_any. Qed.

Example C01_tight_tpixel_repaired_nonvacuous :
  let p := mkTP 4 true true 4 12 20 1 false false true in
  let pix := grid_pixel_of_value true 4 (1 * 2 ^ 4 + 2 * 2 ^ 12 + 3 * 2 ^ 20)%Z in
  take_tpixel (tp_fmt p) (tpixel_bytes p pix) = Some (pix, []).
Proof. vm_compute. reflexivity. Qed.

(* regression witness: the OLD Pack24 formula (tp_swap = false, "24 - shift") with a byte order different from
   the server's and unaligned shifts (finding F8, fixed by 1f04fe7) *)
Theorem C01_tight_pack24_be_unaligned_refuted :
  let p := mkTP 4 true true 4 12 20 1 false false false in
  exists pix, pix = grid_pixel_of_value true 4 (1 * 2 ^ 4 + 2 * 2 ^ 12 + 3 * 2 ^ 20)%Z /\
              take_tpixel (tp_fmt p) (tpixel_bytes p pix) <> Some (pix, []).
Proof. exact tight_pack24_be_unaligned_refuted. Qed.

(* the solid-area search only returns areas of one colour (on the framebuffer it searched) *)
Theorem C01_tight_split_uniform : forall sfb fuel x y w h ps,
  tight_split fuel sfb x y w h = Some ps ->
  forall a b c d, In (Solid a b c d) ps ->
  exists col, forall i j v, a <= i < a + c -> b <= j < b + d -> gget sfb i j = Some v -> v = col.
Proof. exact tight_split_uni. Qed.

(* the function the driver runs.  scr, the screen the encoder sees, is the pixel-wise translation (any
   function tr of the pixel) of the server framebuffer sfb the solid-area search runs on.  The request is
   partitioned by the pieces; every piece - fill rectangles of the LastRect path included - is sent as
   rectangles that partition it and that the specification's decoder turns into crop scr. *)
Theorem C01_tight_session :
  forall strict swapfix sbypp bypp bpp depth be tc rmax gmax bmax rs gs bs level quality lastrect W H x y w h sfb (tr : Z -> Z) rects,
  let p := tight_params_of strict swapfix sbypp bypp bpp depth be tc rmax gmax bmax rs gs bs level quality in
  let scr := map (map tr) sfb in
  wf_grid W H sfb -> Forall (Forall (tpix_rt p)) scr -> conf_ok (tp_conf p) ->
  x + w <= W -> y + h <= H -> 1 <= w -> 1 <= h ->
  send_tight_session strict swapfix sbypp bypp bpp depth be tc rmax gmax bmax rs gs bs level quality lastrect x y w h scr sfb = Ok rects ->
  exists pieces groups, part_abs x y w h (geoms pieces) /\ Forall2 (piece_sent p scr) pieces groups /\ rects = concat groups.
Proof. exact send_tight_session_full. Qed.

(* non-vacuity: the LastRect path on a one-colour 80 x 64 area sends one fill rectangle *)
Example C01_tight_session_nonvacuous :
  send_tight_session true true 4 4 32 24 0 1 255 255 255 16 8 0 1 (-1) true 0 0 80 64
    (map (map (fun v => v)) (mk_grid 80 64 5%Z)) (mk_grid 80 64 5%Z) = Ok [mkW 0 0 80 64 7 [128; 0; 0; 5]%Z].
Proof. vm_compute. reflexivity. Qed.

Theorem C01_tight_level0_refuted :
  exists g payload, tight_subrect (mkTP 1 false false 0 0 0 0 false false false) 1 2 g = Some (TPayload payload) /\
    dec_tight (mkTF 1 false false 0 0 0) 1 2 payload = None.
Proof. exact tight_level0_refuted. Qed.

Example C01_tight_nonvacuous :
  tight_subrect (mkTP 1 false false 0 0 0 1 false false false) 8 4 [[5; 5; 7; 5; 5; 5; 5; 5]; [5; 5; 5; 5; 5; 5; 5; 5]; [5; 7; 7; 5; 5; 5; 5; 5]; [5; 5; 5; 5; 5; 5; 5; 7]]%Z =
  Some (TPayload [80; 1; 1; 5; 7; 32; 0; 96; 1]%Z).
Proof. vm_compute. reflexivity. Qed.

(* Tight with LastRect: whatever the solid-area search (CheckSolidTile, FindBestSolidArea,
   ExtendSolidArea) finds on the server framebuffer, the pieces it emits - flushed upper parts, top
   strip, left / right / bottom recursion, solid rectangle - partition the requested rectangle *)
Theorem C01_tight_split_cover : forall sfb fuel x y w h ps, 1 <= w -> 1 <= h ->
  tight_split fuel sfb x y w h = Some ps -> part_abs x y w h (geoms ps).
Proof. exact tight_split_cover. Qed.

Example C01_tight_split_nonvacuous :
  exists ps, tight_split 5 (mk_grid 80 64 7%Z) 0 0 80 64 = Some ps /\ length ps = 1.
Proof. eexists. split; [vm_compute; reflexivity|reflexivity]. Qed.

(* ---- splitting: CoRRE tiles, Zlib / Ultra strips ---- *)
Theorem C01_split_cover_tiles : forall w h tw th, 0 < tw -> 0 < th -> partitions w h (tiles w h tw th).
Proof. exact tiles_partition. Qed.

Theorem C01_split_cover_strips : forall rs w h, 1 <= w ->
  partitions w h (map (fun '(sy, sh) => (0, sy, w, sh)) (strips rs 0 w h)).
Proof. exact strips_partition. Qed.

(* ---- persistent compression streams (oracle: Section hypothesis round_trip, no axiom) ---- *)
Theorem C01_stream_history : forall (cstate dstate : Type)
  (compress : cstate -> list Z -> list Z * cstate) (decompress : dstate -> list Z -> option (list Z * dstate))
  (sync : cstate -> dstate -> Prop),
  (forall cs ds data, data <> [] -> sync cs ds ->
     exists ds', decompress ds (fst (compress cs data)) = Some (data, ds') /\ sync (snd (compress cs data)) ds') ->
  forall ps cs ds, Forall (fun p => p <> []) ps -> sync cs ds ->
  decomp_all dstate decompress ds (comp_all cstate compress cs ps) = Some ps.
Proof. exact stream_history. Qed.

(* ---- the dispatch: every wire rectangle of every modelled lossless encoding ---- *)
Theorem C01_send_rect : forall W H scr p x y w h rects,
  wf_grid W H scr -> grid_pix_ok (p_bypp p) scr ->
  x + w <= W -> y + h <= H -> 1 <= w -> 1 <= h -> (Z.of_nat w < 65536)%Z -> (Z.of_nat h < 65536)%Z ->
  1 <= p_mw p <= 255 -> 1 <= p_mh p <= 255 ->
  (p_enc p = c_encZRLE -> p_b15 p = false /\ Forall (Forall (cpix_ok (p_bypp p) (p_cmode p))) scr) ->
  send_rect p x y w h scr = Ok rects ->
  Forall (rect_ok (p_bypp p) (p_cmode p) scr) rects /\
  Forall (fun r => x <= w_x r /\ y <= w_y r) rects /\
  partitions w h (rel_geoms x y rects).
Proof. exact send_rect_ok. Qed.

(* ---- a whole connection WITHOUT Tight: parameter changes (SetEncodings / SetPixelFormat) and updates in
   any order for the encodings of send_rect; Zlib and ZRLE payloads go through two compressors whose
   states persist for the connection (paired oracle states), Ultra through the stateless LZO oracle;
   hypotheses on the external code: round trip on non-empty data only.  Tight rectangles (4 streams,
   stream id in the control byte, <12-byte bypass, compact lengths) are covered by C01_session_tight, the whole
   connection with every encoding by C01_session. ---- *)
Theorem C01_session_nontight : forall (cstate dstate : Type)
  (compress : cstate -> list Z -> list Z * cstate) (decompress : dstate -> list Z -> option (list Z * dstate))
  (sync : cstate -> dstate -> Prop) (lzo : list Z -> list Z) (unlzo : list Z -> option (list Z)),
  (forall cs ds data, data <> [] -> sync cs ds ->
     exists ds', decompress ds (fst (compress cs data)) = Some (data, ds') /\ sync (snd (compress cs data)) ds') ->
  (forall data, data <> [] -> unlzo (lzo data) = Some data) ->
  forall steps p cs ds wire,
  session_ok p steps -> sync3 cstate dstate sync cs ds ->
  run_session cstate compress lzo p cs steps = Ok wire ->
  exists grids, client_session dstate decompress unlzo p ds steps wire = Some grids /\ session_pixels steps wire grids.
Proof. exact session_roundtrip. Qed.

Example C01_session_nonvacuous :
  exists wire, run_session unit (fun cs pl => (pl, cs)) (fun pl => pl) (mkParams 6 1 1 48 48 0 false) (tt, tt)
    [Update 0 0 3 2 [[1; 2; 2]; [1; 2; 3]]%Z; SetParams (mkParams 5 1 1 48 48 0 false); Update 1 0 2 2 [[1; 2; 2]; [1; 2; 3]]%Z] = Ok wire
    /\ length wire = 2.
Proof. eexists. split; [vm_compute; reflexivity|reflexivity]. Qed.

(* ---- THE DISPATCH OF /repo HEAD (a3e0ace: a Raw line longer than the update buffer goes out in pieces;
   send_rect_split is what the driver runs): for EVERY well-formed request, however wide, and every encoding
   of send_rect, rectangles are sent (never "client closed", never the model's Err), each decodes to the
   framebuffer, they lie inside the request, partition it, and are bytes ---- *)
Theorem C01_send_rect_repaired : forall W H scr p x y w h,
  wf_grid W H scr -> grid_pix_ok (p_bypp p) scr -> 1 <= p_bypp p ->
  x + w <= W -> y + h <= H -> 1 <= w -> 1 <= h -> (Z.of_nat w < 65536)%Z -> (Z.of_nat h < 65536)%Z ->
  1 <= p_mw p <= 255 -> 1 <= p_mh p <= 255 ->
  (p_enc p = c_encZRLE -> p_b15 p = false /\ Forall (Forall (cpix_ok (p_bypp p) (p_cmode p))) scr) ->
  In (p_enc p) [c_encRaw; (-1)%Z; c_encRRE; c_encCoRRE; c_encHextile; c_encZlib; c_encUltra; c_encZRLE] ->
  exists rects, send_rect_split p x y w h scr = Ok rects /\
    Forall (rect_ok (p_bypp p) (p_cmode p) scr) rects /\
    Forall (fun r => x <= w_x r /\ y <= w_y r) rects /\
    partitions w h (rel_geoms x y rects) /\
    Forall (fun r => bytes_ok (wire_bytes r)) rects.
Proof. exact send_rect_split_full. Qed.

(* non-vacuity: a 3-pixel line through a dispatch whose buffer holds 32768 bytes is untouched; the wide case is
   exercised by the correspondence run (corpus/C01/F4_raw_line_8193px.json) *)
Example C01_send_rect_repaired_nonvacuous :
  send_rect_split (mkParams 0 1 1 48 48 0 false) 0 0 3 1 [[1; 2; 3]]%Z = Ok [mkW 0 0 3 1 0 [1; 2; 3]%Z].
Proof. vm_compute. reflexivity. Qed.

(* relation of the repaired dispatch to the old one: it never closes the client, what it sends instead of closing
   decodes to the framebuffer, and where send_rect delivered nothing changes *)
Theorem C01_raw_wide_repaired : forall W H scr p x y w h,
  wf_grid W H scr -> grid_pix_ok (p_bypp p) scr -> x + w <= W -> y + h <= H ->
  send_rect_split p x y w h scr <> Fallback /\
  (forall rects, send_rect p x y w h scr = Ok rects -> send_rect_split p x y w h scr = Ok rects) /\
  (send_rect p x y w h scr = Fallback ->
   exists r, send_rect_split p x y w h scr = Ok [r] /\ rect_ok (p_bypp p) (p_cmode p) scr r /\
             geom r = (x, y, w, h) /\ bytes_ok (wire_bytes r)).
Proof. exact send_rect_split_ok. Qed.

(* ---- the Tight wire layer (TightWire.v): four zlib streams that persist for the connection, stream id in
   bits 4-5 of the compression-control byte, reset bits 0-3 (honoured by the client, never set by this server),
   data shorter than TIGHT_MIN_TO_COMPRESS = 12 bytes sent as it is, otherwise compact length (1-3 bytes) ++
   stream output; compress takes the level (deflateParams keeps the stream state).  For every history of Tight
   updates (fill / mono / indexed / full-colour rectangles in any mix, with or without the LastRect search,
   parameters changing from update to update) the specification's client with four paired inflate states
   obtains for every rectangle the pixels of the screen of that update.  Hypotheses on zlib: round trip on
   non-empty data for paired states, per stream.  tstep_ok: well-formed request, screen = pixel-wise translation
   of the framebuffer, TPIXEL-faithful pixels, tightConf row 1-3, no JPEG quality level. ---- *)
Theorem C01_session_tight : forall (cstate dstate : Type)
  (compress : Z -> cstate -> list Z -> list Z * cstate) (decompress : dstate -> list Z -> option (list Z * dstate))
  (dinit : dstate) (sync : cstate -> dstate -> Prop),
  (forall lvl cs ds data, data <> [] -> sync cs ds ->
     exists ds', decompress ds (fst (compress lvl cs data)) = Some (data, ds') /\ sync (snd (compress lvl cs data)) ds') ->
  forall steps cs ds wire,
  Forall tstep_ok steps -> sync4 cstate dstate sync cs ds ->
  run_tight_session cstate compress cs steps = Some wire ->
  exists grids, client_tight_session dstate decompress dinit ds steps wire = Some grids /\
                tsession_pixels steps wire grids.
Proof. exact tight_session_roundtrip. Qed.

(* one rectangle through the wire layer, and the compact length *)
Theorem C01_tight_compact_len : forall n r, (0 <= n < 4194304)%Z -> take_compact_len (compact_len n ++ r) = Some (n, r).
Proof. exact compact_len_roundtrip. Qed.

(* ---- THE WHOLE CONNECTION, every encoding: parameter changes, updates with the encodings of send_rect and
   Tight updates in any order; six persistent zlib streams (Zlib, ZRLE, Tight 0-3) + stateless LZO ---- *)
Theorem C01_session : forall (cstate dstate : Type)
  (compress : Z -> cstate -> list Z -> list Z * cstate) (decompress : dstate -> list Z -> option (list Z * dstate))
  (dinit : dstate) (sync : cstate -> dstate -> Prop) (lzo : list Z -> list Z) (unlzo : list Z -> option (list Z)) (zlevel : Z),
  (forall lvl cs ds data, data <> [] -> sync cs ds ->
     exists ds', decompress ds (fst (compress lvl cs data)) = Some (data, ds') /\ sync (snd (compress lvl cs data)) ds') ->
  (forall data, data <> [] -> unlzo (lzo data) = Some data) ->
  forall steps p cs2 ds2 cs4 ds4 wire,
  conn_ok p steps -> sync3 cstate dstate sync cs2 ds2 -> sync4 cstate dstate sync cs4 ds4 ->
  run_conn cstate compress lzo zlevel p cs2 cs4 steps = Some wire ->
  exists grids, client_conn dstate decompress dinit unlzo p ds2 ds4 steps wire = Some grids /\ conn_pixels steps wire grids.
Proof. exact conn_roundtrip. Qed.

(* non-vacuity: a Zlib update and a Tight update (16 data bytes: compact length + stream 0) on one connection *)
Example C01_session_whole_nonvacuous :
  let g4 := [[1; 2; 3; 4]; [5; 6; 7; 8]; [9; 10; 11; 12]; [13; 14; 15; 16]]%Z in
  let steps := [CNT (Update 0 0 3 2 [[1; 2; 2]; [1; 2; 3]]%Z); CT (TUpd (mkTP 1 false false 0 0 0 1 false false true) false 0 0 4 4 g4 g4)] in
  let p := mkParams 6 1 1 48 48 0 false in
  exists wire, run_conn unit (fun _ cs pl => (pl, cs)) (fun pl => pl) 0%Z p (tt, tt) (tt, tt, tt, tt) steps = Some wire /\
    client_conn unit (fun ds pl => Some (pl, ds)) tt (fun pl => Some pl) p (tt, tt) (tt, tt, tt, tt) steps wire =
      Some [[[[1; 2; 2]; [1; 2; 3]]]; [g4]]%Z.
Proof. eexists. split; vm_compute; reflexivity. Qed.

(* C01_send_rect for ZRLE with the CPIXEL mode tied to the client format (not a free parameter): the mode
   the repaired server computes, decoded with the specification's mode; only hypothesis beyond
   well-formedness: depth <= 24 *)
Theorem C01_send_rect_zrle_format : forall W H p depth be tc rmax gmax bmax rs gs bs (vals : list (list Z)) x y w h rects,
  fmt_wf 32 rmax gmax bmax rs gs bs -> tc <> 0%Z -> (depth <= 24)%Z ->
  p_enc p = c_encZRLE -> p_bypp p = 4 -> p_b15 p = false ->
  p_cmode p = zrle_cmode_gen false 32 be rmax gmax bmax rs gs bs ->
  wf_grid W H vals ->
  Forall (Forall (fun v => (0 <= v)%Z /\ Z.land v (maxpix rmax gmax bmax rs gs bs) = v)) vals ->
  x + w <= W -> y + h <= H -> 1 <= w -> 1 <= h -> (Z.of_nat w < 65536)%Z -> (Z.of_nat h < 65536)%Z ->
  1 <= p_mw p <= 255 -> 1 <= p_mh p <= 255 ->
  let scr := map (map (grid_of_value 32 be)) vals in
  send_rect p x y w h scr = Ok rects ->
  Forall (rect_ok 4 (spec_cmode 32 depth be tc rmax gmax bmax rs gs bs) scr) rects /\
  partitions w h (rel_geoms x y rects).
Proof. exact send_rect_zrle_format. Qed.

(* ---- what is sent are bytes (every item of header ++ payload in 0..255), and the mirror never gives up
   (neither its own failure value Err nor "client closed") on a well-formed request whose line fits the
   update buffer: every encoding of send_rect, and Tight ---- *)
Theorem C01_send_rect_bytes : forall W H scr p x y w h rects,
  wf_grid W H scr -> x + w <= W -> y + h <= H ->
  send_rect p x y w h scr = Ok rects -> Forall (fun r => bytes_ok (wire_bytes r)) rects.
Proof. exact send_rect_bytes_all. Qed.

Theorem C01_send_rect_total : forall W H scr p x y w h,
  wf_grid W H scr -> x + w <= W -> y + h <= H -> 1 <= w -> 1 <= h -> 1 <= p_bypp p ->
  p_bypp p * w <= bufsize -> 1 <= p_mw p -> 1 <= p_mh p ->
  In (p_enc p) [c_encRaw; (-1)%Z; c_encRRE; c_encCoRRE; c_encHextile; c_encZlib; c_encUltra; c_encZRLE] ->
  exists rects, send_rect p x y w h scr = Ok rects.
Proof. exact send_rect_total_all. Qed.

Theorem C01_zrle_tile_total : forall bypp cmode b15 tw th t, 1 <= tw -> 1 <= th -> wf_grid tw th t ->
  exists bytes, zrle_tile bypp cmode b15 tw th t = Some bytes.
Proof. exact zrle_tile_total. Qed.

Theorem C01_tight_subrect_total : forall p w h g, 1 <= w -> 1 <= h -> wf_grid w h g -> conf_ok (tp_conf p) ->
  exists o, tight_subrect p w h g = Some o.
Proof. exact tight_subrect_total. Qed.

Theorem C01_tight_session_total :
  forall strict swapfix sbypp bypp bpp depth be tc rmax gmax bmax rs gs bs level quality lastrect W H x y w h scr sfb,
  wf_grid W H scr ->
  conf_ok (tp_conf (tight_params_of strict swapfix sbypp bypp bpp depth be tc rmax gmax bmax rs gs bs level quality)) ->
  x + w <= W -> y + h <= H -> 1 <= w -> 1 <= h ->
  exists rects, send_tight_session strict swapfix sbypp bypp bpp depth be tc rmax gmax bmax rs gs bs level quality lastrect x y w h scr sfb = Ok rects.
Proof. exact send_tight_session_total. Qed.

Theorem C01_tight_session_bytes :
  forall strict swapfix sbypp bypp bpp depth be tc rmax gmax bmax rs gs bs level quality lastrect x y w h scr sfb rects,
  send_tight_session strict swapfix sbypp bypp bpp depth be tc rmax gmax bmax rs gs bs level quality lastrect x y w h scr sfb = Ok rects ->
  Forall (fun r => bytes_ok (wire_bytes r)) rects.
Proof. exact send_tight_session_bytes. Qed.

(* the fuel send_tight_session passes to the solid-area recursion is adequate *)
Theorem C01_tight_split_total : forall sfb x y w h, 1 <= w -> 1 <= h ->
  exists ps, tight_split (S (w * h)) sfb x y w h = Some ps.
Proof. intros sfb x y w h Hw Hh. apply tight_split_total; [exact Hw|exact Hh|apply Nat.lt_succ_diag_r]. Qed.

Example C01_send_rect_nonvacuous :
  exists rects, send_rect (mkParams 5 1 1 48 48 0 false) 1 0 2 2 [[1; 2; 2]; [1; 2; 3]]%Z = Ok rects /\ length rects = 1.
Proof. eexists. split; [vm_compute; reflexivity|reflexivity]. Qed.
