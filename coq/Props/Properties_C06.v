(* C06 - Input events reach the application exactly when permitted, unaltered, in order.
   Only property theorems here, each closed by [exact] of a lemma proved in
   Session/InputProofs, InputProofs2, InputProofs3, InputProofs4.
   All statements are about the functions that are extracted and run against the library
   (Session/InputDefs.v: run, step, process, handle, handle_client, the parse and apply
   functions), for every choice of the extended-clipboard handler [ext_cut] (C18 instantiates it).

   SOURCES.  The application receives input callbacks from three places, all modelled:
   (i) rfbProcessClientMessage of a connection of the client list (plain sockets; the check also drives
   the WebSocket transport), (ii) the deferred-pointer flush of rfbUpdateClient, (iii) the UDP input
   channel rfbProcessUDPInput (Session/InputWorld.v: active only when the application opens
   screen->udpPort; no protocol state, view-only, pointer-owner or scale test applies to it; since
   93b245e it is mute on a screen that requires a password).  [C06_gating_all_sources] covers all
   three.  Session/InputWorld.v also has the connections put on hold by newClientHook and the
   reverse connections (no sharing test, no authentication).  Outside the model: file-transfer
   messages, TLS, handleEventsEagerly. *)
From Coq Require Import ZArith List Bool.
From LV Require Import Gen.Consts_C06 Wire.C2SInput Session.InputDefs Session.InputProofs
  Session.InputProofs2 Session.InputProofs3 Session.InputProofs4 Session.InputProofs5 Session.InputProofs6
  Session.InputProofs7 Session.InputWorld.
Import ListNotations.
Local Open Scope Z_scope.

(* ---- segmentation ---------------------------------------------------------------------
   The result of rfbReadExact depends only on the byte stream still to come (and whether the
   peer closes afterwards), not on what the kernel already holds / how the rest is cut. *)
Theorem C06_read_exact_chunking : forall n i1 i2,
  st_bytes i1 = st_bytes i2 -> st_eof i1 = st_eof i2 ->
  rres_rel (read_exact n i1) (read_exact n i2).
Proof. intros n i1 i2 H1 H2. exact (resp_read_exact n i1 i2 (conj H1 H2)). Qed.

(* How the byte stream of each connection is cut into fragments ([OSend id frags], same
   concatenation) never changes the callbacks: every script, any number of connections. *)
Theorem C06_segmentation_invariant : forall ext_cut cfg ops1 ops2,
  Forall2 oprel ops1 ops2 ->
  snd (run ext_cut (init_server cfg) ops1) = snd (run ext_cut (init_server cfg) ops2).
Proof. exact segmentation_invariant. Qed.

Example C06_segmentation_invariant_nonvacuous :
  let hs := [OConnect 0 false; OSend 0 [[82; 70; 66; 32; 48; 48; 51; 46; 48; 48; 51; 10]]; OProcess;
             OSend 0 [[1]]; OProcess] in
  Forall2 oprel (hs ++ [OSend 0 [enc_key 1 97 ++ enc_ptr 1 10 20]; OProcess; OProcess])
                (hs ++ [OSend 0 (map (fun b => [b]) (enc_key 1 97 ++ enc_ptr 1 10 20)); OProcess; OProcess]) /\
  snd (c06_run (init_server (mkCfg 100 80 false 0 false false false 0 false 0))
               (hs ++ [OSend 0 (map (fun b => [b]) (enc_key 1 97 ++ enc_ptr 1 10 20)); OProcess; OProcess]))
  = [EvKey 0 1 97; EvPtr 0 1 10 20].
Proof. split; [repeat constructor|vm_compute; reflexivity]. Qed.

(* ---- exactly once, in order ---------------------------------------------------------
   Connection [c] is in RFB_NORMAL, not view-only, free to take the pointer, pointer coalescing
   off; any number of OTHER connections exist (any protocol state, view-only or not) but stay
   quiet: nothing to read, no remembered pointer position.  Whatever well-formed input messages
   (mixed with FramebufferUpdateRequest / SetSW / SetServerInput / xvp / SetEncodings with any
   encodings / SetPixelFormat with an acceptable format) the pending byte stream of [c] consists
   of - however that stream is split between kernel buffer and fragments in flight - enough
   rfbProcessEvents passes call the application exactly once per input message, in order, with
   the same key symbol / button mask / text bytes and the position mapped by [map_pos].
   (The "silent" messages also include TextChat and SetDesktopSize: [silent_kind].) *)
Theorem C06_exactly_once_in_order_quiet_others : forall ext_cut msgs n s c0 l1 c l2,
  s_clients s = l1 ++ c :: l2 -> Forall (quiet (c_id c0)) l1 -> Forall (quiet (c_id c0)) l2 ->
  cinv c0 c -> ptr_allowed (s_owner s) (c_id c0) = true ->
  g_deferptr (s_cfg s) = 0 -> Forall wmsg_ok msgs ->
  st_bytes (c_in c) = concat (map enc_w msgs) -> st_eof (c_in c) = false ->
  (length msgs <= n)%nat ->
  snd (run ext_cut s (processes n)) = concat (map (expected (s_cfg s) c0) msgs).
Proof. exact once_in_order_multi. Qed.

Example C06_exactly_once_in_order_quiet_others_nonvacuous :
  let cfg := mkCfg 100 80 false 0 false false false 0 false 0 in
  let c := set_in (set_state (new_client cfg 7 false) SNormal)
                  (mkInp [4; 1] false [Frag [0; 0; 0; 0]; Frag (0 :: 97 :: enc_cut [104; 105] ++ enc_ptr 3 65535 0)]) in
  let msgs := [WIn (IKey 1 97); WIn (ICut [104; 105]); WIn (IPtr 3 65535 0)] in
  cinv c c /\ Forall wmsg_ok msgs /\ st_bytes (c_in c) = concat (map enc_w msgs) /\
  snd (c06_run (mkSrv cfg [c] None 0) (processes 3)) = [EvKey 7 1 97; EvCut 7 [104; 105]; EvPtr 7 3 65535 0] /\
  wmsg_ok (WSetEnc [5; 4294967057; c06_rfbEncodingExtendedClipboard]) /\
  wmsg_ok (WPixFmt [0; 0; 0; 32; 24; 0; 1; 0; 255; 0; 255; 0; 255; 16; 8; 0; 0; 0; 0]) /\
  (* another connection, view-only and still in the handshake, is quiet *)
  quiet 7 (new_client cfg 8 true).
Proof.
  cbv zeta. split; [|split; [|split; [|split; [|split; [|split]]]]].
  - vm_compute. repeat split; discriminate.
  - repeat constructor; vm_compute; try discriminate; intuition discriminate.
  - vm_compute. reflexivity.
  - vm_compute. reflexivity.
  - split; [vm_compute; reflexivity|]. repeat constructor; vm_compute; try discriminate; intuition discriminate.
  - split; [reflexivity|]. exists 32, 1. vm_compute. repeat split; reflexivity.
  - unfold quiet. cbn. repeat split; auto; discriminate.
Qed.

(* The general per-message statement behind it, without any assumption on the OTHER connections
   (they only enter through the pointer owner [o] and the flag [b]): one rfbProcessClientMessage of
   a permitted connection whose stream starts with the well-formed message [w] makes exactly the
   callbacks [expected], consumes exactly that message, keeps the connection permitted, closes
   nobody.  Positive delivery with competing ACTIVE connections follows by applying it to each
   rfbProcessClientMessage in turn; [ptr_allowed] is the only interaction (C06_pointer_ownership). *)
Theorem C06_message_delivered : forall ext_cut cfg o c0 c b w r,
  cinv c0 c -> ptr_allowed o (c_id c0) = true -> g_deferptr cfg = 0 -> wmsg_ok w ->
  st_bytes (c_in c) = enc_w w ++ r ->
  let a := handle_client ext_cut cfg o c b in
  cinv c0 (a_client a) /\ st_bytes (c_in (a_client a)) = r /\ st_eof (c_in (a_client a)) = st_eof (c_in c) /\
  a_events a = expected cfg c0 w /\ a_close_others a = false /\ ptr_allowed (a_owner a) (c_id c0) = true.
Proof. exact handle_client_w. Qed.

Example C06_message_delivered_nonvacuous :
  (* TextChat (open; a 2-byte text) and SetDesktopSize (one screen) are silent messages *)
  wmsg_ok (WFixed c06_rfbTextChat ([0; 0; 0] ++ be32 c06_rfbTextChatOpen)) /\
  wmsg_ok (WFixed c06_rfbTextChat ([0; 0; 0] ++ be32 2 ++ [104; 105])) /\
  wmsg_ok (WFixed c06_rfbSetDesktopSize ([0; 3; 32; 2; 88; 1; 0] ++ repeat 0 16)).
Proof.
  split; [|split].
  - right. left. split; [reflexivity|]. exists [0; 0; 0], c06_rfbTextChatOpen, []. repeat split; auto.
  - right. left. split; [reflexivity|]. exists [0; 0; 0], 2, [104; 105]. split; [reflexivity|]. split; [reflexivity|].
    right. vm_compute. repeat split; reflexivity.
  - right. right. split; [reflexivity|]. exists [0; 3; 32; 2; 88; 1; 0], (repeat 0 16), 1.
    vm_compute. repeat split; try reflexivity; discriminate.
Qed.

(* SetScale / PalmVNCSetScaleFactor themselves (the messages that change the mapping): no callback,
   nobody closed, the scaled view becomes (W/n, H/n) - unless one of them would be 0, then nothing
   changes (8e7b6f1) - and nothing else about the connection changes: the pointer events that follow
   are mapped through the new view (C06_message_delivered with the new record as [c0]). *)
Theorem C06_set_scale_message : forall ext_cut cfg o c b t n p1 p2 r,
  c_state c = SNormal -> (t = c06_rfbSetScale \/ t = c06_rfbPalmVNCSetScaleFactor) -> n <> 0 ->
  st_bytes (c_in c) = t :: n :: p1 :: p2 :: r ->
  let a := handle_client ext_cut cfg o c b in
  let w := g_w cfg / n in let h := g_h cfg / n in
  a_events a = [] /\ a_owner a = o /\ a_close_others a = false /\
  st_bytes (c_in (a_client a)) = r /\ st_eof (c_in (a_client a)) = st_eof (c_in c) /\
  exists j, a_client a =
    (if (negb ((w =? g_w cfg) && (h =? g_h cfg))) && ((h =? 0) || (w =? 0))
     then set_in c j else set_scaled (set_in c j) w h).
Proof. exact handle_client_setscale. Qed.

(* the scaled view never becomes empty: every division ScaleX/ScaleY performs is by a positive
   width / height (scale factor = one byte of the message, hence >= 0) *)
Theorem C06_scaled_view_positive : forall ext_cut cfg o c m b,
  0 < g_w cfg -> 0 < g_h cfg -> scaled_pos c ->
  (forall p n, m = MSetScale p n -> 0 <= n) ->
  scaled_pos (a_client (apply_msg ext_cut cfg o c m b)).
Proof. exact apply_msg_scaled_pos. Qed.

Theorem C06_scaled_view_positive_initially : forall cfg id vo,
  0 < g_w cfg -> 0 < g_h cfg -> scaled_pos (new_client cfg id vo).
Proof. exact new_client_scaled_pos. Qed.

(* the same messages sent at once or in two sends with any number of passes in between (cut at a
   message boundary; a pass that finds a message INCOMPLETE with nothing more in flight is a peer
   stalling beyond maxClientWait: connection closed, in the model as in the library) *)
Theorem C06_two_sends_with_passes_between : forall ext_cut msgs1 msgs2 n1 n2 s c0 l1 c l2,
  s_clients s = l1 ++ c :: l2 -> Forall (quiet (c_id c0)) l1 -> Forall (quiet (c_id c0)) l2 ->
  cinv c0 c -> ptr_allowed (s_owner s) (c_id c0) = true ->
  g_deferptr (s_cfg s) = 0 -> Forall wmsg_ok msgs1 -> Forall wmsg_ok msgs2 ->
  st_bytes (c_in c) = [] -> st_eof (c_in c) = false ->
  (length msgs1 <= n1)%nat -> (length msgs2 <= n2)%nat ->
  let id := c_id c0 in
  let want := concat (map (expected (s_cfg s) c0) (msgs1 ++ msgs2)) in
  snd (run ext_cut s (OSend id [concat (map enc_w (msgs1 ++ msgs2))] :: processes (n1 + n2))) = want /\
  snd (run ext_cut s ((OSend id [concat (map enc_w msgs1)] :: processes n1) ++
                      (OSend id [concat (map enc_w msgs2)] :: processes n2))) = want.
Proof. exact two_sends_with_passes_between. Qed.

(* the position handed to ptrAddEvent: unchanged for an unscaled client ... *)
Theorem C06_pointer_position_unscaled : forall cfg c x y,
  c_sw c = g_w cfg -> c_sh c = g_h cfg -> map_pos cfg c x y = Some (x, y).
Proof. exact map_pos_unscaled. Qed.

(* ... and for a scaled client (SetScale / PalmVNCSetScaleFactor, view of width fw > 0 on a screen
   of width tw) it is the exact quotient x*tw/fw, i.e. the position mapped back to unscaled
   framebuffer coordinates (the code as it is: ScaleX/ScaleY multiply before dividing, c7c2b1b) *)
Theorem C06_pointer_unscale : forall cfg x fw tw, fix_scale cfg = true -> 0 < fw ->
  scale_v cfg x fw tw = Some (x * tw / fw).
Proof. exact scale_v_fixed. Qed.

(* ... and that integer quotient IS what the C expression (int)(((double)x * (double)to) / (double)from)
   evaluates to in IEEE binary64 (round to nearest even), for all operands below 2^16 - i.e. every
   16-bit wire coordinate and every screen dimension: [scale_m] emulates the double arithmetic exactly
   over Z ([fdiv53]: correctly rounded quotient m / 2^e, 2^52 <= m <= 2^53; the product is exact) *)
Theorem C06_pointer_unscale_binary64 : forall x fw tw,
  0 <= x < 65536 -> 0 < fw < 65536 -> 0 <= tw < 65536 ->
  scale_m x fw tw = Some (x * tw / fw).
Proof. exact scale_m_exact. Qed.

Theorem C06_pointer_unscale_model_is_binary64 : forall cfg x fw tw, fix_scale cfg = true ->
  0 <= x < 65536 -> 0 < fw < 65536 -> 0 <= tw < 65536 ->
  scale_v cfg x fw tw = scale_m x fw tw.
Proof. exact scale_v_is_binary64. Qed.

Example C06_pointer_unscale_binary64_nonvacuous :
  scale_m 29 100 200 = Some 58 /\ scale_m 65535 3 65535 = Some 1431612075 /\ scale_d 29 100 200 = Some 57.
Proof. vm_compute. repeat split; reflexivity. Qed.

Example C06_pointer_unscale_nonvacuous :
  let cfg := mkCfg 200 100 false 0 false false false 0 false 0 in
  fix_scale cfg = true /\
  map_pos cfg (set_scaled (new_client cfg 1 false) 100 50) 29 29 = Some (58, 58).
Proof. vm_compute. split; reflexivity. Qed.

(* regression witnesses: the former formula (int)(((double)x/from)*to) (variant bit 1), an exact
   integer emulation of the binary64 arithmetic: 29 on a half-size view of 200 came out as 57;
   within the swept range (from-width 1..128, factor 1..8, x inside) it is x*n or x*n-1 *)
Theorem C06_pointer_unscale_legacy : forall cfg x fw tw,
  fix_scale cfg = false -> scale_v cfg x fw tw = scale_d x fw tw.
Proof. exact scale_v_asis. Qed.

Theorem C06_pointer_unscale_legacy_within_one : forall fw n x, 1 <= fw <= 128 -> 1 <= n <= 8 -> 0 <= x < fw ->
  exists v, scale_d x fw (fw * n) = Some v /\ (v = x * n \/ v = x * n - 1).
Proof. exact scale_within_one. Qed.

Theorem C06_pointer_unscale_legacy_witness : scale_d 29 100 200 = Some 57 /\ 29 * 200 / 100 = 58.
Proof. exact scale_not_exact. Qed.

(* ---- gating ---------------------------------------------------------------------------
   One rfbProcessClientMessage for connection [id] in ANY server state: every callback it
   causes is attributed to [id], and [id] was open, in RFB_NORMAL and not view-only; a pointer
   callback moreover requires that no other connection holds a pointer button. *)
Theorem C06_gating : forall ext_cut,
  (forall k p, snd (fst (ext_cut true k p)) = []) ->
  forall s id e, In e (snd (handle ext_cut s id)) ->
  exists c, find_client (s_clients s) id = Some c /\ c_closed c = false /\
            c_state c = SNormal /\ c_viewonly c = false /\ ev_client e = id /\
            (is_ptr e = true -> ptr_allowed (s_owner s) id = true).
Proof. exact handle_gate. Qed.

Example C06_gating_nonvacuous :
  let cfg := mkCfg 100 80 false 0 false false false 0 false 0 in
  let c := set_in (set_state (new_client cfg 7 false) SNormal) (mkInp (enc_ptr 1 2 3) false []) in
  snd (handle ext_cut_off (mkSrv cfg [c] None 0) 7) = [EvPtr 7 1 2 3] /\
  snd (handle ext_cut_off (mkSrv cfg [c] (Some 8) 0) 7) = [] /\
  snd (handle ext_cut_off (mkSrv cfg [set_viewonly c true] None 0) 7) = [] /\
  snd (handle ext_cut_off (mkSrv cfg [set_state c SInit] None 0) 7) = [].
Proof. vm_compute. repeat split; reflexivity. Qed.

(* The same over one whole rfbProcessEvents pass with any number of connections (served at most
   once each, in list order, with the closing / sharing side effects of the others in between):
   a callback is caused by a message of a connection that was open, in RFB_NORMAL and not
   view-only when the pass STARTED - or it is the flush of a remembered pointer position
   (coalescing on): then it is a pointer callback attributed to a connection [c0] that IS in the
   server's list when the pass starts and is NOT view-only at that moment (the flag is never cleared
   by a handler, so "not view-only when flushed" implies "not view-only at the start"). *)
Theorem C06_gating_pass : forall ext_cut,
  (forall k p, snd (fst (ext_cut true k p)) = []) ->
  forall s e, NoDup (map c_id (s_clients s)) ->
  In e (snd (process ext_cut s)) ->
  (exists c, find_client (s_clients s) (ev_client e) = Some c /\ c_closed c = false /\
             c_state c = SNormal /\ c_viewonly c = false) \/
  (exists c0, find_client (s_clients s) (ev_client e) = Some c0 /\ c_viewonly c0 = false /\
              exists mask x y, e = EvPtr (c_id c0) mask x y /\ 0 <= x).
Proof. exact process_gate_tied. Qed.

Example C06_gating_pass_nonvacuous :
  (* connection 7 (view-only, remembered position) and 8 (permitted, remembered position, timer
     expired): the pass flushes only 8's *)
  let cfg := mkCfg 100 80 false 0 false false false 50 false 0 in
  let mk id vo := set_ptr (set_state (new_client cfg id vo) SNormal) (mkPtr 1 10 20 1 500) in
  snd (process ext_cut_off (mkSrv cfg [mk 7 true; mk 8 false] None 9000)) = [EvPtr 8 1 10 20].
Proof. vm_compute. reflexivity. Qed.

(* its hypothesis is an invariant: every script whose OConnect ids are new (pairwise distinct, not
   in use at the start - the harness numbers connections consecutively) keeps the ids distinct *)
Theorem C06_distinct_ids_invariant : forall ext_cut ops s,
  NoDup (connect_ids ops ++ ids s) -> NoDup (ids (fst (run ext_cut s ops))).
Proof. exact run_nodup. Qed.

(* ---- view-only ---------------------------------------------------------------------------
   by password position: a response made with password number k of the list makes the connection
   view-only iff k >= authPasswdFirstViewOnly (rfbCheckPasswordByList, main.c:852) ... *)
Theorem C06_viewonly_by_password : forall cfg o c r b k,
  c_authres c = Some k ->
  let a := apply_handshake cfg o c (HAuthResp r) b in
  c_state (a_client a) = SInit /\ c_closed (a_client a) = c_closed c /\
  c_viewonly (a_client a) = (if g_firstvo cfg <=? k then true else c_viewonly c).
Proof. exact authresp_viewonly. Qed.

(* ... and no rfbProcessClientMessage ever clears the flag (only the application does: OViewOnly) *)
Theorem C06_viewonly_never_cleared : forall ext_cut cfg o c b,
  c_viewonly c = true -> c_viewonly (a_client (handle_client ext_cut cfg o c b)) = true.
Proof. exact handle_client_vo. Qed.

Theorem C06_viewonly_kept_pass : forall ext_cut s id c0 c1, NoDup (map c_id (s_clients s)) ->
  find_client (s_clients s) id = Some c0 -> c_viewonly c0 = true ->
  find_client (s_clients (fst (process ext_cut s))) id = Some c1 -> c_viewonly c1 = true.
Proof. exact process_viewonly_kept. Qed.

(* the second source of callbacks, the deferred-pointer flush of rfbUpdateClient, never serves a
   view-only connection (the third, the UDP channel, is at the end: C06_gating_all_sources) *)
Theorem C06_gating_flush : forall cfg now c e,
  In e (snd (flush_ptr cfg now c)) ->
  c_viewonly c = false /\ 0 <= p_lastx (c_ptr c) /\
  e = EvPtr (c_id c) (p_lastbtn (c_ptr c)) (p_lastx (c_ptr c)) (p_lasty (c_ptr c)).
Proof. exact flush_gate. Qed.

(* no callback at all from the handshake states, whatever bytes arrive *)
Theorem C06_gating_handshake : forall cfg o c m b,
  a_events (apply_handshake cfg o c m b) = [].
Proof. exact apply_handshake_noev. Qed.

(* the ownership rule exactly as implemented: a PointerEvent of a connection that may use the
   pointer takes (mask <> 0) or releases (mask = 0) it BEFORE the view-only test - a view-only
   connection can hold the pointer and thereby mute everybody else *)
Theorem C06_pointer_ownership : forall ext_cut cfg o c mask x y,
  let a := apply_normal ext_cut cfg o c (MPtr mask x y) in
  (ptr_allowed o (c_id c) = false -> a = applied_same c o) /\
  (ptr_allowed o (c_id c) = true ->
     a_owner a = (if mask =? 0 then None else Some (c_id c)) /\
     (c_viewonly c = true -> a_events a = [] /\ a_client a = c) /\
     (c_viewonly c = false -> g_deferptr cfg = 0 -> a_events a = [ptr_event cfg c mask x y])).
Proof. exact ptr_rule. Qed.

(* ---- cut-text limit ---------------------------------------------------------------------
   every text up to and including 2^20 bytes (any byte values) is delivered whole ... *)
Theorem C06_cut_text_limit_accept : forall ext_cut cfg o c b text r,
  c_state c = SNormal -> c_viewonly c = false ->
  Z.of_nat (length text) <= c06_cut_text_limit ->
  st_bytes (c_in c) = enc_cut text ++ r ->
  let a := handle_client ext_cut cfg o c b in
  a_events a = [EvCut (c_id c) text] /\ c_closed (a_client a) = c_closed c /\
  st_bytes (c_in (a_client a)) = r /\ a_owner a = o.
Proof. exact cut_limit_accept. Qed.

(* ... one byte more closes the connection without any callback, whatever follows *)
Theorem C06_cut_text_limit_reject : forall ext_cut cfg o c b len r,
  c_state c = SNormal ->
  c06_cut_text_limit < len < two32 -> (k_ext (c_clip c) = false \/ len < two31) ->
  st_bytes (c_in c) = c06_rfbClientCutText :: ([0; 0; 0] ++ be32 len) ++ r ->
  let a := handle_client ext_cut cfg o c b in
  a_events a = [] /\ c_closed (a_client a) = true /\ a_owner a = o /\ a_close_others a = false.
Proof. exact cut_limit_reject. Qed.

Theorem C06_cut_text_limit_value : c06_cut_text_limit = 2 ^ 20.
Proof. reflexivity. Qed.

Example C06_cut_text_limit_nonvacuous :
  let cfg := mkCfg 100 80 false 0 false false false 0 false 0 in
  let c t := set_in (set_state (new_client cfg 7 false) SNormal) (mkInp t false []) in
  a_events (handle_client ext_cut_off cfg None (c (enc_cut [0; 255; 0])) false) = [EvCut 7 [0; 255; 0]] /\
  c_closed (a_client (handle_client ext_cut_off cfg None
      (c (c06_rfbClientCutText :: ([0; 0; 0] ++ be32 (c06_cut_text_limit + 1)) ++ [1; 2; 3])) false)) = true.
Proof. vm_compute. split; reflexivity. Qed.

(* ---- pointer coalescing (deferPtrUpdateTime > 0) --------------------------------------
   "where it is on, the last position within each interval must be delivered": after ANY
   sequence of PointerEvents of a permitted client (the code as it is, 4105625), the last message
   is either the last callback made - and then nothing is remembered - or it is exactly what is
   remembered; and what is remembered is delivered exactly once when its interval has expired
   ([C06_ptr_coalescing_flush]).  So the last callback always carries the mask and position of
   the last message sent, never a stale one. *)
Theorem C06_ptr_coalescing : forall ext_cut cfg ms o c mask x y x' y',
  fix_defer cfg = true ->
  ptr_allowed o (c_id c) = true -> c_viewonly c = false -> map_pos cfg c x y = Some (x', y') ->
  let '(c2, o2, evs) := feed_ptr ext_cut cfg o c (ms ++ [(mask, x, y)]) in
  (p_lastx (c_ptr c2) = -1 /\ exists pre, evs = pre ++ [EvPtr (c_id c) mask x' y']) \/
  (p_lastbtn (c_ptr c2) = mask /\ p_lastx (c_ptr c2) = x' /\ p_lasty (c_ptr c2) = y').
Proof. exact defer_last. Qed.

(* one message: delivered at once (nothing stays remembered) or remembered (replacing any older) *)
Theorem C06_ptr_coalescing_step : forall ext_cut cfg o c mask x y x' y',
  fix_defer cfg = true ->
  ptr_allowed o (c_id c) = true -> c_viewonly c = false -> map_pos cfg c x y = Some (x', y') ->
  let a := apply_normal ext_cut cfg o c (MPtr mask x y) in
  (a_events a = [EvPtr (c_id c) mask x' y'] /\ p_lastx (c_ptr (a_client a)) = -1 /\
   p_lastbtn (c_ptr (a_client a)) = mask) \/
  (a_events a = [] /\ p_lastbtn (c_ptr (a_client a)) = mask /\
   p_lastx (c_ptr (a_client a)) = x' /\ p_lasty (c_ptr (a_client a)) = y').
Proof. exact defer_step. Qed.

Theorem C06_ptr_coalescing_remembered : forall ext_cut cfg o c mask x y x' y',
  ptr_allowed o (c_id c) = true -> c_viewonly c = false -> g_deferptr cfg <> 0 ->
  mask = p_lastbtn (c_ptr c) -> map_pos cfg c x y = Some (x', y') ->
  let a := apply_normal ext_cut cfg o c (MPtr mask x y) in
  a_events a = [] /\ p_lastx (c_ptr (a_client a)) = x' /\ p_lasty (c_ptr (a_client a)) = y' /\
  p_lastbtn (c_ptr (a_client a)) = mask.
Proof. exact defer_store. Qed.

Theorem C06_ptr_coalescing_flush : forall cfg now c,
  c_viewonly c = false -> 0 <= p_lastx (c_ptr c) -> p_defusec (c_ptr c) <> 0 ->
  g_deferptr cfg < (now / 1000 - p_defsec (c_ptr c)) * 1000 + Z.quot ((now mod 1000) * 1000 - p_defusec (c_ptr c)) 1000 ->
  snd (flush_ptr cfg now c) = [EvPtr (c_id c) (p_lastbtn (c_ptr c)) (p_lastx (c_ptr c)) (p_lasty (c_ptr c))] /\
  p_lastx (c_ptr (fst (flush_ptr cfg now c))) = -1.
Proof. exact defer_flush. Qed.

(* liveness: the first rfbUpdateClient that finds a remembered position and no running timer starts
   the timer (establishing the hypothesis p_defusec <> 0 above) and delivers nothing ... *)
Theorem C06_ptr_coalescing_timer_starts : forall cfg now c,
  c_viewonly c = false -> 0 <= p_lastx (c_ptr c) -> p_defusec (c_ptr c) = 0 -> 0 <= now ->
  let c' := fst (flush_ptr cfg now c) in
  snd (flush_ptr cfg now c) = [] /\
  p_lastbtn (c_ptr c') = p_lastbtn (c_ptr c) /\ p_lastx (c_ptr c') = p_lastx (c_ptr c) /\
  p_lasty (c_ptr c') = p_lasty (c_ptr c) /\ c_viewonly c' = false /\ c_id c' = c_id c /\
  0 < p_defusec (c_ptr c') < 1000000 /\ timer_ok now c' /\ set_ptr c' (c_ptr c) = c.
Proof. exact defer_timer_starts. Qed.

(* ... and remembered => delivered: two visits more than deferPtrUpdateTime + 1 ms apart deliver the
   remembered mask and position exactly once, whether or not the timer was already running *)
Theorem C06_ptr_coalescing_delivered : forall cfg now t c,
  c_viewonly c = false -> 0 <= p_lastx (c_ptr c) -> timer_ok now c ->
  0 <= now -> 0 <= g_deferptr cfg -> g_deferptr cfg + 2 <= t ->
  let '(c1, e1) := flush_ptr cfg now c in
  let '(c2, e2) := flush_ptr cfg (now + t) c1 in
  e1 ++ e2 = [EvPtr (c_id c) (p_lastbtn (c_ptr c)) (p_lastx (c_ptr c)) (p_lasty (c_ptr c))] /\
  p_lastx (c_ptr c2) = -1 /\ c_id c2 = c_id c /\ c_viewonly c2 = false.
Proof. exact defer_eventually. Qed.

(* the same at run level: rfbProcessEvents, time passes, rfbProcessEvents - any number of other
   (quiet) connections present *)
Theorem C06_ptr_coalescing_delivered_run : forall ext_cut s l1 c l2 t,
  s_clients s = l1 ++ c :: l2 -> Forall (quiet (c_id c)) l1 -> Forall (quiet (c_id c)) l2 ->
  c_closed c = false -> st_bytes (c_in c) = [] -> st_eof (c_in c) = false ->
  c_viewonly c = false -> 0 <= p_lastx (c_ptr c) -> timer_ok (s_now s) c ->
  0 <= s_now s -> 0 <= g_deferptr (s_cfg s) -> g_deferptr (s_cfg s) + 2 <= t ->
  snd (run ext_cut s [OProcess; OTick t; OProcess])
  = [EvPtr (c_id c) (p_lastbtn (c_ptr c)) (p_lastx (c_ptr c)) (p_lasty (c_ptr c))].
Proof. exact defer_eventually_run. Qed.

(* whole session, the code as it is: press at (84,77), drag to (72,74), release at (31,3) *)
Example C06_ptr_coalescing_nonvacuous :
  snd (c06_run (init_server (mkCfg 100 80 false 0 false false false 999 false 0)) defer_witness_ops)
  = [EvPtr 0 1 84 77; EvPtr 0 0 31 3].
Proof. exact defer_fixed_witness. Qed.

(* regression witness: the former code (variant bit 0) delivered the release and THEN a motion
   to the stale drag position *)
Theorem C06_ptr_coalescing_legacy_witness :
  exists ops, snd (c06_run (init_server (mkCfg 100 80 false 0 false false false 999 false 1)) ops)
              = [EvPtr 0 1 84 77; EvPtr 0 0 31 3; EvPtr 0 0 72 74].
Proof. exists defer_witness_ops. exact defer_stale_witness. Qed.

(* ---- all input sources (Session/InputWorld.v) -------------------------------------------------
   Every operation of the world - the operations of InputDefs.v, connections on hold, reverse
   connections, the UDP port and its datagrams - and every callback [e] it causes: [e] comes from
   (i)   a message of a connection that was open, in RFB_NORMAL and not view-only when the pass started,
   (ii)  the deferred-pointer flush of a listed connection that is not view-only, or
   (iii) a well-formed datagram (KeyEvent of exactly 8 bytes / PointerEvent of exactly 6 bytes) on a
         screen WITHOUT password whose UDP port the application has opened and whose UDP client is not on
         hold; it is attributed to the UDP client.
   No restriction on udpPort any more. *)
Theorem C06_gating_all_sources : forall ext_cut,
  (forall k p, snd (fst (ext_cut true k p)) = []) ->
  forall u o e, NoDup (map c_id (s_clients (u_srv u))) ->
  In e (snd (ustep ext_cut u o)) ->
  (exists c, find_client (s_clients (u_srv u)) (ev_client e) = Some c /\ c_closed c = false /\
             c_state c = SNormal /\ c_viewonly c = false) \/
  (exists c0, find_client (s_clients (u_srv u)) (ev_client e) = Some c0 /\ c_viewonly c0 = false /\
              exists mask x y, e = EvPtr (c_id c0) mask x y /\ 0 <= x) \/
  (exists d, o = UUdp d /\ u_port u = true /\ u_udphold u = false /\ g_haspw (s_cfg (u_srv u)) = false /\
             ev_client e = c06_udp_id /\
             ((exists r dn k, d = c06_rfbKeyEvent :: r /\ Z.of_nat (length d) = c06_sz_KeyEvent /\ e = EvKey c06_udp_id dn k) \/
              (exists r b x y, d = c06_rfbPointerEvent :: r /\ Z.of_nat (length d) = c06_sz_PointerEvent /\
                               e = EvPtr c06_udp_id b x y))).
Proof. exact ustep_gate. Qed.

(* the UDP channel by itself: what a datagram can cause ... *)
Theorem C06_udp_gate : forall cfg port hold d e,
  In e (udp_events cfg port hold d) ->
  port = true /\ hold = false /\ g_haspw cfg = false /\ ev_client e = c06_udp_id /\
  ((exists r dn k, d = c06_rfbKeyEvent :: r /\ Z.of_nat (length d) = c06_sz_KeyEvent /\ e = EvKey c06_udp_id dn k) \/
   (exists r b x y, d = c06_rfbPointerEvent :: r /\ Z.of_nat (length d) = c06_sz_PointerEvent /\
                    e = EvPtr c06_udp_id b x y)).
Proof. exact udp_events_gate. Qed.

(* ... and what it does deliver: key symbol / button mask unaltered, the RAW position (no unscaling) *)
Theorem C06_udp_delivers_key : forall cfg dn k,
  g_haspw cfg = false -> byte_ok dn -> 0 <= k < 4294967296 ->
  udp_events cfg true false (enc_key dn k) = [EvKey c06_udp_id dn k].
Proof. exact udp_delivers_key. Qed.

Theorem C06_udp_delivers_ptr : forall cfg b x y,
  g_haspw cfg = false -> byte_ok b -> 0 <= x < 65536 -> 0 <= y < 65536 ->
  udp_events cfg true false (enc_ptr b x y) = [EvPtr c06_udp_id b x y].
Proof. exact udp_delivers_ptr. Qed.

Theorem C06_udp_needs_open_port : forall cfg hold d, udp_events cfg false hold d = [].
Proof. exact udp_needs_open_port. Qed.

(* 93b245e: no unauthenticated input on a screen that requires a password *)
Theorem C06_udp_refused_with_password : forall cfg port hold d,
  g_haspw cfg = true -> udp_events cfg port hold d = [].
Proof. exact udp_refused_with_password. Qed.

Theorem C06_udp_refused_on_hold : forall cfg port d, udp_events cfg port true d = [].
Proof. exact udp_refused_on_hold. Qed.

Example C06_udp_nonvacuous :
  let cfg pw := mkCfg 100 80 pw 0 false false false 0 false 0 in
  let vo := set_state (new_client (cfg false) 3 true) SNormal in       (* a view-only TCP connection is no obstacle *)
  let u pw := mkU (mkSrv (cfg pw) [vo] (Some 3) 0) true false [] [] in
  snd (c06_ustep (u false) (UUdp (enc_ptr 1 65535 7))) = [EvPtr 255 1 65535 7] /\
  snd (c06_ustep (u true) (UUdp (enc_ptr 1 65535 7))) = [] /\
  snd (c06_ustep (u false) (UUdp (enc_key 1 97 ++ [0]))) = [] /\
  snd (c06_ustep (init_world (cfg false)) (UUdp (enc_key 1 97))) = [].
Proof. vm_compute. repeat split; reflexivity. Qed.

(* ---- connections on hold (newClientHook -> RFB_CLIENT_ON_HOLD; sockets.c: rfbCheckFds skips them) ----
   what the peer of a held connection sends does not reach the connection's input ... *)
Theorem C06_on_hold_input_parked : forall ext_cut u id frags, is_held u id = true ->
  u_srv (fst (ustep ext_cut u (UOp (OSend id frags)))) = u_srv u /\
  snd (ustep ext_cut u (UOp (OSend id frags))) = [] /\
  parked_for (u_park (fst (ustep ext_cut u (UOp (OSend id frags))))) id = parked_for (u_park u) id ++ map Frag frags.
Proof. exact held_send_parked. Qed.

(* ... so it stays in the first handshake state, from which no callback is possible ... *)
Theorem C06_on_hold_no_callback : forall ext_cut,
  (forall k p, snd (fst (ext_cut true k p)) = []) ->
  forall s id c e, find_client (s_clients s) id = Some c -> c_state c = SVersion ->
  ~ In e (snd (handle ext_cut s id)).
Proof. exact held_no_callback. Qed.

(* ... and rfbStartOnHoldClient lets everything sent meanwhile arrive, in order *)
Theorem C06_on_hold_release_delivers : forall ext_cut u id c,
  find_client (s_clients (u_srv u)) id = Some c ->
  exists c', find_client (s_clients (u_srv (fst (ustep ext_cut u (URelease id))))) id = Some c' /\
             c' = push_flight (parked_for (u_park u) id) c /\
             is_held (fst (ustep ext_cut u (URelease id))) id = false /\
             parked_for (u_park (fst (ustep ext_cut u (URelease id)))) id = [].
Proof. exact release_delivers. Qed.

Example C06_on_hold_nonvacuous :
  let cfg := mkCfg 100 80 false 0 false false false 0 false 0 in
  let ver := [82; 70; 66; 32; 48; 48; 51; 46; 48; 48; 56; 10] in
  let ops1 := [UConnectHold 0 false; UOp (OSend 0 [ver]); UOp OProcess; UOp OProcess] in
  map c_state (s_clients (u_srv (fst (urun ext_cut_off (init_world cfg) ops1)))) = [SVersion] /\
  map c_state (s_clients (u_srv (fst (urun ext_cut_off (init_world cfg) (ops1 ++ [URelease 0; UOp OProcess]))))) = [SSecType].
Proof. vm_compute. split; reflexivity. Qed.

(* ---- reverse connections (rfbReverseConnection): rfbserver.c:889 / auth.c:311 ---- *)
Theorem C06_reverse_no_sharing_test : forall cfg o c sh b,
  c_rev c = true -> apply_init cfg o c sh b = applied_same (set_state c SNormal) o.
Proof. exact reverse_no_sharing_test. Qed.

Theorem C06_reverse_no_authentication : forall cfg c, c_rev c = true ->
  needs_auth cfg c = false /\ primary_sec cfg c = c06_rfbSecTypeNone.
Proof. exact reverse_no_authentication. Qed.

Theorem C06_forward_sharing_test : forall cfg o c sh b,
  c_rev c = false ->
  apply_init cfg o c sh b =
    (let c1 := set_state c SNormal in
     if g_never cfg || (negb (g_always cfg) && (sh =? 0)) then
       if g_dontdisc cfg then (if b then applied_close c1 o else applied_same c1 o)
       else mkApplied c1 o [] true
     else applied_same c1 o).
Proof. exact forward_sharing_test. Qed.
