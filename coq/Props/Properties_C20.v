(* C20 - Built-in HTTP server only serves files below its directory, survives any request.
   Only property theorems here, each closed by [exact] of a lemma proved in Httpd/*.v.
   All theorems are about [http_process] / [http_process_n] / [parse_params], the functions the
   correspondence run executes (Extract/Extract_C20.v).  They quantify over every file-system oracle
   [fs], every configuration, both variants [v] (unchanged tree / with the proposed fixes) where not
   fixed in the statement, and every list [segs] of read() results (all request bytes, all
   segmentations, EOF, error, EAGAIN at the end).  Non-vacuity examples: Httpd/HttpdExamples.v.

   What is NOT proved here (see notes/C20.md, "Not proved (tested only)"): confinement at the level of
   the file system (symbolic links, realpath: [fs] is an opaque oracle keyed by the path string); that a
   response is delivered completely (every Send of the model succeeds; write failures and the early
   breaks of httpd.c are exercised only by the correspondence run); any bound on the wall-clock time of one
   rfbHttpCheckFds - that clause is false for the code (C20_send_time_unbounded, finding F20b; F20a
   fixed by 394d4bb); the listener/accept/replace path of rfbHttpCheckFds beyond the flag model. *)
From Coq Require Import ZArith List Bool.
From LV Require Import Gen.Consts_C20 Httpd.HttpdDefs Httpd.HttpdProofs Httpd.HttpdGate Httpd.HttpdSafe
  Httpd.HttpdBody Httpd.HttpdSubst Httpd.HttpdSend Httpd.HttpdAudit Httpd.HttpdExamples.
Import ListNotations.
Local Open Scope Z_scope.

(* LEXICAL confinement only: every fopen of one httpProcessInput call is on the string httpDir ++ f, f starts
   with '/' and contains no ".." (the full statement "the file opened lies below httpDir in the file system"
   is not proved: symbolic links below httpDir are followed by fopen, and with httpDir = "" every absolute
   path is "below" it; the correspondence oracle checks realpath on the generated trees) *)
Theorem C20_confined_lexical : forall (fs : str -> option str) v cfg segs p ok,
  In (Open p ok) (fst (http_process fs v cfg segs)) ->
  exists f t, p = httpDir cfg ++ f /\ f = c_slash :: t /\ strstr s_dotdot f = false.
Proof. exact confined_all. Qed.

(* ... in terms of path components: f has no ".." component, hence the lexical walk from httpDir along f
   ("" and "." stay, a name descends) never leaves httpDir: httpDir's components stay at the bottom of the
   normalised path *)
Theorem C20_confined_components : forall (fs : str -> option str) v cfg segs p ok,
  In (Open p ok) (fst (http_process fs v cfg segs)) ->
  exists f, p = httpDir cfg ++ f /\ ~ In s_dotdot (components f) /\
            forall dirstack, exists deeper, normalise dirstack (components f) = Some (deeper ++ dirstack).
Proof.
  intros fs v cfg segs p ok H. destruct (confined_all fs v cfg segs p ok H) as [f [t [Hp [_ Hd]]]].
  exists f. split; [exact Hp|]. pose proof (no_dotdot_component f Hd) as Hc. split; [exact Hc|].
  intros st. apply normalise_stays_below. exact Hc.
Qed.

(* a GET is answered only with the contents of the file that was opened (which C20_confined places
   below httpDir): header ++ content type ++ blank line ++ file bytes, for files not subject to
   the .vnc substitution.  FOR A PEER THAT KEEPS READING: every Send of the model succeeds; when a write fails
   httpd.c stops early (httpd.c:559,566,573) and the peer has then received a prefix of these bytes - that
   case is not modelled (tested only, op sreq) *)
Theorem C20_served_is_file_reading_peer : forall (fs : str -> option str) v cfg segs p,
  In (Open p true) (fst (http_process fs v cfg segs)) -> snd (http_process fs v cfg segs) = Done ->
  exists fname content,
    p = httpDir cfg ++ fname /\ fs p = Some content /\
    (ends_with_vnc fname = false ->
     sent_bytes (fst (http_process fs v cfg segs)) = r_ok cfg ++ content_type fname ++ s_crlf ++ content).
Proof. exact served_is_file. Qed.

(* the same for names ending in ".vnc" ("/" stands for "/index.vnc") whose file fits one fread chunk: the answer
   is header ++ content type ++ blank line ++ subst_text of the file (the function C20_substitution* are
   about), $PARAMS standing for the formatted query of this request (C20_params_alphabet) *)
Theorem C20_served_vnc : forall (fs : str -> option str) v cfg segs p,
  In (Open p true) (fst (http_process fs v cfg segs)) -> snd (http_process fs v cfg segs) = Done ->
  exists s tok content,
    request_of segs = Some s /\ get_target s = Some tok /\
    p = httpDir cfg ++ served_name tok /\ fs p = Some content /\
    (ends_with_vnc (served_name tok) = true -> (length content <= chunk_len)%nat ->
     exists text, subst_text cfg (query_params v tok) content = Some text /\
       sent_bytes (fst (http_process fs v cfg segs)) = r_ok cfg ++ content_type (served_name tok) ++ s_crlf ++ text).
Proof. exact served_vnc. Qed.

(* a call that completes without a successful fopen (refused name, "..", over-long line, fopen failure,
   not a GET, closed early), proxying off: close only, or 404 + close, or failed fopen + 404 + close *)
Theorem C20_get_refused : forall (fs : str -> option str) v cfg segs,
  proxy cfg = false -> snd (http_process fs v cfg segs) = Done ->
  (forall p, ~ In (Open p true) (fst (http_process fs v cfg segs))) ->
  fst (http_process fs v cfg segs) = [Close] \/
  fst (http_process fs v cfg segs) = [Send (r_notfound cfg); Close] \/
  exists p, fs p = None /\ fst (http_process fs v cfg segs) = [Open p false; Send (r_notfound cfg); Close].
Proof. exact get_refused. Qed.

(* a request outside the GET grammar yields only an error response or close (or, on a
   proxy-enabled server, the proxy answer): no file is opened, nothing else is sent *)
Theorem C20_only_get_served : forall (fs : str -> option str) v cfg segs,
  (forall s, request_of segs = Some s -> get_target s = None) ->
  Forall (fun e => is_error_effect cfg e \/ (proxy cfg = true /\ is_proxy_effect cfg e))
         (fst (http_process fs v cfg segs)).
Proof. exact only_get_served. Qed.

(* the GET grammar: first line = "GET" white-space+ token, token starts with '/', no white space *)
Theorem C20_get_grammar : forall s tok,
  get_target s = Some tok ->
  exists ws rest t, first_line s = [71; 69; 84] ++ ws ++ tok ++ rest
    /\ ws <> [] /\ Forall (fun c => isspace c = true) ws
    /\ tok = c_slash :: t /\ Forall (fun c => isspace c = false) tok
    /\ (rest = [] \/ exists c r, rest = c :: r /\ isspace c = true).
Proof. exact get_target_grammar. Qed.

(* the request acted upon is a prefix of the bytes the peer sent, has a blank line, fits the buffer *)
Theorem C20_request_is_prefix : forall segs s,
  request_of segs = Some s ->
  exists b rest, s = cstr b /\ payload segs = b ++ rest /\ Zlength b < C20_BUF_SIZE /\ complete s = true.
Proof. exact request_is_prefix. Qed.

(* proxy-style requests are honoured only when the feature is enabled ... *)
Theorem C20_proxy_gated : forall (fs : str -> option str) v cfg segs,
  proxy cfg = false -> ~ In NewRfbClient (fst (http_process fs v cfg segs)).
Proof. exact proxy_gated. Qed.

(* ... and only for "CONNECT ...:<the RFB port>" and "GET ... /proxied.connection HTTP/1." requests
   (Httpd.HttpdGate.proxy_request: the ':' must exist and atoi behind it equal the port; the text from
   the first '/' on must start with the 27 bytes "/proxied.connection HTTP/1.") *)
Theorem C20_proxy_only_on_request : forall (fs : str -> option str) v cfg segs,
  In NewRfbClient (fst (http_process fs v cfg segs)) ->
  proxy cfg = true /\ exists s, request_of segs = Some s /\ proxy_request cfg s.
Proof. exact proxy_only_on_request. Qed.

(* C20_buffers_safe.  For the tree (since fix commits 057fee4 and 6ca4ce7): no buffer overrun
   (buf, fullFname, params, param_request, param_formatted, str), no read beyond a terminator, no NULL
   dereference, no fuel exhaustion, for every request (any length, any segmentation), including the
   terminator the .vnc path stores behind a full fread chunk (site Overflow 8: fread(buf, 1, BUF_SIZE-1);
   buf[n] = 0 - safe because of the slack C20_FREAD_SLACK regenerated from httpd.c).  display_fits:
   the $DISPLAY text fits str[]; discharged by C20_display_fits below *)
Theorem C20_buffers_safe : forall (fs : str -> option str) cfg segs e,
  display_fits cfg -> snd (http_process fs v_tree cfg segs) <> Crash e.
Proof. exact fixed_never_crashes. Qed.

(* display_fits holds whenever thisHost fits its array char[255] (C20_THISHOST_SIZE, regenerated from rfb.h)
   and the port is a TCP port or -1 *)
Theorem C20_display_fits : forall cfg,
  Zlength (host cfg) < C20_THISHOST_SIZE -> -1 <= port cfg <= 65535 -> display_fits cfg.
Proof. exact display_fits_port. Qed.

(* C20_proxy_safe (and the parameter parser), without any hypothesis: CONNECT / GET / '?' forms can
   never dereference NULL or read beyond a terminator; the only Crash value the tree's mirror can
   produce at all is the $DISPLAY overflow excluded above *)
Theorem C20_proxy_safe : forall (fs : str -> option str) cfg segs,
  snd (http_process fs v_tree cfg segs) <> Crash NullDeref /\
  snd (http_process fs v_tree cfg segs) <> Crash UninitRead.
Proof. exact tree_proxy_params_safe. Qed.

Theorem C20_crash_only_display : forall (fs : str -> option str) cfg segs e,
  snd (http_process fs v_tree cfg segs) = Crash e -> e = Overflow 6.
Proof. exact tree_crash_only_display. Qed.

(* the flow before the fix commits (regression variant [v_prefix]): identical to the tree unless one of
   the two defect sites is reached (then no effect has been produced yet) *)
Theorem C20_prefix_vs_tree : forall (fs : str -> option str) cfg segs,
  http_process fs v_prefix cfg segs = ([], Crash NullDeref) \/
  http_process fs v_prefix cfg segs = ([], Crash UninitRead) \/
  http_process fs v_prefix cfg segs = http_process fs v_tree cfg segs.
Proof. exact tree_vs_fixed. Qed.

(* regression witnesses (corpus/C20/f16_*.script): before 057fee4, proxying enabled, "CONNECT \r\r"
   (no ':') and "GET \r\r" (no '/'): NULL dereference (F16) *)
Theorem C20_proxy_safe_prefix_refuted : exists fs cfg,
  display_fits cfg /\
  snd (http_process fs v_prefix cfg [Data req_connect]) = Crash NullDeref /\
  snd (http_process fs v_prefix cfg [Data req_get_noslash]) = Crash NullDeref.
Proof. exact proxy_safe_refuted. Qed.

(* before 6ca4ce7, "GET /?\r\r": strchr(&param_request[1], '=') started beyond the terminator (F16b) *)
Theorem C20_params_prefix_refuted : exists fs cfg,
  display_fits cfg /\ proxy cfg = false /\
  snd (http_process fs v_prefix cfg [Data req_empty_param]) = Crash UninitRead.
Proof. exact params_refuted. Qed.

(* what $PARAMS is replaced by: PARAM tags whose names and values use only [A-Za-z0-9_.:\[\] ] *)
Theorem C20_params_alphabet : forall v q maxb r,
  parse_params v q maxb = POk r ->
  exists ps, r = format_all ps /\ Forall (fun nv => Forall alpha (fst nv) /\ Forall alpha (snd nv)) ps
             /\ Zlength r + 1 <= Z.max maxb 1.
Proof. exact params_alphabet. Qed.

(* one rfbHttpCheckFds performs at most BUF_SIZE read() calls, whatever the peer does.  This bounds the
   NUMBER of reads, not time: it is a no-stall statement only together with "each read returns at once",
   i.e. the socket being non-blocking, which is a fact about the C code checked by the harness (fcntl
   observable of op lreq), not a theorem *)
Theorem C20_no_stall_reads : forall (fs : str -> option str) v cfg segs,
  Z.of_nat (snd (http_process_n fs v cfg segs)) <= C20_BUF_SIZE.
Proof. exact no_stall. Qed.

(* MODEL-LEVEL (true by construction of [accept_step], which mirrors rfbHttpCheckFds setting the flag on both
   accept paths; the theorem guards the model against an edit that drops the flag on one path, the C code is
   guarded by the lreq correspondence): every socket the model accepts - IPv4 or IPv6 listener - is
   non-blocking, hence a call on it returns (a blocking socket would stall on an incomplete request:
   Httpd.HttpdSafe.blocking_socket_stalls) *)
Theorem C20_accepted_nonblocking_model : forall l4 l6 nb s,
  accept_step l4 l6 nb = Some s -> nonblocking s = true.
Proof. exact accepted_nonblocking. Qed.

Theorem C20_no_stall_accepted_model : forall l4 l6 nb s (fs : str -> option str) v cfg segs,
  accept_step l4 l6 nb = Some s ->
  exists r n, http_call s fs v cfg segs = Returned r n /\ Z.of_nat n <= C20_BUF_SIZE.
Proof. exact no_stall_accepted. Qed.

(* C20_substitution.  A chunk of a .vnc file: text without '$' is copied unchanged; after plain text
   each documented variable ($WIDTH $HEIGHT $APPLETWIDTH $APPLETHEIGHT $PORT $DESKTOP $DISPLAY $USER
   $PARAMS) is replaced by its value and substitution continues behind it; "$$" gives "$"; any other
   '$' is left alone.  ($PARAMS is restricted to the alphabet by C20_params_alphabet.) *)
Theorem C20_substitution_plain : forall cfg params chunk,
  index_of c_dollar (cstr chunk) = None -> subst_text cfg params chunk = Some chunk.
Proof. exact subst_plain. Qed.

Theorem C20_substitution : forall cfg params pre var value post,
  display_fits cfg -> plain pre -> In (var, value) (var_table cfg params) ->
  subst_text cfg params (pre ++ var ++ post) =
  match subst_text cfg params post with
  | Some rest => Some (pre ++ value ++ rest)
  | None => None
  end.
Proof. exact substitution_variable. Qed.

Theorem C20_substitution_other_dollar : forall cfg params pre r,
  plain pre -> no_var cfg params (c_dollar :: r) ->
  subst_text cfg params (pre ++ c_dollar :: r) =
  match subst_text cfg params (if is_prefix v_DD (c_dollar :: r) then skipn 2 (c_dollar :: r) else r) with
  | Some rest => Some (pre ++ s_dollar ++ rest)
  | None => None
  end.
Proof. exact substitution_other_dollar. Qed.

(* The send side.  rfbWriteExact's loop (sockets.c), for every schedule of would-block / ready / time-out /
   error results, every length and every rfbMaxClientWait: it terminates, and the virtual time spent waiting
   is at most one budget - time-out plus one select slice - PER TIME THE PEER MADE THE SOCKET WRITABLE AGAIN,
   plus one.  The peer controls that count.

   The full timing clause - "one rfbWriteExact / one rfbHttpCheckFds returns within a bound that depends on
   rfbMaxClientWait only" -
       forall sched ..., exists r t, wx_loop sched timeout slice len 0 0 = Some (r, t) /\ t <= budget timeout slice
   is NOT proved and is FALSE for the code: C20_send_time_unbounded below (finding F20b).  (For one response made
   of several writes it was false in a second way before 394d4bb: C20_vnc_stall_prefix_refuted, finding F20a.) *)
Theorem C20_send_bounded_per_period : forall sched timeout slice len waited total,
  0 < slice -> 0 <= waited -> (waited < timeout \/ waited = 0) ->
  exists r t, wx_loop sched timeout slice len waited total = Some (r, t) /\
              total <= t /\
              t - total <= Z.of_nat (count_ready sched) * budget timeout slice + budget timeout slice - waited.
Proof. exact send_bounded. Qed.

(* ONE rfbWriteExact call to a peer that never reads again gives up after rfbMaxClientWait + at most one slice
   (one call, not one response and not one rfbHttpCheckFds) *)
Theorem C20_send_gives_up_one_write : forall timeout slice len,
  0 < slice -> 0 < len ->
  exists t, wx_loop [] timeout slice len 0 0 = Some (WGiveUp, t) /\ Z.max timeout 1 <= t + 0 /\ t <= Z.max timeout 0 + slice.
Proof. exact send_gives_up. Qed.

(* refutation of the timing clause (F20b): a peer that takes one byte per select slice is never given up;
   n bytes take n slices whatever the time-out is *)
Theorem C20_send_time_unbounded : forall timeout slice n,
  0 < slice -> slice < timeout ->
  exists sched, wx_loop sched timeout slice (Z.of_nat n) 0 0 = Some (WOk, Z.of_nat n * slice).
Proof. exact send_time_unbounded. Qed.

(* ... and holds for the flow with notes/fix_C20_4.diff (httpWrite: the same loop plus a deadline for the whole response,
   HTTP_RESPONSE_WAIT_FACTOR x rfbMaxClientWait after its start; a writable-again select costs time too): every write of
   a response, started [total] ms into it, ends by the deadline, whatever the peer does ... *)
Theorem C20_send_time_bounded : forall sched timeout slice deadline len waited total,
  0 < slice -> 0 <= total ->
  exists r t, wxd_loop sched timeout slice deadline len waited total = Some (r, t) /\ total <= t <= Z.max total deadline.
Proof. exact send_time_bounded. Qed.

(* ... hence a whole response, however many writes it consists of, holds rfbHttpCheckFds no longer than the deadline *)
Theorem C20_response_time_bounded : forall writes timeout slice deadline total,
  0 < slice -> 0 <= total -> total <= response_time writes timeout slice deadline total <= Z.max total deadline.
Proof. exact response_time_bounded. Qed.

(* one response made of several writes (F20a, fixed by 394d4bb): since that commit httpd.c writes nothing more after
   the first failed rfbWriteExact of a response (httpWrite), so the number of rfbWriteExact calls that wait for a peer
   that has stopped reading is at most 1 for every page and every configuration ... *)
Theorem C20_vnc_stall_bounded : forall checks, (blocked_writes true checks <= 1)%nat.
Proof. exact vnc_stall_fixed. Qed.

(* ... regression witness for the flow before 394d4bb, which ignored the results of the writes of the .vnc substitution
   loop (text before a variable, the variable's value): the page "x$HEIGHTx$WIDTHx" made it wait 5 times
   (corpus/C20/f20a_vnc_dead_client.script) *)
Theorem C20_vnc_stall_prefix_refuted :
  blocked_writes false (subst_checks 100 (cfg_w false) [] [120;36;72;69;73;71;72;84;120;36;87;73;68;84;72;120]) = 5%nat.
Proof. exact vnc_stall_w. Qed.

Theorem C20_send_slice_is_select_timeout : C20_WX_SLICE_MS = C20_WX_TV_SEC * 1000 /\ 0 < C20_WX_SLICE_MS.
Proof. exact slice_is_select_timeout. Qed.
