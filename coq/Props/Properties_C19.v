(* C19 - File-transfer operations touch the filesystem only when permitted.
   Only property theorems here, each closed by [exact] of a lemma proved in Session/FileXfer*.v.
   All theorems are about the functions the correspondence run executes (Extract/Extract_C19.v:
   run_message = handle_message/process, run_chunk = send_chunk, run_gone, translate_pure,
   tight_target).  [w] ranges over all worlds: any callback oracle (stateful, may change its answer),
   any environment answers, any unread client bytes, any transfer state.

   NOT proved here (notes/C19.md, "Not proved (tested only)"): that [registered]/[enabled] of the TightVNC
   gate correspond to rfbRegisterTightVNCFileTransferExtension / the extension list (a bare boolean in the
   model); the default permitFileTransfer = FALSE (a constant checked by the harness only); anything about the
   TightVNC download thread and data transfer; file-system level confinement
   (symbolic links) for either protocol. *)
From Coq Require Import ZArith List Bool.
From LV Require Import Gen.Consts_C19 Session.FileXferDefs Session.FileXferProofs Session.FileXferHoare
  Session.FileXferTrace Session.FileXferLeak Session.FileXferHistory Session.FileXferTight Session.FileXferTightProofs.
Import ListNotations.
Local Open Scope Z_scope.

(* permission false at entry: for every message type / parameters / lengths / payload nothing but
   the refusal happens: no file-system call, nothing sent, rfbCloseClient, state untouched *)
Theorem C19_disabled_no_effect : forall cfg ct cp sz len w,
  perm_now cfg w = false ->
  exists l, new_events w (snd (process cfg ct cp sz len w)) l /\
    forallb (fun e => negb (is_fs_or_tx e)) l = true /\ In CloseClient l /\
    w_env (snd (process cfg ct cp sz len w)) = w_env w /\
    w_st (snd (process cfg ct cp sz len w)) = upd_sock false (w_st w).
Proof. exact disabled_no_effect. Qed.

(* C19_every_entry_guarded: one obligation per FILEXFER_ALLOWED_OR_CLOSE_AND_RETURN of the source *)
Theorem C19_entry_guarded_process : forall cfg ct cp sz len w,
  perm_now cfg w = false ->
  fst (process cfg ct cp sz len w) = false /\ refused cfg w (snd (process cfg ct cp sz len w)).
Proof. exact entry_process. Qed.

Theorem C19_entry_guarded_send_message : forall cfg ct cp sz len buf w,
  perm_now cfg w = false ->
  fst (send_msg cfg ct cp sz len buf w) = false /\ refused cfg w (snd (send_msg cfg ct cp sz len buf w)).
Proof. exact entry_send_msg. Qed.

Theorem C19_entry_guarded_translate : forall cfg path w,
  perm_now cfg w = false ->
  fst (translate cfg path w) = TDenied /\ refused cfg w (snd (translate cfg path w)).
Proof. exact entry_translate. Qed.

Theorem C19_entry_guarded_read_buffer : forall cfg len w,
  perm_now cfg w = false ->
  fst (read_buffer cfg len w) = None /\ refused cfg w (snd (read_buffer cfg len w)).
Proof. exact entry_read_buffer. Qed.

Theorem C19_entry_guarded_dir_content : forall cfg len buf w,
  perm_now cfg w = false ->
  fst (send_dir_content cfg len buf w) = false /\ refused cfg w (snd (send_dir_content cfg len buf w)).
Proof. exact entry_send_dir_content. Qed.

Theorem C19_entry_guarded_chunk : forall cfg w,
  perm_now cfg w = false ->
  fst (send_chunk cfg w) = true /\
  w_env (snd (send_chunk cfg w)) = w_env w /\ w_st (snd (send_chunk cfg w)) = w_st w /\
  new_events w (snd (send_chunk cfg w)) (if permit cfg && has_cb cfg then [Ask (next_answer w)] else []).
Proof. exact entry_send_chunk. Qed.

(* THE DYNAMIC GATE + C19_path_is_translated.  For every message on an open connection, every
   callback oracle (including one that changes its answer at any point), every environment and every
   client payload: in the chronological trace [l] of the message every effect [e] (a file-system or
   zlib call other than close/closedir, or bytes sent)
     - is preceded by no rfbCloseClient of this message (nothing happens after a refusal), and
     - if it is a path-taking call, its path is the translation of a name the client sent in this
       very message; for stat: or  d ++ "/" ++ n  with d such a translation and n a directory entry WITHOUT '/'
       (an oracle answer containing '/' is not a directory entry: the model stops with ModelErr; ".." is a real
       entry that rfbSendDirContent does stat).  Calls that take a descriptor instead of a path (read, write,
       close, closedir, readdir, fstat, zlib) are not constrained by [allowed_op] itself; they act on the model's two
       descriptor variables, which are assigned only by the open/opendir calls bounded here and, over whole
       histories, by C19_history_paths_translated / C19_history_opens_translated below. *)
Theorem C19_effects_guarded_and_paths_translated : forall cfg ct cp sz len w0 l pre e post,
  sock_open (w_st w0) = true ->
  msg_trace cfg ct cp sz len w0 l -> l = pre ++ e :: post -> is_effect e = true ->
  ~ In CloseClient pre /\
  (forall op, e = Fs op -> allowed_op cfg (client_names ct cp (firstn (Z.to_nat len) (w_in w0))) op).
Proof. exact effects_only_before_close_and_on_translated_names. Qed.

(* the same at the level of the dispatcher (what the correspondence run executes): the whole trace of one
   rfbFileTransfer message satisfies the invariant for the names the client sent IN THIS MESSAGE
   ([message_names] computes them from the message bytes: type, parameter, length field, payload) *)
Theorem C19_message_trace_ok : forall cfg w0,
  sock_open (w_st w0) = true ->
  Inv (allowed_op cfg (message_names (w_in w0))) (w_ev w0) (snd (handle_message cfg w0)).
Proof. exact message_trace_ok_names. Qed.

(* the path discipline over whole connection histories: EVERY path-taking call anywhere in the history of a
   connection (messages, chunk-sender calls, moves of the outside world, open or closed socket) is allowed for the
   names of the message that made it ... *)
Theorem C19_history_paths_translated : forall cfg w,
  reachable cfg w -> Forall (path_ok cfg) (w_ev w).
Proof. exact history_paths_translated. Qed.

(* ... so every descriptor the descriptor-taking calls (read, write, fstat, close, readdir, closedir) can act on
   comes from an open / opendir of a translated client name ... *)
Theorem C19_history_opens_translated : forall cfg w p,
  reachable cfg w -> (In (Fs (FOpenR p)) (w_ev w) \/ In (Fs (FOpenW p)) (w_ev w) \/ In (Fs (FOpendir p)) (w_ev w)) ->
  exists nm, translate_pure (home cfg) nm C19_MAX_PATH = Some p.
Proof. exact history_opens_translated. Qed.

(* ... and the chunk sender (rfbSendFileTransferChunk) makes no path-taking call at all, nothing after a refusal *)
Theorem C19_chunk_sender_no_path_call : forall cfg w,
  sock_open (w_st w) = true -> Inv (allowed_op cfg []) (w_ev w) (snd (send_chunk cfg w)).
Proof. exact chunk_sender_no_path_call. Qed.

(* UltraVNC protocol only, one step: rfbClientConnectionGone closes the descriptor recorded in
   cl->fileTransfer.fd (tree since fix commit 4d56b95, [fix_f7 = true]); descriptors lost earlier ([lost_fds])
   are not recovered by it.  This is an unfolding of the teardown step; the statement "a transfer never
   outlives its connection" over whole histories is C19_teardown_never_blocks (needs [repaired]), and for the
   TightVNC extension the lost-descriptor case is part of C19_tight_every_entry_confined (TLostFd; it was false
   before fb3fc0a: C19_tight_upload_fd_lost_prefix_refuted, F19f) *)
Theorem C19_teardown_closes_descriptor_ultravnc : forall cfg envs st,
  fix_f7 cfg = true ->
  let '(_, _, st') := run_gone cfg envs st in fd_open st' = false /\ lost_fds st' = lost_fds st.
Proof. exact teardown_closes_fixed. Qed.

(* the flow before that commit ([fix_f7 = false]) violated it: witness kept as regression test
   (corpus/C19/f7_fd_outlives_connection.script) *)
Theorem C19_teardown_closes_descriptor_prefix_refuted : exists cfg perms envs input,
  let '(_, _, st, _, _, _) := run_message cfg perms true envs input st0 in
  let '(_, _, st') := run_gone cfg [] st in fd_open st' = true.
Proof. exact transfer_outlives_connection. Qed.

(* before fix commit b4cfd8a ([fix_f14 = false]) teardown could block forever on cl->outputMutex after a
   refusal between open and header (F14 reached through file transfer); regression witness *)
Theorem C19_teardown_could_block_prefix : exists cfg perms envs input,
  let '(_, _, st, _, _, _) := run_message cfg perms false envs input st0 in
  fst (fst (run_gone cfg [] st)) = false.
Proof. exact teardown_can_block. Qed.

(* the translated name is exactly the documented translation of the whole client name, and fits *)
Theorem C19_path_translation_exact : forall hm path maxlen u,
  translate_pure hm path maxlen = Some u ->
  translation_of hm path u /\ Zlength path < maxlen /\ Zlength u + 1 <= maxlen.
Proof. exact translate_exact. Qed.

(* over-long names are rejected rather than truncated *)
Theorem C19_long_paths_rejected : forall hm path maxlen,
  Zlength path >= maxlen -> translate_pure hm path maxlen = None.
Proof. exact long_paths_rejected. Qed.

Theorem C19_long_home_paths_rejected : forall h path maxlen,
  (forall rest, path <> 67 :: 58 :: rest) ->
  Zlength path + Zlength h + 1 >= maxlen -> translate_pure (Some h) path maxlen = None.
Proof. exact long_home_paths_rejected. Qed.

(* TightVNC extension: a request touches the file system only if the extension is registered,
   switched on and the client is not view-only *)
Theorem C19_tight_gated : forall fx reg en vo root path t,
  tight_target fx reg en vo root path = Some t -> reg = true /\ en = true /\ vo = false.
Proof. exact tight_gated. Qed.

(* C19_tight_confined.  True for the tree since fix commit 9f956a4 ([fix_f19 = true]): every path a
   list / create-directory request of the extension operates on is root ++ "/" ++ rel where rel never
   climbs above the root *)
Theorem C19_tight_confined : forall reg en vo root path t,
  tight_target true reg en vo root path = Some t ->
  exists rel, t = root ++ 47 :: rel /\ stays_below_root (47 :: rel) = true.
Proof. exact tight_confined_fixed. Qed.

(* the flow before that commit accepted "/../x" (and "x": a sibling of the root) - F19; regression
   witness corpus/C19/f19_tight_dotdot.script *)
Theorem C19_tight_confined_prefix_refuted : exists root path t rel,
  tight_target false true true false root path = Some t /\ t = root ++ rel /\ stays_below_root rel = false.
Proof. exact tight_confined_refuted. Qed.

(* C19_no_descriptor_leak (UltraVNC protocol).  For the repaired control flow (the tree: fix commits 4d56b95,
   b4cfd8a, 8230228), at every point of every history of a connection - any sequence of messages of any type,
   chunk-sender calls, arbitrary callback answers, arbitrary file-system answers, arbitrary client
   bytes - no descriptor has been lost (the only one that can be open is the one recorded in
   cl->fileTransfer.fd) and cl->outputMutex is not held *)
Theorem C19_no_descriptor_leak : forall cfg w,
  repaired cfg -> reachable cfg w -> lost_fds (w_st w) = 0 /\ out_locked (w_st w) = false.
Proof. intros cfg w R H. destruct (no_descriptor_leak cfg w R H) as [A [B _]]. split; assumption. Qed.

(* PARTIAL: no directory stream is open between messages - unless the environment oracle has, at any earlier
   point of the connection, answered a call with the wrong kind of value (ModelErr).  The escape is
   cumulative: one such answer voids the claim for the rest of the history.  The recorded answers the
   correspondence run feeds to the model are of the right kind, so the escape is never taken there.  The full
   statement  dir_open (w_st w) = false  for every oracle is not proved. *)
Theorem C19_no_dirstream_leak_partial : forall cfg w,
  repaired cfg -> reachable cfg w -> dir_open (w_st w) = false \/ In ModelErr (w_ev w).
Proof. intros cfg w R H. destruct (no_descriptor_leak cfg w R H) as [_ [_ C]]. exact C. Qed.

(* C19_teardown_never_blocks: hence rfbClientConnectionGone always gets cl->outputMutex, and after it
   no descriptor of the connection is open *)
Theorem C19_teardown_never_blocks : forall cfg w,
  repaired cfg -> reachable cfg w ->
  fst (connection_gone cfg w) = true /\
  fd_open (w_st (snd (connection_gone cfg w))) = false /\ lost_fds (w_st (snd (connection_gone cfg w))) = 0.
Proof. exact teardown_never_blocks. Qed.

(* TightVNC extension, every message type (list incl. its per-entry stat, download, upload, upload whose
   name is cut short, upload data, upload done, upload failed, download cancel, create directory,
   connection dropped), the gate (registered && switched on && not view-only) evaluated PER MESSAGE:
   with the gate closed no handler runs, the client is dropped (close hook) ... *)
Theorem C19_tight_every_entry_gated : forall v root st m,
  t_alive st = true -> tight_step_g v root st (false, m) = drop st.
Proof. exact tight_gate_closed. Qed.

(* (listing: the model has the per-entry stat - TStatEntry - and the fullpath[PATH_MAX] overflow; the
   correspondence run passes an empty entry list to the model and the oracle ignores the implementation's
   per-entry stats, so the per-entry part is proved about the model but compared only through the overflow
   crash) *)
(* ... and a dropped connection handles nothing any more *)
Theorem C19_tight_dropped_is_silent : forall v root st ms, t_alive st = false -> tight_run v root st ms = [].
Proof. exact tight_dead_is_silent. Qed.

(* C19_tight_every_entry_confined.  True for the tree since fix commits fb3fc0a (an undone upload is finished before
   the next upload's name is read) and 2214ab9 (listing skips entries whose full path does not fit): for every
   sequence of messages of every type with the gate open or closed per message, every path handed to
   stat/opendir/open/creat/utime/unlink/mkdir - incl. the unlink of the close hook and the per-entry stat of a
   listing - is root ++ "/" ++ rel with rel never above the root, no path buffer overflows, no upload descriptor is
   lost.  CAVEAT (audit item 2): for root = "" [op_ok]/[below_root] hold for every absolute path without ".."
   component - the theorem then confines nothing; and before 2a9083d the extension did run with the empty root without being told to (F19e below); now only after an explicit "-ftproot /". *)
Theorem C19_tight_every_entry_confined : forall root ms st,
  name_ok root st -> Forall (op_ok root) (tight_run v_tight_tree root st ms).
Proof. exact tight_every_entry_confined. Qed.

(* regression witnesses for the flow before those commits ([v_tight_pre45]; corpus/C19 scripts f19c, f19d, f19f) *)
Theorem C19_tight_every_entry_confined_prefix_refuted : exists root ms o,
  In o (tight_run v_tight_pre45 root tstate0 ms) /\ ~ op_ok root o.
Proof. exact tight_every_entry_confined_refuted. Qed.      (* F19c: close hook unlinks an unconverted name *)

Theorem C19_tight_listing_overflow_prefix_refuted : exists root ms,
  In TOverflow (tight_run v_tight_pre45 root tstate0 ms).
Proof. exact tight_listing_overflow_refuted. Qed.          (* F19d: fullpath[PATH_MAX] strcpy/strcat *)

Theorem C19_tight_upload_fd_lost_prefix_refuted : exists root ms,
  In TLostFd (tight_run v_tight_pre45 root tstate0 ms).
Proof. exact tight_upload_fd_lost_refuted. Qed.            (* F19f: second upload request loses the first descriptor *)

(* C19_tight_enabled_implies_root.  True for the tree since fix commit 2a9083d (IsFileTransferEnabled() = the switch &&
   a root directory was accepted by SetFtpRoot since the wipe in InitFileTransfer; [t_effective true]): after any command
   line, transfer is on only with a root that is the (slash-stripped) name of an openable directory - the user's home or
   a -ftproot argument; an explicit "-ftproot /" keeps working (its root string is "", chosen by the operator) *)
Theorem C19_tight_enabled_implies_root : forall env args,
  t_effective true (run_args env tinit0 args) = true ->
  exists p, dir_ok env p = true /\ 0 < Zlength p /\ t_root (run_args env tinit0 args) = strip_slash p.
Proof. exact tight_enabled_implies_root_fixed. Qed.

(* regression witness (F19e) for the flow before that commit ([t_effective false]: the switch alone): without a usable
   passwd home and without -ftproot transfer was on with the empty root - the whole file system; the tree has it off *)
Theorem C19_tight_enabled_implies_root_before_fix_refuted : exists env args,
  t_effective false (run_args env tinit0 args) = true /\ t_root (run_args env tinit0 args) = [] /\
  t_effective true (run_args env tinit0 args) = false.
Proof. exact tight_enabled_implies_root_before_fix_refuted. Qed.

(* -disablefiletransfer is final in both flows (fx = true: the tree, fx = false: before 2a9083d) *)
Theorem C19_tight_effective_disable_is_final : forall fx env st rest,
  t_effective fx (run_args env st (s_disable :: rest)) = false.
Proof. exact tight_effective_disable_is_final. Qed.

(* with a usable home directory other than "/" the initial root is that directory *)
Theorem C19_tight_root_nonempty_with_home : forall env c h,
  pw_home env = Some (c :: h) -> dir_ok env (c :: h) = true -> Zlength (c :: h) <= C19_PATH_MAX - 1 ->
  strip_slash (c :: h) <> [] ->
  t_enabled (init_ft env tinit0) = true /\ t_root (init_ft env tinit0) = strip_slash (c :: h).
Proof. exact tight_root_nonempty_with_home. Qed.

(* the extension's command line (rfbTightProcessArg / InitFileTransfer / SetFtpRoot): for every passwd
   entry and file system ([env]), every prior state and every further arguments:
   C19_tight_disable_is_final - after -disablefiletransfer nothing switches transfer on again *)
Theorem C19_tight_disable_is_final : forall env st rest,
  t_enabled (run_args env st (s_disable :: rest)) = false.
Proof. exact tight_disable_is_final. Qed.

(* C19_tight_root_is_last_given - the root is the directory of the last -ftproot option *)
Theorem C19_tight_root_is_last_given : forall env st p rest,
  dir_ok env p = true -> 0 < Zlength p <= C19_PATH_MAX - 1 -> ~ In s_ftproot rest ->
  t_root (run_args env st (s_ftproot :: p :: rest)) = strip_slash p.
Proof. exact tight_root_is_last_given. Qed.
