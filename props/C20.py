"""C20 - Built-in HTTP server only serves files below its directory, survives any request.

Proof: coq/Props/Properties_C20.v - theorems over the byte-level mirror of httpProcessInput /
parseParams / validateString (coq/Httpd/HttpdDefs.v), for every configuration, every file-system
oracle and every sequence of read() results (all request bytes, all segmentations, EOF/error/EAGAIN).
Tie: (a) buffer sizes and limits of httpd.c are re-scraped from the source on every run
(Gen/Consts_C20.v) and the theorems re-proved against them; the response texts are re-scraped here;
(b) correspondence: the extracted model and the real httpd.c (static ASan build, no listener,
socketpair + link-time wraps of read/write/fopen/open/opendir/close) run the same request scripts in
a sandbox directory tree; the exact effect trace of every rfbHttpCheckFds call is compared
(fopen paths and results, bytes sent, new RFB client, close, number of read() calls).
Independently of the mirror model the property predicate itself is evaluated on the
implementation's trace (spec oracle below: confinement by realpath, only-GET-served, body = file
contents / documented substitution, proxy gating, parameter alphabet, no crash, bounded reads).
"""
import os, re, shutil, subprocess, sys, json
import vlib

PROP_FILE = "Props/Properties_C20.v"
WRAPS = ("read", "write", "fopen", "open", "opendir", "close", "select", "gettimeofday")
BUF = 32768


def hx(b):
    return b.hex() if b else "-"


def unhx(s):
    return b"" if s == "-" else bytes.fromhex(s)


# ---------------------------------------------------------------- response texts scraped from httpd.c
def c_unescape(s):
    out = bytearray()
    i = 0
    while i < len(s):
        c = s[i]
        if c == "\\" and i + 1 < len(s):
            n = s[i + 1]
            m = {"n": 10, "r": 13, "t": 9, "\\": 92, '"': 34, "0": 0}.get(n)
            if m is None:
                raise ValueError("escape \\%s" % n)
            out.append(m)
            i += 2
        else:
            out += c.encode("latin-1")
            i += 1
    return bytes(out)


def scrape_strings():
    txt = open(os.path.join(vlib.REPO, "src/libvncserver/httpd.c"), errors="replace").read()
    res = {}
    for name in ("NOT_FOUND_STR", "INVALID_REQUEST_STR", "OK_STR"):
        m = re.search(r"#define\s+%s\s+((?:\"(?:[^\"\\]|\\.)*\"\s*(?:\\\n)?\s*)+)" % name, txt)
        if not m:
            raise vlib.BuildError("translator: #define %s no longer found in httpd.c" % name)
        res[name] = b"".join(c_unescape(p) for p in re.findall(r"\"((?:[^\"\\]|\\.)*)\"", m.group(1)))
    m = re.search(r"PROXY_OK_STR\s*=\s*((?:\"(?:[^\"\\]|\\.)*\"\s*)+);", txt)
    if not m:
        raise vlib.BuildError("translator: PROXY_OK_STR no longer found in httpd.c")
    res["PROXY_OK_STR"] = b"".join(c_unescape(p) for p in re.findall(r"\"((?:[^\"\\]|\\.)*)\"", m.group(1)))
    return res


# ---------------------------------------------------------------- sandbox
INDEX_VNC = (b"<HTML><TITLE>$USER's $DESKTOP desktop ($DISPLAY)</TITLE>\n"
             b"<APPLET CODE=VncViewer.class WIDTH=$APPLETWIDTH HEIGHT=$APPLETHEIGHT>\n"
             b"<param name=PORT value=$PORT> $WIDTH x $HEIGHT\n$PARAMS</APPLET> cost: 5$$ $ $X $WIDTHX $\n")
DOLLAR_VNC = b"$ $$ $$$ $$$$ $W $WIDT $WIDTH$HEIGHT$ $PARAMS$PARAMS $PORTX $DESKTOP$ $USER$USER end$"


def make_sandbox(ctx, rng):
    root = os.path.join(ctx.scratch, "root")
    shutil.rmtree(root, ignore_errors=True)
    www = os.path.join(root, "www")
    os.makedirs(os.path.join(www, "sub", "deep"))
    os.makedirs(os.path.join(root, "www2"))
    files = {
        "index.vnc": INDEX_VNC, "plain.txt": b"plain text $WIDTH not substituted\n", "style.css": b"body { color: red }\n",
        "a.js": b"alert(1)\n", "pic.svg": b"<svg/>\n", "UPPER.VNC": b"upper $WIDTH\n", "mixed.Css": b"x{}", "noext": b"noext\n",
        "dollar.vnc": DOLLAR_VNC, "empty.txt": b"", "empty.vnc": b"", "a..b": b"dotdot in name\n",
        "nul.vnc": b"before $WIDTH\x00after $WIDTH $HEIGHT\x00$PORT", "sub/index.vnc": b"sub index $PORT\n",
        "sub/deep/x.html": b"<p>deep</p>\n", "sub/.vnc": b"dotfile $HEIGHT\n", "x.vnc.txt": b"$WIDTH\n",
        "sp ace.txt": b"space\n", "q?mark.txt": b"qmark\n",
    }
    r2 = __import__("random").Random(12345)
    big = bytearray(r2.getrandbits(8) for _ in range(70000))
    files["big.bin"] = bytes(big)
    bv = bytearray(b"x" * 40000)
    bv[32760:32766] = b"$WIDTH"           # ends exactly before the chunk boundary 32767
    bv[32766:32772] = b"$WIDTH"           # straddles the boundary: not substituted
    bv[100:107] = b"$HEIGHT"
    bv[39990:39995] = b"$PORT"
    files["big.vnc"] = bytes(bv)
    files["exact.vnc"] = b"y" * 32760 + b"$HEIGHT"      # exactly 32767 bytes
    files["exact1.vnc"] = b"y" * 32761 + b"$HEIGHT"     # 32768 bytes
    for rel, data in files.items():
        with open(os.path.join(www, rel), "wb") as f:
            f.write(data)
    with open(os.path.join(root, "secret.txt"), "wb") as f:
        f.write(b"TOP-SECRET outside every httpDir\n")
    with open(os.path.join(root, "www2", "index.vnc"), "wb") as f:
        f.write(b"www2 $WIDTH\n")
    # directories whose absolute length hits the limits of httpProcessInput
    longdirs = {}
    for target in (200, 254, 255, 256, 300, 505, 506, 520):
        need = target - len(root)
        if need < 2:
            continue
        suffix, left, k = "", need, 0
        while left > 0:
            seg = min(left, 181)
            if left - seg == 1:
                seg -= 1
            suffix += "/" + chr(ord("a") + k % 26) * (seg - 1)
            left -= seg
            k += 1
        assert len(root + suffix) == target
        os.makedirs(root + suffix, exist_ok=True)
        for rel, data in (("index.vnc", b"long $WIDTH\n"), ("f.txt", b"f\n")):
            with open(os.path.join(root + suffix, rel), "wb") as f:
                f.write(data)
        longdirs[target] = suffix
    return root, sorted(files.keys()), longdirs


# ---------------------------------------------------------------- generators
_PAT = b"=AAAAAAAAAAAAAA\x00"
POISONS = [b"\x00"] + [_PAT[r:] + _PAT[:r] for r in range(16)]
TERMS = [b"\r\n\r\n", b"\n\n", b"\r\r", b"\n\r\n\r"]


def segment(rng, data, mode=None):
    """split data into read() segments"""
    if mode is None:
        mode = rng.choice(["one", "one", "two", "few", "tail", "bytes"])
    if mode == "one" or len(data) < 2:
        return [data]
    if mode == "two":
        k = rng.randint(1, len(data) - 1)
        return [data[:k], data[k:]]
    if mode == "tail":            # split inside the terminator
        k = max(1, len(data) - rng.randint(1, 3))
        return [data[:k], data[k:]]
    if mode == "bytes" and len(data) <= 64:
        return [data[i:i + 1] for i in range(len(data))]
    n = rng.randint(2, 5)
    cuts = sorted(set(rng.randint(1, len(data) - 1) for _ in range(n)))
    out, p = [], 0
    for c in cuts:
        out.append(data[p:c])
        p = c
    out.append(data[p:])
    return out


def default_cfg(rng, suffix="/www", proxy=0):
    return dict(dir=suffix, proxy=proxy, port=rng.choice([5900, 5900, 5901, 0, -1, 65535, 2147483647]),
                w=rng.choice([640, 0, 1, -5, 2147483647, 1024]), h=rng.choice([480, 0, -33, 2147483615, 768]),
                name=rng.choice([b"desk", b"", b"$WIDTH $PARAMS", b"a b<c>"]),
                host=rng.choice([b"myhost", b"", b"h" * 254, b"host.example.org"]),
                user=rng.choice([b"bob", None, b"", b"$USER"]))


def req_line(rng, path, ver=None):
    ver = ver if ver is not None else rng.choice([b" HTTP/1.0", b" HTTP/1.1", b"", b" HTTP/1.", b" HTTP/2", b"\tHTTP/1.0", b"  x"])
    hdr = rng.choice([b"", b"", b"\r\nHost: localhost:5800", b"\r\nUser-Agent: a/b\r\nAccept: */*", b"\nX: y"])
    return b"GET " + path + ver + hdr + rng.choice(TERMS)


def gen_cases(ctx, root, files, longdirs):
    rng = ctx.rng
    cases = []

    def add(cls, cfg, reqs):
        cases.append(dict(cls=cls, cfg=cfg, reqs=reqs))

    quick = ctx.quick()
    mult = 1 if quick else 12
    paths_ok = [b"/" + f.encode() for f in files] + [b"/", b"/sub/", b"/sub", b"/sub/deep/x.html", b"//index.vnc", b"/./index.vnc",
                                                      b"/sub//deep/./x.html", b"/sub/deep/", b"/sub/index.vnc"]
    # A. valid GETs
    for _ in range(160 * mult):
        cfg = default_cfg(rng)
        reqs = []
        for _ in range(rng.randint(1, 3)):
            p = rng.choice(paths_ok)
            if rng.random() < 0.3:
                p += b"?" + rng.choice([b"a=b", b"password=x+y&port=5901", b"x_1=[::1]:5900", b"a=b&c=d&e=f"])
            reqs.append(segment(rng, req_line(rng, p)))
        add("valid", cfg, reqs)
    # B. traversal
    trav = [b"/../secret.txt", b"/sub/../../secret.txt", b"/..", b"/...", b"/....//secret.txt", b"/.%2e/secret.txt",
            b"/%2e%2e/secret.txt", b"//etc/passwd", b"/etc/passwd", b"/sub/..", b"/a..b", b"..", b"../secret.txt",
            b"/..?x=y", b"/?../secret.txt", b"/index.vnc?a=../..", b"/.?./secret.txt", b"/.\x00./secret.txt", b"/..\x00",
            b"/sub/../index.vnc", b"/./../secret.txt", b"/\\..\\secret.txt", b"/..;/secret.txt", b"/www/../../secret.txt",
            b"/../www2/index.vnc", b"/../www/index.vnc", b"/sub/deep/../../../secret.txt", b"/.. /secret.txt", b"/..\t",
            b"/.", b"/./", b"/sub/.", b"/. ./secret.txt", b"/?..", b"/..?", b"/.?.", b"/?", b"/??", b"/q?mark.txt",
            b"/" + b"../" * 40 + b"etc/passwd", root.encode() + b"/secret.txt", b"/" + root.encode() + b"/secret.txt"]
    for t in trav:
        for _ in range(2 * mult if quick else 6):
            add("traversal", default_cfg(rng, proxy=rng.choice([0, 0, 1])), [segment(rng, req_line(rng, t))])
    for _ in range(120 * mult):
        comps = [rng.choice([b"..", b".", b"sub", b"deep", b"", b"...", b"index.vnc", b"secret.txt", b"www", b"a..b", b".. ", b"%2e%2e", b"?", b"..?", b"\x00"])
                 for _ in range(rng.randint(1, 6))]
        p = rng.choice([b"/", b"/", b"", b"//"]) + b"/".join(comps)
        add("traversal-rand", default_cfg(rng), [segment(rng, req_line(rng, p))])
    # C. parameters
    plist = [b"a=b", b"a=b&", b"&a=b", b"", b"&", b"&&", b"a=b&&c=d", b"a", b"=v", b"a=", b"a==b", b"=", b"==", b"a=b=c", b"x=" + b"y" * 125,
             b"x=" + b"y" * 126, b"x=" + b"y" * 124, b"n" * 126 + b"=v", b"n" * 127, b"n" * 128, b"a=<script>", b"a=b%20c", b"a=b+c+", b"+=+",
             b"a=b&c", b"a=b&c=", b"a.b:c=[d]_e", b"a=\xe9", b"A1=Z9", b"a=b?c=d", b"a=b/c", b"a=\"", b"a=b&" + b"c" * 130 + b"=d",
             b"&".join(b"p%d=%s" % (i, b"v" * 20) for i in range(30))]
    # total size boundary of params[1024]: entries of 25 + len(name) + len(value) bytes
    for n in (16, 17, 18, 19, 20, 21):
        plist.append(b"&".join(b"k=" + b"v" * 30 for _ in range(n)) + b"&q=" + b"w" * (n * 3))
    for extra in range(0, 12):
        plist.append(b"&".join([b"k=" + b"v" * 26] * 19) + b"&z=" + b"u" * (1 + extra * 1))   # 19*52=988 (+26+len) around 1023/1024
    for q in plist:
        for target in (b"/index.vnc", b"/", b"/dollar.vnc", b"/plain.txt"):
            if target != b"/index.vnc" and rng.random() < (0.6 if quick else 0.2):
                continue
            add("params", default_cfg(rng, proxy=rng.choice([0, 0, 1])), [segment(rng, req_line(rng, target + b"?" + q))])
    # every byte value once in a name and once in a value of an otherwise valid parameter list
    for base in range(0, 256, 8):
        reqs = []
        for x in range(base, base + 8):
            reqs.append([b"GET /index.vnc?n" + bytes([x]) + b"m=v&k=w HTTP/1.0\r\n\r\n"])
            reqs.append([b"GET /index.vnc?k=w&n=v" + bytes([x]) + b"w\n\n"])
        add("params-byte", default_cfg(rng), reqs)
    alpha = b"abcXYZ019_.:[]+=&&==%<> \"'/\\?\x00\xff"
    for _ in range(150 * mult):
        q = bytes(rng.choice(alpha) for _ in range(rng.randint(0, 40)))
        add("params-rand", default_cfg(rng), [segment(rng, req_line(rng, b"/index.vnc?" + q))])
    # C'. the same request under 17 different contents of the never-written stack bytes: the answer
    # must not depend on them (reads beyond a terminator / of uninitialised locals become visible)
    pqs = [b"", b"&", b"a=b&", b"&a=b", b"a=b&&c=d", b"a=b", b"a=b&c=d", b"x", b"=", b"a=", b"&&", b"a=b&c", b"a=b+c&", b"%"]
    for _ in range(6 * mult):
        pqs.append(bytes(rng.choice(b"ab=&&+.") for _ in range(rng.randint(0, 8))))
    for q in pqs:
        cfg = default_cfg(rng)
        line = b"GET /index.vnc?" + q + rng.choice([b"\n\n", b" HTTP/1.0\r\n\r\n"])
        cases.append(dict(cls="poison", cfg=cfg, reqs=[[line]] * len(POISONS), poison=POISONS))
    # C''. requests over real loopback connections accepted by rfbHttpCheckFds from the IPv4 and the IPv6 HTTP listener
    lreqs = [b"GET /plain.txt HTTP/1.0\r\n", b"GET /plain.txt HTTP/1.0\r\n\r\n", b"GET / HTTP/1.0\r\n\r\n", b"GET /index.vnc?a=b HTTP/1.1\r\nHost: x\r\n\r\n",
             b"GET /../secret.txt HTTP/1.0\r\n\r\n", b"G", b"POST / HTTP/1.0\r\n\r\n", b"GET /%2e%2e/secret.txt HTTP/1.0\r\n\r\n", b"GET /sub/deep/x.html\n\n",
             b"GET /nonexistent HTTP/1.0\r\nX: y\r\n"]
    for fam in (4, 6):
        for lr in lreqs:
            add("listener", default_cfg(rng), [dict(lreq=fam, data=lr)] + ([segment(rng, req_line(rng, b"/plain.txt"))] if rng.random() < 0.5 else []))
    # C3. the send side: a client requests a file much larger than the socket buffers and stops reading
    for mw in (20000, 0, 1, 4999, 5000, 5001, 12000, 60000):
        for dec in ("t", "r", "tr", "ttr", "trtr", "tttr"):
            if quick and dec not in ("t", "ttr") and rng.random() < 0.5:
                continue
            add("send", default_cfg(rng), [dict(sreq=mw, dec=dec, data=b"GET /big.bin HTTP/1.0\r\n\r\n")])
    add("send", default_cfg(rng), [dict(sreq=20000, dec="t", data=b"GET /nonexistent HTTP/1.0\r\n\r\n")])
    for mw in (20000, 5000):
        add("send", default_cfg(rng), [dict(sreq=mw, dec="t", data=b"GET /big.vnc HTTP/1.0\r\n\r\n")])      # many writes per response
        add("send", default_cfg(rng), [dict(sreq=mw, dec="td*", data=b"GET /big.bin HTTP/1.0\r\n\r\n")])   # slow reader
    # D. not a GET
    others = [b"POST / HTTP/1.0\r\n\r\n", b"HEAD / HTTP/1.0\r\n\r\n", b"get / HTTP/1.0\r\n\r\n", b" GET / HTTP/1.0\r\n\r\n", b"GET\t/ HTTP/1.0\r\n\r\n",
              b"GET/ HTTP/1.0\r\n\r\n", b"GET \r\n\r\n", b"GET  \t \r\n\r\n", b"GET", b"\r\n\r\n", b"\n\n", b"\x00GET / HTTP/1.0\r\n\r\n",
              b"GE\x00T / \r\n\r\n", b"GET /index.vnc\x00 HTTP/1.0\r\n\r\n", b"OPTIONS * HTTP/1.1\r\n\r\n", b"GET index.vnc HTTP/1.0\r\n\r\n",
              b"GET   /index.vnc   HTTP/1.0\r\n\r\n", b"GET \t\x0b\x0c/plain.txt\x0bHTTP\r\n\r\n", b"GET /plain.txt\rX\r\n\r\n", b"GET \r/plain.txt\n\n",
              b"GET ?/index.vnc\n\n", b"GET /\xff\xfe\n\n", b"\xff\xfe\xfd\n\n", b"PUT /x\r\n\r\nGET / HTTP/1.0\r\n\r\n", b"GET /plain.txt HTTP/1.0\r\n\r\nGET /../secret.txt\r\n\r\n",
              b"CONNECT x:5900\r\n\r\n", b"GET /proxied.connection HTTP/1.0\r\n\r\n"]
    for o in others:
        for _ in range(2 * mult if quick else 5):
            add("other", default_cfg(rng), [segment(rng, o)])
    # E. long requests / buffer limits
    for total in (32700, 32765, 32766, 32767, 32768, 32769, 40000, 70000):
        for termpos in ("none", "end", "start"):
            body = b"GET /plain.txt HTTP/1.0\r\nX: " if termpos != "start" else b"GET /plain.txt HTTP/1.0\r\n\r\n"
            fill = bytes(rng.choice(b"abcdefgh ") for _ in range(max(0, total - len(body) - 4)))
            data = body + fill + (b"\r\n\r\n" if termpos == "end" else b"wxyz")
            data = data[:total] if termpos != "end" else data
            for mode in ("one", "two", "few", "tail"):
                if quick and mode != "one" and rng.random() < 0.6:
                    continue
                add("long", default_cfg(rng), [segment(rng, data, mode)])
    for total in (32767, 32768):   # terminator straddling the last byte
        for shift in range(0, 6):
            data = b"GET /plain.txt HTTP/1.0\r\nX: " + b"a" * (total - 28 - 4 - 2 + shift) + b"\r\n\r\n"
            add("long-edge", default_cfg(rng), [segment(rng, data, rng.choice(["one", "tail", "two"]))])
    # GET line length against 511 - strlen(httpDir)
    for target, suffix in sorted(longdirs.items()):
        for _ in range(3 if quick else 10):
            maxf = 511 - target
            for ln in (maxf - 1, maxf, maxf + 1, 12, 20):
                if ln < 10:
                    path = b"/"
                else:
                    path = b"/f.txt?" + b"a" * max(0, ln - 4 - 7)
                    path = path[:max(1, ln - 4)]
                add("dirlen", default_cfg(rng, suffix=suffix, proxy=rng.choice([0, 1])), [segment(rng, b"GET " + path + rng.choice([b"\r\n\r\n", b"\n\n"]))])
            add("dirlen", default_cfg(rng, suffix=suffix), [segment(rng, req_line(rng, rng.choice([b"/", b"/f.txt", b"/index.vnc", b"/../secret.txt"])))])
    for ln in (498, 499, 500, 501, 502, 503, 504, 505, 506, 507, 508, 509, 510, 511, 512, 600, 2000):     # with the short default dir
        path = (b"/plain.txt?" + b"a" * 4000)[:ln - 4]
        add("linelen", default_cfg(rng), [segment(rng, b"GET " + path + b"\n\n")])
        path = (b"/" + b"./" * 2000 + b"plain.txt")
        path = path[len(path) - (ln - 4):]
        add("linelen", default_cfg(rng), [segment(rng, b"GET /" + path[1:] + b"\n\n")])
    add("nodir", default_cfg(rng, suffix="/does-not-exist"), [[b"GET / HTTP/1.0\r\n\r\n"]])
    add("nodir", default_cfg(rng, suffix="/www/index.vnc"), [[b"GET / HTTP/1.0\r\n\r\n"]])
    add("nodir", default_cfg(rng, suffix=""), [[b"GET /www/index.vnc HTTP/1.0\r\n\r\n"], [b"GET /secret.txt HTTP/1.0\r\n\r\n"]])
    add("nodir", default_cfg(rng, suffix="/www/"), [[b"GET /index.vnc HTTP/1.0\r\n\r\n"]])
    add("nodir", default_cfg(rng, suffix="/www/sub/.."), [[b"GET /index.vnc HTTP/1.0\r\n\r\n"]])
    # F. proxy forms, proxy on and off
    pforms = [b"CONNECT foo:5900 HTTP/1.0\r\n\r\n", b"CONNECT foo:5901 HTTP/1.0\r\n\r\n", b"CONNECT foo: 5900\r\n\r\n", b"CONNECT foo:+5900\r\n\r\n",
              b"CONNECT foo:-5900\r\n\r\n", b"CONNECT foo:05900x\r\n\r\n", b"CONNECT foo:4294973196\r\n\r\n", b"CONNECT foo:99999999999999999999\r\n\r\n",
              b"CONNECT foo:-99999999999999999999\r\n\r\n", b"CONNECT foo:9223372036854775807\r\n\r\n", b"CONNECT foo:9223372036854775808\r\n\r\n",
              b"CONNECT foo:\r\n\r\n", b"CONNECT :\r\n\r\n", b"CONNECT foo:5900", b"CONNECT foo\r\n\r\n", b"CONNECT \r\n\r\n", b"CONNECT foo\r\nHost: x:5900\r\n\r\n",
              b"CONNECT foo\r\nHost: x\r\n\r\n", b"CONNECT\r\n\r\n", b"CONNECT  a:\t\n5900\r\n\r\n", b"CONNECT [::1]:5900 HTTP/1.0\r\n\r\n", b"connect foo:5900\r\n\r\n",
              b"CONNECT foo\x00:5900\r\n\r\n", b"CONNECT foo:2147483647\r\n\r\n", b"CONNECT foo:65535\r\n\r\n", b"CONNECT foo:0\r\n\r\n", b"CONNECT foo:-1\r\n\r\n",
              b"GET /proxied.connection HTTP/1.0\r\n\r\n", b"GET /proxied.connection HTTP/1.\r\n\r\n", b"GET /proxied.connection HTTP/2\r\n\r\n",
              b"GET /proxied.connection HTTP/1\r\n\r\n", b"GET x/proxied.connection HTTP/1.1\r\n\r\n", b"GET /x/proxied.connection HTTP/1.1\r\n\r\n",
              b"GET  /proxied.connection HTTP/1.1\r\n\r\n", b"GET /proxied.connection  HTTP/1.1\r\n\r\n", b"GET /proxied.connectio HTTP/1.1\r\n\r\n",
              b"GET foo\r\n\r\n", b"GET \r\n\r\n", b"GET foo\r\nHost: a/b\r\n\r\n", b"GET foo\n\n", b"GET ?\n\n", b"GET index.vnc\r\rxx", b"GET foo\x00/\n\n",
              b"GET\r\n\r\n", b"GET /index.vnc HTTP/1.0\r\n\r\n", b"GET foo HTTP/1.0\r\n\r\n", b"POST /proxied.connection HTTP/1.0\r\n\r\n"]
    for pf in pforms:
        for px in (1, 1, 0):
            for _ in range(1 if quick else 4):
                cfg = default_cfg(rng, proxy=px)
                add("proxy", cfg, [segment(rng, pf)])
    for _ in range(60 * mult):
        cfg = default_cfg(rng, proxy=1)
        num = rng.choice([str(cfg["port"]), str(cfg["port"] + rng.choice([0, 1, 1 << 32, -(1 << 32), 1 << 33])), str(rng.randint(-10 ** 21, 10 ** 21)),
                          "%d" % rng.randint(-70000, 70000)]).encode()
        ws = rng.choice([b"", b" ", b"\t", b"\n", b" \x0b\x0c\r "])
        sg = rng.choice([b"", b"", b"+", b"-", b"+-"])
        add("proxy-atoi", cfg, [segment(rng, b"CONNECT h:" + ws + sg + num + rng.choice([b"", b" HTTP/1.0", b"x", b":1"]) + b"\r\n\r\n")])
    # F'. every fixed-size buffer exactly at and beyond its limit (always part of the quick tier)
    big_host = b"h" * 254                                   # thisHost is char[255]; str[288] takes host:display
    for port in (2147483647, -2147477748, 5900, 0):        # port-5900 = 2147477747 / -2147483648 (11 characters)
        cfgb = dict(default_cfg(rng), host=big_host, port=port, name=b"D" * 5000, user=b"U" * 5000)
        add("bounds", cfgb, [[b"GET /index.vnc HTTP/1.0\r\n\r\n"], [b"GET /dollar.vnc?a=b HTTP/1.0\r\n\r\n"]])
    for ln in (126, 127, 128, 129, 1000):                   # one piece against param_request[128]
        add("bounds", default_cfg(rng), [[b"GET /index.vnc?n=" + b"v" * (ln - 2) + b" HTTP/1.0\r\n\r\n"]])
    for ln in (124, 125, 126):                              # longest accepted piece: formatted text against param_formatted[196]
        add("bounds", default_cfg(rng), [[b"GET /index.vnc?" + b"n" * (ln // 2) + b"=" + b"v" * (ln - ln // 2) + b"\n\n"]])
    for tot in (1022, 1023, 1024, 1025, 1026, 3000):        # sum of formatted pieces against params[1024]
        pieces, cur = [], 0
        while cur + 52 <= tot - 30:
            pieces.append(b"k=" + b"v" * 26)
            cur += 52
        last = tot - cur - 1 - 25 - 1                       # cur + 25 + 1 + len(value) + 1 == tot
        if last >= 1:
            pieces.append(b"z=" + b"u" * last)
        line = b"GET /index.vnc?" + b"&".join(pieces)
        add("bounds", default_cfg(rng, suffix=""), [[line + b"\n\n"]] if len(line) < 480 else [[line[:470] + b"\n\n"]])
    for tot in (BUF - 3, BUF - 2, BUF - 1, BUF, BUF + 1):   # buf[32768]: blank line ending exactly at the limit / one beyond
        data = b"GET /plain.txt HTTP/1.0\r\nX: " + b"a" * (tot - 28 - 4) + b"\r\n\r\n"
        add("bounds", default_cfg(rng), [[data], [data[:1000], data[1000:]]])
    # G. close / error / EAGAIN, restart at 0 on every call
    for _ in range(60 * mult):
        cfg = default_cfg(rng)
        full = req_line(rng, rng.choice(paths_ok))
        k = rng.randint(1, len(full) - 1)
        kind = rng.choice(["eof", "err", "again", "again2", "eof0"])
        if kind == "eof":
            reqs = [[full[:k], "EOF"], segment(rng, full)]
        elif kind == "err":
            reqs = [[full[:k], "ERR"], segment(rng, full)]
        elif kind == "eof0":
            reqs = [["EOF"], [b"", full]]
        elif kind == "again":
            reqs = [[full[:k]], [full[k:]], segment(rng, full)]
        else:
            reqs = [[full[:k]], segment(rng, full)]
        add("close-" + kind, cfg, reqs)
    # H. mutations and garbage
    seeds = [req_line(rng, p) for p in paths_ok[:8]] + [b"GET /index.vnc?a=b&c=d HTTP/1.0\r\n\r\n", b"GET /../secret.txt HTTP/1.0\r\n\r\n",
                                                        b"CONNECT foo:5900 HTTP/1.0\r\n\r\n", b"GET /proxied.connection HTTP/1.0\r\n\r\n"]
    for _ in range(500 * mult):
        s = bytearray(rng.choice(seeds))
        for _ in range(rng.randint(1, 4)):
            op = rng.random()
            pos = rng.randrange(len(s)) if s else 0
            if op < 0.3 and s:
                s[pos] = rng.choice([0, 10, 13, 32, 46, 47, 63, 38, 61, 58, 36, 255, rng.randrange(256)])
            elif op < 0.6:
                s[pos:pos] = bytes([rng.choice([0, 10, 13, 32, 46, 47, 63, 38, 61, 58, 9, rng.randrange(256)])] * rng.choice([1, 1, 2, 3]))
            elif op < 0.8 and s:
                del s[pos:pos + rng.randint(1, 4)]
            else:
                s[pos:pos] = rng.choice([b"..", b"/../", b"?", b"&", b"%2e", b"\r\n\r\n", b":", b"//"])
        add("mutate", default_cfg(rng, proxy=rng.choice([0, 0, 1])), [segment(rng, bytes(s) + rng.choice([b"", b"\r\n\r\n", b"\n\n"]))])
    for _ in range(100 * mult):
        s = bytes(rng.randrange(256) for _ in range(rng.randint(0, 60))) + rng.choice([b"", b"\n\n", b"\r\n\r\n"])
        add("garbage", default_cfg(rng, proxy=rng.choice([0, 1])), [segment(rng, s)])
    return cases


def case_lines(k, case):
    c = case["cfg"]
    L = ["case %d %s" % (k, case["cls"]),
         "cfg %s %d %d %d %d %s %s %s" % (hx(c["dir"].encode()), c["proxy"], c["port"], c["w"], c["h"], hx(c["name"]), hx(c["host"]),
                                          "none" if c["user"] is None else hx(c["user"]))]
    pz = case.get("poison")
    for i, segs in enumerate(case["reqs"]):
        if pz:
            L.append("poison " + hx(pz[i % len(pz)]))
        if isinstance(segs, dict) and "sreq" in segs:
            L.append("sreq %d %s %s" % (segs["sreq"], segs["dec"], hx(segs["data"])))
        elif isinstance(segs, dict):
            L.append("lreq %d %s" % (segs["lreq"], hx(segs["data"])))
        else:
            L.append("req " + " ".join(s if isinstance(s, str) else hx(s) for s in segs))
    return L


def segs_of(r):
    """read() segments of a request entry (a listener request is one segment)"""
    return [r["data"]] if isinstance(r, dict) else r


def parse_case_lines(lines):
    """inverse of case_lines (for corpus / replay)"""
    hdr = lines[0].split()
    p = lines[1].split()
    cfg = dict(dir=unhx(p[1]).decode("latin-1"), proxy=int(p[2]), port=int(p[3]), w=int(p[4]), h=int(p[5]), name=unhx(p[6]), host=unhx(p[7]),
               user=None if p[8] == "none" else unhx(p[8]))
    reqs, pz = [], []
    for l in lines[2:]:
        q = l.split()
        if q and q[0] == "req":
            reqs.append([s if s in ("EOF", "ERR") else unhx(s) for s in q[1:]])
        elif q and q[0] == "lreq":
            reqs.append(dict(lreq=int(q[1]), data=unhx(q[2])))
        elif q and q[0] == "sreq":
            reqs.append(dict(sreq=int(q[1]), dec=q[2], data=unhx(q[3])))
        elif q and q[0] == "poison":
            pz.append(unhx(q[1]))
    c = dict(cls=hdr[2] if len(hdr) > 2 else "corpus", cfg=cfg, reqs=reqs)
    if pz:
        c["poison"] = pz
    return c


# ---------------------------------------------------------------- running
def run_both(ctx, env, cases):
    script = "strs %s %s %s %s\n" % tuple(hx(env["strs"][k]) for k in ("NOT_FOUND_STR", "INVALID_REQUEST_STR", "OK_STR", "PROXY_OK_STR"))
    script += "\n".join("\n".join(case_lines(i, c)) for i, c in enumerate(cases)) + "\n"
    rc1, cout, cerr = vlib.run_driver([env["cexe"], env["root"]], script, timeout=1500)
    rc2, mout, merr = vlib.run_driver([env["mexe"], env["root"]], script, timeout=1500, unlimited_stack=True)
    return (rc1, cout, cerr), (rc2, mout, merr)


def blocks(lines):
    """observation lines of one case -> list of request blocks (list of lines); model: (tree, alt)"""
    out, cur = [], None
    for l in lines:
        if l == "poison":
            continue
        if l in ("req", "lreq", "sreq"):
            cur = []
            out.append(cur)
        elif cur is not None:
            cur.append(l)
    return out


def split_alt(block):
    tree = [l for l in block if not l.startswith("alt ")]
    alt = [l[4:] for l in block if l.startswith("alt ")]
    return tree, (alt if alt else tree)


# ---------------------------------------------------------------- spec oracle (independent of the mirror model)
ALPHA = re.compile(rb"^[A-Za-z0-9_.:\[\] ]*$")


def c_string(b):
    i = b.find(b"\0")
    return b if i < 0 else b[:i]


def delivered(segs):
    """bytes httpd has accumulated when it starts to act in one call: it reads segment after segment and
    stops at the first blank line it sees, at EOF/error, or when its buffer is full"""
    d = b""
    for s in segs:
        if isinstance(s, str):
            break
        d = (d + s)[:BUF - 1]
        if any(t in c_string(d) for t in TERMS) or len(d) >= BUF - 1:
            break
    return d


def spec_substitute(data, cfg, params_re=True):
    """documented substitution -> regex that the body must match (PARAMS as alphabet-restricted PARAM tags)"""
    out = b""
    i = 0
    table = [(b"$WIDTH", str(cfg["w"]).encode()), (b"$HEIGHT", str(cfg["h"]).encode()), (b"$APPLETWIDTH", str(cfg["w"]).encode()),
             (b"$APPLETHEIGHT", str(cfg["h"] + 32).encode()), (b"$PORT", str(cfg["port"]).encode()), (b"$DESKTOP", cfg["name"]),
             (b"$DISPLAY", cfg["host"] + b":" + str(cfg["port"] - 5900).encode()), (b"$USER", cfg["user"] if cfg["user"] is not None else b"?")]
    ptag = rb'(?:<PARAM NAME="[A-Za-z0-9_.:\[\] ]*" VALUE="[A-Za-z0-9_.:\[\] ]+">\n)*'
    while i < len(data):
        if data[i:i + 1] != b"$":
            out += re.escape(data[i:i + 1])
            i += 1
            continue
        for name, val in table:
            if data.startswith(name, i):
                out += re.escape(val)
                i += len(name)
                break
        else:
            if data.startswith(b"$PARAMS", i):
                out += ptag
                i += 7
            elif data.startswith(b"$$", i):
                out += re.escape(b"$")
                i += 2
            else:
                out += re.escape(b"$")
                i += 1
    return re.compile(b"^" + out + b"$", re.S)


def oracle_req(env, cfg, segs, impl):
    """impl = observation lines of one request.  Returns (message, features) or None."""
    root = env["root"]
    httpdir = (root + cfg["dir"]).encode("latin-1")
    D = delivered(segs)
    S = c_string(D)
    is_get = S.startswith(b"GET ")
    has_blank = any(t in S for t in TERMS)
    form = "other"
    if S.startswith(b"CONNECT "):
        form = "CONNECT" if b":" in S else "CONNECT-no-colon"
    elif is_get:
        form = "GET" if b"/" in S else "GET-no-slash"
    feat = dict(proxy=cfg["proxy"], form=form, blank_line=int(has_blank))
    opens = [l.split() for l in impl if l.startswith("open ")]
    sent = b"".join(unhx(l.split()[1]) for l in impl if l.startswith("send "))
    crash = [l for l in impl if l.startswith("crash")]
    if any(l.startswith("accepted ") and "nonblock=0" in l for l in impl):
        feat.update(kind="blocking-socket")
        return ("rfbHttpCheckFds leaves an accepted HTTP connection (%s listener) blocking: an incomplete request stalls the RFB service%s" %
                ("IPv6" if any("v6=1" in l for l in impl if l.startswith("accepted ")) else "IPv4", " (observed: the call did not return)" if crash else ""), feat)
    if crash:
        feat.update(kind="crash", asan=crash[0].split()[1] if len(crash[0].split()) > 1 else "?")
        if "timeout" in crash[0]:
            feat.update(kind="stall")
            return ("rfbHttpCheckFds does not return: an HTTP connection%s blocks the event loop (RFB service stalled)" %
                    (" without terminating blank line" if not has_blank else ""), feat)
        return ("httpd does not survive the request: implementation %s" % crash[0], feat)
    acc = [l for l in impl if l.startswith("accepted ")]
    if acc and "nonblock=0" in acc[0]:
        feat.update(kind="blocking-socket")
        return ("rfbHttpCheckFds leaves an accepted HTTP connection (%s listener) blocking: an incomplete request stalls the RFB service" %
                ("IPv6" if "v6=1" in acc[0] else "IPv4"), feat)
    if not impl or not any(l.startswith("status") for l in impl):
        feat.update(kind="no-observation")
        return ("implementation produced no complete observation", feat)
    for o in opens:
        p = unhx(o[1])
        okp = p.startswith(httpdir) and p[len(httpdir):].startswith(b"/") and b".." not in p[len(httpdir):]
        try:
            real = os.path.realpath(p)
            base = os.path.realpath(httpdir)
            inside = (real == base or real.startswith(base + b"/"))
        except Exception:
            inside = False
        if not (okp and inside):
            feat.update(kind="escape")
            return ("file outside the HTTP directory opened: %r (httpDir %r)" % (p, httpdir), feat)
    if len(httpdir) > 255 and (opens or sent):
        feat.update(kind="dir-too-long-served")
        return ("request served although the directory name exceeds the documented limit", feat)
    newc = any(l == "newclient" for l in impl)
    if newc and not (cfg["proxy"] and (S.startswith(b"CONNECT ") or (is_get and b"/proxied.connection HTTP/1." in S))):
        feat.update(kind="proxy-ungated")
        return ("connection handed to the RFB server although proxying is %s / request is not a proxy request" %
                ("enabled" if cfg["proxy"] else "disabled"), feat)
    if (not has_blank) and (opens or sent or newc):
        feat.update(kind="served-incomplete")
        return ("response produced for a request without terminating blank line", feat)
    proxy_req = cfg["proxy"] and (S.startswith(b"CONNECT ") or newc)
    if not is_get and not proxy_req and (opens or sent):
        feat.update(kind="non-get-served")
        return ("a request that is not a GET was answered with %r..." % sent[:40], feat)
    if sent and not newc:
        if sent.startswith(b"HTTP/1.0 200"):
            okopen = [o for o in opens if o[2] == "1"]
            if len(okopen) != 1 or not is_get:
                feat.update(kind="200-without-file")
                return ("200 response without exactly one successfully opened file", feat)
            p = unhx(okopen[0][1])
            hdr, sep, body = sent.partition(b"\r\n\r\n")
            try:
                data = open(p, "rb").read() if not os.path.isdir(p) else b""
            except OSError:
                data = None
            if data is not None:
                if p.endswith(b".vnc"):
                    if len(data) < BUF - 1 and b"\0" not in data:
                        if not spec_substitute(data, cfg).match(body):
                            feat.update(kind="bad-substitution")
                            return ("body of %r is not the file with the documented substitutions" % p, feat)
                        for m in re.finditer(rb'<PARAM NAME="([^"]*)" VALUE="([^"]*)">', body if b"PARAM" not in data else b""):
                            if not (ALPHA.match(m.group(1)) and ALPHA.match(m.group(2))):
                                feat.update(kind="params-alphabet")
                                return ("substituted parameters leave the permitted alphabet", feat)
                elif body != data:
                    feat.update(kind="bad-body")
                    return ("body of the 200 response differs from the contents of %r" % p, feat)
        elif not sent.startswith(b"HTTP/1.0 4"):
            feat.update(kind="strange-response")
            return ("response is neither 200 nor an error: %r" % sent[:40], feat)
        else:
            if any(o[2] == "1" for o in opens):
                feat.update(kind="error-after-open")
                return ("error response although a file was opened", feat)
    rd = [l for l in impl if l.startswith("reads ")]
    if rd and int(rd[0].split()[1]) > BUF:
        feat.update(kind="stall")
        return ("more than BUF_SIZE read() calls in one rfbHttpCheckFds", feat)
    return None


RESPONSE_FACTOR = 3


def oracle_send(rq, impl):
    """send side: a peer that stops reading must not hold rfbHttpCheckFds longer than rfbMaxClientWait plus one
    select slice of (virtual) time"""
    feat = dict(kind="send-stall", maxwait=rq["sreq"], dec=rq["dec"])
    cr = [l for l in impl if l.startswith("crash")]
    if cr:
        return ("httpd does not survive a client that stops reading: %s" % cr[0], feat)
    sl = [int(l.split()[1]) for l in impl if l.startswith("slice ")]
    vw = [int(l.split()[1]) for l in impl if l.startswith("vwait ")]
    # a client that keeps reading, slowly: the whole response must end within a fixed small multiple of rfbMaxClientWait
    # (RESPONSE_FACTOR: the per-response deadline of notes/fix_C20_4.diff is 3 x rfbMaxClientWait) plus one select slice
    if "slowdrip" in impl or ("d" in rq["dec"] and vw and sl and vw[0] > RESPONSE_FACTOR * max(rq["sreq"], 0) + sl[0]):
        return ("a client that reads 1 KiB per select slice keeps rfbHttpCheckFds (and with it the whole RFB service) busy for %d ms of "
                "virtual time for one 70000-byte file; rfbMaxClientWait is %d ms" % (vw[0] if vw else -1, rq["sreq"]), dict(feat, kind="send-slow-reader"))
    if "stall" in impl:
        return ("rfbHttpCheckFds keeps waiting for a client that does not read: %d ms of virtual time without progress, "
                "rfbMaxClientWait is %d ms (select slice %s ms)" % (vw[0] if vw else -1, rq["sreq"], sl[0] if sl else "?"), feat)
    if vw and sl and rq["dec"].strip("t") == "":
        allowed = max(rq["sreq"], 0) + sl[0]
        if vw[0] > allowed:
            if b".vnc" in rq["data"]:
                feat = dict(feat, kind="send-stall-vnc")
            return ("a client that stops reading held rfbHttpCheckFds for %d ms of virtual time, more than rfbMaxClientWait %d ms + one "
                    "slice of %d ms%s" % (vw[0], rq["sreq"], sl[0], " (the results of several rfbWriteExact calls of a .vnc response are ignored: each waits again)"
                                          if b".vnc" in rq["data"] else ""), feat)
    return None


# ---------------------------------------------------------------- the check
def ensure_model(pid):
    """Extraction always writes /verif/build/ocaml/<pid>/model.ml (path relative to coq/); with a
    scratch VERIF_BUILD vlib.build_ocaml looks elsewhere: copy it there (framework work-around)."""
    src = os.path.join(vlib.VERIF, "build", "ocaml", pid)
    dst = os.path.join(vlib.BUILD, "ocaml", pid)
    if os.path.abspath(src) != os.path.abspath(dst) and os.path.exists(os.path.join(src, "model.ml")):
        os.makedirs(dst, exist_ok=True)
        for f in ("model.ml", "model.mli"):
            shutil.copy(os.path.join(src, f), os.path.join(dst, f))


def setup(ctx):
    cexe = vlib.build_harness("vdrv_http", ["vdrv_http.c"], wraps=WRAPS)
    proof_ok = vlib.prove(ctx, PROP_FILE, ["Extract/Extract_C20.vo"])
    ensure_model("C20")
    mexe = vlib.build_ocaml("C20", "driver_C20.ml", "Extract/Extract_C20.vo")
    root, files, longdirs = make_sandbox(ctx, ctx.rng)
    env = dict(cexe=cexe, mexe=mexe, root=root, strs=scrape_strings(), files=files, longdirs=longdirs)
    return env, proof_ok


def compare_case(env, case, ilines, mlines):
    """-> (mismatch or None, [(req index, message, features)] oracle failures, n_alt)"""
    ib, mb = blocks(ilines), blocks(mlines)
    mism, ofail, nalt = None, [], 0
    if case.get("poison") and len(ib) == len(case["reqs"]) and not any(l.startswith("crash") for b in ib for l in b):
        ref = ib[0]
        for r in range(1, len(ib)):
            if ib[r] != ref:
                m = re.match(rb"GET[ \t\x0b\x0c]+([^ \t\x0b\x0c\r\n]+)", c_string(delivered(segs_of(case["reqs"][r]))))
                tok = m.group(1) if m else b""
                q = tok.split(b"?", 1)[1] if b"?" in tok else b"x"
                d = vlib.first_diff(ib[r], ref)
                ofail.append((r, "the answer to one and the same request depends on never-written stack bytes "
                                 "(read beyond a string terminator / uninitialised local): with stack pattern %d '%s', "
                                 "with pattern 0 '%s'" % (r, d[1][:200], d[2][:200]),
                              dict(kind="uninit-dependence", proxy=case["cfg"]["proxy"],
                                   empty_piece=int(any(p == b"" for p in q.split(b"&"))))))
                break
    for r, rq in enumerate(case["reqs"]):
        segs = segs_of(rq)
        impl = ib[r] if r < len(ib) else []
        tree, alt = split_alt(mb[r]) if r < len(mb) else ([], [])
        if impl == ["unsupported"]:
            continue
        is_send = isinstance(rq, dict) and "sreq" in rq
        e = oracle_send(rq, impl) if is_send else oracle_req(env, case["cfg"], segs, impl)
        if is_send:
            impl = [l for l in impl if not l.startswith(("slice ", "send "))]
            if b".vnc" in rq["data"] or "d" in rq["dec"]:
                # several rfbWriteExact calls per response / a slow reader: the waiting time depends on the kernel's
                # buffer sizes; only open/close/status are compared, the time is judged by the oracle
                impl = [l for l in impl if not l.startswith(("vwait ", "complete "))]
                tree = [l for l in tree if not l.startswith(("vwait ", "complete "))]
                alt = [l for l in alt if not l.startswith(("vwait ", "complete "))]
        if e and isinstance(rq, dict) and "lreq" in rq:
            e[1]["listener"] = rq["lreq"]
        if e:
            ofail.append((r, e[0], e[1]))
        icr = [l for l in impl if l.startswith("crash")]
        if icr:
            if not any(l.startswith("crash") for l in tree + alt) and mism is None:
                mism = (r, "implementation crashed, model (tree variant) does not: " + "|".join(tree)[:200])
            break      # the child is gone: later requests of the case were not run
        if impl == tree:
            continue
        if impl == alt:
            nalt += 1
            continue
        if case.get("poison") and any(l == "crash uninitread" for l in tree + alt):
            continue      # the model says: undefined here; the determinism oracle above judges
        if mism is None:
            d = vlib.first_diff(impl, tree)
            mism = (r, "req %d line %d: impl '%s' / model '%s'" % (r, d[0], d[1][:160], d[2][:160]))
    return mism, ofail, nalt


def load_corpus():
    cdir = os.path.join(vlib.VERIF, "corpus", "C20")
    out = []
    if os.path.isdir(cdir):
        for fn in sorted(os.listdir(cdir)):
            lines = [l for l in open(os.path.join(cdir, fn)).read().split("\n") if l.strip() and not l.startswith("#")]
            if lines and lines[0].startswith("case "):
                c = parse_case_lines(lines)
                c["cls"] = "corpus:" + fn
                out.append(c)
    return out


def evaluate(ctx, env, cases):
    (rc1, cout, cerr), (rc2, mout, merr) = run_both(ctx, env, cases)
    cc, mc = vlib.split_cases(cout), vlib.split_cases(mout)
    res = []
    for idx, c in enumerate(cases):
        il = cc[idx][1] if idx < len(cc) else []
        ml = mc[idx][1] if idx < len(mc) else []
        res.append(compare_case(env, c, il, ml) + (il, ml))
    return res, (rc1, cerr, rc2, merr)


def shrink_case(ctx, env, case, pred):
    """pred(case) -> bool (still failing).  Reduce requests, then segments, then bytes."""
    c = dict(case)
    if c.get("poison") or any(isinstance(r, dict) for r in c["reqs"]):
        return c
    if len(c["reqs"]) > 1:
        for i in range(len(c["reqs"])):
            cand = dict(c, reqs=[c["reqs"][i]])
            if pred(cand):
                c = cand
                break
        else:
            reqs = vlib.ddmin(c["reqs"], lambda sub: pred(dict(c, reqs=sub)), max_tests=30)
            c = dict(c, reqs=reqs)
    if len(c["reqs"]) == 1:
        segs = c["reqs"][0]
        if all(not isinstance(s, str) for s in segs):
            joined = [b"".join(segs)]
            if pred(dict(c, reqs=[joined])):
                segs = joined
                data = list(segs[0])
                if len(data) <= 3000:
                    small = vlib.ddmin(data, lambda sub: pred(dict(c, reqs=[[bytes(sub)]])), max_tests=250)
                    segs = [bytes(small)]
        c = dict(c, reqs=[segs])
    return c


def features_of(case, msg, feat):
    f = dict(feat)
    f["cls"] = case["cls"].split(":")[0]
    return f


def check(ctx):
    env, proof_ok = setup(ctx)
    cases = load_corpus() + gen_cases(ctx, env["root"], env["files"], env["longdirs"])
    res, (rc1, cerr, rc2, merr) = evaluate(ctx, env, cases)
    hist, distinct, nreq, nalt_total = {}, set(), 0, 0
    mismatches, oracle_fail = [], []
    for idx, (c, r) in enumerate(zip(cases, res)):
        mism, ofail, nalt, il, ml = r
        cls = c["cls"].split(":")[0]
        hist[cls] = hist.get(cls, 0) + 1
        nreq += len(c["reqs"])
        nalt_total += nalt
        for b in blocks(il):
            if any(l.startswith(("open", "send", "newclient", "crash")) for l in b):
                distinct.add("|".join(l for l in b if not l.startswith("reads")))
        if mism:
            mismatches.append((idx, mism))
        for o in ofail:
            oracle_fail.append((idx, o))
    if rc2 != 0:
        mismatches.append((0, (0, "model driver exited with %d: %s" % (rc2, merr[-400:]))))
    ctx.coverage.update(
        evaluations=nreq, distinct_nontrivial=len(distinct),
        rule="request scripts (configuration + 1..3 rfbHttpCheckFds calls with scripted read() segments incl. EOF/error/EAGAIN) run "
             "on the extracted Coq model and on httpd.c in a sandbox tree; per call the exact trace (fopen path+result, bytes "
             "sent, new RFB client, close, status, number of reads) is compared. distinct_nontrivial = distinct implementation "
             "traces containing at least one open/send/newclient/crash",
        samples=[case_lines(i, cases[i])[:4] for i in (0, len(cases) // 3, 2 * len(cases) // 3)],
        input_distribution=hist, cases=len(cases), correspondence_mismatches=len(mismatches),
        oracle_failures=len(oracle_fail), matches_only_fixed_variant=nalt_total, exhaustive=False)
    for s in ctx.coverage["samples"]:
        for i, l in enumerate(s):
            if len(l) > 300:
                s[i] = l[:300] + "..."
    ctx.assumptions += ["the peer keeps reading (rfbWriteExact never fails)", "httpDir contains no symbolic links (file-system semantics outside the model)",
                        "int arithmetic on width/height/port does not overflow", "strlen(thisHost) < 255 (field size)"]

    def fails_oracle(case):
        r, _ = evaluate(ctx, env, [case])
        return bool(r[0][1])

    def fails_corr(case):
        r, _ = evaluate(ctx, env, [case])
        return r[0][0] is not None

    seen_feat = set()
    reported = 0
    for idx, (rq, msg, feat) in oracle_fail:
        key = json.dumps(feat, sort_keys=True)
        if key in seen_feat or reported >= 6:
            continue
        seen_feat.add(key)
        small = shrink_case(ctx, env, cases[idx], fails_oracle)
        r, (_, ce, _, _) = evaluate(ctx, env, [small])
        if r[0][1]:
            rq, msg, feat = r[0][1][0]
        else:
            small = cases[idx]
            r, (_, ce, _, _) = evaluate(ctx, env, [small])
        if ctx.violation("HTTP server property violated on the implementation: " + msg, features_of(small, msg, feat),
                         "script:\n" + "\n".join(case_lines(0, small)) + "\n\nimplementation output:\n" + "\n".join(r[0][3]) +
                         "\n" + ce[-2500:] + "\nmodel output:\n" + "\n".join(r[0][4])):
            reported += 1
    if mismatches and not ctx.violations:
        idx, (rq, d) = mismatches[0]
        small = shrink_case(ctx, env, cases[idx], fails_corr)
        r, (_, ce, _, me) = evaluate(ctx, env, [small])
        ctx.violation("correspondence Httpd/HttpdDefs.v <-> httpd.c no longer holds (%d cases differ, first: %s); the spec oracle "
                      "held on every implementation trace explored" % (len(mismatches), d[:200]), {"kind": "correspondence"},
                      "correspondence: Httpd/HttpdDefs.v (http_process_n) vs src/libvncserver/httpd.c (httpProcessInput)\n"
                      "script:\n" + "\n".join(case_lines(0, small)) + "\n\nimplementation output:\n" + "\n".join(r[0][3]) + "\n" + ce[-1500:] +
                      "\nmodel output:\n" + "\n".join(r[0][4]) + "\n" + me[-500:], no_input=True)
    if not proof_ok and not ctx.violations:
        vlib.report_proof_failure(ctx, "Correspondence and the spec oracle were run on %d requests without exhibiting a failing input." % nreq)


def replay(ctx, path):
    txt = open(path).read()
    if "script:\n" not in txt:
        print("replay names a theorem/correspondence, re-running the full check")
        return check(ctx)
    body = txt.split("script:\n", 1)[1].split("\n\n", 1)[0]
    lines = [l for l in body.split("\n") if l.strip()]
    env, proof_ok = setup(ctx)
    case = parse_case_lines(lines)
    r, (_, ce, _, me) = evaluate(ctx, env, [case])
    mism, ofail, nalt, il, ml = r[0]
    print("implementation:\n" + "\n".join(il) + "\n" + ce[-1500:] + "\nmodel:\n" + "\n".join(ml))
    ctx.coverage.update(evaluations=len(case["reqs"]), distinct_nontrivial=0, rule="replay", samples=[lines])
    if ofail:
        rq, msg, feat = ofail[0]
        ctx.violation("HTTP server property violated on the implementation: " + msg, features_of(case, msg, feat),
                      "script:\n" + "\n".join(lines) + "\n\nimplementation output:\n" + "\n".join(il) + "\n" + ce[-2500:])
    elif mism:
        ctx.violation("correspondence differs on the replayed script: " + mism[1], {"kind": "correspondence"},
                      "script:\n" + "\n".join(lines) + "\n\n" + "\n".join(il) + "\n\n" + "\n".join(ml), no_input=True)
