"""C16 - Replacing the framebuffer is safe and every client resynchronises.

Proof: coq/Props/Properties_C16.v - theorems over the same mirror model as C02
(coq/Update/UpdateDefs.v: newfb_state, setdesktop_clients_at, the size short-circuit of send_client).
Tie: the same correspondence driver as C02 (harness/vdrv_update.c) with the operations
`newfb w h bpp seed` (fresh buffer, the old one is freed immediately after rfbNewFramebuffer returns:
ASan is the oracle for a stale read) and `setdesktopsize c w h nscreens hookresult`, clients with
NewFBSize, ExtendedDesktopSize or neither.  Spec oracle on the implementation's output: the size
pseudo-rectangle comes first and alone, with the new size (and reason/status in the extended form),
everything is marked modified, later rectangles stay inside the new size, the peers' pictures converge
to the new content seen through the pixel translation for the new depth, SetDesktopSize is answered
with the hook's status and changes no size.  Implementation-only cases exercise scaled clients (F12).
"""
import os, re, time
import vlib
import C02

PID = "C16"
PROP_FILE = "Props/Properties_C16.v"
EXTRACT = "Extract/Extract_C16.vo"
CORR = "Update/UpdateDefs.v (newfb_state / setdesktop_clients_at / send_client size short-circuit) <-> rfbNewFramebuffer, SetDesktopSize, rfbSendNewFBSize/ExtDesktopSize"


# ---------------------------------------------------------------- generator
def gen_case(rng, k, quick, kind=None):
    r = rng.random()
    kind = kind or ("resize" if r < 0.64 else ("enc" if r < 0.72 else ("richcursor" if r < 0.78 else ("sds" if r < 0.88 else
                    ("scaled" if r < 0.96 else "f12")))))
    if kind == "f12":
        return gen_f12(rng, k)
    if kind == "enc":
        # peers decoding non-Raw encodings with the client library, across replacements of the framebuffer
        return C02.gen_enc_case(rng, k, quick, newfb=True)
    if kind == "scaled":
        return gen_scaled(rng, k, quick)
    W, H = C02.rnd_size(rng, quick)
    bpp = rng.choice([1, 2, 4, 4])
    bits = C02.STD_BITS[bpp]
    ncl = rng.choice([1, 2, 2, 3])
    L = ["case %d %d %d %d %s" % (k, W, H, bpp, kind)]
    if kind != "richcursor":
        L.append("setcursor 0")
    for c in range(ncl):
        L.append("addclient")
    flags = {}

    def setenc(c):
        mode = rng.choice(["none", "newfb", "newfb", "ext", "ext"])
        shape = 1 if kind == "richcursor" else rng.choice([0, 1])
        copy = (1 if rng.random() < 0.7 else 0) if shape else 0      # F18: no CopyRect without shape when cursor is NULL
        flags[c] = mode
        return "setenc %d %d %d %d %d" % (c, copy, shape, 1 if mode == "newfb" else 0, 1 if mode == "ext" else 0)

    for c in range(ncl):
        L.append(setenc(c))
        if rng.random() < 0.8:
            L.append("req %d 0 0 0 %d %d" % (c, W, H))
            L.append("tick %d" % c)
    n = rng.choice([8, 14, 22, 30])
    closed = set()
    for _ in range(n):
        r = rng.random()
        alive = [q for q in range(ncl) if q not in closed]
        # a client is closed (rfbCloseClient) and reaped only later: "closed, not yet reaped" across other operations
        if rng.random() < 0.05 and len(alive) > 1:
            q = rng.choice(alive); closed.add(q); L.append("close %d" % q); continue
        if rng.random() < 0.05:
            L.append("reap"); continue
        if not alive:
            break
        c = rng.choice(alive)
        if r < 0.16:
            # grow / shrink / same size, depth change or not; boundary sizes
            how = rng.random()
            if how < 0.35:
                nw, nh = W, H
            elif how < 0.7:
                nw, nh = C02.rnd_size(rng, quick)
            else:
                nw = max(1, W + rng.choice([-3, -1, 1, 4])); nh = max(1, H + rng.choice([-2, -1, 1, 3]))
            # same format / another depth / the same depth with other bits per sample (other maxima and shifts)
            nb, nbits = C02.rnd_format(rng, bpp, bits)
            if kind == "richcursor" and rng.random() < 0.5:
                nb, nbits = bpp, bits
            L.append(C02.newfb_op(nw, nh, nb, rng.randint(0, 999), nbits))
            W, H, bpp, bits = nw, nh, nb, nbits
        elif r < 0.24:
            ns = rng.choice([0, 1, 1, 2, 3, 16, 255]) if kind == "sds" or rng.random() < 0.3 else 1
            L.append("setdesktopsize %d %d %d %d %d" % (c, rng.choice([W, W + 8, 1, 640]), rng.choice([H, H + 8, 1, 480]),
                                                        ns, rng.choice([0, 0, 1, 1, 2, 3] if rng.random() < 0.9 else [65536, 65537, -1, 70000])))
        elif r < 0.40:
            L.append("draw %d %d %d %d %d" % (C02.rnd_mark_args(rng, W, H) + (rng.randint(0, 999),)))
        elif r < 0.47:
            (rc,), dx, dy = C02.rnd_copy(rng, W, H, 1)
            L.append("docopyrect %d %d %d %d %d %d" % (rc + (dx, dy)))
        elif r < 0.52:
            rects, dx, dy = C02.rnd_copy(rng, W, H, rng.choice([1, 2]))
            L.append("schedcopy %d %d %s" % (dx, dy, C02.fmt_rects(rects)))
        elif r < 0.70:
            # requests, also for areas of an older / larger size
            if rng.random() < 0.25:
                # (incl. x = width / y = height exactly: clipped to an empty request, ignored since d5a464d)
                xs = list(range(0, W + 4)); ys = list(range(0, H + 4))
                L.append("req %d %d %d %d %d %d" % (c, rng.choice([0, 1]), rng.choice(xs), rng.choice(ys),
                                                    rng.randint(1, 45), rng.randint(1, 35)))
            else:
                L.append(C02.rnd_req(rng, W, H, c, False))
        elif r < 0.90:
            L.append("tick %d" % c)
        elif r < 0.92:
            L.append("send %d" % c)
        elif r < 0.96:
            L.append(setenc(c))
        else:
            L.append("knobs %d %d" % (rng.choice([0, 1, 2, 50]), rng.choice([0, 0, 2, 5])))
    if closed and rng.random() < 0.7:
        L.append("reap")
    for c in range(ncl):
        if c in closed:
            continue
        for _ in range(3):
            L.append("req %d 1 0 0 %d %d" % (c, W, H))
            L.append("tick %d" % c)
    return L


def gen_scaled(rng, k, quick):
    """scaled clients inside the model's scope: SetScale / size messages / rfbNewFramebuffer bookkeeping
    (sizes of the scaledScreenNext chain, each client's scaledScreen, what size it is told)"""
    W, H = rng.choice([(8, 6), (12, 8), (16, 12), (9, 7), (20, 10)])
    bpp = rng.choice([1, 2, 4])
    bits = C02.STD_BITS[bpp]
    ncl = rng.choice([1, 2, 3])
    L = ["case %d %d %d %d scaled" % (k, W, H, bpp), "setcursor 0"]
    for c in range(ncl):
        L.append("addclient")
    scaled = {}
    cansend = {}
    for c in range(ncl):
        mode = rng.choice(["newfb", "newfb", "ext", "none"])
        L.append("setenc %d 0 1 %d %d" % (c, 1 if mode == "newfb" else 0, 1 if mode == "ext" else 0))
        cansend[c] = False
        scaled[c] = (mode == "none") and None
        if rng.random() < 0.5:
            L += ["req %d 0 0 0 %d %d" % (c, W, H), "tick %d" % c]
    modes = {}
    for l in L:
        p = l.split()
        if p[0] == "setenc":
            modes[int(p[1])] = "none" if (p[4] == "0" and p[5] == "0") else "resize"
    isscaled = {c: False for c in range(ncl)}
    closed = set()
    for _ in range(rng.choice([6, 10, 16])):
        alive = [q for q in range(ncl) if q not in closed]
        if rng.random() < 0.10 and alive:
            q = rng.choice(alive); closed.add(q); L.append("close %d" % q); continue
        if rng.random() < 0.08:
            L.append("reap"); continue
        if not alive:
            L.append("newfb %d %d %d %d" % (max(1, W + rng.choice([-2, 0, 3])), H, bpp, rng.randint(0, 999)))
            L.append("reap")
            break
        r = rng.random(); c = rng.choice(alive)
        if r < 0.30:
            n = rng.choice([1, 2, 2, 3, 4, max(W, H) + 1])
            L.append("setscale %d %d" % (c, n))
            if not (W // n == 0 or H // n == 0):
                isscaled[c] = not (W // n == W and H // n == H)
                cansend[c] = modes[c] == "resize"
        elif r < 0.50:
            if cansend[c] or not isscaled[c]:
                L.append("send %d" % c)
                cansend[c] = False
        elif r < 0.65:
            nw, nh = rng.choice([(W, H), (W * 2, H * 2), (max(1, W - 3), max(1, H - 2)), C02.rnd_size(rng, quick)])
            nb, nbits = C02.rnd_format(rng, bpp, bits)
            L.append(C02.newfb_op(nw, nh, nb, rng.randint(0, 999), nbits))
            W, H, bpp, bits = nw, nh, nb, nbits
            for q in range(ncl):
                if modes[q] == "resize":
                    cansend[q] = True
        elif r < 0.80:
            L.append("draw %d %d %d %d %d" % (C02.rnd_mark_args(rng, W, H) + (rng.randint(0, 999),)))
        elif r < 0.88:
            (rc,), dx, dy = C02.rnd_copy(rng, W, H, 1)
            L.append("docopyrect %d %d %d %d %d %d" % (rc + (dx, dy)))
        else:
            if not isscaled[c]:
                L.append(C02.rnd_req(rng, W, H, c, False))
                L.append("tick %d" % c)
    if closed:
        L.append("reap")
    return L


def gen_f12(rng, k):
    """implementation-only: a scaled client, a new framebuffer with uniform content v, a full request.
    The scaled picture of a uniform framebuffer is uniform with the same value."""
    W, H = rng.choice([(8, 8), (16, 12), (12, 8)])
    sc = 2
    v0, v1 = rng.randint(1, 200), rng.randint(1, 200)
    while v1 == v0:
        v1 = rng.randint(1, 200)
    nw, nh = rng.choice([(W, H), (W, H), (W * 2, H * 2), (W - 4, H - 4)])
    L = ["case %d %d %d 4 f12" % (k, W, H), "setcursor 0", "addclient", "setenc 0 0 1 1 0",
         "fill %d" % v0, "setscale 0 %d" % sc, "req 0 0 0 0 %d %d" % (W, H), "tick 0",
         "req 0 0 0 0 %d %d" % (W, H), "tick 0",
         "newfbu %d %d 4 %d" % (nw, nh, v1),
         "req 0 0 0 0 %d %d" % (nw, nh), "tick 0", "req 0 0 0 0 %d %d" % (nw, nh), "tick 0",
         "req 0 0 0 0 %d %d" % (nw, nh), "tick 0"]
    return L


def boundary_cases(k0):
    C = []
    def add(name, W, H, bpp, body):
        C.append(["case %d %d %d %d %s" % (k0 + len(C), W, H, bpp, name)] + body)
    pre = lambda enc: ["setcursor 0", "addclient", enc, "req 0 0 0 0 12 8", "tick 0"]
    for enc in ("setenc 0 1 1 1 0", "setenc 0 1 1 0 1", "setenc 0 1 1 0 0"):
        # shrink with a pending request for the old size and a pending copy
        add("resize", 12, 8, 4, pre(enc) + ["docopyrect 4 2 8 5 2 1", "req 0 1 0 0 12 8", "newfb 6 4 4 7", "tick 0",
            "req 0 1 0 0 6 4", "tick 0", "req 0 1 0 0 6 4", "tick 0"])
        # grow + depth change
        add("resize", 12, 8, 4, pre(enc) + ["req 0 1 0 0 12 8", "newfb 20 10 2 9", "tick 0", "req 0 0 0 0 20 10", "tick 0",
            "draw 15 5 20 10 3", "req 0 1 0 0 20 10", "tick 0"])
        add("resize", 12, 8, 1, pre(enc) + ["newfb 12 8 4 9", "req 0 1 0 0 12 8", "tick 0", "req 0 1 0 0 12 8", "tick 0"])
        # same size, same depth, other bits per sample: 32 bpp 8 -> 10 bits -> 5 bits, 16 bpp 5 -> 4 -> 5 bits
        add("resize", 12, 8, 4, pre(enc) + ["draw 0 0 12 8 3", "req 0 1 0 0 12 8", "tick 0", "newfb 12 8 4 9 10", "tick 0",
            "req 0 1 0 0 12 8", "tick 0", "draw 2 2 9 7 4", "req 0 1 0 0 12 8", "tick 0", "newfb 12 8 4 11 5", "tick 0",
            "req 0 1 0 0 12 8", "tick 0", "newfb 12 8 4 12", "tick 0", "req 0 1 0 0 12 8", "tick 0"])
        add("resize", 12, 8, 2, pre(enc) + ["draw 0 0 12 8 3", "req 0 1 0 0 12 8", "tick 0", "newfb 12 8 2 9 4", "tick 0",
            "req 0 1 0 0 12 8", "tick 0", "draw 2 2 9 7 4", "req 0 1 0 0 12 8", "tick 0", "newfb 12 8 2 11", "tick 0",
            "req 0 1 0 0 12 8", "tick 0", "tick 0"])
        # stale request entirely outside the new screen
        add("resize", 12, 8, 4, pre(enc) + ["req 0 1 8 5 4 3", "newfb 6 4 4 1", "tick 0", "tick 0", "req 0 1 0 0 6 4", "tick 0", "tick 0"])
    # SetDesktopSize: refused, accepted (then the application resizes), zero screens, two clients
    add("sds", 12, 8, 4, ["setcursor 0", "addclient", "addclient", "setenc 0 0 1 0 1", "setenc 1 0 1 0 1",
        "req 0 0 0 0 12 8", "tick 0", "req 1 0 0 0 12 8", "tick 1", "tick 0", "tick 1",
        "setdesktopsize 0 20 10 1 1", "req 0 1 0 0 12 8", "tick 0",
        "setdesktopsize 0 20 10 1 0", "req 0 1 0 0 12 8", "tick 0", "newfb 20 10 4 5",
        "req 0 1 0 0 12 8", "req 1 1 0 0 12 8", "tick 0", "tick 1", "req 0 0 0 0 20 10", "tick 0", "tick 0",
        "setdesktopsize 1 5 5 0 3", "setdesktopsize 1 5 5 255 2", "req 1 1 0 0 20 10", "tick 1", "tick 1"])
    # a refused request, then another client's accepted request before the refusal went out; two accepted requests
    add("sds", 12, 8, 4, ["setcursor 0", "addclient", "addclient", "setenc 0 0 1 0 1", "setenc 1 0 1 0 1",
        "req 0 0 0 0 12 8", "tick 0", "req 1 0 0 0 12 8", "tick 1", "tick 0", "tick 1",
        "setdesktopsize 0 20 10 1 3", "setdesktopsize 1 20 10 1 0", "req 0 1 0 0 12 8", "tick 0", "tick 1", "tick 0"])
    add("sds", 12, 8, 4, ["setcursor 0", "addclient", "addclient", "setenc 0 0 1 0 1", "setenc 1 0 1 0 1",
        "req 0 0 0 0 12 8", "tick 0", "req 1 0 0 0 12 8", "tick 1", "tick 0", "tick 1",
        "setdesktopsize 0 20 10 1 0", "setdesktopsize 1 20 10 1 0", "newfb 20 10 4 5", "tick 0", "tick 1", "tick 0", "tick 1"])
    # F12 inside the model: SetScale 2, told 6x4; new framebuffer 24x16: told 6x4 again
    add("scaled", 12, 8, 4, ["setcursor 0", "addclient", "setenc 0 0 1 1 0", "setscale 0 2", "send 0", "newfb 24 16 4 7", "send 0"])
    add("scaled", 12, 8, 4, ["setcursor 0", "addclient", "addclient", "setenc 0 0 1 0 0", "setenc 1 0 1 0 1", "setscale 0 2",
        "setscale 1 2", "send 1", "setscale 1 4", "setscale 0 13", "setscale 1 1", "send 1", "newfb 6 4 2 3", "setscale 0 1"])
    # closed but not reaped across rfbNewFramebuffer: unscaled client, scaled client (F12c), both
    add("resize", 12, 8, 4, ["setcursor 0", "addclient", "addclient", "setenc 0 1 1 1 0", "setenc 1 1 1 0 0",
        "req 0 0 0 0 12 8", "tick 0", "close 0", "draw 1 1 5 5 3", "newfb 6 4 2 7", "docopyrect 2 1 5 3 1 1", "reap",
        "req 1 0 0 0 6 4", "tick 1", "tick 1"])
    add("scaled", 12, 8, 4, ["setcursor 0", "addclient", "addclient", "setenc 0 0 1 1 0", "setenc 1 0 1 1 0", "setscale 0 2",
        "send 0", "close 0", "newfb 24 16 4 7", "draw 0 0 3 3 1", "reap", "send 1"])
    add("scaled", 12, 8, 4, ["setcursor 0", "addclient", "addclient", "setenc 0 0 1 1 0", "setenc 1 0 1 1 0", "setscale 0 2",
        "setscale 1 2", "close 0", "reap", "newfb 24 16 4 7", "send 1", "close 1", "newfb 12 8 4 1", "newfb 6 4 4 2", "reap"])
    C.append(gen_f12(__import__("random").Random(5), k0 + len(C)))
    return C


def gen_cases(ctx):
    rng = ctx.rng
    cases = C02.load_corpus(PID, 0)
    cases += boundary_cases(len(cases))
    n = 1500 if ctx.quick() else 40000
    for _ in range(n):
        cases.append(gen_case(rng, len(cases), ctx.quick()))
    return cases


# ---------------------------------------------------------------- spec oracle
def pic_hash_uniform(w, h, v):
    hh = 0
    for _ in range(w * h):
        hh = (hh * 31 + v + 1) % 1000000007
    return hh


def oracle_f12(case, impl_lines, crash):
    """scaled client: after the new (uniform) framebuffer and full requests the peer's picture must be
    uniform with the new value and have the scaled size of the NEW framebuffer"""
    ops = case[1:]
    if crash or len(impl_lines) < len(ops):
        i = len(impl_lines)
        return ("implementation crashed / stopped at '%s' (scaled client): %s" % (ops[min(i, len(ops) - 1)], (crash or "")[:200]),
                {"what": "crash", "scaled": True, "op": ops[min(i, len(ops) - 1)].split()[0]})
    nfl = [o for o in ops if o.startswith("newfbu")]
    if not nfl or not any(o.startswith("setscale") for o in ops) or not ops[-1].startswith("tick"):
        return None
    nf = nfl[-1].split()
    nw, nh, v1 = int(nf[1]), int(nf[2]), int(nf[4])
    last = impl_lines[-1]
    m = re.search(r"sz=(\d+)x(\d+) .* scaled=(\d+)x(\d+) uniform=(\d) value=(\d+)", last)
    if not m:
        return ("no scaled client observed in '%s'" % last[:120], {"what": "harness"})
    pw, ph, sw, sh, uni, val = map(int, m.groups())
    if (sw, sh) != (nw // 2, nh // 2) or (pw, ph) != (nw // 2, nh // 2):
        return ("scaled client after rfbNewFramebuffer(%dx%d): scaled screen is %dx%d and the client was told %dx%d, "
                "expected %dx%d (scale 1/2 of the new size)" % (nw, nh, sw, sh, pw, ph, nw // 2, nh // 2),
                {"what": "scaled-stale-size", "scaled": True})
    if not uni or val != v1:
        return ("scaled client after rfbNewFramebuffer: picture %s (value %d), expected uniform %d = the new content"
                % ("uniform" if uni else "not uniform", val, v1), {"what": "scaled-stale-content", "scaled": True})
    return None


def oracle_case(case, impl_lines, crash):
    kind = C02.case_kind(case)
    if kind == "f12":
        return oracle_f12(case, impl_lines, crash)
    e = C02.oracle_case(case, impl_lines, crash)
    if e:
        return e
    ops = case[1:]
    W, H = int(case[0].split()[2]), int(case[0].split()[3])
    prev = None
    factor = {}        # client -> scale factor it asked for last
    owed = {}          # client -> status the application returned for its own, not yet answered SetDesktopSize
    for i, opline in enumerate(ops):
        if i >= len(impl_lines):
            break
        p = opline.split()
        if p[0] == "setscale" and int(p[2]) > 0 and W // int(p[2]) > 0 and H // int(p[2]) > 0:
            factor[int(p[1])] = {int(p[2])}      # (a factor that would give a zero dimension is refused)
        if p[0] == "newfb" and prev is not None:
            # the factors a scaled client can have had, judging from the scaled size it was given: the library
            # does not store the factor, any of them is a legitimate choice for the new scaled screen
            oW, oH = (prev["S"][0], prev["S"][1]) if "S" in prev else (W, H)
            for ci, pc in enumerate(prev["clients"]):
                if pc.get("sc") is not None:
                    sw, sh = pc["sc"]
                    fs = {f for f in range(1, max(oW, oH) + 2) if oW // f == sw and oH // f == sh}
                    factor[ci] = fs or factor.get(ci, {1})
        o = C02.parse_obs(impl_lines[i])
        if o["err"] is not None:
            break
        oldS = (W, H)
        if "S" in o:
            W, H = o["S"][0], o["S"][1]
        # a. no size change unless the application installs a framebuffer
        if p[0] != "newfb" and (W, H) != oldS:
            return ("framebuffer size changed by '%s'" % opline, {"what": "size-changed", "op": p[0]})
        if p[0] == "newfb":
            nw, nh = int(p[1]), int(p[2])
            if (W, H) != (nw, nh):
                return ("size after '%s' is %dx%d" % (opline, W, H), {"what": "newfb-size", "op": p[0]})
            for ci, c in enumerate(o["clients"]):
                if c["closed"]:
                    continue
                # b. everything modified, no pending copy, size message scheduled
                if c["M"] != [(0, 0, nw, nh)] or c["C"]:
                    return ("after '%s' client %d has M=%s C=%s, expected the whole new screen / nothing"
                            % (opline, ci, c["M"], c["C"]), {"what": "newfb-regions", "op": p[0]})
                if c["f"][4] == "1" and c["f"][6] != "1":
                    return ("after '%s' client %d supports NewFBSize but no size message is pending" % (opline, ci),
                            {"what": "newfb-notpending", "op": p[0]})
        # f. (history level, from the script and the wire only) a client's own SetDesktopSize is answered: the
        #    next ExtendedDesktopSize rectangle it receives says "requested by this client" with the status the
        #    application returned - whatever other clients did in between
        for ci, msgs in o["wire"].items():
            for (n, rects) in msgs:
                for (k, v, _) in rects:
                    if k == "E" and ci in owed:
                        want = owed.pop(ci)
                        if (v[0], v[1]) != (1, want & 0xffff):     # the status travels as a 16-bit field
                            return ("client %d asked for a desktop size change and the application answered %d; the next "
                                    "ExtendedDesktopSize message it receives (after '%s') carries reason %d / status %d "
                                    "instead of reason 1 (this client) / status %d: its request is never answered"
                                    % (ci, want, opline, v[0], v[1], want), {"what": "sds-answer-lost", "op": p[0]})
        if p[0] == "setdesktopsize" and int(p[4]) != 0 and int(p[1]) < len(o["clients"]):
            owed[int(p[1])] = int(p[5])
        if p[0] == "close":
            owed.pop(int(p[1]), None)
        # c. the size pseudo-rectangle comes first, alone, with the current size (+ reason/status)
        for ci, msgs in o["wire"].items():
            if prev is None or ci >= len(prev["clients"]):
                continue
            pc = prev["clients"][ci]
            must = pc["f"][4] == "1" and pc["f"][6] == "1"
            for (n, rects) in msgs:
                kinds = [k for (k, _, _) in rects]
                if must:
                    ok = len(rects) == 1 and n == 1 and kinds[0] in ("N", "E")
                    EW, EH = W, H
                    if pc.get("sc") is not None and ok:
                        # a scaled client must be told the size of the CURRENT framebuffer divided by its factor
                        fs = factor.get(ci, {1})
                        cands = [(W // f, H // f) if (W // f > 0 and H // f > 0) else (W, H) for f in sorted(fs)]
                        got = tuple(rects[0][1][-2:])
                        if got not in cands:
                            return ("scaled client %d (factor %s) is told %dx%d after '%s' although the framebuffer is "
                                    "%dx%d (expected %s): the scaled screen still belongs to the old framebuffer"
                                    % (ci, sorted(fs), got[0], got[1], opline, W, H, cands),
                                    {"what": "scaled-stale-size", "scaled": True})
                        EW, EH = got
                    if ok and kinds[0] == "N":
                        ok = rects[0][1] == [EW, EH] and pc["f"][5] == "0"
                    if ok and kinds[0] == "E":
                        # (reason and status are 16-bit fields on the wire)
                        ok = rects[0][1] == [pc["q"][0] & 0xffff, pc["q"][1] & 0xffff, EW, EH] and pc["f"][5] == "1"
                    if not ok:
                        return ("client %d (resize support, size message pending) received %s after '%s', expected exactly "
                                "one size pseudo-rectangle %dx%d%s" % (ci, [(k, v) for (k, v, _) in rects], opline, W, H,
                                " with reason/status %s" % (pc["q"],) if pc["f"][5] == "1" else ""),
                                {"what": "size-first", "op": p[0]})
                    if ci < len(o["clients"]) and o["clients"][ci]["sz"] != (EW, EH):
                        return ("peer %d has size %s after the size message for %dx%d" % (ci, o["clients"][ci]["sz"], W, H),
                                {"what": "peer-size", "op": p[0]})
                    must = False
                elif "N" in kinds or "E" in kinds:
                    return ("unsolicited size pseudo-rectangle to client %d after '%s'" % (ci, opline),
                            {"what": "size-unsolicited", "op": p[0]})
                # d. rectangles inside the current size
                for (k, v, _) in rects:
                    if k in ("R", "C") and not (v[0] + v[2] <= W and v[1] + v[3] <= H):
                        return ("rectangle %s outside the %dx%d framebuffer after '%s'" % (v, W, H, opline),
                                {"what": "outside", "op": p[0]})
                    if k == "C" and not (v[4] + v[2] <= W and v[5] + v[3] <= H):
                        return ("CopyRect source %s outside the %dx%d framebuffer after '%s'" % (v, W, H, opline),
                                {"what": "outside", "op": p[0]})
        # e. SetDesktopSize: answered with the hook's status, others learn who asked
        if p[0] == "setdesktopsize" and int(p[4]) != 0 and prev is not None:
            ci, hr = int(p[1]), int(p[5])
            if ci < len(o["clients"]):
                c = o["clients"][ci]
                if c["q"] != (1, hr):
                    return ("after '%s' client %d has reason/status %s, expected (1,%d)" % (opline, ci, c["q"], hr),
                            {"what": "sds-status", "op": p[0]})
                if hr != 0 and c["f"][6] != "1":
                    return ("refused SetDesktopSize is not answered (no size message pending) after '%s'" % opline,
                            {"what": "sds-noreply", "op": p[0]})
                if hr == 0:
                    for cj, c2 in enumerate(o["clients"]):
                        if cj != ci and not c2["closed"] and c2["q"][0] != 2 and cj not in owed:
                            return ("after the accepted '%s' client %d does not know another client asked (reason %d)"
                                    % (opline, cj, c2["q"][0]), {"what": "sds-other", "op": p[0]})
        prev = o
    return None


# ---------------------------------------------------------------- the check
def build(ctx):
    cexe = vlib.build_harness("vdrv_update", ["vdrv_update.c"], wraps=C02.HARNESS_WRAPS, client=True)
    proof_ok = vlib.prove(ctx, PROP_FILE, [EXTRACT])
    mexe = vlib.build_ocaml(PID, "driver_C16.ml", EXTRACT)
    return cexe, mexe, proof_ok


def split_model_cases(cases):
    """f12 cases are implementation-only: the model side gets an empty body (nothing to compare)"""
    return cases


_orig_diff = C02.diff_case


def diff_case(case, il, ml):
    if C02.case_kind(case) == "f12":
        return None
    return _orig_diff(case, il, ml)


LEAK_ENV = {"ASAN_OPTIONS": "detect_leaks=1:abort_on_error=0:allocator_may_return_null=1"}


def leak_check(cexe, case):
    """one case in its own process with LeakSanitizer on: memory the library allocated while serving the case
    and never released (the harness tears everything down: rfbScreenCleanup, every client gone).
    -> None or (message, features)"""
    rc, out, err = vlib.run_driver(cexe, "\n".join(case) + "\n", timeout=120, env=LEAK_ENV)
    if "LeakSanitizer: detected memory leaks" not in err:
        return None
    for blk in err.split("\n\n"):
        m = re.search(r"(Direct leak of \d+ byte\(s\) in \d+ object\(s\))", blk)
        if not m:
            continue
        fr = re.findall(r"#\d+ 0x[0-9a-f]+ in (\S+) (\S+)", blk)
        libfr = [(f, w) for f, w in fr if "/src/libvncserver/" in w or "/src/common/" in w]
        if not libfr:
            continue
        via = next((f for f, w in libfr[1:] if f != libfr[0][0]), "?")
        return ("memory leak: %s allocated by %s (%s), called from %s, is never released although every client "
                "is gone and the screen is cleaned up" % (m.group(1), libfr[0][0], libfr[0][1].split("/")[-1], via),
                {"what": "leak", "where": libfr[0][0], "via": via})
    return None


def leak_pass(ctx, cexe, cases):
    from concurrent.futures import ThreadPoolExecutor
    sel = cases[:40] + [c for c in cases[40:] if C02.case_kind(c) in ("sds", "resize", "scaled", "richcursor")][:80]
    with ThreadPoolExecutor(max_workers=8) as ex:
        res = list(ex.map(lambda c: leak_check(cexe, c), sel))
    seen = set()
    for c, r in zip(sel, res):
        if r is None or (r[1]["where"], r[1]["via"]) in seen:
            continue
        seen.add((r[1]["where"], r[1]["via"]))
        want = (r[1]["where"], r[1]["via"])
        def pred(lines):
            q = leak_check(cexe, lines)
            return q is not None and (q[1]["where"], q[1]["via"]) == want
        small = C02.shrink_case(c, pred, max_tests=60)
        q = leak_check(cexe, small) or r
        ctx.violation(q[0], q[1], "script:\n" + "\n".join(small) + "\n\n(run with ASAN_OPTIONS=detect_leaks=1)\n")
    ctx.coverage["leak_checked_cases"] = len(sel)


def check(ctx):
    cexe, mexe, proof_ok = build(ctx)
    cases = gen_cases(ctx)
    C02.diff_case = diff_case
    try:
        C02.evaluate(ctx, cases, cexe, mexe, proof_ok, PID, oracle_case, "", CORR)
    finally:
        C02.diff_case = _orig_diff
    leak_pass(ctx, cexe, cases)
    ctx.assumptions += [
        "the application installs a framebuffer of the announced size and frees the old one only after rfbNewFramebuffer returns",
        "a client without NewFBSize support learns the new size out of band (its picture is resized by the harness)",
        "'never touches the old buffer' is established for the modelled readers (every read goes through the current "
        "framebuffer of the model) and sampled under ASan for the rest of the library",
        "scaled clients are exercised on the implementation only (F12)"]


def replay(ctx, path):
    C02.diff_case = diff_case
    try:
        saved = (C02.build, )
        C02.build = build
        if C02.replay_common(ctx, path, oracle_case, CORR) is None:
            return check(ctx)
        if not ctx.violations:
            txt = open(path).read()
            lines = [l for l in txt.split("script:\n", 1)[1].split("\n\n", 1)[0].split("\n") if l.strip()]
            e = leak_check(build(ctx)[0], lines)
            if e:
                ctx.violation(e[0], e[1], "script:\n" + "\n".join(lines) + "\n")
    finally:
        C02.build = saved[0]
        C02.diff_case = _orig_diff
