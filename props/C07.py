"""C07 - LibVNCClient reconstructs exactly what a conforming server encoded.

Proof: coq/Props/Properties_C07.v - round-trip theorems  decode(refenc choice pixels) = pixels  for the
mirror model of the client decoders (coq/Dec/Cli*.v) against reference encoders parameterised by an
arbitrary choice oracle (coq/Dec/Ref*.v), CopyRect = memmove, read buffering independent of the
segmentation, well-formed client requests.
Tie: constants regenerated from /repo (tools/consts.d/C07.json); correspondence: the extracted
reference encoders produce token streams (compressed blocks are rendered with REAL zlib / minilzo by
the harness), the REAL client (harness/vdrv_client.c, read()/write() interposed) and the extracted
mirror decode them; callback log, bytes written by the client and the framebuffer after every
FinishedFrameBufferUpdate are compared exactly.  Independently of the mirror, the property predicate
itself (framebuffer == what the generator asked the encoder to encode, painted by this file) is
evaluated on the implementation's output.
"""
import os, random, sys
import vlib

PROP_FILE = "Props/Properties_C07.v"
PID = "C07"
ALL_ENCS = "raw copyrect rre corre hextile zlib zrle trle tight ultra"

# client pixel formats: name -> (bpp depth be rmax gmax bmax rs gs bs)
FORMATS = {
    "rgb888":   (32, 24, 0, 255, 255, 255, 16, 8, 0),
    "bgr888":   (32, 24, 0, 255, 255, 255, 0, 8, 16),
    "rgb888up": (32, 24, 0, 255, 255, 255, 24, 16, 8),
    "rgb101010": (32, 30, 0, 1023, 1023, 1023, 20, 10, 0),
    "rgb565":   (16, 16, 0, 31, 63, 31, 11, 5, 0),
    "rgb555":   (16, 15, 0, 31, 31, 31, 10, 5, 0),
    "bgr233":   (8, 8, 0, 7, 7, 3, 0, 3, 6),
    "rgb888d32": (32, 32, 0, 255, 255, 255, 16, 8, 0),      # depth 32 with 24 significant bits: RFC 6143 wants a 4-byte CPIXEL
}
# encodings the model currently covers for each stage of the development
MODEL_ENCS = ["raw", "rre", "corre", "hextile", "copyrect", "zlib", "zrle", "trle", "tight", "ultra"]


def fill_px(seed, i, bpp):
    return (((seed + i) * 2654435761) & 0xffffffff) >> (32 - bpp)


class Canvas:
    """the generator's own idea of the framebuffer (the spec-level oracle)"""
    def __init__(self, w, h, bpp):
        self.w, self.h, self.bpp = w, h, bpp
        self.px = [0] * (w * h)

    def fill(self, seed):
        self.px = [fill_px(seed, i, self.bpp) for i in range(self.w * self.h)]

    def paint(self, x, y, w, h, pix):
        for j in range(h):
            self.px[(y + j) * self.w + x:(y + j) * self.w + x + w] = pix[j * w:(j + 1) * w]

    def copy(self, sx, sy, w, h, dx, dy):
        snap = [self.px[(sy + j) * self.w + sx:(sy + j) * self.w + sx + w] for j in range(h)]
        for j in range(h):
            self.px[(dy + j) * self.w + dx:(dy + j) * self.w + dx + w] = snap[j]

    def hexdump(self, mask):
        d = self.bpp // 4
        return "".join("%0*x" % (d, v & mask) for v in self.px)


# ---------------------------------------------------------------- generators
def gen_pixels(rng, w, h, bpp, kind):
    n = w * h
    mask = (1 << bpp) - 1
    if kind == "flat":
        c = rng.getrandbits(bpp)
        return [c] * n
    if kind in ("two", "few", "many"):
        k = {"two": 2, "few": rng.choice([3, 4, 5, 16, 17]), "many": rng.choice([127, 128, 129, 200])}[kind]
        cols = [rng.getrandbits(bpp) for _ in range(k)]
        if rng.random() < 0.5:      # runs
            out = []
            while len(out) < n:
                out += [rng.choice(cols)] * rng.choice([1, 2, 3, 7, 16, 17, 64, 255, 256, 257, 300])
            return out[:n]
        return [rng.choice(cols) for _ in range(n)]
    if kind == "blocks":
        cols = [rng.getrandbits(bpp) for _ in range(4)]
        bw, bh = rng.choice([2, 3, 5, 8, 16]), rng.choice([1, 2, 4, 8, 16])
        return [cols[((i % w) // bw + (i // w) // bh) % 4] for i in range(n)]
    if kind == "gradient":
        base = rng.getrandbits(bpp)
        return [(base + (i % w) * 3 + (i // w) * 5) & mask for i in range(n)]
    return [rng.getrandbits(bpp) for _ in range(n)]      # noise


PIX_KINDS = ["flat", "two", "few", "many", "blocks", "gradient", "noise"]
DIMS = [1, 2, 3, 7, 8, 15, 16, 17, 31, 32, 33, 40, 47, 48, 49]
BIG_DIMS = [63, 64, 65, 70, 80]


def gen_rect_geom(rng, W, H, maxw=None, maxh=None):
    mode = rng.random()
    if mode < 0.15:
        x, y, w, h = 0, 0, W, H
    elif mode < 0.3:
        w, h = rng.randint(1, W), rng.randint(1, H)
        x, y = W - w, H - h           # touching the bottom-right corner
    else:
        w = min(W, rng.choice([1, 2, 15, 16, 17, 32, 33, rng.randint(1, W)]))
        h = min(H, rng.choice([1, 2, 15, 16, 17, 32, 33, rng.randint(1, H)]))
        x, y = rng.randint(0, W - w), rng.randint(0, H - h)
    if maxw and w > maxw:
        w = maxw
    if maxh and h > maxh:
        h = maxh
    return x, y, w, h


def gen_seg(rng):
    k = rng.random()
    if k < 0.2:
        return []
    if k < 0.35:
        return [1]
    if k < 0.5:
        return [rng.choice([2, 3, 5, 7, 11, 13])]
    return [rng.choice([0, 1, 2, 3, 5, 8, 13, 64, 100, 1000, 4096, 8191, 8192, 8193, 100000]) for _ in range(rng.randint(2, 10))]


def be16(v):
    return "%04x" % (v & 0xffff)


def be32(v):
    return "%08x" % (v & 0xffffffff)


def rect_hdr(x, y, w, h, enc):
    return be16(x) + be16(y) + be16(w) + be16(h) + be32(enc)


def le_hex(v, nbytes):
    return "".join("%02x" % ((v >> (8 * i)) & 255) for i in range(nbytes))


def rgb24_to_px(fmt, r, g, b):
    """RFB cursor colour -> client pixel (the natural scaling into the client's colour fields)"""
    bpp, _, _, rmax, gmax, bmax, rs, gs, bs = fmt
    v = (((r * rmax + 127) // 255) << rs) | (((g * gmax + 127) // 255) << gs) | (((b * bmax + 127) // 255) << bs)
    return v & ((1 << bpp) - 1)


def unpack_bits(data, w, h):
    bpr = (w + 7) // 8
    return [(data[y * bpr + x // 8] >> (7 - x % 8)) & 1 for y in range(h) for x in range(w)]


def gen_case(ctx, k, encs, fmtname=None, big=False):
    rng = ctx.rng
    fmtname = fmtname or rng.choice(list(FORMATS))
    fmt = FORMATS[fmtname]
    bpp = fmt[0]
    bypp = bpp // 8
    W = rng.choice(BIG_DIMS if big else DIMS)
    H = rng.choice(BIG_DIMS if big and rng.random() < 0.5 else DIMS)
    # the server's native format only matters through si.format.greenMax (TRLE/ZRLE dispatch of the client)
    sibpp, sigmax = rng.choice([(32, 255)] * 6 + [(16, 63)] * 4 + [(16, 31), (8, 7)])
    L = ["case %d %s %dx%d" % (k, fmtname, W, H)]
    L.append("init %d %d %s %d %d %s" % (W, H, " ".join(map(str, fmt)), sibpp, sigmax, ALL_ENCS))
    cv = Canvas(W, H, bpp)
    seed = rng.randrange(1 << 30)
    L.append("fill %d" % seed)
    cv.fill(seed)
    mask = ((fmt[3] << fmt[6]) | (fmt[4] << fmt[7]) | (fmt[5] << fmt[8])) & ((1 << bpp) - 1)
    expect, feats, evs, sents = [], [], [], []
    nmsg = rng.choice([1, 1, 2, 3, 4])
    kinds = PIX_KINDS
    if len(encs) > 3 and rng.random() < 0.25:
        # a session concentrated on the encodings with PERSISTENT decoder state (the four Tight zlib streams and their
        # reset bits, the inflate stream shared by Zlib and ZRLE): many rectangles on one connection, a good share of them
        # single-coloured (Tight fill rectangles carry reset bits too)
        encs = rng.choice([["tight"], ["tight"], ["tight", "copyrect"], ["zlib", "zrle"], ["zrle"], ["tight", "zrle", "zlib"]])
        nmsg = rng.choice([3, 4, 6, 8])
        kinds = ["flat", "flat", "flat", "two", "few", "noise", "gradient", "blocks"]
        feats.append("session/" + "+".join(encs))
    for _ in range(nmsg):
        kind = rng.random()
        if kind < 0.12:                                   # Bell
            L.append("b 02")
            evs.append("B"); sents.append(""); feats.append("msg/bell")
        elif kind < 0.24:                                 # ServerCutText
            n = rng.choice([0, 1, 5, 255, 256, 1000, 8191, 8192, 8193, 20000])
            txt = bytes(rng.getrandbits(8) for _ in range(n))
            L.append("b 03000000" + be32(n) + txt.hex())
            evs.append("T" + txt.hex()); sents.append(""); feats.append("msg/cuttext")
        elif kind < 0.28:                                 # messages without callback in this harness
            which = rng.choice(["xvp", "chat", "chatopen"])
            if which == "xvp":
                L.append("b fa000101")
            elif which == "chat":
                n = rng.choice([1, 10, 300])
                L.append("b 0b000000" + be32(n) + bytes(rng.getrandbits(8) for _ in range(n)).hex())
            else:
                L.append("b 0b000000ffffffff")
            evs.append(""); sents.append(""); feats.append("msg/" + which)
        else:                                             # FramebufferUpdate
            nrect = rng.choice([1, 1, 2, 3, 5])
            use_last = rng.random() < 0.15
            body, ev = [], []
            for _ in range(nrect):
                r = rng.random()
                if r < 0.04:
                    x, y = rng.randrange(65536), rng.randrange(65536)
                    body.append("b " + rect_hdr(x, y, 0, 0, 0xffffff18)); ev.append("P%d,%d" % (x, y)); feats.append("pseudo/pointerpos")
                elif r < 0.07:
                    v = rng.randrange(8)
                    body.append("b " + rect_hdr(v, 0, 0, 0, 0xfffe0000)); ev.append("L%d" % v); feats.append("pseudo/led")
                elif r < 0.10:
                    n = rng.choice([0, 4, 40])
                    which = rng.choice([0xfffe0002, 0xfffe0003])
                    body.append("b " + rect_hdr(0, 0, n, n // 4, which) + bytes(rng.getrandbits(8) for _ in range(n)).hex())
                    feats.append("pseudo/supported")
                elif r < 0.12:
                    sm = bytearray(rng.getrandbits(8) for _ in range(64))
                    sm[0] |= 0x08      # a server that talks to us supports FramebufferUpdateRequest
                    body.append("b " + rect_hdr(0, 0, 0, 0, 0xfffe0001) + bytes(sm).hex())
                    feats.append("pseudo/supportedmsgs")
                elif r < 0.20:                            # cursor shape
                    cw, ch_ = rng.choice([(1, 1), (7, 3), (8, 8), (9, 2), (16, 16), (17, 5), (0, 4), (5, 0)])
                    xh, yh = rng.randrange(20), rng.randrange(20)
                    bpr = (cw + 7) // 8
                    maskd = bytes(rng.getrandbits(8) for _ in range(bpr * ch_))
                    if rng.random() < 0.5:
                        pix = bytes(rng.getrandbits(8) for _ in range(cw * ch_ * bypp))
                        body.append("b " + rect_hdr(xh, yh, cw, ch_, 0xffffff11) + pix.hex() + maskd.hex())
                        src = pix.hex()
                        feats.append("pseudo/richcursor")
                    else:
                        cols = [rng.getrandbits(8) for _ in range(6)]
                        bits = bytes(rng.getrandbits(8) for _ in range(bpr * ch_))
                        body.append("b " + rect_hdr(xh, yh, cw, ch_, 0xffffff10) + (bytes(cols).hex() + bits.hex() + maskd.hex() if cw * ch_ else ""))
                        fg = rgb24_to_px(fmt, cols[0], cols[1], cols[2]); bg = rgb24_to_px(fmt, cols[3], cols[4], cols[5])
                        src = "".join(le_hex(fg if b else bg, bypp) for b in unpack_bits(bits, cw, ch_)) if cw * ch_ else ""
                        feats.append("pseudo/xcursor")
                    if cw * ch_:
                        ev.append("C%d,%d,%d,%d,%d s=%s m=%s" % (xh, yh, cw, ch_, bypp, src,
                                                               "".join("%02x" % b for b in unpack_bits(maskd, cw, ch_))))
                elif r < 0.26:                            # NewFBSize / ExtDesktopSize
                    nW, nH = rng.choice(DIMS), rng.choice(DIMS)
                    if rng.random() < 0.6:
                        body.append("b " + rect_hdr(0, 0, nW, nH, 0xffffff21))
                        sents.append("0300" + be16(0) + be16(0) + be16(nW) + be16(nH))
                        feats.append("pseudo/newfbsize")
                        changed = True
                    else:
                        nscr = rng.choice([1, 2])
                        scr = "".join(be32(1 + i) + be16(0) + be16(0) + be16(nW) + be16(nH) + be32(0) for i in range(nscr))
                        body.append("b " + rect_hdr(0, 0, nW, nH, 0xfffffecc) + "%02x000000" % nscr + scr)
                        feats.append("pseudo/extdesktopsize")
                        changed = (nW, nH) != (cv.w, cv.h)
                    if changed:
                        ev.append("R%d,%d" % (nW, nH))
                        W, H = nW, nH
                        cv = Canvas(W, H, bpp)
                elif r < 0.36 and "copyrect" in encs:
                    x, y, w, h = gen_rect_geom(rng, W, H)
                    sx, sy = rng.randint(0, W - w), rng.randint(0, H - h)
                    if rng.random() < 0.4:   # overlapping in every direction
                        sx = min(max(x + rng.choice([-2, -1, 0, 1, 2]), 0), W - w)
                        sy = min(max(y + rng.choice([-2, -1, 0, 1, 2]), 0), H - h)
                    body.append("copyrect %d %d %d %d %d %d" % (x, y, w, h, sx, sy))
                    cv.copy(sx, sy, w, h, x, y)
                    ev.append("U%d,%d,%d,%d" % (x, y, w, h))
                    feats.append("copyrect")
                else:
                    enc = rng.choice([e for e in encs if e != "copyrect"] or ["raw"])
                    x, y, w, h = gen_rect_geom(rng, W, H, 255 if enc == "corre" else None, 255 if enc == "corre" else None)
                    pk = rng.choice(kinds)
                    pix = gen_pixels(rng, w, h, bpp, pk)
                    d = bpp // 4
                    body.append("rect %s %d %d %d %d %d %s" % (enc, x, y, w, h, rng.randrange(1 << 30),
                                                              "".join("%0*x" % (d, v) for v in pix)))
                    cv.paint(x, y, w, h, pix)
                    ev.append("U%d,%d,%d,%d" % (x, y, w, h))
                    feats.append("%s/%s" % (enc, pk))
            if use_last:
                L.append("fbu 65535")
                L += body
                L.append("b " + rect_hdr(0, 0, 0, 0, 0xffffff20))
                feats.append("pseudo/lastrect")
            else:
                L.append("fbu %d" % nrect)
                L += body
            ev.append("F")
            evs.append(" ".join(ev))
            sents.append("0301" + be16(0) + be16(0) + be16(W) + be16(H))
            expect.append(cv.hexdump(mask))
        L.append("seg " + " ".join(map(str, gen_seg(rng))))
        L.append("run")
    return dict(lines=L, expect=expect, feats=feats, fmt=fmtname, bpp=bpp, W=W, H=H, sigmax=sigmax,
                evs=evs, sents=sents)


# ---------------------------------------------------------------- tile sequences (TRLE / ZRLE)
# Every ordered pair / triple of tile kinds in one tile row: a tile that establishes a palette of n entries (packed
# palette or palette RLE, n at every index-width boundary), optionally a raw or a solid tile in between, then a tile
# that may reuse that palette (TRLE 127 / 129) or bring its own.  The reference encoder is steered by forcing the
# answers of the choice oracle at the indices it consults for each tile (base = 1000 * tile index: +0 sub-encoding,
# +1 run cap, +2 reuse yes/no, +3 palette padding); any function is a legitimate oracle.
TS_PREV = [("packed", n) for n in (2, 3, 4, 5, 8, 15, 16)] + [("prle", n) for n in (2, 3, 4, 5, 8, 16, 17, 64, 127)]
TS_MID = [None, "raw", "solid"]
TS_LAST = ["reuse127", "reuse129", "packed", "prle", "plain", "raw"]
TS_COMBOS = [(e, p, m, l) for e in ("trle", "zrle") for p in TS_PREV for m in TS_MID for l in TS_LAST]


def gen_tileseq(ctx, k, idx):
    rng = ctx.rng
    enc, (pkind, n), mid, last = TS_COMBOS[idx % len(TS_COMBOS)]
    fmtname = rng.choice(list(FORMATS))
    fmt = FORMATS[fmtname]
    bpp = fmt[0]
    ts_ = 16 if enc == "trle" else 64
    ntiles = 2 + (1 if mid else 0) + (1 if rng.random() < 0.3 else 0)        # sometimes one more tile after the sequence
    # enough pixels in a tile for n distinct colours
    th = rng.choice([8, 9, 16]) if enc == "trle" else rng.choice([2, 3, 5])
    if n > ts_ * th:
        th = 16 if enc == "trle" else 5
    lastw = rng.choice([ts_, ts_, 1, 7])                                      # a narrow last tile too
    widths = [ts_] * (ntiles - 1) + [lastw]
    W, H = sum(widths), th
    sibpp, sigmax = rng.choice([(32, 255)] * 4 + [(16, 63)] * 2 + [(16, 31), (8, 7)])
    L = ["case %d %s %dx%d tileseq" % (k, fmtname, W, H)]
    L.append("init %d %d %s %d %d %s" % (W, H, " ".join(map(str, fmt)), sibpp, sigmax, ALL_ENCS))
    cv = Canvas(W, H, bpp)
    seed = rng.randrange(1 << 30)
    L.append("fill %d" % seed)
    cv.fill(seed)
    mask = ((fmt[3] << fmt[6]) | (fmt[4] << fmt[7]) | (fmt[5] << fmt[8])) & ((1 << bpp) - 1)
    pad = rng.choice([0, 0, 1, 2]) if n > 2 else 0
    ncol = n - pad                                                            # distinct colours of the first tile, padded to n
    if ncol > min(1 << bpp, ts_ * th):
        ncol, pad = min(1 << bpp, ts_ * th, n), 0
    palette = rng.sample(range(1 << bpp), ncol) if bpp <= 16 else [rng.getrandbits(bpp) for _ in range(ncol)]
    palette = list(dict.fromkeys(palette))
    ov = {}

    def tile_pixels(w, cols, runs):
        out = []
        npx = w * th
        must = list(cols)
        rng.shuffle(must)
        while len(out) < npx:
            c = must.pop() if must else rng.choice(cols)
            out += [c] * (rng.choice([1, 2, 3, 16, 17, 40]) if runs else 1)
        return out[:npx]

    tiles = []
    # tile 0: establishes the palette
    tiles.append(tile_pixels(widths[0], palette, pkind == "prle"))
    ov[0] = 2 if pkind == "packed" else 4
    ov[2] = 1
    ov[3] = pad
    j = 1
    if mid:
        if mid == "raw":
            tiles.append([rng.getrandbits(bpp) for _ in range(widths[j] * th)])
            ov[1000 * j] = 0
        else:
            tiles.append([rng.getrandbits(bpp)] * (widths[j] * th))
            ov[1000 * j] = 1
        j += 1
    sub = rng.sample(palette, min(len(palette), rng.choice([1, 2, 2, 3, len(palette)])))
    base = 1000 * j
    if last in ("reuse127", "reuse129"):
        tiles.append(tile_pixels(widths[j], sub, last == "reuse129"))
        ov[base] = 2 if last == "reuse127" else 4
        ov[base + 2] = 0                                                      # reuse if the encoder may
        ov[base + 3] = rng.choice([0, 1])
    elif last in ("packed", "prle"):
        cols = sub if rng.random() < 0.5 else [rng.getrandbits(bpp) for _ in range(rng.choice([2, 3, 4, 5, 16]))]
        tiles.append(tile_pixels(widths[j], cols, last == "prle"))
        ov[base] = 2 if last == "packed" else 4
        ov[base + 2] = 1                                                      # no reuse: a palette of its own
        ov[base + 3] = rng.choice([0, 1, 3])
    elif last == "plain":
        tiles.append(tile_pixels(widths[j], sub, True))
        ov[base] = 3
    else:
        tiles.append([rng.getrandbits(bpp) for _ in range(widths[j] * th)])
        ov[base] = 0
    j += 1
    while j < ntiles:                                                          # whatever the hash oracle decides
        tiles.append(tile_pixels(widths[j], sub, rng.random() < 0.5))
        j += 1
    pix = []
    for row in range(th):
        for ti, tp in enumerate(tiles):
            pix += tp[row * widths[ti]:(row + 1) * widths[ti]]
    d = bpp // 4
    spec = "%d/%s" % (rng.randrange(1 << 30), ",".join("%d=%d" % kv for kv in sorted(ov.items())))
    L.append("fbu 1")
    L.append("rect %s 0 0 %d %d %s %s" % (enc, W, H, spec, "".join("%0*x" % (d, v) for v in pix)))
    cv.paint(0, 0, W, H, pix)
    L.append("seg " + " ".join(map(str, gen_seg(rng))))
    L.append("run")
    feat = "tileseq/%s/%s%d/%s/%s" % (enc, pkind, n, mid or "-", last)
    return dict(lines=L, expect=[cv.hexdump(mask)], feats=[feat], fmt=fmtname, bpp=bpp, W=W, H=H, sigmax=sigmax,
                evs=["U0,0,%d,%d F" % (W, H)], sents=["0301" + be16(0) + be16(0) + be16(W) + be16(H)])


# ---------------------------------------------------------------- application calls between messages
def gen_apiseq(ctx, k):
    """SendExtDesktopSize interleaved with the decode loop: what the client writes (SetDesktopSize, the full request, the
    incremental requests it must withhold while the resize is pending and must resume after ANY ExtendedDesktopSize
    answer - same size, new size, several screens) is part of the oracle, next to the framebuffer."""
    rng = ctx.rng
    fmtname = rng.choice(list(FORMATS))
    fmt = FORMATS[fmtname]
    bpp = fmt[0]
    W, H = rng.choice(DIMS), rng.choice(DIMS)
    sibpp, sigmax = rng.choice([(32, 255)] * 4 + [(16, 63)] * 2 + [(16, 31), (8, 7)])
    L = ["case %d %s %dx%d apiseq" % (k, fmtname, W, H)]
    L.append("init %d %d %s %d %d %s" % (W, H, " ".join(map(str, fmt)), sibpp, sigmax, ALL_ENCS))
    cv = Canvas(W, H, bpp)
    seed = rng.randrange(1 << 30)
    L.append("fill %d" % seed)
    cv.fill(seed)
    L.append("seg " + " ".join(map(str, gen_seg(rng))))
    mask = ((fmt[3] << fmt[6]) | (fmt[4] << fmt[7]) | (fmt[5] << fmt[8])) & ((1 << bpp) - 1)
    d = bpp // 4
    st = dict(W=W, H=H, cv=cv, screen=None, pending=False)
    expect, evs, sents, feats = [], [], [], []

    def incr():
        return "" if st["pending"] else "0301" + be16(0) + be16(0) + be16(st["W"]) + be16(st["H"])

    def eds(nW, nH, reason=0, status=0, nscr=1):
        """FramebufferUpdate with one ExtendedDesktopSize rectangle"""
        scr = "".join(be32(1 + i) + be16(0) + be16(0) + be16(nW) + be16(nH) + be32(0) for i in range(nscr))
        L.append("fbu 1")
        L.append("b " + rect_hdr(reason, status, nW, nH, 0xfffffecc) + "%02x000000" % nscr + scr)
        ev = []
        if nscr:
            st["screen"] = (nW, nH)
        if (nW, nH) != (st["W"], st["H"]):
            ev.append("R%d,%d" % (nW, nH))
            st["W"], st["H"] = nW, nH
            st["cv"] = Canvas(nW, nH, bpp)
        st["pending"] = False
        ev.append("F")
        evs.append(" ".join(ev)); sents.append(incr()); expect.append(st["cv"].hexdump(mask))
        L.append("run")

    def update():
        """an ordinary update (one raw rectangle)"""
        x, y, w, h = gen_rect_geom(rng, st["W"], st["H"])
        pix = gen_pixels(rng, w, h, bpp, rng.choice(PIX_KINDS))
        L.append("fbu 1")
        L.append("rect raw %d %d %d %d %d %s" % (x, y, w, h, rng.randrange(1 << 30), "".join("%0*x" % (d, v) for v in pix)))
        st["cv"].paint(x, y, w, h, pix)
        evs.append("U%d,%d,%d,%d F" % (x, y, w, h)); sents.append(incr()); expect.append(st["cv"].hexdump(mask))
        L.append("run")

    def api(w, h):
        L.append("api extsize %d %d" % (w, h))
        sent = ""
        if st["screen"] and st["screen"] != (w, h):
            sent = ("fbuu" + be16(w) + be16(h) + "01uu" + "uu" * 8 + be16(w) + be16(h) + "uu" * 4 +
                    "0300" + be16(0) + be16(0) + be16(w) + be16(h))
            st["screen"] = (w, h)
            st["pending"] = True
        evs.append(""); sents.append(sent)

    plan = rng.choice(["same", "same", "new", "new", "late", "late", "noscreen", "nochange", "twice", "multi"])
    feats.append("api/extsize/" + plan)
    other = lambda: rng.choice([(a, b) for a in DIMS[:8] for b in DIMS[:8] if (a, b) != (st["W"], st["H"])])
    if plan == "noscreen":
        api(*other()); update(); update()
    else:
        eds(st["W"], st["H"], nscr=rng.choice([1, 1, 2]))          # the server announces the extension
        if rng.random() < 0.5:
            update()
        if plan == "nochange":
            api(st["W"], st["H"]); update()
        else:
            w2, h2 = other()
            api(w2, h2)
            if plan in ("late", "twice"):
                update()                                           # request withheld
                if plan == "twice":
                    api(*other()); update()
            if plan in ("same", "late", "twice"):
                eds(st["W"], st["H"], reason=1, status=rng.choice([1, 2, 3]))   # refused: the size stays
            elif plan == "multi":
                eds(w2, h2, reason=1, nscr=2)
            else:
                eds(w2, h2, reason=1)
            update()                                               # requests flow again
            if rng.random() < 0.4:
                api(*other()); eds(st["W"], st["H"], reason=1, status=1); update()
    return dict(lines=L, expect=expect, feats=feats, fmt=fmtname, bpp=bpp, W=W, H=H, sigmax=sigmax, evs=evs, sents=sents)


def load_corpus(k0):
    cases = []
    cdir = os.path.join(vlib.VERIF, "corpus", PID)
    if os.path.isdir(cdir):
        for fn in sorted(os.listdir(cdir)):
            if not fn.endswith(".script"):
                continue
            lines = [l for l in open(os.path.join(cdir, fn)).read().split("\n") if l.strip()]
            exp = [l[len("#expect "):] for l in lines if l.startswith("#expect ")]
            meta = {}
            for l in lines:
                if l.startswith("#meta "):
                    meta.update(kv.split("=", 1) for kv in l[6:].split())
            lines = [l for l in lines if not l.startswith("#")]
            if lines and not lines[0].startswith("case "):
                lines = ["case %d corpus:%s" % (k0 + len(cases), fn)] + lines
            cases.append(dict(lines=lines, expect=exp, feats=meta.get("feats", "corpus").split(","), fmt=meta.get("fmt", "?"),
                              bpp=int(meta.get("bpp", 0)), W=int(meta.get("W", 0)), H=int(meta.get("H", 0)),
                              sigmax=int(meta.get("sigmax", 255)), tokens=True))
    return cases


# ---------------------------------------------------------------- running
def sync_extraction(pid):
    """the Extraction command writes to /verif/build/ocaml/<pid> (path relative to coq/); with a scratch
    VERIF_BUILD the OCaml build looks elsewhere: copy the extracted model there"""
    import shutil
    src = os.path.join(vlib.VERIF, "build", "ocaml", pid)
    dst = os.path.join(vlib.BUILD, "ocaml", pid)
    if os.path.abspath(src) != os.path.abspath(dst) and os.path.exists(os.path.join(src, "model.ml")):
        os.makedirs(dst, exist_ok=True)
        for n in ("model.ml", "model.mli"):
            shutil.copy(os.path.join(src, n), os.path.join(dst, n))


PROBE_CP15 = ["case 0 probe cpixel15", "init 4 2 16 16 0 31 63 31 11 5 0 16 31 " + ALL_ENCS, "fixed 255",
              "b 00000001", "b 000000000004000200000010", "z 5 1 1 00" + "1111222233334444555566667777" + "8888", "run"]


# a Zlib rectangle followed by a ZRLE rectangle of a server that keeps one deflate stream per encoding
PROBE_ZSTREAM = ["case 0 probe zlib then zrle", "init 2 1 32 24 0 255 255 255 16 8 0 32 255 " + ALL_ENCS, "fixed 4095", "fill 5",
                 "b 00000001", "b 000000000002000100000006", "z 0 1 1 1122330044556600",
                 "b 00000001", "b 000000000002000100000010", "z 5 1 1 00112233445566", "run"]

# a 65x1 rectangle in a 24-in-32-bit format whose last 3-byte CPIXEL ends exactly at the end of the scratch area
PROBE_CP24 = ["case 0 probe cpixel24 tail", "init 65 1 32 24 0 255 255 255 16 8 0 32 255 " + ALL_ENCS, "fixed 383", "fill 5",
              "b 00000001", "b 000000000041000100000010",
              "z 5 1 1 80" + "11223300" * 63 + "112233" + "ff" * 129 + "00" + "00445566", "run"]

# notes/fix_C07_4.diff (raw_buffer sized by the worst case of a valid tile stream): a 1x1 rectangle sent as a palette-RLE
# tile with a 2-entry palette (8 bytes > 2 x 3)
PROBE_ZBOUND = ["case 0 probe zrle bound", "init 2 1 32 24 0 255 255 255 16 8 0 32 255 " + ALL_ENCS, "fixed 8191", "fill 5",
                "b 00000001", "b 000000000001000100000010", "z 5 1 1 8201020304050600", "run"]


def probe_zbound(cexe, mexe):
    script = "\n".join(PROBE_ZBOUND) + "\n"
    rc1, cout, cerr = vlib.run_driver(cexe, script, timeout=120)
    rc2, mout, merr = vlib.run_driver([mexe, "dec"], script, timeout=120, unlimited_stack=True)
    return 4096 if (rc1 == 0 and cout == mout and "end ok" in cout) else 0


def probe_fixes(cexe, mexe):
    """does the code under test contain notes/fix_C07_1.diff (2-byte CPIXELs in the 15-bit ZRLE/TRLE instances)?
    yes iff it behaves on the probe exactly like the mirror with fix bit 7 switched on"""
    zb = probe_zbound(cexe, mexe)
    script = "\n".join(PROBE_CP15) + "\n"
    rc1, cout, cerr = vlib.run_driver(cexe, script, timeout=120)
    rc2, mout, merr = vlib.run_driver([mexe, "dec"], script, timeout=120, unlimited_stack=True)
    mask = zb | (128 if (rc1 == 0 and cout == mout and "end ok" in cout) else 0)
    # notes/fix_C08_7.diff (4 spare bytes behind the ZRLE data): changes the accepted data size by 4 bytes when the
    # scratch area is inherited from an earlier, larger rectangle
    script = "\n".join(PROBE_CP24).replace("fixed 383", "fixed %d" % (383 | zb)) + "\n"
    rc1, cout, cerr = vlib.run_driver(cexe, script, timeout=120)
    rc2, mout, merr = vlib.run_driver([mexe, "dec"], script, timeout=120, unlimited_stack=True)
    if rc1 == 0 and cout == mout and "end ok" in cout:
        mask |= 256
    # notes/fix_C07_3.diff (ZRLE inflate stream of its own)
    script = "\n".join(PROBE_ZSTREAM) + "\n"
    rc1, cout, cerr = vlib.run_driver(cexe, script, timeout=120)
    rc2, mout, merr = vlib.run_driver([mexe, "dec"], script, timeout=120, unlimited_stack=True)
    if rc1 == 0 and cout == mout and "end ok" in cout:
        mask |= 2048
    return mask


def with_fixed(tok, mask):
    out = []
    for l in tok:
        out.append(l)
        if l.startswith("init "):
            out.append("fixed %d" % (mask | 127 | 512 | 1024))     # bits 0..6, 9, 10: committed C08 fixes (malformed streams only), the mirror's baseline
    return out


def build(ctx):
    cexe = vlib.build_harness("vdrv_client", ["vdrv_client.c"], wraps=("read", "write", "select"),
                              client=True, server=True)
    proof_ok = vlib.prove(ctx, PROP_FILE, ["Extract/Extract_C07.vo"])
    sync_extraction(PID)
    mexe = vlib.build_ocaml(PID, "driver_C07.ml", "Extract/Extract_C07.vo")
    return cexe, mexe, proof_ok


def encode(mexe, cases):
    """high-level scripts -> token scripts (extracted reference encoders)"""
    hl = [c for c in cases if not c.get("tokens")]
    script = "\n".join("\n".join(c["lines"]) for c in hl) + "\n"
    rc, out, err = vlib.run_driver([mexe, "enc"], script, timeout=3000, unlimited_stack=True)
    if rc != 0:
        raise vlib.BuildError("reference encoder driver failed (%d): %s" % (rc, err[-500:]))
    parts = vlib.split_cases(out)
    if len(parts) != len(hl):
        raise vlib.BuildError("reference encoder driver produced %d cases for %d" % (len(parts), len(hl)))
    for c, (hdr, lines) in zip(hl, parts):
        c["tok"] = [hdr] + lines
    for c in cases:
        if c.get("tokens"):
            c["tok"] = c["lines"]


def run_both(cexe, mexe, cases):
    script = "\n".join("\n".join(c["tok"]) for c in cases) + "\n"
    rc1, cout, cerr = vlib.run_driver(cexe, script, timeout=3000)
    rc2, mout, merr = vlib.run_driver([mexe, "dec"], script, timeout=3000, unlimited_stack=True)
    return (rc1, cout, cerr), (rc2, mout, merr)


def compare_lines(il, ml):
    """exact comparison except where the model declines to predict the framebuffer content"""
    for i in range(max(len(il), len(ml))):
        a = il[i] if i < len(il) else "<missing>"
        b = ml[i] if i < len(ml) else "<missing>"
        if b == "fb tainted" and a.startswith("fb "):
            continue
        if b == "end desync":
            return None
        if a != b:
            return (i, a[:300], b[:300])
    return None


def oracle(case, il):
    """property predicate on the implementation's own output: after the k-th update the framebuffer is
    exactly what the generator asked to be encoded; the run ends without failure"""
    fbs = [l for l in il if l.startswith("fb ")]
    if any(l.startswith("end fail") or l.startswith("end eof") for l in il):
        return "the client rejected a valid stream (HandleRFBServerMessage returned FALSE)"
    if len(fbs) < len(case["expect"]):
        return "only %d of %d framebuffer updates were completed" % (len(fbs), len(case["expect"]))
    msgs = [l for l in il if l.startswith(("msg ", "api "))]      # server messages and application calls, in order
    if "evs" in case:
        got_ev = [m[m.index("ev=[") + 4:m.index("] sent=")] for m in msgs]
        for k, want in enumerate(case["evs"]):
            if k >= len(got_ev):
                return "message %d was not processed" % k
            if got_ev[k] != want:
                return "callbacks of message %d differ from the transmitted values: got [%s] want [%s]" % (k, got_ev[k][:200], want[:200])
        sent = "".join(m[m.index("] sent=") + 7:] for m in msgs)
        want_sent = "".join(case["sents"])
        if sent != want_sent:
            return "client requests differ: sent %s, expected %s" % (sent[:120], want_sent[:120])
    for k, exp in enumerate(case["expect"]):
        got = fbs[k].split(" ", 2)[2] if fbs[k].count(" ") >= 2 else ""
        if got != exp:
            d = case["bpp"] // 4 or 8
            bad = [i for i in range(0, min(len(got), len(exp)), d) if got[i:i + d] != exp[i:i + d]]
            where = ""
            try:
                fw = int(fbs[k].split(" ")[1].split("x")[0])
            except ValueError:
                fw = 0
            if bad and fw:
                i = bad[0] // d
                where = " first at pixel (%d,%d): got %s want %s" % (i % fw, i // fw, got[bad[0]:bad[0] + d], exp[bad[0]:bad[0] + d])
            return "framebuffer after update %d differs from the encoded content in %d pixels%s" % (k, len(bad), where)
    return None


FIXMASK = 0      # set by check(): which proposed fixes the code under test contains


def zrle_oversize(case):
    """a ZRLE rectangle whose tile data is larger than twice the raw size (the client's raw_buffer)"""
    tok = case.get("tok", [])
    bypp = case["bpp"] // 8
    rb = {1: 1, 2: 2, 4: 3 if case["fmt"] in ("rgb888", "bgr888", "rgb888up") else 4}.get(bypp, 4)
    for i, l in enumerate(tok):
        if l.startswith("z 5 ") and i > 0 and tok[i - 1].startswith("b ") and tok[i - 1].endswith("00000010"):
            hdr = tok[i - 1][-24:]
            w, h = int(hdr[8:12], 16), int(hdr[12:16], 16)
            if len(l.split()[4]) // 2 > 2 * w * h * rb:
                return True
    return False


def features_of(case, msg):
    names = set(ALL_ENCS.split())
    encs = sorted(set(f.split("/")[0] for f in case["feats"]) |
                  set(p for f in case["feats"] if f.startswith(("live/", "corpus/", "tileseq/")) for p in f.split("/")[1:] if p in names))
    if any(f.startswith("live/zywrle") for f in case["feats"]):
        encs = sorted(set(encs) | {"zrle"})      # ZYWRLE runs through the ZRLE decoder and its inflate stream
    cause = "other"
    if not (FIXMASK & 128) and case["bpp"] == 16 and case.get("sigmax", 255) <= 31 and ("zrle" in encs or "trle" in encs):
        cause = "cpixel15"          # HandleZRLE15/HandleTRLE15 selected by the SERVER's native greenMax
    elif case["fmt"] == "rgb888d32" and ("zrle" in encs or "trle" in encs):
        cause = "cpixel_depth32"             # the client picks the 3-byte CPIXEL instance from the colour masks alone
    elif not (FIXMASK & 2048) and "zrle" in encs and "zlib" in encs:
        cause = "zlib_zrle_shared_stream"    # one inflate stream in the client for two server streams
    elif not (FIXMASK & 4096) and "zrle" in encs and zrle_oversize(case):
        cause = "zrle_oversize"
    return {"encs": ",".join(encs), "fmt": case["fmt"], "bpp": case["bpp"], "cause": cause, "what": msg[:60]}


def evaluate(ctx, cases, cexe, mexe):
    (rc1, cout, cerr), (rc2, mout, merr) = run_both(cexe, mexe, cases)
    cc, mc = vlib.split_cases(cout), vlib.split_cases(mout)
    mism, ofail = [], []
    for idx, c in enumerate(cases):
        il = cc[idx][1] if idx < len(cc) else []
        ml = mc[idx][1] if idx < len(mc) else []
        d = compare_lines(il, ml)
        if d is not None:
            mism.append((idx, d))
        if c["expect"]:
            e = oracle(c, il)
            if e:
                ofail.append((idx, e))
    if rc1 != 0 and not ofail:
        idx = max(0, len(cc) - 1)
        ofail.append((idx, "implementation driver died (rc %d): %s" % (rc1, cerr[-800:])))
    if rc2 != 0 and not mism:
        mism.append((max(0, len(mc) - 1), (0, "-", "model driver died: " + merr[-300:])))
    return mism, ofail, (cout, cerr, mout, merr)


def subencodings(tok, hist):
    """which sub-encoding did the reference encoder choose for the FIRST tile / for the rectangle (evidence
    that the choice oracle reaches all of them)"""
    for i, l in enumerate(tok):
        if not l.startswith("b ") or len(l) < 26:
            continue
        h = l[2:]
        try:
            enc = int(h[16:24], 16)
        except ValueError:
            continue
        body = h[24:]
        key = None
        if enc == 5 and len(body) >= 2:
            f = int(body[:2], 16)
            key = "hextile:" + ("raw" if f & 1 else "".join(n for b, n in ((2, "B"), (4, "F"), (8, "A"), (16, "C")) if f & b) or "none")
        elif enc == 15 and len(body) >= 2:
            t_ = int(body[:2], 16)
            key = "trle:" + ("raw" if t_ == 0 else "solid" if t_ == 1 else "packed%d" % t_ if t_ <= 16 else "reuse127" if t_ == 127
                             else "plainrle" if t_ == 128 else "reuse129" if t_ == 129 else "palrle")
        elif enc == 7 and len(body) >= 2:
            c = int(body[:2], 16) >> 4
            if c == 8:
                key = "tight:fill"
            elif c & 4 and len(body) >= 4:
                key = "tight:" + {0: "copy-explicit", 1: "palette", 2: "gradient"}.get(int(body[2:4], 16), "?")
            else:
                key = "tight:copy"
            if int(body[:2], 16) & 15:
                hist["tight:stream-reset"] = hist.get("tight:stream-reset", 0) + 1
        elif enc == 16 and i + 1 < len(tok) and tok[i + 1].startswith("z 5 "):
            p = tok[i + 1].split()
            if len(p) > 4 and len(p[4]) >= 2:
                t_ = int(p[4][:2], 16)
                key = "zrle:" + ("raw" if t_ == 0 else "solid" if t_ == 1 else "packed%d" % t_ if t_ <= 16 else "plainrle" if t_ == 128 else "palrle")
        if key:
            hist[key] = hist.get(key, 0) + 1


def gen_live(ctx, k):
    """pairing with THIS repository's server (implementation only): same pixel format on both sides, the real
    server encodes its framebuffer, the real client decodes; the two framebuffers must be equal"""
    rng = ctx.rng
    bypp = rng.choice([1, 2, 4, 4])
    W, H = rng.choice(DIMS + BIG_DIMS), rng.choice(DIMS + [64, 65])
    enc = rng.choice(["raw", "rre", "corre", "hextile", "zlib", "zrle", "trle", "tight", "ultra",
                      "tight copyrect hextile", "zrle hextile raw", "zywrle", "zywrle zrle"])
    L = ["case %d live %s %dx%dx%d" % (k, enc.replace(" ", "+"), W, H, bypp),
         "live %d %d %d %d %d %s" % (W, H, bypp, rng.randrange(1 << 30), rng.randrange(5), enc)]
    for _ in range(rng.choice([0, 1, 2])):
        L.append("livemod %d %d" % (rng.randrange(1 << 30), rng.choice([1, 2, 5])))
    first = enc.split()[0]
    feats = ["live/" + first]
    for _ in range(rng.choice([0, 0, 1, 2])):
        # the application changes its encoding list in mid-session (SetFormatAndEncodings), the screen changes again
        enc2 = rng.choice(["raw", "hextile", "zlib", "zrle", "trle", "tight", "ultra", "zlib hextile", "zrle zlib"])
        L.append("liveenc " + enc2)
        L.append("livemod %d %d" % (rng.randrange(1 << 30), rng.choice([1, 2, 5])))
        feats.append("live/" + enc2.split()[0])
    return dict(tok=L, lines=L, expect=[], feats=feats, fmt="server", bpp=8 * bypp, W=W, H=H,
                sigmax=31 if bypp == 2 else 255, tokens=True)


def run_live(ctx, cexe, cases):
    script = "\n".join("\n".join(c["tok"]) for c in cases) + "\n"
    rc, out, err = vlib.run_driver(cexe, script, timeout=3000)
    try:
        open(os.path.join(ctx.scratch, "live.script"), "w").write(script)
        open(os.path.join(ctx.scratch, "live.stderr"), "w").write("rc=%d\n" % rc + err[-8000:])
    except OSError:
        pass
    parts = vlib.split_cases(out)
    fails = []
    for i, c in enumerate(cases):
        il = parts[i][1] if i < len(parts) else []
        want = len(c["tok"]) - 1
        bad = [l for l in il if " equal=1" not in l or " rc=0 " in l]     # rc=0: HandleRFBServerMessage returned FALSE
        if len(il) < want or bad:
            fails.append((i, "pairing with this repository's server: client framebuffer differs from the server's (%s)" %
                          (bad[0][:80] if bad else "client stopped"), il))
    if rc != 0:
        # everything after the crash is missing: report the crash itself, once
        import re as _re
        m = _re.search(r"ERROR: AddressSanitizer: [^\n]*(?:\n[^\n]*){0,6}", err)
        k = max(0, len(parts) - 1)
        fails = [f for f in fails if f[0] < k]
        fails.append((k, "harness died in the live pairing (rc %d): %s" % (rc, (m.group(0) if m else err[-400:])[:500]), parts[k][1] if parts else []))
    return fails


def check(ctx):
    cexe, mexe, proof_ok = build(ctx)
    rng = ctx.rng
    cases = load_corpus(0)
    n = 1500 if ctx.quick() else 50000
    encs = MODEL_ENCS
    for i in range(n):
        cases.append(gen_case(ctx, len(cases), encs, big=(i % 10 == 0)))
    # every (palette tile, in-between tile, following tile) combination once per run (quick), 8 times (thorough)
    off = rng.randrange(len(TS_COMBOS))
    for i in range(len(TS_COMBOS) * (1 if ctx.quick() else 8)):
        cases.append(gen_tileseq(ctx, len(cases), off + i))
    for i in range(150 if ctx.quick() else 3000):
        cases.append(gen_apiseq(ctx, len(cases)))
    encode(mexe, cases)
    global FIXMASK
    fixmask = probe_fixes(cexe, mexe)
    FIXMASK = fixmask
    ctx.coverage["fixes_detected_mask"] = fixmask
    for c in cases:
        c["tok"] = with_fixed(c["tok"], fixmask)
    mism, ofail, _ = evaluate(ctx, cases, cexe, mexe)
    hist, distinct = {}, set()
    sub = {}
    for c in cases:
        subencodings(c.get("tok", []), sub)
    ctx.coverage["subencodings_first_tile"] = sub
    nrect = 0
    for c in cases:
        for f in c["feats"]:
            hist[f] = hist.get(f, 0) + 1
            nrect += 1
            distinct.add((f, c["fmt"], min(c["W"], 65) // 16, min(c["H"], 65) // 16))
    ctx.coverage.update(
        evaluations=nrect, distinct_nontrivial=len(distinct),
        rule="rectangles encoded by the extracted reference encoder and decoded by both the real client and the "
             "extracted mirror; distinct_nontrivial = distinct (encoding/content class, pixel format, "
             "framebuffer width class, height class)",
        samples=[cases[i]["lines"][:4] for i in (0, len(cases) // 2, len(cases) - 1)],
        input_distribution=hist, cases=len(cases), correspondence_mismatches=len(mism),
        oracle_failures=len(ofail))
    # ---- pairing with the repository's own server (implementation only, sampled)
    live = [gen_live(ctx, i) for i in range(150 if ctx.quick() else 1500)]
    lfails = run_live(ctx, cexe, live)
    lh = {}
    for c in live:
        lh[c["feats"][0]] = lh.get(c["feats"][0], 0) + 1
    ctx.coverage["live_pairing"] = dict(cases=len(live), failures=len(lfails), distribution=lh)
    lseen = {}
    for i, e, il in lfails:
        c = live[i]
        cause = features_of(c, e)["cause"]
        lseen[cause] = lseen.get(cause, 0) + 1
        if lseen[cause] > (3 if cause == "other" else 1):
            continue
        ctx.violation("client does not reconstruct the encoded content: " + e, features_of(c, e),
                      "script:\n" + "\n".join(c["tok"]) + "\n\nimplementation output:\n" + "\n".join(il))
    ctx.assumptions += ["zlib/LZO round trip with paired persistent state (built into the token alphabet, exercised with the real libraries)",
                        "little-endian host"]

    def run_one(case):
        m, o, outs = evaluate(ctx, [case], cexe, mexe)
        return m, o, outs

    seen_causes = {}
    for idx, e in ofail:
        c = cases[idx]
        cause = features_of(c, e)["cause"]
        seen_causes[cause] = seen_causes.get(cause, 0) + 1
        if seen_causes[cause] > (3 if cause == "other" else 1):
            continue
        m, o, (co, ce, mo, me) = run_one(c)
        msg = o[0][1] if o else e
        ctx.violation("client does not reconstruct the encoded content: " + msg, features_of(c, msg),
                      "script:\n" + "\n".join(c["tok"]) + "\n\n#expect " + "\n#expect ".join(c["expect"]) +
                      "\n\nhigh-level:\n" + "\n".join(l[:200] for l in c["lines"]) +
                      "\n\nimplementation output:\n" + co[:20000] + ce[-1500:] + "\nmodel output:\n" + mo[:20000])
    if mism and not ctx.violations:
        idx, d = mism[0]
        c = cases[idx]
        m, o, (co, ce, mo, me) = run_one(c)
        ctx.violation("correspondence Dec/Cli*.v <-> libvncclient no longer holds (%d cases differ); the "
                      "reconstruction predicate held on every implementation output explored" % len(mism),
                      {"kind": "correspondence"},
                      "correspondence: coq/Dec/CliMsg.v (handle_msg) vs HandleRFBServerMessage\nfirst difference: %r\n"
                      "script:\n" % (d,) + "\n".join(c["tok"]) + "\n\nimplementation output:\n" + co[:20000] + ce[-1500:] +
                      "\nmodel output:\n" + mo[:20000] + me[-500:], no_input=True)
    if not proof_ok and not ctx.violations:
        vlib.report_proof_failure(ctx, "Correspondence and the reconstruction oracle were run on %d rectangles "
                                  "without exhibiting a failing input." % nrect)


def replay(ctx, path):
    txt = open(path).read()
    if "script:\n" not in txt:
        print("replay names a theorem/correspondence, re-running the full check")
        return check(ctx)
    body = txt.split("script:\n", 1)[1].split("\n\n", 1)[0]
    lines = [l for l in body.split("\n") if l.strip()]
    exp = [l[len("#expect "):] for l in txt.split("\n") if l.startswith("#expect ")]
    cexe, mexe, _ = build(ctx)
    global FIXMASK
    FIXMASK = probe_fixes(cexe, mexe)
    case = dict(lines=lines, tok=with_fixed([l for l in lines if not l.startswith("fixed ")], FIXMASK), expect=exp,
                feats=["replay"], fmt="?", bpp=0, W=0, H=0, tokens=True)
    num2name = {0: "raw", 1: "copyrect", 2: "rre", 4: "corre", 5: "hextile", 6: "zlib", 7: "tight", 9: "ultra", 15: "trle", 16: "zrle"}
    for l in lines:
        p = l.split()
        if p and p[0] == "init" and len(p) > 13:
            fmt = tuple(int(v) for v in p[3:12])
            case.update(W=int(p[1]), H=int(p[2]), bpp=fmt[0], sigmax=int(p[13]),
                        fmt=next((n for n, f in FORMATS.items() if f == fmt), "?"))
        elif p and p[0] == "b" and len(p) > 1 and len(p[1]) >= 24 and int(p[1][16:24], 16) in num2name:
            case["feats"].append("corpus/" + num2name[int(p[1][16:24], 16)])
        elif p and p[0] == "live" and len(p) > 6:
            case.update(bpp=8 * int(p[3]), sigmax=31 if p[3] == "2" else 255)
            case["feats"].append("live/" + p[6])
    m, o, (co, ce, mo, me) = evaluate(ctx, [case], cexe, mexe)
    print("implementation:\n" + co[:5000] + "model:\n" + mo[:5000])
    ctx.coverage.update(evaluations=1, distinct_nontrivial=0, rule="replay", samples=[lines[:4]])
    if any(l.startswith("live") for l in lines):
        o = [(0, e) for (_, e, _) in run_live(ctx, cexe, [case])]
        m = []
    if o:
        ctx.violation("client does not reconstruct the encoded content: " + o[0][1], features_of(case, o[0][1]),
                      "script:\n" + "\n".join(lines) + "\n\n#expect " + "\n#expect ".join(exp) + "\n\nimplementation output:\n" + co[:20000])
    elif m:
        ctx.violation("correspondence differs on the replayed script", {"kind": "correspondence"},
                      "script:\n" + "\n".join(lines) + "\n\n" + co[:20000] + "\n" + mo[:20000], no_input=True)
