"""C18 - Clipboard text is transferred intact in both directions.

Proof: coq/Props/Properties_C18.v - theorems about the executable mirror model
Session/ClipboardDefs.v (server: extended ClientCutText handler, publishing API; LibVNCClient:
senders and the ServerCutText receiver; zlib as an explicit oracle) on top of the C06 session
model (Session/InputDefs.v: fragmented streams, handshake, view-only gating).
Tie: (a) flag bits, message numbers, the three 1 MiB limits, the default capabilities and the
fixed caps/notify byte strings are regenerated from /repo on every run (Gen/Consts_C18.v);
(b) correspondence: extracted model (ocaml/driver_C18.ml) and real libraries
(harness/vdrv_clip.c: real server vs reference peer and real server vs real LibVNCClient inside
one process) run the same scripts; after every line the callbacks on both sides, connection
states, every ServerCutText-family message the server wrote (decoded, provide payloads inflated
by the real zlib) and the send mutexes are compared exactly.  The zlib oracle answers the model
needs are computed by the real zlib (python's zlib module = the same libz) and travel in the
script ("zdef" lines).
Independently of the mirror model the property is evaluated on the implementation's output:
the generator knows, message by message, which text must arrive where (or that the sender must
be closed and nobody else), and checks exactly that; a send mutex left locked or a callback
that contains never-written memory is a violation by itself.
"""
import json, os, shutil, struct, sys, zlib
import vlib
import C06 as base

VARIANT = 0        # 0 = the library behaves like /repo HEAD; bits 2,3,4 = that former defect is back; bit 5 = notes/fix_C18_3.diff present
WRAPS = ("select", "gettimeofday", "write")


def clip_cflags():
    """harness/vdrv_clip.c #includes harness/vdrv_input.c, which vlib's build cache does not see: make it part of the key"""
    import hashlib
    h = hashlib.sha1(open(os.path.join(vlib.VERIF, "harness", "vdrv_input.c"), "rb").read()).hexdigest()[:16]
    return ("-DVDRV_INPUT_SHA=%s" % h,)
PID = "C18"
PROP_FILE = "Props/Properties_C18.v"
EXTRACT = "Extract/Extract_C18.vo"
LIMIT = 1 << 20
TEXT, RTF, HTML = 1, 2, 4
CAPS, REQUEST, PEEK, NOTIFY, PROVIDE = 1 << 24, 1 << 25, 1 << 26, 1 << 27, 1 << 28
EXT_ENC = 0xC0A1E5CE
DEF_USERCAP = 0x1B000007
DEF_MAXUNSOL = 20 * (1 << 20)
fmt = base.fmt_text


def ext_limit():
    """limit on the (compressed) extended message: 1 MiB, plus 1 KiB with the proposed notes/fix_C18_3.diff"""
    return LIMIT + (1024 if VARIANT & 32 else 0)


def rec_limit():
    """largest size field of one extended-clipboard record the receivers accept: regenerated from the source under test"""
    import re
    try:
        txt = open(os.path.join(vlib.COQ, "Gen", "Consts_C18.v")).read()
        return int(re.search(r"c18_ext_size_limit : Z := \((\d+)\)", txt).group(1))
    except Exception:
        return LIMIT


def hx(b):
    return b.hex() if b else "-"


def be32(v):
    return struct.pack(">I", v & 0xFFFFFFFF)


def cut_msg(payload, ext=False, length=None):
    n = len(payload) if length is None else length
    return bytes([6, 0, 0, 0]) + (be32(-n) if ext else be32(n)) + payload


def zsync(content):
    co = zlib.compressobj()
    return co.compress(content) + co.flush(zlib.Z_SYNC_FLUSH)


def zinfo(z):
    """what the stream z inflates to and how it ends: (content, 'E'|'M'|'X')"""
    d = zlib.decompressobj()
    out = b""
    try:
        out = d.decompress(z)
        if d.eof:
            return out, "E"
        return out, "M"
    except zlib.error:
        # collect what comes out before the error, byte by byte
        d = zlib.decompressobj()
        out = b""
        for i in range(len(z)):
            try:
                out += d.decompress(z[i:i + 1])
            except zlib.error:
                break
        return out, "X"


class Conn:
    def __init__(self, cid, is_rc=False, rc_utf8=False, vo=False):
        self.id, self.is_rc, self.rc_utf8, self.vo = cid, is_rc, rc_utf8, vo
        self.alive, self.ext = True, False
        self.usercap, self.maxunsol, self.data = DEF_USERCAP, DEF_MAXUNSOL, None
        self.rc_caps = 0
        self.pending_rc = []       # events the real client will report at its next pump


class Builder:
    """builds one case: script lines + what the property demands to see on each line"""
    def __init__(self, rng, kind, utf8cb=1):
        self.rng, self.kind, self.utf8cb = rng, kind, utf8cb
        self.lines, self.exp = [], []
        self.conns = {}
        self.zseen = set()
        self.uncertain = False     # some connection's fate is left to the model/implementation comparison
        self.add("screen 100 80 0 0 0 0 0 0 %d %d" % (utf8cb, VARIANT))
        self.known_bad = None

    def add(self, line, ev=None, out=None, gone=None):
        self.lines.append(line)
        if self.uncertain:
            ev, out, gone = None, None, None
        self.exp.append(dict(ev=ev, out=out, gone=gone))

    def zdef(self, kind, a, b, term=None):
        key = (kind, a)
        if key in self.zseen:
            return
        self.zseen.add(key)
        if kind == "inf":
            self.add("zdef inf %s %s %s" % (hx(a), hx(b), term))
        else:
            self.add("zdef %s %s %s" % (kind, hx(a), hx(b)))

    def order(self):
        """connections in the order the harness lists decoded output (creation order)"""
        return [c for c in self.conns.values()]

    # ---- connections
    def peer(self, cid, ext=False, vo=False, frag=False):
        c = Conn(cid, vo=vo)
        self.conns[cid] = c
        self.add("connect %d %d" % (cid, 1 if vo else 0), ev=[])
        hs = b"RFB 003.008\n" + bytes([1, 1])
        fr = base.fragment(self.rng, hs) if frag else [hs]
        self.add("send %d %s" % (cid, base.frag_text(fr)), ev=[])
        for _ in range(3):
            self.add("p", ev=[])
        self.add("hsdone %d" % cid, ev=[], out=[])
        if ext:
            self.set_encodings(cid, [EXT_ENC])
        return c

    def set_encodings(self, cid, encs):
        c = self.conns[cid]
        m = bytes([2, 0]) + struct.pack(">H", len(encs)) + b"".join(be32(e) for e in encs)
        self.add("send %d %s" % (cid, base.frag_text(base.fragment(self.rng, m))), ev=[])
        out = []
        if c.alive:
            c.ext = False               # every SetEncodings first withdraws the capability (2d15d75)
            for e in encs:
                if e == EXT_ENC and self.utf8cb:
                    c.ext = True
                    out.append("%d:1:8:1700000100100000" % cid)
        self.add("p", ev=[], out=out)

    def rc(self, cid, utf8):
        c = Conn(cid, is_rc=True, rc_utf8=bool(utf8))
        self.conns[cid] = c
        if utf8 and self.utf8cb:
            c.ext = True
            c.pending_caps = True
        self.add("rc_connect %d %d" % (cid, 1 if utf8 else 0), ev=[])
        return c

    def rc_update(self, cid):
        """the LibVNCClient requests, receives and digests one full framebuffer update (with LibVNCClient's default
        encodings this carries the SupportedMessages / SupportedEncodings / ServerIdentity pseudo-rectangles)"""
        c = self.conns[cid]
        if not (c.is_rc and c.alive):
            return
        c.updating = True
        self.add("rc_fur %d" % cid, ev=[])
        self.add("p", ev=[])
        self.rc_pump(cid)

    def rc_sched(self, cid, sched=None):
        """what the kernel does on the client's next write() calls: short writes and EAGAIN in any pattern"""
        c = self.conns[cid]
        if not (c.is_rc and c.alive):
            return
        rng = self.rng
        if sched is None:
            sched = []
            for _ in range(rng.randint(1, 40)):
                r = rng.random()
                sched.append(0 if r < 0.4 else rng.choice([1, 1, 2, 3, 7, 8, 9, 100, 4096, 70000]))
        self.add("rc_sched %d %s" % (cid, ",".join(map(str, sched))), ev=[])

    def rc_pump(self, cid):
        c = self.conns[cid]
        if not c.alive:
            return
        if getattr(c, "pending_caps", False):
            c.rc_caps |= TEXT
            c.pending_caps = False
        ev, c.pending_rc = c.pending_rc, []
        self.add("rc_pump %d" % cid, ev=ev)
        if getattr(c, "updating", False):
            # a client that asks for framebuffer updates answers every update it digests with an incremental request;
            # how many updates the server produced is not this property's business: let the server read them all
            for _ in range(3):
                self.add("p", ev=[])

    # ---- client puts text
    def put_classic(self, cid, text, frag=True):
        c = self.conns[cid]
        if c.is_rc:
            self.add("rc_cut %d %s" % (cid, hx(text)), ev=[])
        else:
            m = cut_msg(text)
            fr = base.fragment(self.rng, m, None, (1, 4, 8)) if frag else [m]
            self.add("send %d %s" % (cid, base.frag_text(fr)), ev=[])
        ev = []
        if c.alive and not c.vo:
            ev = ["C:%d:%d:%s" % (cid, len(text), fmt(text))]
        self.add("p", ev=ev if c.alive else [])

    def put_utf8_rc(self, cid, text):
        """SendClientCutTextUTF8 of a real client: Notify + Provide(text+NUL, sync-flushed)"""
        c = self.conns[cid]
        content = be32(len(text) + 1) + text + b"\0"
        z = zsync(content)
        self.zdef("syn", content, z)
        self.zdef("inf", z, content, "M")
        if not c.alive:
            return
        if c.rc_caps == 0:
            self.add("rc_utf8 %d %s" % (cid, hx(text)), ev=["SF:%d" % cid])
            return
        self.add("rc_utf8 %d %s" % (cid, hx(text)), ev=[])
        self.add("p", ev=[])                        # the Notify
        if 4 + len(z) > ext_limit():
            # the COMPRESSED message exceeds the ClientCutText limit although the text does not
            self.add("p", ev=["U:%d:%d:%s:0" % (cid, len(text) + 1, fmt(text + b"\0"))], gone=[])
            self.known_bad = "incompressible"
            c.alive = False
            return
        ev = []
        if c.ext and not c.vo:
            ev = ["U:%d:%d:%s:0" % (cid, len(text) + 1, fmt(text + b"\0"))]
        self.add("p", ev=ev)

    def send_ext(self, cid, payload, ev, out=None, closes=False, length=None, frag=True):
        """a reference peer sends an extended ClientCutText with this payload"""
        c = self.conns[cid]
        m = cut_msg(payload, ext=True, length=length)
        fr = base.fragment(self.rng, m, None, (1, 4, 8, 12)) if frag else [m]
        self.add("send %d %s" % (cid, base.frag_text(fr)), ev=[])
        if not c.alive:
            self.add("p", ev=[])
            return
        if closes:
            c.alive = False
            self.add("p", ev=ev, out=out, gone=[cid])
        else:
            self.add("p", ev=ev, out=out)

    def provide(self, cid, text, stream="sync", nul=True):
        """well-formed Provide|Text from a reference peer (ext enabled)"""
        c = self.conns[cid]
        data = text + (b"\0" if (nul or not text) else b"")      # never an empty record (see case_malformed)
        content = be32(len(data)) + data
        z = zsync(content) if stream == "sync" else zlib.compress(content, self.rng.choice([0, 1, 6, 9]))
        self.zdef("inf", z, content, "M" if stream == "sync" else "E")
        payload = be32(PROVIDE | TEXT) + z
        if not c.ext:
            # the extension is off: a "negative" length is just a huge classic length
            self.send_ext(cid, payload, [], closes=True)
            return
        if len(payload) > ext_limit():
            self.send_ext(cid, payload, [], closes=True)
            return
        ev = [] if c.vo else ["U:%d:%d:%s:0" % (cid, len(data), fmt(data))]
        if len(data) > rec_limit() and len(text) <= LIMIT:
            # a text of exactly 2^20 bytes: with its terminating NUL the record is 2^20+1 bytes
            self.known_bad = "exactlimit"
        self.send_ext(cid, payload, ev)

    # ---- the application publishes
    def pub(self, text):
        out = []
        for c in self.order():
            if not c.alive:
                continue
            if c.is_rc:
                if len(text) <= LIMIT:
                    c.pending_rc.append("GC:%d:%d:%s" % (c.id, len(text), fmt(text)))
                else:
                    c.pending_rc.append("GD:%d" % c.id)
            else:
                out.append("%d:0:%d:%s" % (c.id, len(text), fmt(text)))
        self.add("pub %s" % hx(text), ev=[], out=out)

    def pubu(self, text, fb):
        out = []
        for c in self.order():
            if not c.alive:
                continue
            if c.ext:
                data = text + b"\0"
                c.data = data
                content = be32(len(data)) + data
                if (c.usercap & PROVIDE) and len(text) <= c.maxunsol:
                    z = zlib.compress(content)
                    self.zdef("cmp", content, z)
                    self.zdef("inf", z, content, "E")
                    if c.is_rc:
                        if 4 + len(z) <= ext_limit() and len(data) <= rec_limit():
                            c.pending_rc.append("GU:%d:%d:%s:0" % (c.id, len(data), fmt(data)))
                        elif len(data) > rec_limit() and 4 + len(z) <= ext_limit():
                            c.pending_rc.append("GU:%d:%d:%s:0" % (c.id, len(data), fmt(data)))    # what the property demands
                            self.known_bad = "exactlimit"
                        else:
                            c.pending_rc.append("GD:%d" % c.id)
                            self.known_bad = "incompressible"
                    else:
                        body = be32(PROVIDE | TEXT) + content
                        out.append("%d:2:%d:%s" % (c.id, len(body), fmt(body)))
                elif c.usercap & NOTIFY:
                    if not c.is_rc:
                        out.append("%d:1:4:08000001" % c.id)
            elif fb is not None:
                if c.is_rc:
                    c.pending_rc.append("GC:%d:%d:%s" % (c.id, len(fb), fmt(fb)))
                else:
                    out.append("%d:0:%d:%s" % (c.id, len(fb), fmt(fb)))
            else:
                self.known_bad = "nullfallback"
        self.add("pubu %s %s" % (hx(text), "N" if fb is None else hx(fb)), ev=[], out=out)

    def close(self, cid):
        c = self.conns[cid]
        if c.alive and not c.is_rc:
            self.add("eof %d" % cid, ev=[])
            c.alive = False
            self.add("p", ev=[], gone=[cid])


# ------------------------------------------------------------------ texts
def rnd_text(rng, n=None, kind=None):
    if n is None:
        n = rng.choice([0, 1, 2, 5, 31, 32, 33, 100, 255, 256, 1000, 5000])
    kind = kind or rng.choice(["rand", "zero", "ascii", "utf8", "nul", "ramp"])
    if kind == "rand":
        t = bytes(rng.randrange(256) for _ in range(n))
    elif kind == "zero":
        t = bytes(n)
    elif kind == "ascii":
        t = bytes(rng.choice(b"abcdefghij klmnop\n\t") for _ in range(n))
    elif kind == "utf8":
        t = ("".join(rng.choice("aé€😀ßü\n") for _ in range(n)).encode("utf-8"))[:n]
    elif kind == "nul":
        t = bytes(rng.choice([0, 0, 65, 255]) for _ in range(n))
    else:
        t = bytes((i * 7 + 1) & 255 for i in range(n))
    # the last byte is never 0xbe (the harness recognises never-written heap bytes by that value)
    if t and t[-1] == 0xbe:
        t = t[:-1] + b"\xbf"
    return t


# ------------------------------------------------------------------ case classes
def case_classic(rng):
    b = Builder(rng, "classic", utf8cb=rng.randrange(2))
    n = rng.randint(1, 3)
    for i in range(n):
        b.peer(i, vo=rng.random() < 0.2, frag=rng.random() < 0.3)
    for _ in range(rng.randint(3, 10)):
        r = rng.random()
        if r < 0.5:
            b.put_classic(rng.randrange(n), rnd_text(rng))
        elif r < 0.9:
            b.pub(rnd_text(rng))
        else:
            b.pubu(rnd_text(rng), rnd_text(rng))
    return b


def case_ext_peer(rng):
    b = Builder(rng, "extpeer")
    n = rng.randint(1, 3)
    for i in range(n):
        b.peer(i, ext=rng.random() < 0.75, vo=rng.random() < 0.15)
    for _ in range(rng.randint(3, 12)):
        cid = rng.randrange(n)
        c = b.conns[cid]
        r = rng.random()
        if r < 0.3:
            b.provide(cid, rnd_text(rng), stream=rng.choice(["sync", "finish"]), nul=rng.random() < 0.8)
        elif r < 0.45:
            b.pubu(rnd_text(rng), rnd_text(rng) if rng.random() < 0.85 else None)
        elif r < 0.55:
            b.pub(rnd_text(rng))
        elif r < 0.65:
            b.put_classic(cid, rnd_text(rng))
        elif r < 0.8 and c.ext and c.alive:
            # Request / Peek
            if rng.random() < 0.5:
                out = []
                if c.data and (c.usercap & PROVIDE):
                    body = be32(PROVIDE | TEXT) + be32(len(c.data)) + c.data
                    content = be32(len(c.data)) + c.data
                    z = zlib.compress(content)
                    b.zdef("cmp", content, z)
                    b.zdef("inf", z, content, "E")
                    out = ["%d:2:%d:%s" % (cid, len(body), fmt(body))]
                b.send_ext(cid, be32(REQUEST | rng.choice([0, TEXT])), [], out=out)
            else:
                out = ["%d:1:4:08000001" % cid] if (c.data and (c.usercap & NOTIFY)) else []
                b.send_ext(cid, be32(PEEK | rng.choice([0, TEXT])), [], out=out)
        elif r < 0.92 and c.ext and c.alive:
            # Caps from the client
            fmts = rng.choice([TEXT, TEXT | RTF, TEXT | HTML | RTF, RTF, 0, TEXT | 16])
            acts = rng.choice([REQUEST | NOTIFY | PROVIDE, NOTIFY, PROVIDE, REQUEST, 0, PEEK | REQUEST | NOTIFY | PROVIDE])
            flags = CAPS | fmts | acts
            nf = bin(fmts & 0xFFFF).count("1")
            sizes = [rng.choice([0, 1, 100, 1000, 1 << 20, 0xFFFFFFFF]) for _ in range(nf)]
            payload = be32(flags) + b"".join(be32(s) for s in sizes)
            bad = rng.random() < 0.15 and nf > 0
            if bad:
                payload += b"\0\0\0\0"
                c.usercap = flags
                b.send_ext(cid, payload, [], closes=True)
            else:
                c.usercap = flags
                if nf == 0 or not (fmts & TEXT):
                    c.ext = False
                else:
                    c.maxunsol = sizes[0]
                b.send_ext(cid, payload, [])
        elif c.alive and c.ext and rng.random() < 0.5:
            b.send_ext(cid, be32(NOTIFY | TEXT), [])
        elif c.alive:
            # the client sends SetEncodings again: with the pseudo-encoding (capabilities again) or without (withdrawn)
            encs = rng.choice([[], [0, 5], [EXT_ENC], [7, EXT_ENC, 16], [0xFFFFFF11]])
            b.set_encodings(cid, encs)
    return b


def case_ext_viewonly(rng):
    """C06's statement covers clipboard messages of view-only clients: extended-clipboard Provides (and classic texts)
    from connections that are view-only by the application's hook or by a later application decision never reach
    setXCutTextUTF8 / setXCutText, while the same messages of an ordinary connection do."""
    b = Builder(rng, "extviewonly")
    n = rng.randint(2, 3)
    for i in range(n):
        b.peer(i, ext=True, vo=(i == 0 or rng.random() < 0.4), frag=rng.random() < 0.3)
    for _ in range(rng.randint(4, 10)):
        cid = rng.randrange(n)
        r = rng.random()
        if r < 0.55:
            b.provide(cid, rnd_text(rng), stream=rng.choice(["sync", "finish"]))
        elif r < 0.75:
            b.put_classic(cid, rnd_text(rng))
        elif r < 0.9:
            c = b.conns[cid]
            if c.alive:
                c.vo = not c.vo
                b.add("vo %d %d" % (cid, 1 if c.vo else 0), ev=[])
        else:
            b.pubu(rnd_text(rng), rnd_text(rng))
    return b


def case_malformed(rng):
    """oversized / malformed clipboard messages close only the offending connection"""
    b = Builder(rng, "malformed")
    b.peer(0, ext=True)
    b.peer(1, ext=rng.random() < 0.5)
    b.provide(0, b"ok", stream="sync")
    r = rng.random()
    text = rnd_text(rng, rng.choice([5, 100, 3000]), "rand")
    data = text + b"\0"
    content = be32(len(data)) + data
    if r < 0.12:
        p = rng.choice([b"\x10", b"\x10\0", b"\x10\0\0"])      # fewer than the 4 flag bytes
        b.send_ext(0, p, [], closes=True)
    elif r < 0.3:
        # size field beyond 1 MiB
        big = rng.choice([LIMIT + 1, 0x7FFFFFFF, 0xFFFFFFFF, 2 * LIMIT])
        cont = be32(big) + data
        z = zsync(cont) if rng.random() < 0.5 else zlib.compress(cont)
        b.zdef("inf", z, cont, zinfo(z)[1])
        b.send_ext(0, be32(PROVIDE | TEXT) + z, [], closes=True)
    elif r < 0.5:
        # corrupt stream: garbage instead of a zlib header
        z = bytes([rng.choice([0, 1, 0x77, 0xFF])]) + bytes(rng.randrange(256) for _ in range(rng.randint(1, 30)))
        c2, t2 = zinfo(z)
        if t2 == "X" and not c2:
            b.zdef("inf", z, c2, t2)
            b.send_ext(0, be32(PROVIDE | TEXT) + z, [], closes=True)
    elif r < 0.56:
        # a record of size 0 (no terminating NUL): zlib's status decides (model vs implementation only)
        cont = be32(0)
        z = zsync(cont) if rng.random() < 0.5 else zlib.compress(cont)
        b.zdef("inf", z, cont, zinfo(z)[1])
        b.uncertain = True
        b.send_ext(0, be32(PROVIDE | TEXT) + z, None)
    elif r < 0.65:
        # outer length beyond the limit / 0x80000000
        ln = rng.choice([LIMIT + 1, 0x7FFFFFFF, 0x80000000])
        b.send_ext(0, b"abcd", [], closes=True, length=ln)
    elif r < 0.8:
        # the size field promises more than the stream holds (finished or open stream)
        short = data[:rng.randint(1, len(data) - 1)]
        if short[-1] == 0xbe:
            short = short[:-1] + b"\xbf"
        cont = be32(len(data) + rng.choice([0, 1, 50])) + short
        z = zsync(cont) if rng.random() < 0.5 else zlib.compress(cont)
        b.zdef("inf", z, cont, zinfo(z)[1])
        b.known_bad = "shortstream"
        b.send_ext(0, be32(PROVIDE | TEXT) + z, [], closes=True)
    else:
        # classic text one byte over the limit is covered by C06; here: corrupted in the middle
        z = bytearray(zlib.compress(content))
        if len(z) > 12:
            z[len(z) // 2] ^= 0x55
            z[len(z) // 2 + 1] ^= 0xAA
        z = bytes(z)
        c2, t2 = zinfo(z)
        b.zdef("inf", z, c2, t2)
        b.uncertain = True          # what zlib makes of it decides: model vs implementation only
        b.send_ext(0, be32(PROVIDE | TEXT) + z, None)
    # the other connection is untouched and still works
    if b.conns[1].ext:
        b.provide(1, b"still-here", stream="finish")
    else:
        b.put_classic(1, b"still-here")
    b.pub(b"to-the-rest")
    return b


def case_realclient(rng):
    b = Builder(rng, "realclient", utf8cb=1 if rng.random() < 0.85 else 0)
    ids = []
    n = rng.randint(1, 3)
    for i in range(n):
        if rng.random() < 0.7:
            b.rc(i, rng.random() < 0.75)
            if rng.random() < 0.8:
                b.rc_pump(i)
        else:
            b.peer(i, ext=rng.random() < 0.5)
        ids.append(i)
    for i in ids:
        if b.conns[i].is_rc and rng.random() < 0.5:
            for _ in range(rng.randint(1, 3)):
                b.rc_update(i)           # the client has digested N >= 1 framebuffer updates before it uses the clipboard
    for _ in range(rng.randint(3, 10)):
        cid = rng.choice(ids)
        c = b.conns[cid]
        r = rng.random()
        if c.is_rc and rng.random() < 0.1:
            b.rc_update(cid)
        if r < 0.5 and c.is_rc and rng.random() < 0.6:
            b.rc_sched(cid)              # the socket takes the next message in dribs and drabs
        if r < 0.25:
            b.put_classic(cid, rnd_text(rng))
        elif r < 0.5 and c.is_rc:
            b.put_utf8_rc(cid, rnd_text(rng))
        elif r < 0.65:
            b.pub(rnd_text(rng))
        elif r < 0.85:
            b.pubu(rnd_text(rng), rnd_text(rng))
        elif c.is_rc:
            b.rc_pump(cid)
        elif c.ext:
            b.provide(cid, rnd_text(rng))
    for i in ids:
        if b.conns[i].is_rc:
            b.rc_pump(i)
    return b


def case_limits(rng, which):
    b = Builder(rng, "limits-" + which)
    if which == "classic-1MiB-s2c":
        b.rc(0, 0)
        b.peer(1)
        t = rnd_text(rng, LIMIT, "ramp")
        b.pub(t)
        b.rc_pump(0)
    elif which == "classic-1MiB-c2s":
        b.rc(0, 0)
        b.put_classic(0, rnd_text(rng, LIMIT, "ramp"))
        # the same with a socket that is full again and again (900000 bytes, many EAGAIN waits)
        b.rc_sched(0, [8, 0] + [rng.choice([1, 4096, 65536, 100000]) if i % 2 == 0 else 0 for i in range(300)])
        b.put_classic(0, rnd_text(rng, 900000, "ramp"))
    elif which == "utf8-big-compressible":
        b.rc(0, 1); b.rc_pump(0)
        b.peer(1, ext=True)
        t = rnd_text(rng, LIMIT - 1, "ascii")
        b.rc_sched(0, [0, 3, 0, 0, 5, 0, 1, 0, 2000, 0, 0, 1])
        b.put_utf8_rc(0, t)
        b.pubu(t, b"fb")
        b.rc_pump(0)
    elif which == "utf8-size-limit":
        b.peer(0, ext=True)
        b.provide(0, rnd_text(rng, LIMIT - 1, "zero"), stream="finish")      # size = 2^20 exactly
        b.provide(0, rnd_text(rng, LIMIT - 1, "ascii"), stream="sync")
    elif which == "utf8-incompressible-c2s":
        b.rc(0, 1); b.rc_pump(0)
        b.peer(1)
        b.put_utf8_rc(0, rnd_text(rng, LIMIT - 1, "rand"))
        b.put_classic(1, b"after")
    elif which == "utf8-incompressible-s2c":
        b.rc(0, 1); b.rc_pump(0)
        b.pubu(rnd_text(rng, LIMIT - 1, "rand"), b"fb")
        b.rc_pump(0)
    elif which == "utf8-exact-1MiB-c2s":
        b.peer(0, ext=True)
        b.peer(1, ext=True)
        b.provide(0, rnd_text(rng, LIMIT - 1, "zero"), stream="finish")      # 2^20-1 bytes + NUL: accepted
        b.provide(0, rnd_text(rng, LIMIT, "ascii"), stream="sync")           # exactly 2^20 bytes (+ NUL)
    elif which == "utf8-exact-1MiB-s2c":
        b.rc(0, 1); b.rc_pump(0)
        b.peer(1, ext=True)
        b.pubu(rnd_text(rng, LIMIT, "ascii"), b"fb")                         # exactly 2^20 bytes
        b.rc_pump(0)
    elif which == "null-fallback":
        b.peer(0)
        b.peer(1, ext=True)
        b.pubu(b"utf8 only", None)
        b.pub(b"next")
    return b


def gen_cases(ctx):
    rng = ctx.rng
    quick = ctx.quick()
    mult = 3 if quick else 150
    cases = []
    for _ in range(70 * mult):
        cases.append(case_classic(rng))
    for _ in range(110 * mult):
        cases.append(case_ext_peer(rng))
    for _ in range(60 * mult):
        cases.append(case_malformed(rng))
    for _ in range(80 * mult):
        cases.append(case_realclient(rng))
    for _ in range(30 * mult):
        cases.append(case_ext_viewonly(rng))
    for w in ["classic-1MiB-s2c", "classic-1MiB-c2s", "utf8-big-compressible", "utf8-size-limit",
              "utf8-incompressible-c2s", "utf8-incompressible-s2c", "utf8-exact-1MiB-c2s", "utf8-exact-1MiB-s2c", "null-fallback"]:
        for _ in range(1 if quick else 3):
            cases.append(case_limits(rng, w))
    return cases


# ------------------------------------------------------------------ running and judging
def build(ctx):
    os.makedirs(os.path.join(vlib.BUILD, "ocaml", PID), exist_ok=True)
    os.makedirs(os.path.join(vlib.VERIF, "build", "ocaml", PID), exist_ok=True)
    cexe = vlib.build_harness("vdrv_clip", ["vdrv_clip.c"], wraps=WRAPS, client=True, extra_cflags=clip_cflags())
    proof_ok = vlib.prove(ctx, PROP_FILE, [EXTRACT])
    src = os.path.join(vlib.VERIF, "build", "ocaml", PID)
    dst = os.path.join(vlib.BUILD, "ocaml", PID)
    if os.path.abspath(src) != os.path.abspath(dst):
        for fn in ("model.ml", "model.mli"):
            if os.path.exists(os.path.join(src, fn)):
                shutil.copy(os.path.join(src, fn), os.path.join(dst, fn))
    mexe = vlib.build_ocaml(PID, "driver_C18.ml", EXTRACT)
    return cexe, mexe, proof_ok


def incompressible(n, salt=b"C18"):
    """n bytes zlib cannot shrink, the same on every run"""
    import hashlib
    out = hashlib.shake_256(salt).digest(n)
    return out[:-1] + (b"\xbf" if out[-1] == 0xbe else out[-1:])


def probe_script():
    short = be32(100) + b"abc"
    zs = zlib.compress(short)
    big = incompressible(LIMIT - 1) + b"\0"
    zb = zsync(be32(len(big)) + big)
    L = ["case 0 probe", "screen 100 80 0 0 0 0 0 0 1",
         "connect 0 0", "send 0 524642203030332e3030380a0101", "p", "p", "p", "hsdone 0",
         "connect 1 0", "send 1 524642203030332e3030380a0101", "p", "p", "p", "hsdone 1", "send 1 02000001c0a1e5ce", "p",
         "connect 2 0", "send 2 524642203030332e3030380a0101", "p", "p", "p", "hsdone 2", "send 2 02000001c0a1e5ce", "p",
         "connect 3 0", "send 3 524642203030332e3030380a0101", "p", "p", "p", "hsdone 3", "send 3 02000001c0a1e5ce", "p",
         "pubu 61 N",
         "send 1 " + hx(bytes([6, 0, 0, 0]) + be32(-(4 + len(zs))) + be32(PROVIDE | TEXT) + zs), "p",
         "send 2 02000000", "p",
         "send 3 " + hx(bytes([6, 0, 0, 0]) + be32(-(4 + len(zb))) + be32(PROVIDE | TEXT) + zb), "p"]
    return "\n".join(L) + "\n"


def detect_variant(cexe):
    """The model's baseline (variant 0) is the code with the repairs 3fe86ea (bit 2: send mutex), 260e10a (bit 3: short
    stream), 2d15d75 (bit 4: SetEncodings resets the capability).  A set bit = the former defect is back in the library
    under test (the model follows, the independent oracle reports it).  Bit 5 = the library contains the PROPOSED
    notes/fix_C18_3.diff (slack for the compressed form)."""
    rc, out, err = vlib.run_driver(cexe, probe_script(), timeout=300, env=C_ENV)
    lines = [l for l in out.split("\n") if l]
    v = 0
    pub = [parse_line(l) for l in lines if l.startswith("pubu ")]
    if pub and pub[0] and pub[0]["lk"]:
        v |= 4
    ps = [parse_line(l) for l in lines if l.startswith("p ")]
    if len(ps) >= 3:
        p1, p2, p3 = ps[-3], ps[-2], ps[-1]
        if p1 and any(e.startswith("U:1:") for e in p1["ev"]):
            v |= 8
        if p2 and any(c[0] == "2" and c[6] == "1" for c in p2["cl"]):
            v |= 16
        if p3 and any(e.startswith("U:3:") for e in p3["ev"]):
            v |= 32
    return v


C_ENV = {"ASAN_OPTIONS": "detect_leaks=0:abort_on_error=0:allocator_may_return_null=1:max_malloc_fill_size=4194304:malloc_fill_byte=190",
         "VDRV_FILL": "1"}


def run_both(cexe, mexe, text):
    """The implementation runs first: how many FramebufferUpdate messages a LibVNCClient digests in a pump is decided by the
    server's update machinery (C02/C03's subject, not part of this model); the model is told the number (GF events of the
    implementation's `rc_pump` lines become `rc_pump <id> <n>`), like it is told zlib's answers."""
    r1 = vlib.run_driver(cexe, text, timeout=2400, env=C_ENV)
    sl, ol = text.split("\n"), r1[1].split("\n")
    out = []
    for i, l in enumerate(sl):
        if l.startswith("rc_pump ") and i < len(ol) and ol[i].startswith("rc_pump ") and len(l.split()) == 2:
            n = ol[i].split(" cl=[")[0].count("GF:")
            if n:
                l = l + " %d" % n
        out.append(l)
    r2 = vlib.run_driver(mexe, "\n".join(out), timeout=2400, unlimited_stack=True)
    return r1, r2


def parse_line(l):
    try:
        tag, rest = l.split(" ev=[", 1)
        evs, rest = rest.split("] cl=[", 1)
        cls, rest = rest.split("] own=", 1)
        own, rest = rest.split(" out=[", 1)
        outs, rest = rest.split("] lk=[", 1)
        lk = rest.rstrip("]")
    except ValueError:
        return None
    return dict(tag=tag, ev=[e for e in evs.split(";") if e], cl=[c.split(":") for c in cls.split(";") if c],
                out=[o for o in outs.split(";") if o], lk=[x for x in lk.split(",") if x])


def judge(b, impl_lines):
    """the property on the implementation's own output -> (error | None, features)"""
    if len(impl_lines) < len(b.lines):
        return "the implementation stopped after line %d of %d (crash or hang?)" % (len(impl_lines), len(b.lines)), {"kind": "crash"}
    for i, (line, exp, got) in enumerate(zip(b.lines, b.exp, impl_lines)):
        if line.startswith("zdef"):
            continue
        p = parse_line(got)
        if p is None:
            return "line %d ('%s'): unreadable observation '%s'" % (i, line[:60], got[:120]), {"kind": "harness"}
        if p["lk"]:
            return ("after '%s' the send mutex of connection(s) %s is left locked: the next operation on it - another clipboard "
                    "message, a framebuffer update, even the disconnect - blocks for ever" % (line[:60], ",".join(p["lk"]))), \
                   ({"kind": "mutex", "api": "rfbSendServerCutTextUTF8", "fallback": "NULL"}
                    if line.startswith("pubu ") and line.rstrip().endswith(" N") else {"kind": "mutex", "api": line.split()[0]})
        for e in p["ev"]:
            f = e.split(":")
            if f[0] == "U" and f[-1] != "0":
                return ("setXCutTextUTF8 was handed %s bytes of which the last %s were never written (declared size larger than "
                        "the stream): %s" % (f[2], f[-1], e)), {"kind": "shortstream", "msg": "ClientCutText-ext-provide"}
            if f[0] in ("UX", "GX"):
                return "callback with unpredictable arguments: %s" % e, {"kind": "undef"}
        p["ev"] = [e for e in p["ev"] if not e.startswith("GF:")]     # update traffic is not this property's subject
        if exp["ev"] is not None and p["ev"] != exp["ev"]:
            feat = {"kind": "text", "line": line.split()[0]}
            if b.known_bad == "incompressible" and (not p["ev"] or any(x.startswith("GD") for x in p["ev"])):
                feat = {"kind": "incompressible", "msg": "ext-provide", "size": "near-1MiB"}
            if b.known_bad == "shortstream":
                feat = {"kind": "shortstream", "msg": "ClientCutText-ext-provide"}
            if b.known_bad == "exactlimit" and (not p["ev"] or any(x.startswith("GD") for x in p["ev"])):
                feat = {"kind": "exactlimit", "msg": "ext-provide", "text_bytes": LIMIT}
            return ("after '%s': callbacks %s, the clipboard property requires %s" % (line[:80], p["ev"], exp["ev"])), feat
        if exp["out"] is not None and p["out"] != exp["out"]:
            return ("after '%s': the server wrote %s, the clipboard property requires %s" % (line[:80], p["out"], exp["out"])), \
                   {"kind": "wire", "line": line.split()[0]}
        if exp["gone"] is not None:
            ids = set(c[0] for c in p["cl"])
            for g in exp["gone"]:
                if str(g) in ids:
                    feat = {"kind": "notclosed"}
                    if b.known_bad == "shortstream":
                        feat = {"kind": "shortstream", "msg": "ClientCutText-ext-provide"}
                    return "after '%s': connection %d should have been closed" % (line[:80], g), feat
    return None, {}


def isolation(b, impl_lines):
    """whenever a connection disappears, every other connection that existed before is still there"""
    prev = None
    for line, got in zip(b.lines, impl_lines):
        p = parse_line(got)
        if p is None:
            continue
        ids = [c[0] for c in p["cl"]]
        if prev is not None and line == "p":
            lost = [i for i in prev if i not in ids]
            if len(lost) > 1:
                return "one rfbProcessEvents closed several connections at once: %s" % lost
        prev = ids
    return None


def check(ctx):
    global VARIANT
    cexe, mexe, proof_ok = build(ctx)
    VARIANT = detect_variant(cexe)
    ctx.coverage["library_variant"] = {"legacy_null_fallback_mutex": bool(VARIANT & 4), "legacy_short_stream_delivered": bool(VARIANT & 8),
                                       "legacy_setencodings_keeps_extclip": bool(VARIANT & 16), "proposed_fix_C18_3_present": bool(VARIANT & 32)}
    cases = gen_cases(ctx)
    chunks = []
    cdir = os.path.join(vlib.VERIF, "corpus", PID)
    corpus = []
    if os.path.isdir(cdir):
        for fn in sorted(os.listdir(cdir)):
            if fn.endswith(".script"):
                corpus.append([l for l in open(os.path.join(cdir, fn)).read().split("\n") if l.strip()])
    for i, lines in enumerate(corpus):
        body = lines[1:] if lines and lines[0].startswith("case ") else lines
        body = [(l + " %d" % VARIANT) if (l.startswith("screen ") and len(l.split()) == 10) else l for l in body]
        chunks.append(["case %d corpus" % i] + body)
    base_n = len(chunks)
    for j, b in enumerate(cases):
        chunks.append(["case %d %s" % (base_n + j, b.kind)] + b.lines)
    text = "\n".join("\n".join(ch) for ch in chunks) + "\n"
    (rc1, cout, cerr), (rc2, mout, merr) = run_both(cexe, mexe, text)
    cc, mc = vlib.split_cases(cout), vlib.split_cases(mout)
    nops = sum(len(ch) - 1 for ch in chunks)
    hist, distinct = {}, set()
    mismatches, fails = [], []
    for idx, ch in enumerate(chunks):
        il = cc[idx][1] if idx < len(cc) else []
        ml = mc[idx][1] if idx < len(mc) else []
        d = vlib.first_diff(il, ml)
        if d is not None:
            mismatches.append((idx, d))
        kind = ch[0].split()[2]
        hist[kind] = hist.get(kind, 0) + 1
        for l in il:
            p = parse_line(l)
            if p:
                for e in p["ev"]:
                    f = e.split(":")
                    distinct.add((kind, f[0], f[2] if len(f) > 2 else "", f[3] if len(f) > 3 else ""))
                for o in p["out"]:
                    f = o.split(":")
                    distinct.add((kind, "out" + f[1], f[2] if len(f) > 2 else "", f[3] if len(f) > 3 else ""))
        if idx >= base_n:
            b = cases[idx - base_n]
            e, feat = judge(b, il)
            if not e:
                e2 = isolation(b, il)
                if e2:
                    e, feat = e2, {"kind": "isolation"}
            if e:
                fails.append((idx, e, feat))
    if rc1 != 0 and not fails:
        fails.append((len(cc) - 1 if cc else 0, "implementation driver exited with %d: %s" % (rc1, cerr[-800:]), {"kind": "crash"}))
    ctx.coverage.update(
        evaluations=nops, distinct_nontrivial=len(distinct),
        rule="clipboard session scripts (reference peers and real LibVNCClient peers; classic/extended cut text from clients, "
             "Caps/Request/Peek/Notify/Provide, rfbSendServerCutText(UTF8), pumps) run on the extracted Coq model and on the real "
             "libraries; callbacks on both sides, connection states, decoded server messages, send mutexes compared after every "
             "line. distinct_nontrivial = distinct (case class, callback or decoded message kind, length, content digest)",
        samples=[[l[:200] for l in chunks[i][:30]] for i in (base_n, base_n + len(cases) // 2, len(chunks) - 1) if 0 <= i < len(chunks)],
        input_distribution=hist, cases=len(chunks), corpus_cases=base_n,
        correspondence_mismatches=len(mismatches), oracle_failures=len(fails))
    ctx.assumptions += [
        "zlib is an oracle: what a compressed string inflates to and how its stream ends (finished/open/corrupt), what compress() and "
        "deflate(Z_SYNC_FLUSH) return; one inflate() call behaves as Session/ClipboardDefs.v ztake says (exercised, not proved)",
        "the real LibVNCClient's handshake bytes are represented by a canonical equivalent in the model driver",
        "texts published to a LibVNCClient are read with HandleRFBServerMessage only when complete messages are available",
        "never-written heap bytes are recognised by ASan's malloc fill pattern 0xbe (texts generated here never end in 0xbe)"]

    def rerun(lines):
        (r1, co, ce), (r2, mo, me) = run_both(cexe, mexe, "\n".join(lines) + "\n")
        a, b = vlib.split_cases(co), vlib.split_cases(mo)
        return (a[0][1] if a else []), (b[0][1] if b else []), co, mo, ce

    seen = set()
    for idx, e, feat in fails:
        key = json.dumps(feat, sort_keys=True)
        if key in seen:
            continue
        seen.add(key)
        lines = chunks[idx]
        il, ml, co, mo, ce = rerun(lines)
        bb = cases[idx - base_n] if idx >= base_n else None
        expj = json.dumps(dict(exp=bb.exp, known_bad=bb.known_bad)) if bb is not None else "null"
        ctx.violation("clipboard transfer violated on the implementation: " + e, feat,
                      "script:\n" + "\n".join(l[:3000] for l in lines) + "\n\nexpect: " + (expj if len(expj) < 400000 else "null") +
                      "\n\nimplementation output:\n" + co[:20000] + ce[-1500:] + "\nmodel output:\n" + mo[:20000])
        if len(ctx.violations) >= 6:
            break
    if mismatches and not ctx.violations:
        idx, d = mismatches[0]
        lines = chunks[idx]
        def pred(ls):
            il, ml, co, mo, ce = rerun([lines[0]] + ls)
            return il != ml
        # zdef lines and handshakes stay; drop trailing operations only
        body = lines[1:]
        lo = len(body)
        while lo > 1 and pred(body[:lo - 1]):
            lo -= 1
        small = [lines[0]] + body[:lo]
        il, ml, co, mo, ce = rerun(small)
        ctx.violation("correspondence Session/ClipboardDefs.v <-> rfbserver.c/rfbclient.c no longer holds (%d cases differ, first at "
                      "line %d: implementation '%s' / model '%s'); the clipboard predicates held on every implementation output "
                      "explored" % (len(mismatches), d[0], d[1][:200], d[2][:200]),
                      {"kind": "correspondence"},
                      "correspondence: Session/ClipboardDefs.v (ext_cut_real/publish_*/lvc_*) vs libvncserver+libvncclient\n"
                      "script:\n" + "\n".join(l[:3000] for l in small) + "\n\nimplementation output:\n" + co[:20000] + ce[-1500:] +
                      "\nmodel output:\n" + mo[:20000], no_input=True)
    if not proof_ok and not ctx.violations:
        vlib.report_proof_failure(ctx, "Correspondence and the clipboard oracles were run on %d script lines without exhibiting "
                                  "a failing input." % nops)


def replay(ctx, path):
    txt = open(path).read()
    if "script:\n" not in txt:
        print("replay names a theorem/correspondence, re-running the full check")
        return check(ctx)
    cexe, mexe, proof_ok = build(ctx)
    return replay_script(ctx, txt, cexe, mexe)


def replay_script(ctx, txt, cexe=None, mexe=None):
    global VARIANT
    body = txt.split("script:\n", 1)[1].split("\n\n", 1)[0]
    lines = [l for l in body.split("\n") if l.strip()]
    if cexe is None:
        os.makedirs(os.path.join(vlib.BUILD, "ocaml", PID), exist_ok=True)
        cexe = vlib.build_harness("vdrv_clip", ["vdrv_clip.c"], wraps=WRAPS, client=True, extra_cflags=clip_cflags())
        src, dst = os.path.join(vlib.VERIF, "build", "ocaml", PID), os.path.join(vlib.BUILD, "ocaml", PID)
        if os.path.abspath(src) != os.path.abspath(dst):
            for fn in ("model.ml", "model.mli"):
                if os.path.exists(os.path.join(src, fn)):
                    shutil.copy(os.path.join(src, fn), os.path.join(dst, fn))
        mexe = vlib.build_ocaml(PID, "driver_C18.ml", EXTRACT)
    VARIANT = detect_variant(cexe)
    lines = [(" ".join(l.split()[:10]) + " %d" % VARIANT) if l.startswith("screen ") else l for l in lines]
    (r1, co, ce), (r2, mo, me) = run_both(cexe, mexe, "\n".join(lines) + "\n")
    a, b = vlib.split_cases(co), vlib.split_cases(mo)
    il = a[0][1] if a else []
    ml = b[0][1] if b else []
    print("implementation:\n" + co[:6000] + "model:\n" + mo[:6000])
    ctx.coverage.update(evaluations=len(lines) - 1, distinct_nontrivial=0, rule="replay", samples=[[l[:200] for l in lines[:40]]])
    # the expectations the generator attached to this case, if the replay carries them
    if "\nexpect: " in txt:
        try:
            ej = json.loads(txt.split("\nexpect: ", 1)[1].split("\n", 1)[0])
        except Exception:
            ej = None
        if ej:
            class _B:
                pass
            bb = _B()
            bb.lines, bb.exp, bb.known_bad, bb.conns = lines[1:], ej["exp"], ej.get("known_bad"), {}
            if len(bb.exp) == len(bb.lines):
                e, feat = judge(bb, il)
                if e:
                    ctx.violation("clipboard transfer violated on the implementation: " + e, feat,
                                  "script:\n" + "\n".join(lines) + "\n\nexpect: " + json.dumps(ej) + "\n\n" + co[:20000])
                    return
    # generic predicates that need no expectation: mutex, never-written bytes
    for l in il:
        p = parse_line(l)
        if not p:
            continue
        if p["lk"]:
            ctx.violation("clipboard transfer violated on the implementation: send mutex of connection(s) %s left locked" % ",".join(p["lk"]),
                          {"kind": "mutex", "api": "rfbSendServerCutTextUTF8", "fallback": "NULL"}, "script:\n" + "\n".join(lines) + "\n\n" + co[:20000])
            return
        for e in p["ev"]:
            f = e.split(":")
            if f[0] == "U" and f[-1] != "0":
                ctx.violation("clipboard transfer violated on the implementation: setXCutTextUTF8 got never-written bytes: " + e,
                              {"kind": "shortstream", "msg": "ClientCutText-ext-provide"}, "script:\n" + "\n".join(lines) + "\n\n" + co[:20000])
                return
    if il != ml:
        ctx.violation("correspondence differs on the replayed script", {"kind": "correspondence"},
                      "script:\n" + "\n".join(lines) + "\n\n" + co[:20000] + "\n" + mo[:20000], no_input=True)
